import LocustModel.Prim
import LocustModel.Proto
