import LocustModel.Prim
import LocustModel.Codec.Bitmap
/-
  C01 — `Column` (codec program + data sections) and the decode program as the query engine executes it.

  Mirrors  src/mem_store/column.rs (`Column`, `DataSection`),  src/mem_store/codec.rs (`CodecOp`,
  `Codec::decode_ops`: the stack discipline of every op)  and the operators the planner instantiates for
  them: `type_conversion.rs` (ToI64 = `i64::from`), `numeric_operators.rs::Addition::perform`
  (unchecked `+` ⇒ dev-profile overflow panic), `delta_decode.rs` (`previous` starts at 0, unchecked `+`),
  `dict_lookup.rs` (`offset_len >> 24`, `offset_len & 0x00ff_ffff`, slice), `unpack_strings.rs` /
  `stringpack.rs::StringPackerIterator`, `unhexpack_strings.rs` / `PackedBytesIterator` + `hex::encode(_upper)`,
  `assemble_nullable.rs` (pairs data with the present bitmap), `lz4_decode.rs` / `pco_decode.rs`
  (parameter `dec`).  Operators are list functions; batching / streaming of the executor is not modelled.
-/
namespace LM.Codec
open LM

abbrev Bytes := List UInt8

@[simp] theorem bind_ok {ε α β : Type} (a : α) (f : α → Except ε β) : (Except.ok a >>= f) = f a := rfl
@[simp] theorem bind_error {ε α β : Type} (e : ε) (f : α → Except ε β) : (Except.error e >>= f) = Except.error e := rfl
@[simp] theorem pure_eq_ok {ε α : Type} (a : α) : (pure a : Except ε α) = Except.ok a := rfl

inductive Width where | u8 | u16 | u32 | u64
  deriving DecidableEq, Repr, Inhabited

def Width.bits : Width → Nat | .u8 => 8 | .u16 => 16 | .u32 => 32 | .u64 => 64
def Width.name : Width → String | .u8 => "u8" | .u16 => "u16" | .u32 => "u32" | .u64 => "u64"

/-- `EncodingType` as far as codec ops mention it. -/
inductive Enc where | w (w : Width) | i64
  deriving DecidableEq, Repr, Inhabited

/-- `DataSection` (after `lz4_or_pco_decode`; `comp` is a section still compressed by lz4/pco). -/
inductive Section where
  | nat (w : Width) (d : List Nat)
  | i64 (d : List Int)
  | f64 (d : List Nat)          -- bit patterns
  | null (n : Nat)
  | bitvec (d : List Nat)
  | comp (payload : List Nat) (orig : Nat)   -- opaque compressed bytes; `orig` only tags what `dec` must return
  deriving DecidableEq, Repr, Inhabited

inductive CodecOp where
  | nullable
  | add (t : Width) (x : Int)
  | delta (t : Enc)
  | toI64 (t : Width)
  | push (i : Nat)               -- PushDataSection
  | dict (t : Width)             -- DictLookup
  | decomp                       -- LZ4(..) / Pco(..)
  | unpack                       -- UnpackStrings
  | unhex (upper : Bool) (total : Nat)
  deriving DecidableEq, Repr, Inhabited

structure Column where
  len : Nat
  ops : List CodecOp
  sections : List Section
  deriving DecidableEq, Repr, Inhabited

/-- Payload of a buffer on the planner's stack. -/
inductive Data where
  | nat (w : Width) (d : List Nat)
  | i64 (d : List Int)
  | f64 (d : List Nat)
  | str (d : List Bytes)
  | bits (d : List Nat)
  | null (n : Nat)
  | raw (s : Section)            -- compressed section before LZ4/Pco decode
  deriving DecidableEq, Repr, Inhabited

/-- A buffer, possibly nullable (`AssembleNullable` pairs it with the present bitmap). -/
structure SVal where
  data : Data
  present : Option (List Nat) := none
  deriving DecidableEq, Repr, Inhabited

def ofSection : Section → SVal
  | .nat w d => ⟨.nat w d, none⟩
  | .i64 d => ⟨.i64 d, none⟩
  | .f64 d => ⟨.f64 d, none⟩
  | .null n => ⟨.null n, none⟩
  | .bitvec d => ⟨.bits d, none⟩
  | s@(.comp _ _) => ⟨.raw s, none⟩

/-! ### operators -/

/-- `Addition::perform(lhs, rhs) = lhs.to_i64().unwrap() + rhs` element-wise. -/
def addAll (x : Int) : List Int → Except Fault (List Int)
  | [] => .ok []
  | v :: vs => do
      let s ← addI64 v x
      let r ← addAll x vs
      pure (s :: r)

/-- `DeltaDecode::execute`: `current = e + previous; previous = current`. -/
def deltaDecode (previous : Int) : List Int → Except Fault (List Int)
  | [] => .ok []
  | e :: es => do
      let cur ← addI64 e previous
      let r ← deltaDecode cur es
      pure (cur :: r)

/-- slice `data[offset .. offset+len]` (panics when out of range). -/
def slice (data : List Nat) (offset len : Nat) : Except Fault (List Nat) :=
  if offset + len ≤ data.length then .ok ((data.drop offset).take len) else .error .index

def toBytes (d : List Nat) : Bytes := d.map UInt8.ofNat
def ofBytes (b : Bytes) : List Nat := b.map UInt8.toNat

/-- `DictLookup::execute` for one index. -/
def dictOne (dictIdx : List Nat) (dictData : List Nat) (i : Nat) : Except Fault Bytes :=
  match dictIdx[i]? with
  | none => .error .index
  | some offsetLen => do
      let s ← slice dictData (offsetLen >>> 24) (offsetLen &&& 0x00ffffff)
      pure (toBytes s)

def dictLookup (dictIdx dictData : List Nat) : List Nat → Except Fault (List Bytes)
  | [] => .ok []
  | i :: is => do
      let s ← dictOne dictIdx dictData i
      let r ← dictLookup dictIdx dictData is
      pure (s :: r)

/-- length prefix reader of `StringPackerIterator::next` / `PackedBytesIterator::next`:
    `while data[i] == 255 { len += 255; i += 1 }; len += data[i]; i += 1`. -/
def readLen : List Nat → Nat → Except Fault (Nat × List Nat)
  | [], _ => .error .index
  | b :: rest, acc => if b = 255 then readLen rest (acc + 255) else .ok (acc + b, rest)

theorem readLen_length {d : List Nat} {acc n : Nat} {rest : List Nat}
    (h : readLen d acc = .ok (n, rest)) : rest.length < d.length := by
  induction d generalizing acc with
  | nil => simp [readLen] at h
  | cons b t ih =>
    simp only [readLen] at h
    split at h
    · have := ih h; simp; omega
    · cases h; simp

/-- the iterators: `while curr_index < data.len() { next() }`. -/
def unpackAll (d : List Nat) : Except Fault (List (List Nat)) :=
  match d with
  | [] => .ok []
  | b :: t =>
    match h : readLen (b :: t) 0 with
    | .error e => .error e
    | .ok (n, rest) =>
      if n ≤ rest.length then
        match unpackAll (rest.drop n) with
        | .error e => .error e
        | .ok r => .ok (rest.take n :: r)
      else .error .index
termination_by d.length
decreasing_by
  have := readLen_length h
  simp [List.length_drop] at *; omega

def hexDigit (upper : Bool) (n : Nat) : UInt8 :=
  if n < 10 then UInt8.ofNat (48 + n) else if upper then UInt8.ofNat (55 + n) else UInt8.ofNat (87 + n)

/-- `hex::encode` / `hex::encode_upper`. -/
def hexEncode (upper : Bool) (bs : List Nat) : Bytes :=
  bs.flatMap fun b => [hexDigit upper (b / 16), hexDigit upper (b % 16)]

/-- `UnhexpackStrings::execute`: encodes each element and asserts the string store never outgrows
    the capacity `total_bytes` it was created with. -/
def unhexAll (upper : Bool) (total : Nat) (used : Nat) : List (List Nat) → Except Fault (List Bytes)
  | [] => .ok []
  | e :: es =>
    let s := hexEncode upper e
    if used + s.length ≤ total then
      match unhexAll upper total (used + s.length) es with
      | .error f => .error f
      | .ok r => .ok (s :: r)
    else .error .assert

/-! ### the decode program (`Codec::decode_ops`) -/

def natsOf : Data → Option (List Int)
  | .nat _ d => some (d.map Int.ofNat)
  | .i64 d => some d
  | _ => none

/-- one op of `decode_ops`; `dec` is the lz4 / pco decoder. -/
def step (dec : Section → Section) (sections : List Section) (op : CodecOp) (st : List SVal) :
    Except Fault (List SVal) :=
  match op, st with
  | .nullable, p :: d :: rest =>
      match p.data, d.present with
      | .bits bm, none => .ok ({ d with present := some bm } :: rest)
      | .nat .u8 bm, none => .ok ({ d with present := some bm } :: rest)
      | _, _ => .error .unwrap
  | .add _ x, v :: rest =>
      match natsOf v.data with
      | some xs => do let r ← addAll x xs; pure (⟨.i64 r, v.present⟩ :: rest)
      | none => .error .unreachable
  | .delta _, v :: rest =>
      match natsOf v.data with
      | some xs => do let r ← deltaDecode 0 xs; pure (⟨.i64 r, v.present⟩ :: rest)
      | none => .error .unreachable
  | .toI64 _, v :: rest =>
      match natsOf v.data with
      | some xs => .ok (⟨.i64 xs, v.present⟩ :: rest)
      | none => .error .unreachable
  | .push i, st =>
      match sections[i]? with
      | some s => .ok (ofSection s :: st)
      | none => .error .index
  | .dict _, dd :: di :: ix :: rest =>
      match dd.data, di.data, ix.data with
      | .nat .u8 data, .nat .u64 idx, .nat _ is => do
          let r ← dictLookup idx data is
          pure (⟨.str r, ix.present⟩ :: rest)
      | _, _, _ => .error .unwrap
  | .decomp, v :: rest =>
      match v.data with
      | .raw s => .ok (ofSection (dec s) :: rest)
      | _ => .error .unwrap
  | .unpack, v :: rest =>
      match v.data with
      | .nat .u8 d => do let r ← unpackAll d; pure (⟨.str (r.map toBytes), v.present⟩ :: rest)
      | _ => .error .unwrap
  | .unhex upper total, v :: rest =>
      match v.data with
      | .nat .u8 d => do
          let es ← unpackAll d
          let r ← unhexAll upper total 0 es
          pure (⟨.str r, v.present⟩ :: rest)
      | _ => .error .unwrap
  | _, _ => .error .unwrap

def runOps (dec : Section → Section) (sections : List Section) : List CodecOp → List SVal → Except Fault (List SVal)
  | [], st => .ok st
  | op :: ops, st => do
      let st' ← step dec sections op st
      runOps dec sections ops st'

/-- `Codec::decode`: the stack starts with section 0; `assert_eq!(stack.len(), 1)` at the end. -/
def decode (dec : Section → Section) (c : Column) : Except Fault SVal :=
  match c.sections with
  | [] => .error .index
  | s0 :: _ =>
    match runOps dec c.sections c.ops [ofSection s0] with
    | .error e => .error e
    | .ok [v] => .ok v
    | .ok _ => .error .assert

/-! ### cells handed to the client (`NullableToVal` / `collect`) -/

inductive Cell where
  | null
  | int (i : Int)
  | float (bits : Nat)
  | str (b : Bytes)
  deriving DecidableEq, Repr, Inhabited

def dataCells : Data → List Cell
  | .nat _ d => d.map fun n => .int (Int.ofNat n)
  | .i64 d => d.map .int
  | .f64 d => d.map .float
  | .str d => d.map .str
  | .bits d => d.map fun n => .int (Int.ofNat n)
  | .null n => List.replicate n .null
  | .raw _ => []

def maskFrom (bm : List Nat) (i : Nat) : List Cell → List Cell
  | [] => []
  | c :: cs => (if Bitmap.isSet bm i then c else .null) :: maskFrom bm (i + 1) cs

/-- cell `i` is NULL iff the column is nullable and bit `i` of the present map is clear. -/
def cellsOf (v : SVal) : List Cell :=
  match v.present with
  | none => dataCells v.data
  | some bm => maskFrom bm 0 (dataCells v.data)

def decodeCells (dec : Section → Section) (c : Column) : Except Fault (List Cell) :=
  match decode dec c with
  | .ok v => .ok (cellsOf v)
  | .error e => .error e

end LM.Codec
