import LocustModel.Prim
import LocustModel.Codec.ColumnBuffer
/-
  C01 — from the wire representation of a batch to calls on `ColumnBuffer`s, and the table-level view.

  Mirrors  src/ingest/input_column.rs  (`InputColumn::from_column_data`)  and  src/ingest/buffer.rs
  (`Buffer::{push_typed_cols, extend_to_largest}`, `ColumnBuffer::null(len)` for a column first seen when
  the buffer already has rows).  `HashMap<String, ColumnBuffer>` is an association list (columns are
  independent of each other; iteration order cannot matter).
-/
namespace LM.Codec
open LM

/-- `ColumnData` of the wire format (event_buffer.rs). -/
inductive Rep where
  | empty
  | dense (fs : List Nat)
  | sparse (fs : List (Nat × Nat))
  | i64 (xs : List Int)
  | sparseI64 (xs : List (Nat × Int))
  | str (ss : List Bytes)
  | mixed (vs : List RawVal)
  deriving Repr, DecidableEq, Inhabited

/-- `InputColumn` -/
inductive InputColumn where
  | int (xs : List Int)
  | float (fs : List Nat)
  | nullableFloat (rows : Nat) (fs : List (Nat × Nat))
  | nullableInt (rows : Nat) (xs : List (Nat × Int))
  | str (ss : List Bytes)
  | null (rows : Nat)
  | mixed (vs : List RawVal)
  deriving Repr, DecidableEq, Inhabited

def enumFrom {α : Type} (i : Nat) : List α → List (Nat × α)
  | [] => []
  | a :: as => (i, a) :: enumFrom (i + 1) as

/-- `InputColumn::from_column_data` -/
def fromColumnData (rep : Rep) (rows : Nat) : Except Fault InputColumn :=
  match rep with
  | .dense d => if d.length < rows then .ok (.nullableFloat rows (enumFrom 0 d)) else .ok (.float d)
  | .sparse d => .ok (.nullableFloat rows d)
  | .i64 d => if d.length < rows then .ok (.nullableInt rows (enumFrom 0 d)) else .ok (.int d)
  | .str d => if d.length = rows then .ok (.str d) else .error .assert
  | .empty => .ok (.null rows)
  | .sparseI64 d => .ok (.nullableInt rows d)
  | .mixed d => .ok (.mixed d)

/-- Rust `(a - b) as usize` on u64 in the dev profile. -/
def subU64 (a b : Nat) : Except Fault Nat := if b ≤ a then .ok (a - b) else .error .overflow

/-- the `NullableFloat` / `NullableInt` arms of `push_typed_cols`. -/
def pushSparse (cv : Conv) (mk : α → RawVal) (cb : ColBuf) (c : Nat) (nextI : Nat) :
    List (Nat × α) → Except Fault ColBuf
  | [] => do
      let n ← subU64 c nextI
      pure (cb.pushNulls n)
  | (i, v) :: rest => do
      let n ← subU64 i nextI
      let cb ← (cb.pushNulls n).pushVal cv (mk v)
      pushSparse cv mk cb c (i + 1) rest

def pushVals (cv : Conv) (cb : ColBuf) : List RawVal → Except Fault ColBuf
  | [] => .ok cb
  | v :: vs => do
      let cb ← cb.pushVal cv v
      pushVals cv cb vs

/-- the `match input_col` of `push_typed_cols` for one column. -/
def pushInput (cv : Conv) (cb : ColBuf) : InputColumn → Except Fault ColBuf
  | .int xs => cb.pushInts cv xs none
  | .str ss => cb.pushStrings cv ss none
  | .float fs => cb.pushFloats cv fs none
  | .null c => .ok (cb.pushNulls c)
  | .mixed vs => pushVals cv cb vs
  | .nullableFloat c data => pushSparse cv RawVal.float cb c 0 data
  | .nullableInt c data => pushSparse cv RawVal.int cb c 0 data

/-! ### what a batch supplies for one column (specification side) and what `push_typed_cols` issues -/

/-- `push_val` as an op. -/
def valOp : RawVal → Op
  | .int i => .ints [i]
  | .float f => .floats [f]
  | .str s => .strs [s]
  | .null => .nulls 1

/-- The ops whose `specColumn` is "the cells this representation supplies for a batch of `rows` rows":
    the dense prefix / the sparse entries / the mixed values, NULL elsewhere; `none` = column missing.
    (supplying zero values does not give the column a type.) -/
def repOps (rows : Nat) : Option Rep → List Op
  | none | some .empty => [.nulls rows]
  | some (.dense d) => (if d.isEmpty then [] else [.floats (d.take rows)]) ++ [.nulls (rows - d.length)]
  | some (.i64 d) => (if d.isEmpty then [] else [.ints (d.take rows)]) ++ [.nulls (rows - d.length)]
  | some (.str d) => [.strs d]
  | some (.mixed d) => d.map valOp
  | some (.sparse d) => sparseOps (fun f => Op.floats [f]) rows 0 d
  | some (.sparseI64 d) => sparseOps (fun i => Op.ints [i]) rows 0 d
where
  sparseOps {α : Type} (mk : α → Op) (rows : Nat) (next : Nat) : List (Nat × α) → List Op
    | [] => [.nulls (rows - next)]
    | (i, v) :: rest => .nulls (i - next) :: mk v :: sparseOps mk rows (i + 1) rest

/-- `Buffer` -/
structure Buffer where
  cols : List (String × ColBuf) := []
  length : Nat := 0
  deriving Repr, Inhabited

def Buffer.get (b : Buffer) (name : String) : ColBuf :=
  match b.cols.find? (·.1 = name) with
  | some (_, cb) => cb
  | none => { buffer := .empty, length := b.length, present := none }   -- ColumnBuffer::null(len)

def Buffer.set (b : Buffer) (name : String) (cb : ColBuf) : Buffer :=
  if b.cols.any (·.1 = name) then { b with cols := b.cols.map fun p => if p.1 = name then (name, cb) else p }
  else { b with cols := b.cols ++ [(name, cb)] }

/-- `extend_to_largest` -/
def Buffer.extendToLargest (b : Buffer) : Buffer :=
  { b with cols := b.cols.map fun (n, cb) =>
      if cb.length < b.length then (n, cb.pushNulls (b.length - cb.length)) else (n, cb) }

/-- `push_typed_cols` (with its three assertions). -/
def Buffer.pushTypedCols (cv : Conv) (b : Buffer) (columns : List (String × InputColumn)) : Except Fault Buffer := do
  let rec go (b : Buffer) (newLength : Nat) : List (String × InputColumn) → Except Fault (Buffer × Nat)
    | [] => .ok (b, newLength)
    | (name, ic) :: rest => do
        let cb ← pushInput cv (b.get name) ic
        if ¬ cb.length > b.length then .error .assert
        else if ¬ (newLength = 0 ∨ newLength = cb.length) then .error .assert
        else go (b.set name cb) (max newLength cb.length) rest
  let (b', newLength) ← go b 0 columns
  if ¬ newLength > b.length then .error .assert
  else pure ({ b' with length := newLength }).extendToLargest

/-- The cells a plain SELECT reads from a finalized buffer column (`None`: the partition has no such column,
    the engine supplies NULLs). -/
def Buffer.columnCells (cv : Conv) (cp : Compressor) (use : Bool) (b : Buffer) (name : String) :
    Except Fault (List Cell) :=
  match b.cols.find? (·.1 = name) with
  | none => .ok (List.replicate b.length .null)
  | some (_, cb) => do
      let col ← cb.finalize cv
      if col.len ≠ cb.length then .error .assert    -- partition.rs: "Column .. has length .. but .. after finalization"
      else decodeCells cp.dec (compress cp use col)

end LM.Codec
