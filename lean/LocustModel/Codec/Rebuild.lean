import LocustModel.Codec.Ops
/-
  C07 — the re-push step of `InnerLocustDB::compact` (src/scheduler/inner_locustdb.rs):

      let decoded = col.decode();
      match decoded.get_type() {
          F64 => builder.push_floats(.., None),            I64 => builder.push_ints(.., None),
          Str => builder.push_strings(.., None),           Null => builder.push_nulls(decoded.len()),
          NullableF64 => builder.push_floats(.., Some(decoded.cast_ref_null_map())),   (same for NullableI64, NullableStr)
          _ => panic!("Unsupported encoding type for add: ..."),
      }

  and the part of `ColumnBuffer` (src/mem_store/column_buffer.rs) that decides which rows are NULL:
  `length`, `present`, `init_present`, `push_present`, the lazy bitmap creation in `push_nulls`.
  Values are kept as `Cell`s (`Int(v)`, `Float(bits)`, `Str(bytes)`) with the buffer kind as a tag; the padding
  values the code pushes for NULL rows (`0`, `0.0`, `""`) are modelled as such.  What the finalized column reads
  back as (`Buf.cells`) is C01's theorem about the builders (`finalize` + query-path decode) and enters C07 as an
  explicit hypothesis (`C07M.BuildOk`).

  Type-divergent pushes (ints into a float buffer, anything into a string buffer → `Mixed`, …) are outside this
  model: the buffer becomes `Kind.other` and stays there (C07's generators and theorems are about single-typed
  columns with NULLs; DESIGN.md §4 "supported fragment").
-/
namespace LM.Rebuild
open LM LM.Codec LM.Bitmap

/-- `TypedBuffer` tag. -/
inductive Kind where | empty | int | float | str | other
  deriving DecidableEq, Repr, Inhabited

/-- `ColumnBuffer { buffer, length, present }`. -/
structure Buf where
  kind : Kind := .empty
  data : List Cell := []
  length : Nat := 0
  present : Option (List Nat) := none
  deriving DecidableEq, Repr, Inhabited

/-- the value pushed for a NULL row: `buffer.push(0)` / `push(0.0)` / `push("")`. -/
def zeroOf : Kind → Cell
  | .int => .int 0
  | .float => .float 0
  | .str => .str []
  | _ => .null

/-- `push_present(new_present, count)`:
    `if self.present.is_none() && new_present.is_some() { self.init_present() }` (typed arm: the rows pushed so far
    are all present), then the bits of the new rows are copied / set if the buffer has a bitmap. -/
def pushPresent (present : Option (List Nat)) (newp : Option (List Nat)) (length count : Nat) :
    Option (List Nat) :=
  match present, newp with
  | none, none => none
  | none, some np => some (copyBits (initAllPresent length) np length 0 count)
  | some all, some np => some (copyBits all np length 0 count)
  | some all, none => some (setRange all length count)

/-- `push_ints` / `push_floats` / `push_strings` (`k` = the kind pushed, `vals` its cells). -/
def pushTyped (k : Kind) (b : Buf) (vals : List Cell) (newp : Option (List Nat)) : Except Fault Buf :=
  if b.kind = .empty then
    -- `if self.len() > 0 { self.init_present(); }` (arm `TypedBuffer::Empty`: `vec![0; length / 8]`,
    -- `assert!(self.present.is_none())`), then `length` padding values, then the new ones
    if b.length > 0 ∧ b.present.isSome then .error .assert
    else
      let present := if b.length > 0 then some (initAllNull b.length) else b.present
      .ok { kind := k
            data := List.replicate b.length (zeroOf k) ++ vals
            length := b.length + vals.length
            present := pushPresent present newp b.length vals.length }
  else if b.kind = k then
    .ok { b with data := b.data ++ vals
                 length := b.length + vals.length
                 present := pushPresent b.present newp b.length vals.length }
  else
    .ok { b with kind := .other, length := b.length + vals.length }

/-- `push_nulls(count)`. -/
def pushNulls (b : Buf) (count : Nat) : Buf :=
  match b.kind with
  | .empty => { b with length := b.length + count }
  | .other => { b with length := b.length + count }
  | k =>
    { b with present := (match b.present with | none => some (initOnNull b.length) | some p => some p)
             data := b.data ++ List.replicate count (zeroOf k)
             length := b.length + count }

/-- the `match decoded.get_type()` of the compaction loop. -/
def pushDecoded (b : Buf) (v : SVal) : Except Fault Buf :=
  match v.data, v.present with
  | .f64 d, p => pushTyped .float b (d.map .float) p
  | .i64 d, p => pushTyped .int b (d.map .int) p
  | .str d, p => pushTyped .str b (d.map .str) p
  | .null n, none => .ok (pushNulls b n)
  | _, _ => .error .unreachable

def pushAll : Buf → List SVal → Except Fault Buf
  | b, [] => .ok b
  | b, v :: vs =>
    match pushDecoded b v with
    | .error e => .error e
    | .ok b' => pushAll b' vs

/-- What the finalized column reads back as (C01): NULL where the bitmap says so; `Column::null` for `Empty`. -/
def Buf.cells (b : Buf) : List Cell :=
  match b.kind with
  | .empty => List.replicate b.length .null
  | _ =>
    match b.present with
    | none => b.data
    | some bm => maskFrom bm 0 b.data

/-- the basic type of a decoded value (`none`: the all-NULL value, compatible with every buffer) -/
def valKind (v : SVal) : Option Kind :=
  match v.data, v.present with
  | .i64 _, _ => some .int
  | .f64 _, _ => some .float
  | .str _, _ => some .str
  | .null _, none => none
  | _, _ => some .other

/-- single-typed column: every decoded value is all-NULL or of basic type `k` -/
def homog (k : Kind) (vs : List SVal) : Bool := vs.all fun v => valKind v == none || valKind v == some k

end LM.Rebuild
