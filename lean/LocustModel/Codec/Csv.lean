import LocustModel.Prim
import LocustModel.Codec.Ingest
/-
  C01 — CSV load: per-chunk column typing.

  Mirrors  src/ingest/csv_loader.rs  (`ColType::{determine, bitor}`, `RawCol::{push, finalize}`; `auto_ingest`
  builds one batch per `partition_size` rows from the finalized `Vec<RawVal>` of every column).
  `str::parse::<i64>` / `str::parse::<f64>` are Rust std: their results reach the model as a per-cell hint
  supplied by the harness (`CsvHint`), so this is a model of the typing RULE, not of number parsing.
-/
namespace LM.Codec
open LM

/-- what Rust std says about one CSV field. -/
inductive CsvHint where
  | empty                              -- `s.is_empty()`
  | int (i : Int) (asFloat : Nat)      -- `s.parse::<i64>() = Ok(i)`; `s.parse::<f64>()` bits
  | float (bits : Nat)                 -- not an i64, `s.parse::<f64>() = Ok(f)`
  | str                                -- neither
  deriving Repr, DecidableEq

structure CsvCell where
  text : Bytes
  hint : CsvHint

/-- `ColType` -/
structure ColType where
  str : Bool := false
  int : Bool := false
  float : Bool := false
  null : Bool := false
  deriving Repr, DecidableEq

/-- `ColType::determine` -/
def ColType.determine : CsvHint → ColType
  | .empty => { null := true }
  | .int _ _ => { int := true }
  | .float _ => { float := true }
  | .str => { str := true }

/-- `impl BitOr for ColType` -/
def ColType.or (a b : ColType) : ColType :=
  { str := a.str || b.str, int := a.int || b.int, float := a.float || b.float, null := a.null || b.null }

/-- `RawCol::push` accumulates `self.types = self.types | ColType::determine(elem)`. -/
def csvTypes (cells : List CsvCell) : ColType :=
  cells.foldl (fun t c => t.or (ColType.determine c.hint)) {}

/-- `RawCol::finalize(name, string = false)` on one chunk. -/
def csvFinalize (allowNull : Bool) (cells : List CsvCell) : List RawVal :=
  let t := csvTypes cells
  if t.str then
    cells.map fun c => if allowNull && c.text.isEmpty then .null else .str c.text
  else if t.float then
    cells.map fun c => match c.hint with
      | .empty => if allowNull then .null else .float 0
      | .int _ f => .float f
      | .float f => .float f
      | .str => .null                       -- `unreachable!` in the source
  else if t.int then
    cells.map fun c => match c.hint with
      | .empty => if allowNull then .null else .int 0
      | .int i _ => .int i
      | _ => .null                          -- `unreachable!` in the source
  else cells.map fun _ => .null

end LM.Codec
