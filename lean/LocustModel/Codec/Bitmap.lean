import LocustModel.Prim
/-
  C01 — the null bitmap ("present" map) of `ColumnBuffer`.

  Mirrors  src/bitvec.rs  (`BitVecMut::set`, `BitVec::is_set` for `Vec<u8>` / `[u8]`)  and the
  bitmap-creating snippets of  src/mem_store/column_buffer.rs  (`init_present`, the lazy creation in
  `push_nulls`, `push_present`).  A `Vec<u8>` is a `List Nat`; that every element stays `< 256`
  is a theorem (`Bytes`), not an assumption.
-/
namespace LM.Bitmap

/-- Every element is a byte. -/
def Bytes (bm : List Nat) : Prop := ∀ b ∈ bm, b < 256

/-- `BitVecMut::set` :
    `let slot = index >> 3; while slot >= self.len() { self.push(0) }; self[slot] |= 1 << (index as u8 & 7)` -/
def setBit (bm : List Nat) (i : Nat) : List Nat :=
  let slot := i / 8
  let grown := bm ++ List.replicate (slot + 1 - bm.length) 0
  grown.modify slot (fun b => b ||| (1 <<< (i % 8)))

/-- `BitVec::is_set` : `slot < self.len() && self[slot] & (1 << (index as u8 & 7)) > 0`
    (`x & (1 << k) > 0` is `testBit x k`; out of range slots read as "not set"). -/
def isSet (bm : List Nat) (i : Nat) : Bool :=
  match bm[i / 8]? with
  | some b => b.testBit (i % 8)
  | none => false

/-- `for i in lo..lo+n { BitVecMut::set(bm, i) }` -/
def setRange (bm : List Nat) (lo : Nat) : Nat → List Nat
  | 0 => bm
  | n + 1 => setRange (setBit bm lo) (lo + 1) n

/-- `init_present`, arm `TypedBuffer::Empty`:  `vec![0; self.length / 8]`
    (NOTE `length / 8` rounds down: the byte holding bits `8*(len/8) .. len` is NOT allocated; it only
    appears when a later `set` grows the vector). -/
def initAllNull (length : Nat) : List Nat := List.replicate (length / 8) 0

/-- `init_present`, other arm: `vec![0; self.length / 8]` then `set(i)` for all `i < length`. -/
def initAllPresent (length : Nat) : List Nat := setRange (List.replicate (length / 8) 0) 0 length

/-- lazy creation in `push_nulls`: `vec![0xff; self.length / 8]` then `set(i)` for
    `i in (length/8)*8 .. length`. -/
def initOnNull (length : Nat) : List Nat :=
  setRange (List.replicate (length / 8) 255) ((length / 8) * 8) (length - (length / 8) * 8)

/-- `push_present` body for an existing bitmap: with `new_present = None` all `count` bits are set,
    otherwise bit `length + i` is set iff bit `i` of `new_present` is. -/
def copyBits (all : List Nat) (newp : List Nat) (length : Nat) : Nat → Nat → List Nat
  | _, 0 => all
  | i, n + 1 => copyBits (if isSet newp i then setBit all (length + i) else all) newp length (i + 1) n

def pushPresent (present : Option (List Nat)) (newp : Option (List Nat)) (length count : Nat) :
    Option (List Nat) :=
  match present with
  | none =>
    -- `if self.present.is_none() && new_present.is_some() { self.init_present() }` (typed arm of `init_present`:
    -- the rows pushed so far are all present); only compaction supplies a null map
    match newp with
    | some np => some (copyBits (initAllPresent length) np length 0 count)
    | none => none
  | some all =>
    match newp with
    | some np => some (copyBits all np length 0 count)
    | none => some (setRange all length count)

/-! ### Facts about `setBit` / `isSet` (all indices, all lengths) -/

theorem getElem?_setBit (bm : List Nat) (i k : Nat) :
    (setBit bm i)[k]? =
      if k = i / 8 then some ((bm[k]?.getD 0) ||| (1 <<< (i % 8)))
      else if k < max bm.length (i / 8 + 1) then some (bm[k]?.getD 0) else none := by
  unfold setBit
  simp only [List.getElem?_modify, List.getElem?_append, List.getElem?_replicate]
  by_cases hk : k = i / 8
  · subst hk
    by_cases hlt : i / 8 < bm.length
    · simp [hlt]
    · have : i / 8 - bm.length < i / 8 + 1 - bm.length := by omega
      simp [hlt, this]
  · have hne : ¬ i / 8 = k := fun h => hk h.symm
    simp only [hk, hne, if_false]
    by_cases hlt : k < bm.length
    · have : k < max bm.length (i / 8 + 1) := by omega
      simp [hlt, this]
    · simp only [hlt, if_false]
      by_cases h2 : k - bm.length < i / 8 + 1 - bm.length
      · have : k < max bm.length (i / 8 + 1) := by omega
        have hn : bm[k]? = none := List.getElem?_eq_none (by omega)
        simp [h2, this, hn]
      · have : ¬ k < max bm.length (i / 8 + 1) := by omega
        simp [h2, this]

/-- The defining equation of the bitmap: setting bit `i` makes exactly bit `i` newly readable as set. -/
theorem isSet_setBit (bm : List Nat) (i j : Nat) :
    isSet (setBit bm i) j = (decide (j = i) || isSet bm j) := by
  unfold isSet
  rw [getElem?_setBit]
  by_cases hs : j / 8 = i / 8
  · simp only [hs, if_true]
    rw [Nat.testBit_or, Nat.one_shiftLeft, Nat.testBit_two_pow]
    have hji : (i % 8 = j % 8) ↔ j = i := by omega
    cases hb : bm[i / 8]? with
    | none => simp [hji]
    | some b =>
      simp only [Option.getD_some]
      by_cases h : j = i
      · simp [h]
      · have : ¬ i % 8 = j % 8 := fun hh => h (hji.mp hh)
        simp [h, this]
  · have hne : ¬ j = i := fun h => hs (by rw [h])
    simp only [hs, if_false, hne, decide_false, Bool.false_or]
    by_cases hlt : j / 8 < max bm.length (i / 8 + 1)
    · simp only [hlt, if_true]
      cases hb : bm[j / 8]? <;> simp
    · simp only [hlt, if_false]
      have : bm[j / 8]? = none := List.getElem?_eq_none (by omega)
      simp [this]

theorem length_setBit (bm : List Nat) (i : Nat) :
    (setBit bm i).length = max bm.length (i / 8 + 1) := by
  unfold setBit; simp; omega

theorem bytes_setBit {bm : List Nat} (h : Bytes bm) (i : Nat) : Bytes (setBit bm i) := by
  intro b hb
  obtain ⟨k, hk⟩ := List.mem_iff_getElem?.mp hb
  rw [getElem?_setBit] at hk
  have h1 : (1 <<< (i % 8)) < 2 ^ 8 := by
    rw [Nat.one_shiftLeft]; exact Nat.pow_lt_pow_right (by omega) (by omega)
  have h0 : (bm[k]?.getD 0) < 2 ^ 8 := by
    cases hh : bm[k]? with
    | none => simp
    | some x => simpa using h x (List.mem_of_getElem? hh)
  split at hk
  · cases hk; exact Nat.or_lt_two_pow h0 h1
  · split at hk
    · cases hk; exact h0
    · cases hk

theorem isSet_setRange (bm : List Nat) (lo n j : Nat) :
    isSet (setRange bm lo n) j = (decide (lo ≤ j ∧ j < lo + n) || isSet bm j) := by
  induction n generalizing bm lo with
  | zero => simp [setRange]; omega
  | succ n ih =>
    simp only [setRange, ih, isSet_setBit]
    by_cases h1 : j = lo
    · subst h1; simp
    · by_cases h2 : lo + 1 ≤ j ∧ j < lo + 1 + n
      · have : lo ≤ j ∧ j < lo + (n + 1) := by omega
        simp [h2, this]
      · have : ¬ (lo ≤ j ∧ j < lo + (n + 1)) := by omega
        simp [h1, h2, this]

theorem bytes_setRange {bm : List Nat} (h : Bytes bm) (lo n : Nat) : Bytes (setRange bm lo n) := by
  induction n generalizing bm lo with
  | zero => exact h
  | succ n ih => exact ih (bytes_setBit h lo) (lo + 1)

theorem length_setRange (bm : List Nat) (lo n : Nat) :
    (setRange bm lo n).length = if n = 0 then bm.length else max bm.length ((lo + n - 1) / 8 + 1) := by
  induction n generalizing bm lo with
  | zero => simp [setRange]
  | succ n ih =>
    simp only [setRange, ih, length_setBit]
    by_cases hn : n = 0
    · subst hn; simp
    · have : (lo + 1 + n - 1) = (lo + (n + 1) - 1) := by omega
      simp only [hn, if_false, this, Nat.succ_ne_zero]
      have : lo / 8 ≤ (lo + (n + 1) - 1) / 8 := Nat.div_le_div_right (by omega)
      omega

theorem isSet_replicate_zero (n j : Nat) : isSet (List.replicate n 0) j = false := by
  unfold isSet; rw [List.getElem?_replicate]
  by_cases h : j / 8 < n <;> simp [h]

theorem isSet_replicate_ff (n j : Nat) : isSet (List.replicate n 255) j = decide (j < n * 8) := by
  unfold isSet; rw [List.getElem?_replicate]
  by_cases h : j / 8 < n
  · have h8 : (255 : Nat) = 2 ^ 8 - 1 := by decide
    have : j < n * 8 := by omega
    simp only [h, if_true, h8, Nat.testBit_two_pow_sub_one, this, decide_true, decide_eq_true_eq]
    omega
  · have : ¬ j < n * 8 := by omega
    simp [h, this]

theorem bytes_replicate {n b : Nat} (hb : b < 256) : Bytes (List.replicate n b) := by
  intro x hx; rw [List.mem_replicate] at hx; omega

/-- `init_present` (Empty arm): nothing is marked present. -/
theorem isSet_initAllNull (len j : Nat) : isSet (initAllNull len) j = false :=
  isSet_replicate_zero _ _

/-- `init_present` (typed arm): exactly the first `len` bits are set. -/
theorem isSet_initAllPresent (len j : Nat) : isSet (initAllPresent len) j = decide (j < len) := by
  unfold initAllPresent; rw [isSet_setRange, isSet_replicate_zero]; simp

/-- lazy creation in `push_nulls`: exactly the first `len` bits are set (the `0xff` bytes cover
    `8*(len/8)` bits, the loop the remainder). -/
theorem isSet_initOnNull (len j : Nat) : isSet (initOnNull len) j = decide (j < len) := by
  unfold initOnNull; rw [isSet_setRange, isSet_replicate_ff]
  by_cases h : j < len
  · by_cases h2 : j < len / 8 * 8
    · simp [h, h2]
    · have : len / 8 * 8 ≤ j ∧ j < len / 8 * 8 + (len - len / 8 * 8) := by omega
      simp [h, this]
  · have h1 : ¬ j < len / 8 * 8 := by omega
    have h2 : ¬ (len / 8 * 8 ≤ j ∧ j < len / 8 * 8 + (len - len / 8 * 8)) := by omega
    simp [h, h1, h2]

theorem bytes_initAllNull (len : Nat) : Bytes (initAllNull len) := bytes_replicate (by omega)
theorem bytes_initAllPresent (len : Nat) : Bytes (initAllPresent len) :=
  bytes_setRange (bytes_replicate (by omega)) _ _
theorem bytes_initOnNull (len : Nat) : Bytes (initOnNull len) :=
  bytes_setRange (bytes_replicate (by omega)) _ _

theorem isSet_copyBits (all newp : List Nat) (length i n j : Nat) :
    isSet (copyBits all newp length i n) j =
      (decide (length + i ≤ j ∧ j < length + i + n) && isSet newp (j - length) || isSet all j) := by
  induction n generalizing all i with
  | zero =>
    simp only [copyBits, Nat.add_zero]
    have : ¬ (length + i ≤ j ∧ j < length + i) := by omega
    simp [this]
  | succ n ih =>
    simp only [copyBits, ih]
    by_cases hj : j = length + i
    · subst hj
      have h1 : ¬ (length + (i + 1) ≤ length + i ∧ length + i < length + (i + 1) + n) := by omega
      have h2 : (length + i ≤ length + i ∧ length + i < length + i + (n + 1)) := by omega
      have h3 : length + i - length = i := by omega
      simp only [h1, h2, h3, decide_false, Bool.false_and, Bool.false_or]
      split
      · rename_i hs; simp [isSet_setBit, hs]
      · rename_i hs; simp [hs]
    · have hiff : (length + (i + 1) ≤ j ∧ j < length + (i + 1) + n) ↔
          (length + i ≤ j ∧ j < length + i + (n + 1)) := by omega
      split
      · simp [isSet_setBit, hj, hiff]
      · simp [hiff]

end LM.Bitmap
