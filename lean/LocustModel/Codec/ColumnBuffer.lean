import LocustModel.Prim
import LocustModel.Codec.Bitmap
import LocustModel.Codec.Ops
import LocustModel.Codec.Ints
import LocustModel.Codec.Strings
/-
  C01 — `ColumnBuffer`: type inference / coercion on append, null-map maintenance, `finalize`.

  Mirrors  src/mem_store/column_buffer.rs  (`ColumnBuffer::{null, push_val, push_ints, push_floats,
  push_strings, push_present, init_present, push_nulls, finalize}`, `TypedBuffer`, `FloatColBuffer`,
  `MixedColBuffer::finalize`),  src/mem_store/floats.rs  (`FloatColumn::new_boxed`),
  src/mem_store/column.rs  (`Column::null`, `lz4_or_pco_encode`).
  Rust std float conversion / formatting enter as the parameters of `Conv`; lz4 / pco as `Compressor`.
-/
namespace LM.Codec
open LM LM.Bitmap

/-- `RawVal` -/
inductive RawVal where
  | int (i : Int)
  | float (bits : Nat)
  | str (s : Bytes)
  | null
  deriving Repr, DecidableEq, Inhabited

/-- Rust std functions the model does not interpret: `i as f64`, `i64::to_string`, `f64::to_string`. -/
structure Conv where
  i2f : Int → Nat
  showInt : Int → Bytes
  showFloat : Nat → Bytes

/-- `TypedBuffer` -/
inductive TBuf where
  | empty
  | str (b : StrBuf)
  | int (b : IntBuf)
  | float (data : List Nat)
  | mixed (data : List RawVal)
  deriving Repr, DecidableEq, Inhabited

/-- `ColumnBuffer` -/
structure ColBuf where
  buffer : TBuf := .empty
  length : Nat := 0
  present : Option (List Nat) := none
  deriving Repr, DecidableEq, Inhabited

/-- `init_present`: `assert!(self.present.is_none())`, then all-clear (Empty) or all-set bits. -/
def ColBuf.initPresent (cb : ColBuf) : Except Fault ColBuf :=
  match cb.present with
  | some _ => .error .assert
  | none =>
    match cb.buffer with
    | .empty => .ok { cb with present := some (initAllNull cb.length) }
    | _ => .ok { cb with present := some (initAllPresent cb.length) }

/-- the common prologue of the `TypedBuffer::Empty` arms: `if self.len() > 0 { self.init_present() }`. -/
def ColBuf.initIfNonEmpty (cb : ColBuf) : Except Fault ColBuf :=
  if cb.length > 0 then cb.initPresent else .ok cb

/-- the common epilogue: `self.push_present(present, count); self.length += count`. -/
def ColBuf.finishPush (cb : ColBuf) (buffer : TBuf) (newp : Option (List Nat)) (count : Nat) : ColBuf :=
  { buffer := buffer, present := pushPresent cb.present newp cb.length count, length := cb.length + count }

def strsToMixed (b : StrBuf) : Except Fault (List RawVal) :=
  match b.values.iter with
  | .ok ss => .ok (ss.map RawVal.str)
  | .error e => .error e

/-- `push_ints` -/
def ColBuf.pushInts (cv : Conv) (cb : ColBuf) (elems : List Int) (newp : Option (List Nat)) : Except Fault ColBuf :=
  match cb.buffer with
  | .empty => do
      let cb ← cb.initIfNonEmpty
      let b := (IntBuf.pushAll {} (List.replicate cb.length 0)).pushAll elems
      pure (cb.finishPush (.int b) newp elems.length)
  | .int b => .ok (cb.finishPush (.int (b.pushAll elems)) newp elems.length)
  | .mixed d => .ok (cb.finishPush (.mixed (d ++ elems.map .int)) newp elems.length)
  | .float d => .ok (cb.finishPush (.float (d ++ elems.map cv.i2f)) newp elems.length)
  | .str b => do
      let d ← strsToMixed b
      pure (cb.finishPush (.mixed (d ++ elems.map .int)) newp elems.length)

/-- `push_floats` -/
def ColBuf.pushFloats (cv : Conv) (cb : ColBuf) (elems : List Nat) (newp : Option (List Nat)) : Except Fault ColBuf :=
  match cb.buffer with
  | .empty => do
      let cb ← cb.initIfNonEmpty
      pure (cb.finishPush (.float (List.replicate cb.length 0 ++ elems)) newp elems.length)
  | .float d => .ok (cb.finishPush (.float (d ++ elems)) newp elems.length)
  | .int b => .ok (cb.finishPush (.float (b.data.map cv.i2f ++ elems)) newp elems.length)
  | .str b => do
      let d ← strsToMixed b
      pure (cb.finishPush (.mixed (d ++ elems.map .float)) newp elems.length)
  | .mixed d => .ok (cb.finishPush (.mixed (d ++ elems.map .float)) newp elems.length)

/-- `push_strings` -/
def ColBuf.pushStrings (cv : Conv) (cb : ColBuf) (elems : List Bytes) (newp : Option (List Nat)) : Except Fault ColBuf :=
  match cb.buffer with
  | .empty => do
      let cb ← cb.initIfNonEmpty
      let b := (StrBuf.pushAll {} (List.replicate cb.length [])).pushAll elems
      pure (cb.finishPush (.str b) newp elems.length)
  | .str b => .ok (cb.finishPush (.str (b.pushAll elems)) newp elems.length)
  | .int b => .ok (cb.finishPush (.mixed (b.data.map (fun i => .str (cv.showInt i)) ++ elems.map .str)) newp elems.length)
  | .float d => .ok (cb.finishPush (.mixed (d.map (fun f => .str (cv.showFloat f)) ++ elems.map .str)) newp elems.length)
  | .mixed d => .ok (cb.finishPush (.mixed (d ++ elems.map .str)) newp elems.length)

/-- `push_nulls` -/
def ColBuf.pushNulls (cb : ColBuf) (count : Nat) : ColBuf :=
  match cb.buffer with
  | .empty => { cb with length := cb.length + count }
  | buffer =>
    let present := match cb.present with
      | none => some (initOnNull cb.length)
      | some p => some p
    let buffer := match buffer with
      | .int b => .int (b.pushAll (List.replicate count 0))
      | .float d => .float (d ++ List.replicate count 0)
      | .mixed d => .mixed (d ++ List.replicate count .null)
      | .str b => .str (b.pushAll (List.replicate count []))
      | .empty => .empty
    { buffer := buffer, present := present, length := cb.length + count }

/-- `push_val` -/
def ColBuf.pushVal (cv : Conv) (cb : ColBuf) : RawVal → Except Fault ColBuf
  | .int i => cb.pushInts cv [i] none
  | .float f => cb.pushFloats cv [f] none
  | .str s => cb.pushStrings cv [s] none
  | .null => .ok (cb.pushNulls 1)

/-- `FloatColumn::new_boxed`, nullable arm: NULL slots take the last non-null value (initially 0.0). -/
def fillNulls (present : List Nat) (last : Nat) (i : Nat) : List Nat → List Nat
  | [] => []
  | v :: vs =>
    if isSet present i then v :: fillNulls present v (i + 1) vs
    else last :: fillNulls present last (i + 1) vs

def floatColumn (values : List Nat) (null : Option (List Nat)) : Column :=
  match null with
  | some p => { len := values.length, ops := [.push 1, .nullable],
                sections := [.f64 (fillNulls p 0 0 values), .bitvec p] }
  | none => { len := values.length, ops := [], sections := [.f64 values] }

/-- `MixedColBuffer::finalize`: everything becomes a string; a `RawVal::Null` entry keeps its row with the
    placeholder `""` (the present bitmap marks it as NULL), exactly like `push_nulls` on a string buffer. -/
def mixedStrings (cv : Conv) : List RawVal → List Bytes
  | [] => []
  | .str s :: r => s :: mixedStrings cv r
  | .int i :: r => cv.showInt i :: mixedStrings cv r
  | .float f :: r => cv.showFloat f :: mixedStrings cv r
  | .null :: r => [] :: mixedStrings cv r

/-- `Column::null` -/
def nullColumn (len : Nat) : Column := { len := len, ops := [], sections := [.null len] }

/-- `ColumnBuffer::finalize` before `lz4_or_pco_encode`. -/
def ColBuf.finalize (cv : Conv) (cb : ColBuf) : Except Fault Column :=
  match cb.buffer with
  | .empty => .ok (nullColumn cb.length)
  | .int b => b.finalize cb.present
  | .float d => .ok (floatColumn d cb.present)
  | .str b => b.finalize cb.present
  | .mixed d => (StrBuf.pushAll {} (mixedStrings cv d)).finalize cb.present

/-- lz4 / pco: `enc` produces the compressed section 0, `dec` is what `lz4_decode` / `pco_decode` return. -/
structure Compressor where
  enc : Section → Section
  dec : Section → Section

/-- `Column::lz4_or_pco_encode`: which of none / lz4 / pco is chosen depends on compression ratios, i.e. is
    a free choice here (`use`); the codec gets the decompress op in front, section 0 is replaced. -/
def compress (cp : Compressor) (use : Bool) (c : Column) : Column :=
  match use, c.sections with
  | true, s0 :: rest => { c with ops := .decomp :: c.ops, sections := cp.enc s0 :: rest }
  | _, _ => c

/-! ### what ingestion issues on one column, and the specification -/

/-- one call on a `ColumnBuffer` made by `Buffer::push_typed_cols` / `extend_to_largest`. -/
inductive Op where
  | ints (xs : List Int)
  | floats (fs : List Nat)
  | strs (ss : List Bytes)
  | nulls (n : Nat)
  deriving Repr, DecidableEq, Inhabited

def ColBuf.apply (cv : Conv) (cb : ColBuf) : Op → Except Fault ColBuf
  | .ints xs => cb.pushInts cv xs none
  | .floats fs => cb.pushFloats cv fs none
  | .strs ss => cb.pushStrings cv ss none
  | .nulls n => .ok (cb.pushNulls n)

def ColBuf.applyAll (cv : Conv) (cb : ColBuf) : List Op → Except Fault ColBuf
  | [] => .ok cb
  | op :: ops => do
      let cb' ← cb.apply cv op
      cb'.applyAll cv ops

/-- the whole path of one column: pushes, finalize, (optional) compression, decode, cells. -/
def columnCells (cv : Conv) (cp : Compressor) (use : Bool) (ops : List Op) : Except Fault (List Cell) := do
  let cb ← ColBuf.applyAll cv {} ops
  let col ← cb.finalize cv
  decodeCells cp.dec (compress cp use col)

/-- Specification: the supplied cells in order, with the documented degradation applied at the moment the
    column changes type (int→float when floats arrive, anything→string when strings arrive; once the column
    holds strings every later value is shown as a string). -/
inductive SpecTy where | none | int | float | str
  deriving Repr, DecidableEq, Inhabited

def toFloatCell (cv : Conv) : Cell → Cell
  | .int i => .float (cv.i2f i)
  | c => c

def toStrCell (cv : Conv) : Cell → Cell
  | .int i => .str (cv.showInt i)
  | .float f => .str (cv.showFloat f)
  | c => c

def specStep (cv : Conv) (st : SpecTy × List Cell) : Op → SpecTy × List Cell
  | .nulls n => (st.1, st.2 ++ List.replicate n .null)
  | .ints xs =>
    match st.1 with
    | .none | .int => (.int, st.2 ++ xs.map .int)
    | .float => (.float, st.2 ++ xs.map fun i => .float (cv.i2f i))
    | .str => (.str, st.2 ++ xs.map fun i => .str (cv.showInt i))
  | .floats fs =>
    match st.1 with
    | .none | .float => (.float, st.2 ++ fs.map .float)
    | .int => (.float, st.2.map (toFloatCell cv) ++ fs.map .float)
    | .str => (.str, st.2 ++ fs.map fun f => .str (cv.showFloat f))
  | .strs ss => (.str, st.2.map (toStrCell cv) ++ ss.map .str)

def specColumn (cv : Conv) (ops : List Op) : List Cell := (ops.foldl (specStep cv) (.none, [])).2

end LM.Codec
