import LocustModel.Prim
import LocustModel.Codec.Ops
/-
  C01 — integer columns.

  Mirrors  src/mem_store/column_buffer.rs  (`IntColBuffer::{default, push, finalize}`)  and
  src/mem_store/integers.rs  (`IntegerColumn::{new_boxed, create_col, encode}`)  statement by statement,
  in the dev profile (overflow checks on ⇒ `Except Fault`).  `Column.range` (metadata for the planner,
  not used by decoding) is not modelled.
-/
namespace LM.Codec
open LM

/-- `IntColBuffer` -/
structure IntBuf where
  data : List Int := []
  min : Int := I64_MAX
  max : Int := I64_MIN
  increasing : Nat := 0
  allowDelta : Bool := true
  last : Int := I64_MIN
  deriving Repr, DecidableEq, Inhabited

/-- `IntColBuffer::push` -/
def IntBuf.push (b : IntBuf) (e : Int) : IntBuf :=
  { data := b.data ++ [e]
    min := if e ≤ b.min then e else b.min          -- cmp::min(elem, self.min)
    max := if b.max ≤ e then e else b.max          -- cmp::max(elem, self.max)
    increasing := if e > b.last then b.increasing + 1 else b.increasing
    -- `if !self.data.is_empty() && elem.checked_sub(self.last).is_none() { allow_delta_encode = false }`
    allowDelta := if b.data ≠ [] ∧ ¬ inI64 (e - b.last) then false else b.allowDelta
    last := e }

def IntBuf.pushAll (b : IntBuf) (es : List Int) : IntBuf := es.foldl IntBuf.push b

/-- the decision in `IntColBuffer::finalize`:
    `self.allow_delta_encode && (self.increasing * 10 > self.data.len() as u64 * 9)` -/
def IntBuf.deltaEncode (b : IntBuf) : Bool :=
  b.allowDelta && decide (b.increasing * 10 > b.data.length * 9)

/-- the delta pass of `new_boxed`: `let tmp = *curr; *curr -= previous; previous = tmp` (checked `-=`). -/
def deltaPass (previous : Int) : List Int → Except Fault (List Int)
  | [] => .ok []
  | c :: rest => do
      let d ← subI64 c previous
      let ds ← deltaPass c rest
      pure (d :: ds)

/-- `if max < *curr { max = *curr }; if min > *curr { min = *curr }` over the rewritten tail. -/
def deltaRange (mn mx : Int) : List Int → Int × Int
  | [] => (mn, mx)
  | d :: ds => deltaRange (if mn > d then d else mn) (if mx < d then d else mx) ds

/-- `interval`:
    `if min < 0 && max >= 0 { max as u64 + (-(min as i128)) as u64 } else { (max - min) as u64 }` -/
def interval (mn mx : Int) : Except Fault Nat :=
  if mn < 0 ∧ mx ≥ 0 then
    (if mx.toNat + (-mn).toNat ≤ U64_MAX then .ok (mx.toNat + (-mn).toNat) else .error .overflow)
  else do
    let d ← subI64 mx mn
    pure (wrap64u d)
where
  /-- `x as u64` -/
  wrap64u (x : Int) : Nat := (x % 18446744073709551616).toNat

/-- `IntegerColumn::encode::<T>`: `T::from(v - offset)`, `unreachable!` when it does not fit. -/
def encodeInts (bits : Nat) (offset : Int) : List Int → Except Fault (List Nat)
  | [] => .ok []
  | v :: vs => do
      let e ← subI64 v offset
      if 0 ≤ e ∧ e < 2 ^ bits then
        let r ← encodeInts bits offset vs
        pure (e.toNat :: r)
      else .error .unreachable

/-- the codec table of `create_col`. -/
def intCodec (t : Width) (offset : Int) (delta nullable : Bool) : List CodecOp :=
  if nullable then
    match decide (offset = 0), delta with
    | true, true => [.delta (.w t), .push 1, .nullable]
    | true, false => [.push 1, .nullable, .toI64 t]
    | false, true => [.add t offset, .delta .i64, .push 1, .nullable]
    | false, false => [.push 1, .nullable, .add t offset]
  else
    match decide (offset = 0), delta with
    | true, true => [.delta (.w t)]
    | true, false => [.toI64 t]
    | false, true => [.add t offset, .delta .i64]
    | false, false => [.add t offset]

/-- the `Column::new(..)` at the end of `create_col`. -/
def intColumn (t : Width) (enc : List Nat) (offset : Int) (delta : Bool) (null : Option (List Nat)) : Column :=
  { len := enc.length
    ops := intCodec t offset delta null.isSome
    sections := match null with
                | some p => [.nat t enc, .bitvec p]
                | none => [.nat t enc] }

/-- `IntegerColumn::create_col::<T>` -/
def createCol (t : Width) (values : List Int) (offset : Int) (delta : Bool) (null : Option (List Nat)) :
    Except Fault Column := do
  let enc ← encodeInts t.bits offset values
  pure (intColumn t enc offset delta null)

/-- the `else` arm of the ladder (plain i64 storage). -/
def i64Col (values : List Int) (delta : Bool) (null : Option (List Nat)) : Column :=
  match null with
  | some p => { len := values.length
                ops := if delta then [.delta .i64, .push 1, .nullable] else [.push 1, .nullable]
                sections := [.i64 values, .bitvec p] }
  | none => { len := values.length
              ops := if delta then [.delta .i64] else []
              sections := [.i64 values] }

/-- the width / offset ladder of `new_boxed` (everything after the optional delta pass). -/
def ladder (values : List Int) (min max : Int) (deltaEncode : Bool) (null : Option (List Nat)) :
    Except Fault Column := do
  let iv ← interval min max
  if min ≥ 0 ∧ max ≤ 255 then createCol .u8 values 0 deltaEncode null
  else if iv ≤ 255 then createCol .u8 values min deltaEncode null
  else if min ≥ 0 ∧ max ≤ 65535 then createCol .u16 values 0 deltaEncode null
  else if iv ≤ 65535 then createCol .u16 values min deltaEncode null
  else if min ≥ 0 ∧ max ≤ 4294967295 then createCol .u32 values 0 deltaEncode null
  else if iv ≤ 4294967295 then createCol .u32 values min deltaEncode null
  else pure (i64Col values deltaEncode null)

/-- `IntegerColumn::new_boxed` before `lz4_or_pco_encode`:
    `if delta_encode && !values.is_empty() { delta pass; min/max := range of values[0] and the deltas }`. -/
def newBoxed (values : List Int) (min max : Int) (deltaEncode : Bool) (null : Option (List Nat)) :
    Except Fault Column :=
  match deltaEncode, values with
  | true, first :: rest => do
      let ds ← deltaPass first rest
      let (mn, mx) := deltaRange first first ds
      ladder (first :: ds) mn mx true null
  | _, _ => ladder values min max deltaEncode null

/-- `IntColBuffer::finalize` -/
def IntBuf.finalize (b : IntBuf) (present : Option (List Nat)) : Except Fault Column :=
  newBoxed b.data b.min b.max b.deltaEncode present

end LM.Codec
