import LocustModel.Prim
import LocustModel.Codec.Ops
/-
  C01 — the `ensure_property` split of a codec and the two-stage decode the query planner builds from it.

  Mirrors  src/mem_store/codec.rs  (`CodecOp::{arg_count, is_elementwise_decodable}`, `Codec::{has_property,
  pop, ensure_property, pop_push, ensure_fixed_width}`)  and the `ColName` arm of
  src/engine/planning/query_plan.rs `QueryPlan::compile_expr`: when the codec is not element-wise decodable
  the planner first runs the shortest prefix that restores the property (`fixed_width`) and decodes the rest
  later from that intermediate buffer.  Vectors that are popped from the back are lists in reverse order.
-/
namespace LM.Codec
open LM

/-- `CodecOp::arg_count` (NOTE: `Nullable` says 0 although it consumes two stack entries). -/
def CodecOp.argCount : CodecOp → Nat
  | .nullable => 0
  | .add _ _ => 1
  | .delta _ => 1
  | .toI64 _ => 1
  | .push _ => 0
  | .dict _ => 3
  | .decomp => 1
  | .unpack => 1
  | .unhex _ _ => 1

/-- `CodecOp::is_elementwise_decodable` -/
def CodecOp.elementwise : CodecOp → Bool
  | .nullable => false
  | .add _ _ => true
  | .delta _ => false
  | .toI64 _ => true
  | .push _ => true
  | .dict _ => true
  | .decomp => false
  | .unpack => false
  | .unhex _ _ => false

/-- `for _ in 0..n { f }` -/
def iter {α : Type} (f : α → α) : Nat → α → α
  | 0, a => a
  | n + 1, a => iter f n (f a)

/-- `Codec::pop`: `if let Some(op) = ops.pop() { for _ in 0..op.arg_count() { Codec::pop(ops) } }`
    (`rev` = the vector back to front; fuel = its length bounds the recursion depth). -/
def popTree : Nat → List CodecOp → List CodecOp
  | 0, rev => rev
  | _, [] => []
  | fuel + 1, op :: rev => iter (popTree fuel) op.argCount rev

/-- `Codec::has_property` -/
def hasPropertyLoop (p : CodecOp → Bool) : Nat → List CodecOp → Bool
  | 0, _ => true
  | _, [] => true
  | fuel + 1, op :: rev =>
    if !p op then false
    else hasPropertyLoop p fuel (iter (popTree fuel) (op.argCount - 1) rev)   -- `for _ in 1..op.arg_count()`

def hasProperty (p : CodecOp → Bool) (ops : List CodecOp) : Bool :=
  hasPropertyLoop p (ops.length + 1) ops.reverse

/-- `Codec::pop_push` (`acc` = `push` newest first). -/
def popPush : Nat → List CodecOp × List CodecOp → List CodecOp × List CodecOp
  | 0, s => s
  | _, ([], acc) => ([], acc)
  | fuel + 1, (op :: rev, acc) => iter (popPush fuel) op.argCount (rev, op :: acc)

/-- the loop of `Codec::ensure_property`; returns `(ops, property_preserving)` as the Rust function does:
    on the early return `property_preserving` has been reversed (= original order), on the fall-through
    (every op has the property) it has NOT (the Rust code forgets the `reverse()` there; the only caller
    never reaches that branch because it tests `is_elementwise_decodable()` first). -/
def ensureLoop (p : CodecOp → Bool) : Nat → List CodecOp → List CodecOp → List CodecOp × List CodecOp
  | 0, rev, acc => (rev.reverse, acc.reverse)
  | _, [], acc => ([], acc.reverse)
  | fuel + 1, op :: rev, acc =>
    if !p op then ((op :: rev).reverse, acc)
    else
      let s := iter (popPush fuel) (op.argCount - 1) (rev, op :: acc)
      ensureLoop p fuel s.1 s.2

def ensureProperty (p : CodecOp → Bool) (ops : List CodecOp) : List CodecOp × List CodecOp :=
  ensureLoop p (ops.length + 1) ops.reverse []

/-- what the planner executes for `SELECT col`: `Codec::decode` directly when the codec is element-wise
    decodable, otherwise `ensure_fixed_width` (`decode_ops(fixed_width)` with its `assert_eq!(stack.len(), 1)`)
    followed by the decode of the remaining codec on the intermediate buffer. -/
def decodeQuery (dec : Section → Section) (c : Column) : Except Fault SVal :=
  if hasProperty CodecOp.elementwise c.ops then decode dec c
  else
    match c.sections with
    | [] => .error .index
    | s0 :: _ =>
      let (fw, rest) := ensureProperty CodecOp.elementwise c.ops
      match runOps dec c.sections fw [ofSection s0] with
      | .error e => .error e
      | .ok [v] =>
        match runOps dec c.sections rest [v] with
        | .error e => .error e
        | .ok [v'] => .ok v'
        | .ok _ => .error .assert
      | .ok _ => .error .assert

end LM.Codec
