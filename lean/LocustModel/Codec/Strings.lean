import LocustModel.Prim
import LocustModel.Codec.Ops
/-
  C01 — string columns.

  Mirrors  src/stringpack.rs  (`IndexedPackedStrings::{push, iter}`, `PackedStrings::push`,
  `PackedBytes::from_iterator`),  src/mem_store/column_buffer.rs  (`StringColBuffer`,
  `is_lowercase_hex`, `is_uppercase_hex`)  and  src/mem_store/strings.rs
  (`fast_build_string_column`: the early exit to packed / hex-packed storage once the number of distinct
  values reaches `len / DICTIONARY_RATIO`, otherwise the sorted dictionary with u8 / u16 / u32 indices).
  `HashSet` + `sort_unstable` (Rust std) are modelled by their result: the sorted duplicate-free list.
-/
namespace LM.Codec
open LM

/-- `IndexedPackedStrings` -/
structure IPS where
  data : List Nat := []        -- Vec<u64>: (offset << 24) + len
  store : List Nat := []       -- backing_store: Vec<u8>
  deriving Repr, DecidableEq, Inhabited

/-- `IndexedPackedStrings::push`:
    `self.data.push(((self.backing_store.len() << 24) + bytes.len()) as u64)` — NOTE(TODO(34) in the
    source): a string of 2^24 bytes or more spills into the offset bits. -/
def IPS.push (p : IPS) (s : Bytes) : IPS :=
  { data := p.data ++ [(p.store.length <<< 24) + s.length], store := p.store ++ ofBytes s }

/-- one element of `IndexedPackedStrings::iter`. -/
def IPS.entry (store : List Nat) (offsetLen : Nat) : Except Fault Bytes :=
  match slice store (offsetLen >>> 24) (offsetLen &&& 0x00ffffff) with
  | .ok s => .ok (toBytes s)
  | .error e => .error e

def IPS.iterFrom (store : List Nat) : List Nat → Except Fault (List Bytes)
  | [] => .ok []
  | e :: es => do
      let s ← IPS.entry store e
      let r ← IPS.iterFrom store es
      pure (s :: r)

def IPS.iter (p : IPS) : Except Fault (List Bytes) := IPS.iterFrom p.store p.data

def isLowerHexByte (c : UInt8) : Bool := (48 ≤ c && c ≤ 57) || (97 ≤ c && c ≤ 102)
def isUpperHexByte (c : UInt8) : Bool := (48 ≤ c && c ≤ 57) || (65 ≤ c && c ≤ 70)
/-- `is_lowercase_hex`: `string.len() & 1 == 0 && string.chars().all(..)` (the accepted chars are ASCII, so
    the test on chars is the test on bytes). -/
def isLowercaseHex (s : Bytes) : Bool := s.length % 2 == 0 && s.all isLowerHexByte
def isUppercaseHex (s : Bytes) : Bool := s.length % 2 == 0 && s.all isUpperHexByte

/-- `StringColBuffer` -/
structure StrBuf where
  values : IPS := {}
  lhex : Bool := true
  uhex : Bool := true
  stringBytes : Nat := 0
  deriving Repr, DecidableEq, Inhabited

def StrBuf.push (b : StrBuf) (s : Bytes) : StrBuf :=
  { values := b.values.push s
    lhex := b.lhex && isLowercaseHex s
    uhex := b.uhex && isUppercaseHex s
    stringBytes := b.stringBytes + s.length }

def StrBuf.pushAll (b : StrBuf) (ss : List Bytes) : StrBuf := ss.foldl StrBuf.push b

/-- `while len > 254 { data.push(255); len -= 255 }; data.push(len as u8)` -/
def lenPrefix (len : Nat) : List Nat :=
  if h : len > 254 then 255 :: lenPrefix (len - 255) else [len]
termination_by len
decreasing_by omega

/-- `PackedStrings::push` / one round of `PackedBytes::from_iterator`. -/
def packOne (b : List Nat) : List Nat := lenPrefix b.length ++ b

def packAll (bs : List (List Nat)) : List Nat := bs.flatMap packOne

def hexVal (c : UInt8) : Nat :=
  if 48 ≤ c ∧ c ≤ 57 then c.toNat - 48
  else if 97 ≤ c ∧ c ≤ 102 then c.toNat - 87
  else if 65 ≤ c ∧ c ≤ 70 then c.toNat - 55
  else 0

/-- `hex::decode(s).unwrap()` (only called on even-length all-hex strings). -/
def hexDecode : Bytes → List Nat
  | a :: b :: rest => (hexVal a * 16 + hexVal b) :: hexDecode rest
  | _ => []

/-- the early-exit loop: `unique_values.insert(s); if unique_values.len() == len / DICTIONARY_RATIO { .. return }`. -/
def reachesRatio (len : Nat) (seen : List Bytes) : List Bytes → Bool
  | [] => false
  | s :: rest =>
    let seen' := if s ∈ seen then seen else s :: seen
    if seen'.length = len / 2 then true else reachesRatio len seen' rest

/-- sorted, duplicate-free insertion (`HashSet` → `Vec` → `sort_unstable`). -/
def insertUniq (s : Bytes) : List Bytes → List Bytes
  | [] => [s]
  | t :: ts => if s < t then s :: t :: ts else if s = t then t :: ts else t :: insertUniq s ts

def sortedUniq (ss : List Bytes) : List Bytes := ss.foldr insertUniq []

/-- `dict_size <= u8::MAX`, `dict_size <= u16::MAX`, else u32. -/
def dictWidth (dictSize : Nat) : Width :=
  if dictSize ≤ 255 then .u8 else if dictSize ≤ 65535 then .u16 else .u32

def stringPackCodec : List CodecOp := [.unpack]
def dictCodec (t : Width) : List CodecOp := [.push 1, .push 2, .dict t]

/-- the early-exit arm: codec + packed data, `PushDataSection(1); Nullable` appended when nullable. -/
def packedColumn (len : Nat) (codec : List CodecOp) (data : Section) (present : Option (List Nat)) : Column :=
  match present with
  | some p => { len := len, ops := codec ++ [.push 1, .nullable], sections := [data, .bitvec p] }
  | none => { len := len, ops := codec, sections := [data] }

/-- `fast_build_string_column` before `lz4_or_pco_encode`. -/
def fastBuild (strings : List Bytes) (len : Nat) (lhex uhex : Bool) (totalBytes : Nat)
    (present : Option (List Nat)) : Column :=
  if reachesRatio len [] strings then
    if (lhex || uhex) && decide (totalBytes / len > 5) then
      packedColumn len [.unhex uhex totalBytes] (.nat .u8 (packAll (strings.map hexDecode))) present
    else
      packedColumn len stringPackCodec (.nat .u8 (packAll (strings.map ofBytes))) present
  else
    let mapping := sortedUniq strings
    let packed := mapping.foldl IPS.push {}
    let t := dictWidth mapping.length
    let indices := strings.map fun s => mapping.idxOf s
    let sections := [Section.nat t indices, .nat .u64 packed.data, .nat .u8 packed.store]
    match present with
    | some p => { len := len, ops := [.push 3, .nullable] ++ dictCodec t, sections := sections ++ [.bitvec p] }
    | none => { len := len, ops := dictCodec t, sections := sections }

/-- `StringColBuffer::finalize`: the strings are read back from the `IndexedPackedStrings`. -/
def StrBuf.finalize (b : StrBuf) (present : Option (List Nat)) : Except Fault Column := do
  let strings ← b.values.iter
  pure (fastBuild strings b.values.data.length b.lhex b.uhex b.stringBytes present)

end LM.Codec
