import LocustModel.Codec.Ops
/-
  C07 — the SECOND decoder: the free function `decode` at the bottom of  src/mem_store/column.rs
  (reached as `DataSource::decode`, used only by `InnerLocustDB::compact`), mirrored literally, next to the
  query-path decoder `LM.Codec.decode` (C01's model of `Codec::decode_ops`), which is the SPECIFICATION of what
  a column image means.

  Column images carry the full `CodecOp`s (`LZ4(t, n)` / `Pco(t, n, is_fp32)` are kept apart because the free
  function treats them differently); `Op.toQ` projects to C01's `CodecOp` (`decomp`).
  Sections are C01's `Section`s: a compressed section is `Section.comp payload tag`; the lz4 / pco libraries are
  the parameter `dec : Section → Section` and their round trip enters theorems as the explicit hypothesis
  `dec (.comp payload tag) = original`.

  Stack orientation: a Rust `Vec` stack is a `List` whose HEAD is the TOP (`push` = cons, `pop` = tail), so
  `section_stack.first()` — the BOTTOM of the stack — is `getLast?`.
-/
namespace LM.D2
open LM LM.Codec

/-- `EncodingType` of an `LZ4` / `Pco` op (the decoded element type). -/
inductive ET where | u8 | u16 | u32 | u64 | i64 | f64
  deriving DecidableEq, Repr, Inhabited

/-- `CodecOp` (src/mem_store/codec.rs) with all parameters the free `decode` looks at.
    (`CodecOp::Unknown` is never produced by a builder and is not represented.) -/
inductive Op where
  | nullable
  | add (t : Width) (x : Int)
  | delta (t : Enc)
  | toI64 (t : Width)
  | push (i : Nat)
  | dict (t : Width)
  | lz4 (t : ET) (n : Nat)
  | pco (t : ET) (n : Nat) (fp32 : Bool)
  | unpack
  | unhex (upper : Bool) (total : Nat)
  deriving DecidableEq, Repr, Inhabited

/-- A column image: codec program + data sections (`Column.codec.ops`, `Column.data`). -/
structure Col where
  len : Nat
  ops : List Op
  secs : List Section
  deriving DecidableEq, Repr, Inhabited

def Op.toQ : Op → CodecOp
  | .nullable => .nullable
  | .add t x => .add t x
  | .delta t => .delta t
  | .toI64 t => .toI64 t
  | .push i => .push i
  | .dict t => .dict t
  | .lz4 _ _ => .decomp
  | .pco _ _ _ => .decomp
  | .unpack => .unpack
  | .unhex u n => .unhex u n

def Col.toQ (c : Col) : Column := ⟨c.len, c.ops.map Op.toQ, c.secs⟩

/-- SPECIFICATION of a column image: what the query path (`Codec::decode`, C01's model) reads from it. -/
def decodeQ (dec : Section → Section) (c : Col) : Except Fault SVal := Codec.decode dec c.toQ

/-! ### the free function `column::decode`, literally -/

/-- `cast_ref_u8` / `_u16` / `_u32` / `_u64` on a `BoxedData`: `Vec<T>`, `&[T]` and `NullableVec<T>` hand out
    their data (the null map is NOT consulted); a `Bitvec` / `LZ4` / `Pco` section is a `Vec<u8>`; anything
    else is the `panic!(type_error)` default. -/
def castNat (w : Width) (v : SVal) : Except Fault (List Nat) :=
  match v.data with
  | .nat w' d => if w' = w then .ok d else .error .unreachable
  | .bits d => if w = .u8 then .ok d else .error .unreachable
  | .raw (.comp p _) => if w = .u8 then .ok p else .error .unreachable
  | _ => .error .unreachable

/-- `cast_ref_i64`. -/
def castI64 (v : SVal) : Except Fault (List Int) :=
  match v.data with
  | .i64 d => .ok d
  | _ => .error .unreachable

/-- `Data::make_nullable`: implemented for `Vec<T>` and `&[T]`; the trait default (`NullableVec`, `usize`)
    is `panic!`. -/
def makeNullable (data : SVal) (bm : List Nat) : Except Fault SVal :=
  match data.present, data.data with
  | some _, _ => .error .unreachable
  | none, .null _ => .error .unreachable
  | none, d => .ok ⟨d, some bm⟩

/-- element type check of a decompressed section against the op's `EncodingType` (the libraries decode into a
    `Vec` of exactly that type). -/
def asType (t : ET) (s : Section) : Except Fault SVal :=
  match t, s with
  | .u8, .nat .u8 d => .ok ⟨.nat .u8 d, none⟩
  | .u16, .nat .u16 d => .ok ⟨.nat .u16 d, none⟩
  | .u32, .nat .u32 d => .ok ⟨.nat .u32 d, none⟩
  | .u64, .nat .u64 d => .ok ⟨.nat .u64 d, none⟩
  | .i64, .i64 d => .ok ⟨.i64 d, none⟩
  | .f64, .f64 d => .ok ⟨.f64 d, none⟩
  | _, _ => .error .unwrap

/-- the library call `lz4::decode::<T>(&mut lz4::decoder(arg0.cast_ref_u8()), ..)` /
    `simple_decompress::<T>(arg0.cast_ref_u8()).unwrap()`: defined on a compressed section. -/
def decompress (dec : Section → Section) (t : ET) (arg0 : SVal) : Except Fault SVal :=
  match arg0.data with
  | .raw s => asType t (dec s)
  | _ => .error .unwrap

def natsToInts (d : List Nat) : List Int := d.map Int.ofNat

/-- `hex::encode` / `hex::encode_upper` of every element (the `UnhexpackStrings` arm builds the strings in one
    buffer of its own; no capacity assertion as in the query operator). -/
def hexAll (upper : Bool) (es : List (List Nat)) : List Bytes := es.map (hexEncode upper)

/-- The `match codec_op { … }` of one loop iteration (every op except `PushDataSection`): the decoded value and
    the stack as the arm leaves it (`Nullable` and `DictLookup` pop their operands; the other arms only read
    `arg0 = section_stack.first()`). -/
def arm2 (dec : Section → Section) (op : Op) (arg0 : SVal) (st : List SVal) : Except Fault (SVal × List SVal) :=
  match op with
  | .push _ => .error .unreachable            -- handled by `step2` (`continue`)
  | .nullable =>
      -- let present = section_stack.pop().unwrap(); let mut data = section_stack.pop().unwrap();
      match st with
      | present :: data :: rest =>
          match castNat .u8 present with
          | .error e => .error e
          | .ok bm =>
            match makeNullable data bm with
            | .error e => .error e
            | .ok d => .ok (d, rest)
      | _ => .error .unwrap
  | .add t x =>
      match t with
      | .u64 => .error .unreachable          -- `_ => panic!("Unsupported encoding type for CodecOp::Add")`
      | t =>
        match castNat t arg0 with
        | .error e => .error e
        | .ok d =>
          match addAll x (natsToInts d) with  -- `v as i64 + value` (dev profile: checked)
          | .error e => .error e
          | .ok r => .ok (⟨.i64 r, none⟩, st)
  | .delta t =>
      match t with
      | .w .u64 => .error .unreachable
      | .w w =>
        match castNat w arg0 with
        | .error e => .error e
        | .ok d =>
          match deltaDecode 0 (natsToInts d) with   -- `current += *delta as i64`
          | .error e => .error e
          | .ok r => .ok (⟨.i64 r, none⟩, st)
      | .i64 =>
        match castI64 arg0 with
        | .error e => .error e
        | .ok d =>
          match deltaDecode 0 d with
          | .error e => .error e
          | .ok r => .ok (⟨.i64 r, none⟩, st)
  | .toI64 t =>
      match t with
      | .u64 => .error .unreachable
      | t =>
        match castNat t arg0 with
        | .error e => .error e
        | .ok d => .ok (⟨.i64 (natsToInts d), none⟩, st)
  | .dict t =>
      -- dict_data = pop().unwrap().cast_ref_u8(); string_ranges = pop().unwrap().cast_ref_u64();
      -- indices = pop().unwrap().cast_ref_<t>()
      match st with
      | dd :: di :: ix :: rest =>
          match castNat .u8 dd, castNat .u64 di, castNat t ix with
          | .ok data, .ok idx, .ok is =>
              match dictLookup idx data is with
              | .error e => .error e
              | .ok r => .ok (⟨.str r, none⟩, rest)
          | _, _, _ => .error .unreachable
      | _ => .error .unwrap
  | .lz4 t _ =>
      -- U8 | U16 | U32 | U64 | I64 | F64
      match decompress dec t arg0 with
      | .error e => .error e
      | .ok v => .ok (v, st)
  | .pco t _ _ =>
      match decompress dec t arg0 with
      | .error e => .error e
      | .ok v => .ok (v, st)
  | .unpack =>
      -- `backing.push(arg0.cast_ref_u8().to_vec())`, `StringPackerIterator` over that copy
      match castNat .u8 arg0 with
      | .error e => .error e
      | .ok d =>
        match unpackAll d with
        | .error e => .error e
        | .ok r => .ok (⟨.str (r.map toBytes), none⟩, st)
  | .unhex upper _ =>
      -- `PackedBytesIterator::from_slice(arg0.cast_ref_u8())`, `hex::encode(_upper)` of every element
      match castNat .u8 arg0 with
      | .error e => .error e
      | .ok d =>
        match unpackAll d with
        | .error e => .error e
        | .ok es => .ok (⟨.str (hexAll upper es), none⟩, st)

/-- One iteration of `for codec_op in codec.ops()`.
    `let arg0 = section_stack.first().unwrap();` and
    `let null_map = if arg0.get_type().is_nullable() { Some(arg0.cast_ref_null_map().to_vec()) } else { None };`
    are evaluated for every op, before the `match`; after the `match`:
    `if let Some(present) = null_map { decoded = decoded.make_nullable(&present) }`,
    `section_stack.pop(); section_stack.push(decoded);`  (a `pop` of an empty `Vec` is `None`, ignored) —
    except `PushDataSection`, which pushes and `continue`s. -/
def step2 (dec : Section → Section) (secs : List Section) (op : Op) (st : List SVal) :
    Except Fault (List SVal) :=
  match st.getLast? with
  | none => .error .unwrap
  | some arg0 =>
    match op with
    | .push i =>
        match secs[i]? with
        | some s => .ok (ofSection s :: st)
        | none => .error .index
    | op =>
      match arm2 dec op arg0 st with
      | .error e => .error e
      | .ok (decoded, st') =>
        match arg0.present with
        | none => .ok (decoded :: st'.tail)
        | some bm =>
          match makeNullable decoded bm with
          | .error e => .error e
          | .ok d => .ok (d :: st'.tail)

def run2 (dec : Section → Section) (secs : List Section) : List Op → List SVal → Except Fault (List SVal)
  | [], st => .ok st
  | op :: ops, st =>
      match step2 dec secs op st with
      | .error e => .error e
      | .ok st' => run2 dec secs ops st'

/-- `fn decode(codec, sections) -> BoxedData`:  stack = `[sections[0]]`, run the ops, `section_stack.pop().unwrap()`. -/
def decode2 (dec : Section → Section) (c : Col) : Except Fault SVal :=
  match c.secs with
  | [] => .error .index
  | s0 :: _ =>
    match run2 dec c.secs c.ops [ofSection s0] with
    | .error e => .error e
    | .ok (v :: _) => .ok v
    | .ok [] => .error .unwrap

/-! ### the column images the builders produce

  `ImgBase dec c v`: `c` is an UNCOMPRESSED image of one of the shapes of `IntegerColumn::new_boxed` /
  `create_col`, `FloatColumn::new_boxed`, `fast_build_string_column`, `Column::null`, whose element-wise decoding
  succeeds with value `v`.  `Img` adds the `lz4_or_pco_encode` wrapper around section 0. -/

def intWidth : Width → Prop | .u8 | .u16 | .u32 => True | .u64 => False
instance (w : Width) : Decidable (intWidth w) := by cases w <;> unfold intWidth <;> exact inferInstance

inductive ImgBase : Col → SVal → Prop where
  -- create_col, null_map = None:  (offset == 0, delta) = (true,false) (false,false) (true,true) (false,true)
  | intCast (n) (w : Width) (hw : intWidth w) (d : List Nat) :
      ImgBase ⟨n, [.toI64 w], [.nat w d]⟩ ⟨.i64 (natsToInts d), none⟩
  | intAdd (n) (w : Width) (hw : intWidth w) (x : Int) (d : List Nat) (r : List Int)
      (h : addAll x (natsToInts d) = .ok r) :
      ImgBase ⟨n, [.add w x], [.nat w d]⟩ ⟨.i64 r, none⟩
  | intDelta (n) (w : Width) (hw : intWidth w) (d : List Nat) (r : List Int)
      (h : deltaDecode 0 (natsToInts d) = .ok r) :
      ImgBase ⟨n, [.delta (.w w)], [.nat w d]⟩ ⟨.i64 r, none⟩
  | intAddDelta (n) (w : Width) (hw : intWidth w) (x : Int) (d : List Nat) (r1 r : List Int)
      (h1 : addAll x (natsToInts d) = .ok r1) (h : deltaDecode 0 r1 = .ok r) :
      ImgBase ⟨n, [.add w x, .delta .i64], [.nat w d]⟩ ⟨.i64 r, none⟩
  -- create_col, null_map = Some(present)
  | intCastN (n) (w : Width) (hw : intWidth w) (d bm : List Nat) :
      ImgBase ⟨n, [.push 1, .nullable, .toI64 w], [.nat w d, .bitvec bm]⟩ ⟨.i64 (natsToInts d), some bm⟩
  | intAddN (n) (w : Width) (hw : intWidth w) (x : Int) (d bm : List Nat) (r : List Int)
      (h : addAll x (natsToInts d) = .ok r) :
      ImgBase ⟨n, [.push 1, .nullable, .add w x], [.nat w d, .bitvec bm]⟩ ⟨.i64 r, some bm⟩
  | intDeltaN (n) (w : Width) (hw : intWidth w) (d bm : List Nat) (r : List Int)
      (h : deltaDecode 0 (natsToInts d) = .ok r) :
      ImgBase ⟨n, [.delta (.w w), .push 1, .nullable], [.nat w d, .bitvec bm]⟩ ⟨.i64 r, some bm⟩
  | intAddDeltaN (n) (w : Width) (hw : intWidth w) (x : Int) (d bm : List Nat) (r1 r : List Int)
      (h1 : addAll x (natsToInts d) = .ok r1) (h : deltaDecode 0 r1 = .ok r) :
      ImgBase ⟨n, [.add w x, .delta .i64, .push 1, .nullable], [.nat w d, .bitvec bm]⟩ ⟨.i64 r, some bm⟩
  -- new_boxed, the i64 fall-through
  | i64Plain (n) (d : List Int) : ImgBase ⟨n, [], [.i64 d]⟩ ⟨.i64 d, none⟩
  | i64Delta (n) (d r : List Int) (h : deltaDecode 0 d = .ok r) :
      ImgBase ⟨n, [.delta .i64], [.i64 d]⟩ ⟨.i64 r, none⟩
  | i64N (n) (d : List Int) (bm : List Nat) :
      ImgBase ⟨n, [.push 1, .nullable], [.i64 d, .bitvec bm]⟩ ⟨.i64 d, some bm⟩
  | i64DeltaN (n) (d r : List Int) (bm : List Nat) (h : deltaDecode 0 d = .ok r) :
      ImgBase ⟨n, [.delta .i64, .push 1, .nullable], [.i64 d, .bitvec bm]⟩ ⟨.i64 r, some bm⟩
  -- FloatColumn::new_boxed
  | f64Plain (n) (d : List Nat) : ImgBase ⟨n, [], [.f64 d]⟩ ⟨.f64 d, none⟩
  | f64N (n) (d bm : List Nat) : ImgBase ⟨n, [.push 1, .nullable], [.f64 d, .bitvec bm]⟩ ⟨.f64 d, some bm⟩
  -- fast_build_string_column: dictionary (u8 / u16 / u32 indices)
  | dict (n) (w : Width) (hw : intWidth w) (ix ranges data : List Nat) (r : List Bytes)
      (h : dictLookup ranges data ix = .ok r) :
      ImgBase ⟨n, [.push 1, .push 2, .dict w], [.nat w ix, .nat .u64 ranges, .nat .u8 data]⟩ ⟨.str r, none⟩
  | dictN (n) (w : Width) (hw : intWidth w) (ix ranges data bm : List Nat) (r : List Bytes)
      (h : dictLookup ranges data ix = .ok r) :
      ImgBase ⟨n, [.push 3, .nullable, .push 1, .push 2, .dict w],
                  [.nat w ix, .nat .u64 ranges, .nat .u8 data, .bitvec bm]⟩ ⟨.str r, some bm⟩
  -- packed strings
  | packed (n) (d : List Nat) (r : List (List Nat)) (h : unpackAll d = .ok r) :
      ImgBase ⟨n, [.unpack], [.nat .u8 d]⟩ ⟨.str (r.map toBytes), none⟩
  | packedN (n) (d bm : List Nat) (r : List (List Nat)) (h : unpackAll d = .ok r) :
      ImgBase ⟨n, [.unpack, .push 1, .nullable], [.nat .u8 d, .bitvec bm]⟩ ⟨.str (r.map toBytes), some bm⟩
  -- hex-packed strings
  | hex (n) (u : Bool) (total : Nat) (d : List Nat) (es : List (List Nat)) (r : List Bytes)
      (h1 : unpackAll d = .ok es) (h : unhexAll u total 0 es = .ok r) :
      ImgBase ⟨n, [.unhex u total], [.nat .u8 d]⟩ ⟨.str r, none⟩
  | hexN (n) (u : Bool) (total : Nat) (d bm : List Nat) (es : List (List Nat)) (r : List Bytes)
      (h1 : unpackAll d = .ok es) (h : unhexAll u total 0 es = .ok r) :
      ImgBase ⟨n, [.unhex u total, .push 1, .nullable], [.nat .u8 d, .bitvec bm]⟩ ⟨.str r, some bm⟩
  -- Column::null
  | null (n k : Nat) : ImgBase ⟨n, [], [.null k]⟩ ⟨.null k, none⟩

/-- element type of a section that `lz4_or_pco_encode` may compress (`Codec::with_lz4(section_types[0])`);
    `Null` sections are never compressed (ratio 1.0), `Bitvec` is never section 0. -/
def secET : Section → Option ET
  | .nat .u8 _ => some .u8
  | .nat .u16 _ => some .u16
  | .nat .u32 _ => some .u32
  | .nat .u64 _ => some .u64
  | .i64 _ => some .i64
  | .f64 _ => some .f64
  | _ => none

/-- Every image `Column::lz4_or_pco_encode` can leave behind: the base image, or section 0 replaced by its
    compressed form with `LZ4(t, n)` / `Pco(t, n, is_fp32)` in front.  The library round trip is the
    hypothesis `hdec`. -/
inductive Img (dec : Section → Section) : Col → SVal → Prop where
  | plain {c v} (h : ImgBase c v) : Img dec c v
  | lz4 {len ops s0 rest v} (h : ImgBase ⟨len, ops, s0 :: rest⟩ v) (t : ET) (ht : secET s0 = some t)
      (n : Nat) (p : List Nat) (tag : Nat) (hdec : dec (.comp p tag) = s0) :
      Img dec ⟨len, .lz4 t n :: ops, .comp p tag :: rest⟩ v
  | pco {len ops s0 rest v} (h : ImgBase ⟨len, ops, s0 :: rest⟩ v) (t : ET) (ht : secET s0 = some t)
      (n : Nat) (fp : Bool) (p : List Nat) (tag : Nat) (hdec : dec (.comp p tag) = s0) :
      Img dec ⟨len, .pco t n fp :: ops, .comp p tag :: rest⟩ v

/-- The builder-image predicate. -/
def IsBuilderImage (dec : Section → Section) (c : Col) : Prop := ∃ v, Img dec c v

/-! ### codec shapes chosen by the builders (mirrors of the `match`es that pick the op list) -/

/-- `IntegerColumn::create_col`: the `match (offset == 0, delta_encode)` under `null_map.is_some()` or not. -/
def createColOps (w : Width) (offset : Int) (delta nullable : Bool) : List Op :=
  if nullable then
    match decide (offset = 0), delta with
    | true, true => [.delta (.w w), .push 1, .nullable]
    | true, false => [.push 1, .nullable, .toI64 w]
    | false, true => [.add w offset, .delta .i64, .push 1, .nullable]
    | false, false => [.push 1, .nullable, .add w offset]
  else
    match decide (offset = 0), delta with
    | true, true => [.delta (.w w)]
    | true, false => [.toI64 w]
    | false, true => [.add w offset, .delta .i64]
    | false, false => [.add w offset]

/-- `IntegerColumn::new_boxed`, last `else` (values stay i64). -/
def i64Ops (delta nullable : Bool) : List Op :=
  match nullable, delta with
  | true, true => [.delta .i64, .push 1, .nullable]
  | true, false => [.push 1, .nullable]
  | false, true => [.delta .i64]
  | false, false => []

/-- `FloatColumn::new_boxed`. -/
def floatOps (nullable : Bool) : List Op := if nullable then [.push 1, .nullable] else []

/-- `fast_build_string_column`, dictionary branch: `dict_codec(t)` and the two `codec.insert`s. -/
def dictOps (w : Width) (nullable : Bool) : List Op :=
  if nullable then [.push 3, .nullable, .push 1, .push 2, .dict w] else [.push 1, .push 2, .dict w]

/-- `fast_build_string_column`, early exit: packed or hex-packed, then `codec.push(PushDataSection(1)); codec.push(Nullable)`. -/
def packedOps (hex : Option (Bool × Nat)) (nullable : Bool) : List Op :=
  let base : List Op := match hex with | some (u, total) => [.unhex u total] | none => [.unpack]
  if nullable then base ++ [.push 1, .nullable] else base

/-- the op lists of `ImgBase` (decidable; the driver checks every real column against it) -/
def baseShape (ops : List Op) : Bool :=
  match ops with
  | [] => true
  | [.toI64 w] => decide (intWidth w)
  | [.add w _] => decide (intWidth w)
  | [.delta (.w w)] => decide (intWidth w)
  | [.delta .i64] => true
  | [.add w _, .delta .i64] => decide (intWidth w)
  | [.push 1, .nullable] => true
  | [.push 1, .nullable, .toI64 w] => decide (intWidth w)
  | [.push 1, .nullable, .add w _] => decide (intWidth w)
  | [.delta (.w w), .push 1, .nullable] => decide (intWidth w)
  | [.delta .i64, .push 1, .nullable] => true
  | [.add w _, .delta .i64, .push 1, .nullable] => decide (intWidth w)
  | [.push 1, .push 2, .dict w] => decide (intWidth w)
  | [.push 3, .nullable, .push 1, .push 2, .dict w] => decide (intWidth w)
  | [.unpack] => true
  | [.unpack, .push 1, .nullable] => true
  | [.unhex _ _] => true
  | [.unhex _ _, .push 1, .nullable] => true
  | _ => false

def builderShape (ops : List Op) : Bool :=
  match ops with
  | .lz4 _ _ :: rest => baseShape rest
  | .pco _ _ _ :: rest => baseShape rest
  | ops => baseShape ops

end LM.D2
