import LocustModel.Lemmas.C04Merge
import LocustModel.Lemmas.C04Bits
import LocustModel.Lemmas.C04Array
import LocustModel.Lemmas.C04Tree
import LocustModel.Lemmas.C04Groups
import LocustModel.Lemmas.C04Spec
import LocustModel.Lemmas.C04Bridge
import LocustModel.Lemmas.C04Lex3
/-
  C04 — aggregates are computed per distinct group, once, over all rows.   PROPERTY THEOREMS.

  Models: Query/Merge.lean (merge_deduplicate / merge_drop / merge_aggregate), Query/GroupMerge.lean (partition,
  subpartition, merge_deduplicate_partitioned, batch_merging::combine, merge trees), Query/Group.lean (planner
  arithmetic of compile_grouping_key / try_bitpacking, FuseIntNulls / UnfuseIntNulls, Aggregate / AggregateNullable /
  CheckedAggregate, Exists, NonzeroIndices, Compact, BitShiftLeftAdd / BitUnpack).
  Exact (sentinel-free) specification objects: `xgroup` (ascending distinct keys, each once, aggregate over exactly the
  inputs of the group), `xmerge` / `xunion` (union of partial results), Lemmas/C04Tree.lean, Lemmas/C04Groups.lean.

  Where the real code violates the full statement (open findings `sum-sentinel`, `groupby-null-key-order`,
  `count-null-group`) the statement is kept as a `def …_statement : Prop`, proved under the explicit extra hypothesis
  (`…_partial`) and refuted on the model with the witness that also fails on the real code (`…_refuted`).
-/
namespace LM.C04
open LM LM.Merge LM.Group LM.GroupMerge LM.C04L LM.Sql LM.GroupSpec

/-! ### 0. what the specification `specGroupBy` (Query/GroupSpec.lean) says, for tables of any size

  `specGroupBy` maps every group of `groupRows keys kept` to one output row (`rowsOf`), `kept` being exactly the rows
  for which the WHERE clause is true (C03_spec_filter_exact).  The three theorems below are the property text:
  one group per distinct combination, each exactly once, computed over exactly the rows of that group. -/

/-- each combination of the plain select items forms exactly ONE group -/
theorem C04_spec_groups_once (keys : List Nat) (rows : List Row) : ((groupRows keys rows).map (·.1)).Nodup :=
  (groupRows_inv keys rows).1

/-- EVERY combination that occurs among the rows (NULL included, as a value of its own) has its group -/
theorem C04_spec_groups_complete (keys : List Nat) (rows : List Row) (r : Row) (hr : r ∈ rows) :
    keyOf keys r ∈ (groupRows keys rows).map (·.1) := (groupRows_inv keys rows).2.1 r hr

/-- a group consists of EXACTLY the rows with its key (in table order) and is never empty; the aggregates of its
    output row are `aggCell` over these rows, which drops NULL inputs -/
theorem C04_spec_group_exact (keys : List Nat) (rows : List Row) (g : List Val × List Row)
    (hg : g ∈ groupRows keys rows) :
    g.2 = rows.filter (fun r => keyOf keys r = g.1) ∧ g.2 ≠ [] := (groupRows_inv keys rows).2.2 g hg

example : groupRows [0] [[.int 2, .int 5], [.null, .int 1], [.int 2, .null]] =
    [([.int 2], [[.int 2, .int 5], [.int 2, .null]]), ([.null], [[.null, .int 1]])] := by decide
example : aggCell ⟨.sum, 1⟩ [[.int 2, .int 5], [.int 2, .null]] = .ok (.int 5) := by
  simp [aggCell, colCells, ints?, aggInts, inI64, I64_MIN, I64_MAX]
example : aggCell ⟨.count, 1⟩ [[.int 2, .int 5], [.int 2, .null]] = .ok (.int 1) := by
  simp [aggCell, colCells]

/-- the specification agrees with the exact model object `xgroup` group by group (integer key, integer input) -/
theorem C04_spec_matches_xgroup (i2f : Int → Nat) (op : Agg) (m : Nat) (base : Int) (rows : List (Nat × Int))
    (h : ∀ p ∈ rows, p.1 ≤ m) (hfit : InFit op m rows) :
    ∃ out, specGroupBy i2f [.key 0, .agg ⟨toFn op, 1⟩] none (rows.map (vrow base)) = .ok out ∧
      ∀ row, row ∈ out ↔ ∃ (j : Nat) (a : Option Int), ((j : Int), a) ∈ xgroup op m rows ∧
        row = [Val.int ((j : Int) + base), valOf a] := spec_rows_xgroup i2f op m base rows h hfit

example : specGroupBy (fun _ => 0) [.key 0, .agg ⟨.sum, 1⟩] none ([(2, 5), (0, -1), (2, 9)].map (vrow 10)) =
    .ok [[.int 10, .int (-1)], [.int 12, .int 14]] := by rfl

/-! ### A. the two-way merge of partial results (merge_deduplicate → ops → merge_aggregate / merge_drop) -/

/-- No group is invented: every key of the merged result is a key of one of the inputs. -/
theorem C04_dedup_sound (last : Option Int) (l r : List Int) (x : Int) :
    x ∈ (mergeDedup false last l r).1 → x ∈ l ∨ x ∈ r := dedup_sound last l r x

/-- No group is lost: every key of either input is in the result, or is the key the previous step emitted. -/
theorem C04_dedup_complete (last : Option Int) (l r : List Int) (x : Int) :
    x ∈ l ∨ x ∈ r → x ∈ (mergeDedup false last l r).1 ∨ last = some x := dedup_complete last l r x

/-- The ops are a well-formed script for both inputs: replaying them with merge_drop reproduces the keys. -/
theorem C04_merge_drop_replays (last : Option Int) (l r : List Int) :
    mergeDrop (mergeDedup false last l r).2 l r = some (mergeDedup false last l r).1 := merge_drop_replays last l r

/-- **Groups, once each.** For strictly ascending key lists merge_deduplicate emits exactly the sorted union. -/
theorem C04_dedup_keys (kl kr : List Int) (hl : StrictAsc kl) (hr : StrictAsc kr) :
    (mergeDedup false none kl kr).1 = specKeys kl kr := dedup_keys kl kr hl hr

/-- **Aggregates per group.** merge_aggregate driven by those ops combines exactly the partial aggregates of
    equal keys and carries all others over (or fails with the combination's own error). -/
theorem C04_merge_aggregate_spec (op : Agg) (kl kr vl vr : List Int)
    (hl : StrictAsc kl) (hr : StrictAsc kr) (hvl : vl.length = kl.length) (hvr : vr.length = kr.length) :
    mergeAggregate op (mergeDedup false none kl kr).2 vl vr = specVals op kl kr vl vr :=
  merge_aggregate_spec op kl kr vl vr hl hr hvl hvr

example : specKeys [1, 4, 9] [4, 5] = [1, 4, 5, 9] := by simp [specKeys]
example : specVals .sum [1, 4, 9] [4, 5] [10, 20, 30] [7, 8] = .ok [10, 27, 8, 30] := by
  simp [specVals, combine, I64_MAX, inI64, I64_MIN]

/-! ### B. grouping key construction: exact widths, bit packing, NULL fusing -/

/-- `bits(max)` bits hold every value of `0..=max`, for every i64 `max` (the exact integer width; the previous
    `((max+1) as f64).log2().ceil()` was one short for `max = 2^k` with k ≥ 53 — fixed in /repo). -/
theorem C04_bits_bound (m v : Int) (hv0 : 0 ≤ v) (hvm : v ≤ m) (hm : m ≤ I64_MAX) : v < 2 ^ bits m :=
  lt_two_pow_bits m v hv0 hvm hm

/-- **Bit-packing round trip.** For the columns planned by try_bitpacking (any number of columns, any ranges) and any
    row whose shifted values lie within the planned bounds, unpacking the composite key with each column's
    (shift, width) returns that column's value: distinct key tuples never collide and decode exactly. -/
theorem C04_bitpack_roundtrip (metas : List (Option (Int × Int) × Bool)) (cols : List PackCol)
    (hplan : planPack metas 0 = some cols) (vals : List Int) (hv : WithinMax cols vals)
    (hm : ∀ c ∈ cols, c.adjustedMax ≤ I64_MAX) :
    cols.map (fun c => bitUnpack1 c.shift c.width (packKey cols vals 0)) = vals := by
  obtain ⟨hc, hw⟩ := planPack_consec metas 0 cols hplan
  have hf := fits_of_withinMax cols vals hv hw hm
  rw [packKey_eq cols vals 0 0 hc]
  exact unpack_all cols vals 0 0 hc hf (by omega) (by simp)

example : planPack [(some (0, 5), false), (some (-2, 1), true)] 0 =
    some [⟨0, false, false, 0, 5, 0, 3⟩, ⟨-2, true, true, 3, 5, 3, 3⟩] := by decide
example : packKey [⟨0, false, false, 0, 5, 0, 3⟩, ⟨-2, true, true, 3, 5, 3, 3⟩] [4, 2] 0 = 20 := by decide
example : WithinMax [⟨0, false, false, 0, 5, 0, 3⟩, ⟨-2, true, true, 3, 5, 3, 3⟩] [4, 2] := by
  simp [WithinMax]

/-- **NULL fusing round trip** (decode of a nullable grouping key): `unfuse_int_nulls ∘ fuse_int_nulls = id` whenever
    every shifted value is ≥ 1, which is what `offset = -min + 1` guarantees. -/
theorem C04_fuse_unfuse_roundtrip (off : Int) (xs : List (Option Int))
    (h : ∀ v, some v ∈ xs → 1 ≤ v + off ∧ inI64 (v + off) ∧ inI64 v) :
    ∃ ys, fuseIntNulls off xs = .ok ys ∧ unfuseIntNulls off ys = .ok xs := fuse_unfuse off xs h

example : fuseIntNulls 3 [some (-2), none, some 5] = .ok [1, 0, 8] := by
  simp [fuseIntNulls, addI64, inI64, I64_MIN, I64_MAX, Except.map, bind, Except.bind, pure, Except.pure]

/-! ### C. array aggregation: accumulate + exists + nonzero_indices + compact -/

/-- **Array aggregation is correct** (any aggregator step `f` / unit `u`, any number of rows, any cardinality):
    for raw keys ≤ `m` the group column is the ascending list of the keys that occur, each once, and the compacted
    accumulator column holds for each of them the fold of `f` over exactly the inputs of the rows with that key. -/
theorem C04_array_agg_correct (f : Int → Int → Int) (u : Int) (m : Nat) (rows : List (Nat × Int))
    (h : ∀ p ∈ rows, p.1 ≤ m) :
    ∃ acc sel, accumulate f (freshAcc m u) rows = some acc ∧
      existsOp (List.replicate (m + 1) 0) (rows.map (·.1)) = some sel ∧
      nonzeroIndices sel = (List.range (m + 1)).filter (fun k => k ∈ rows.map (·.1)) ∧
      compact acc sel = ((List.range (m + 1)).filter (fun k => k ∈ rows.map (·.1))).map
        (fun k => (groupVals k rows).foldl f u) := array_pipeline f u m rows h

example : accumulate maxStep (freshAcc 3 maxUnit) [(2, 5), (0, -1), (2, 9)] =
    some [-1, I64_MIN, 9, I64_MIN] := by decide
example : existsOp (List.replicate 4 0) [2, 0, 2] = some [1, 0, 1, 0] := by decide
example : compact [-1, I64_MIN, 9, I64_MIN] [1, 0, 1, 0] = [-1, 9] ∧ nonzeroIndices [1, 0, 1, 0] = [0, 2] := by decide

/-- CheckedAggregate<SumI64>: when no overflow is flagged every accumulator holds the exact sum of its group
    (so an answer is never silently wrapped). -/
theorem C04_array_sum_checked (rows : List (Nat × Int)) (m : Nat) (h : ∀ p ∈ rows, p.1 ≤ m) :
    ∃ acc ovf, accumulateChecked (freshAcc m 0, false) rows = some (acc, ovf) ∧
      (ovf = false → ∀ k (hk : k < acc.length), acc[k] = (groupVals k rows).foldl (· + ·) 0) := by
  have h1 : ∀ p ∈ rows, p.1 < (freshAcc m 0).length := by
    intro p hp; have := h p hp; simp [freshAcc]; omega
  obtain ⟨acc, ovf, e1, e2, e3⟩ := accumulateChecked_spec rows (freshAcc m 0) false h1
  refine ⟨acc, ovf, e1, ?_⟩
  intro ho k hk
  have hk2 := hk
  rw [e2] at hk2
  have := (e3 ho).2 k hk2 hk
  simpa [freshAcc] using this

/-- AggregateNullable: NULL inputs are ignored — each accumulator folds exactly the present inputs of its group and
    is marked present iff there is one. -/
theorem C04_array_nullable (f : Int → Int → Int) (u : Int) (m : Nat) (rows : List (Nat × Option Int))
    (h : ∀ p ∈ rows, p.1 ≤ m) :
    ∃ acc pres, accumulateNullable f (freshAcc m u, List.replicate (m + 1) false) rows = some (acc, pres) ∧
      ∀ k (hk : k < acc.length) (hp : k < pres.length),
        acc[k] = (presentVals k rows).foldl f u ∧ pres[k] = !(presentVals k rows).isEmpty := by
  have h1 : ∀ p ∈ rows, p.1 < (freshAcc m u).length := by
    intro p hp; have := h p hp; simp [freshAcc]; omega
  obtain ⟨acc, pres, e1, e2, e3, e4⟩ :=
    accumulateNullable_spec f rows (freshAcc m u) (List.replicate (m + 1) false) (by simp [freshAcc]) h1
  refine ⟨acc, pres, e1, ?_⟩
  intro k hk hp
  have hk2 := hk
  rw [e2] at hk2
  have := e4 k hk2 hk (by simpa [freshAcc] using hk2) hp
  simpa [freshAcc] using this

/-- The whole array path of one partition (`arrayPartition`: Aggregate or CheckedAggregate, Exists, NonzeroIndices,
    Compact) yields — in the in-band encoding — exactly `xgroup`: ascending distinct keys, each once, exact aggregates. -/
theorem C04_array_partition (op : Agg) (m : Nat) (rows : List (Nat × Int))
    (h : ∀ p ∈ rows, p.1 ≤ m) (hv : ∀ p ∈ rows, inI64 p.2)
    (acc : List Int) (ha : arrayAcc (toOp op) m rows = some acc) :
    ∃ keys vals, arrayPartition (toOp op) m rows = some (keys, vals) ∧
      (⟨[keys.map Int.ofNat], vals⟩ : Part) = encPart (xgroup op m rows) :=
  arrayPartition_eq op m rows h hv acc ha

example : arrayPartition .sum 3 [(2, 5), (0, -1), (2, 9)] = some ([0, 2], [-1, 14]) := by decide

/-! ### D. any number of partitions, any merge tree -/

/-- The exact union of sorted partial results is associative … -/
theorem C04_merge_assoc (op : Agg) (A B C : XPart) (hA : XSorted A) (hB : XSorted B) (hC : XSorted C) :
    xmerge op (xmerge op A B) C = xmerge op A (xmerge op B C) := xmerge_assoc op A B C hA hB hC

/-- … hence the exact result of ANY merge tree (any bracketing, any number of leaves) is the union of its leaves
    in order. -/
theorem C04_merge_tree_exact (op : Agg) (parts : List XPart) (h : ∀ p ∈ parts, XSorted p) (t : Tree) :
    xeval op parts t = xunion op (t.leaves.map fun i => parts.getD i []) := xeval_eq_xunion op parts h t

/-- Aggregating the concatenation of partitions = merging their aggregates (exact level, any number). -/
theorem C04_partition_union (op : Agg) (m : Nat) (ps : List (List (Nat × Int))) (h : ∀ r ∈ ps, ∀ p ∈ r, p.1 ≤ m) :
    xunion op (ps.map (xgroup op m)) = xgroup op m ps.flatten := xunion_xgroup op m ps h

/-- FULL STATEMENT (partition independence of the engine's in-band merge): two merge trees over the same sequence
    of well-formed partial results give the same outcome. -/
def C04_partition_indep_statement : Prop :=
  ∀ (op : Agg) (parts : List XPart) (t1 t2 : Tree),
    (∀ p ∈ parts, XSorted p ∧ InRng p) → t1.leaves = t2.leaves → (∀ i ∈ t1.leaves, i < parts.length) →
    evalTree op (parts.map encPart) t1 = evalTree op (parts.map encPart) t2

/-- PARTIAL: it holds whenever no node of either tree has a value outside i64 or equal to the sentinel i64::MAX
    (`NodesInRng`); then both trees return the exact union of the leaves. -/
theorem C04_partition_indep_partial (op : Agg) (parts : List XPart) (t1 t2 : Tree)
    (hs : ∀ p ∈ parts, XSorted p) (hl : t1.leaves = t2.leaves) (hv : ∀ i ∈ t1.leaves, i < parts.length)
    (h1 : NodesInRng op parts t1) (h2 : NodesInRng op parts t2) :
    evalTree op (parts.map encPart) t1 = evalTree op (parts.map encPart) t2 ∧
    evalTree op (parts.map encPart) t1 = .ok (encPart (xunion op (t1.leaves.map fun i => parts.getD i []))) := by
  have e1 := evalTree_sim op parts hs t1 hv h1
  have e2 := evalTree_sim op parts hs t2 (by rw [← hl]; exact hv) h2
  rw [e1, e2, xeval_eq_xunion op parts hs t1, xeval_eq_xunion op parts hs t2, hl]
  exact ⟨rfl, rfl⟩

/-- REFUTED (finding `sum-sentinel`, DESIGN §8 #16): partial sums i64::MAX-1, 1, -5 of one group.  Left-nested the
    first merge yields i64::MAX, which the second merge takes for NULL and drops: result -5; right-nested: i64::MAX-5. -/
theorem C04_partition_indep_refuted : ¬ C04_partition_indep_statement := by
  intro h
  have := h .sum [[(0, some (I64_MAX - 1))], [(0, some 1)], [(0, some (-5))]]
    (.node (.node (.leaf 0) (.leaf 1)) (.leaf 2)) (.node (.leaf 0) (.node (.leaf 1) (.leaf 2)))
    (by
      intro p hp
      simp at hp
      rcases hp with rfl | rfl | rfl <;> exact ⟨by simp [XSorted], by decide⟩)
    (by decide) (by decide)
  have e1 : evalTree .sum ([[(0, some (I64_MAX - 1))], [(0, some 1)], [(0, some (-5))]].map encPart)
      (.node (.node (.leaf 0) (.leaf 1)) (.leaf 2)) = .ok ⟨[[0]], [-5]⟩ := by
    simp [evalTree, mergeParts, mergeKeys, mergeDedup, mergeAggregate, mergeAggLoop, combine, cmpEq, encPart, encV,
      I64_MAX, I64_MIN, inI64]
  have e2 : evalTree .sum ([[(0, some (I64_MAX - 1))], [(0, some 1)], [(0, some (-5))]].map encPart)
      (.node (.leaf 0) (.node (.leaf 1) (.leaf 2))) = .ok ⟨[[0]], [I64_MAX - 5]⟩ := by
    simp [evalTree, mergeParts, mergeKeys, mergeDedup, mergeAggregate, mergeAggLoop, combine, cmpEq, encPart, encV,
      I64_MAX, I64_MIN, inI64]
  rw [e1, e2] at this
  simp [I64_MAX] at this

example : NodesInRng .sum [[(0, some 5)], [(0, some 1), (3, none)]] (.node (.leaf 0) (.leaf 1)) := by
  have e : xeval .sum [[(0, some 5)], [(0, some 1), (3, none)]] (.node (.leaf 0) (.leaf 1)) = [(0, some 6), (3, none)] := by
    simp [xeval, xmerge, combineExact, List.getD]
  refine ⟨?_, ?_, ?_⟩
  · show InRng ([[(0, some 5)], [(0, some 1), (3, none)]].getD 0 []); decide
  · show InRng ([[(0, some 5)], [(0, some 1), (3, none)]].getD 1 []); decide
  · rw [e]; decide

/-! ### D2. several grouping columns (partition / subpartition / merge_deduplicate_partitioned / merge_drop) -/

/-- merge_deduplicate's MergeOp script for strictly ascending inputs is the canonical one (`specOps`: smaller key
    first, a common key = TakeLeft then MergeRight) -/
theorem C04_dedup_ops (kl kr : List Int) (hl : StrictAsc kl) (hr : StrictAsc kr) :
    (mergeDedup false none kl kr).2 = specOps kl kr := dedup_ops kl kr hl hr

/-- **Two grouping columns, one merge.** For lexicographically strictly ascending key rows (any number below the
    2^32 of `partition`'s u32 run counters) partition + merge_deduplicate_partitioned + merge_drop yield exactly the
    canonical script and the decoded sorted union of the order-embedded keys: every distinct key PAIR once, ascending. -/
theorem C04_two_columns_merge (A B : List (Int × Int)) (hA : LexAsc A) (hB : LexAsc B) (iA : SndI64 A) (iB : SndI64 B)
    (hlen : A.length + B.length < 4294967295) :
    mergeKeys [A.map (·.1), A.map (·.2)] [B.map (·.1), B.map (·.2)] =
      some ([(specKeys (A.map enc2) (B.map enc2)).map dec2fst, (specKeys (A.map enc2) (B.map enc2)).map dec2snd],
            specOps (A.map enc2) (B.map enc2)) := mergeKeys_two A B hA hB iA iB hlen

example : mergeKeys [[1, 2], [5, 0]] [[1, 1], [5, 7]] = some ([[1, 1, 2], [5, 7, 0]], [.takeLeft, .mergeRight, .takeRight, .takeLeft]) := by
  decide

/-- **Two grouping columns, any merge tree**: the result is the decoded image of the same tree over the
    order-embedded one-column partial results (hence all one-column theorems transfer). -/
theorem C04_two_columns_tree (op : Agg) (leaves : List (List (Int × Int) × List Int)) (t : Tree)
    (wf : ∀ l ∈ leaves, WF2 l.1 l.2) (hv : ∀ i ∈ t.leaves, i < leaves.length)
    (hsize : treeRows leaves t < 4294967295) :
    evalTree op (leaves.map fun l => part2 l.1 l.2) t =
      decodeRes (evalTree op (leaves.map fun l => part1 l.1 l.2) t) :=
  (evalTree_two op leaves t wf hv hsize).1

/-- **Bracketing independence with two grouping columns** (same hypothesis as with one column: no partial aggregate
    of either tree leaves i64 or equals the sentinel). -/
theorem C04_partition_indep_two_columns (op : Agg) (leaves : List (List (Int × Int) × List (Option Int)))
    (t1 t2 : Tree) (wf : ∀ l ∈ leaves, LexAsc l.1 ∧ SndI64 l.1 ∧ l.2.length = l.1.length)
    (hl : t1.leaves = t2.leaves) (hv : ∀ i ∈ t1.leaves, i < leaves.length)
    (hs1 : treeRows (leaves.map fun l => (l.1, l.2.map encV)) t1 < 4294967295)
    (hs2 : treeRows (leaves.map fun l => (l.1, l.2.map encV)) t2 < 4294967295)
    (h1 : NodesInRng op (leaves.map xpartOf) t1) (h2 : NodesInRng op (leaves.map xpartOf) t2) :
    evalTree op (leaves.map fun l => part2 l.1 (l.2.map encV)) t1 =
      evalTree op (leaves.map fun l => part2 l.1 (l.2.map encV)) t2 :=
  partition_indep_two op leaves t1 t2 wf hl hv hs1 hs2 h1 h2

example : LexAsc [(1, 5), (2, 0)] ∧ SndI64 [(1, 5), (2, 0)] := by
  constructor
  · simp [LexAsc]
  · intro p hp; simp at hp; rcases hp with rfl | rfl <;> decide

/-! ### E. top level: groups of a partitioned table -/

/-- FULL STATEMENT: whatever the partitioning and the merge tree, merging the array-aggregated partitions yields
    (in-band) the exact grouped aggregation of all rows. -/
def C04_groups_statement : Prop :=
  ∀ (op : Agg) (m : Nat) (ps : List (List (Nat × Int))) (t : Tree),
    (∀ r ∈ ps, ∀ p ∈ r, p.1 ≤ m ∧ inI64 p.2 ∧ p.2 ≠ I64_MAX) → (∀ i ∈ t.leaves, i < ps.length) →
    InRng (xgroup op m ((t.leaves.map fun i => ps.getD i []).flatten)) →
    evalTree op (ps.map fun r => encPart (xgroup op m r)) t =
      .ok (encPart (xgroup op m ((t.leaves.map fun i => ps.getD i []).flatten)))

/-- PARTIAL: **one row per distinct group, each once, aggregates over exactly the rows of the group, for every
    partitioning and every merge tree** — provided no partial aggregate along the tree leaves i64 or hits the
    sentinel.  (`C04_array_partition` identifies `encPart (xgroup op m r)` with the array pipeline's output.) -/
theorem C04_groups_partial (op : Agg) (m : Nat) (ps : List (List (Nat × Int))) (t : Tree)
    (hk : ∀ r ∈ ps, ∀ p ∈ r, p.1 ≤ m) (hl : ∀ i ∈ t.leaves, i < ps.length)
    (hr : NodesInRng op (ps.map (xgroup op m)) t) :
    evalTree op (ps.map fun r => encPart (xgroup op m r)) t =
      .ok (encPart (xgroup op m ((t.leaves.map fun i => ps.getD i []).flatten))) := by
  have hs : ∀ p ∈ ps.map (xgroup op m), XSorted p := by
    intro p hp; simp at hp; obtain ⟨r, _, rfl⟩ := hp; exact xgroup_sorted op m r
  have e := evalTree_sim op (ps.map (xgroup op m)) hs t (by simpa using hl) hr
  rw [List.map_map] at e
  rw [show (ps.map fun r => encPart (xgroup op m r)) = ps.map (encPart ∘ xgroup op m) from rfl, e,
    xeval_eq_xunion op _ hs t]
  congr 2
  have hget : ∀ i, (ps.map (xgroup op m)).getD i [] = xgroup op m (ps.getD i []) := by
    intro i
    by_cases hi : i < ps.length
    · simp [List.getD, hi]
    · simp [List.getD, hi, xgroup]
  rw [show (t.leaves.map fun i => (ps.map (xgroup op m)).getD i []) =
        (t.leaves.map fun i => ps.getD i []).map (xgroup op m) by
      rw [List.map_map]; apply List.map_congr_left; intro i _; exact hget i]
  apply xunion_xgroup
  intro r hr' p hp
  simp at hr'
  obtain ⟨i, _, rfl⟩ := hr'
  by_cases hi : i < ps.length
  · simp [hi] at hp
    exact hk _ (List.getElem_mem hi) p hp
  · simp [hi] at hp

/-- **Top level against the specification.**  A table with an integer grouping column (decoded key = raw key + base)
    and an integer input column, split into any partitions `ps`, array-aggregated per partition and merged along any
    tree that visits the partitions in order: the engine's result is `encPart X` and the rows of
    `specGroupBy (SELECT key, AGG(input))` over the whole table are exactly the rows `[k + base, a]`, `(k, a) ∈ X` —
    one row per distinct group, each once (`C04_spec_groups_once`), aggregates over exactly the group's rows.
    Hypotheses: raw keys within the planned cardinality, every aggregate fits i64, no partial aggregate along the
    tree leaves i64 or equals the sentinel. -/
theorem C04_groups_spec (i2f : Int → Nat) (op : Agg) (m : Nat) (base : Int) (ps : List (List (Nat × Int))) (t : Tree)
    (hk : ∀ r ∈ ps, ∀ p ∈ r, p.1 ≤ m) (hl : t.leaves = List.range ps.length)
    (hfit : InFit op m ps.flatten) (hr : NodesInRng op (ps.map (xgroup op m)) t) :
    ∃ out, specGroupBy i2f [.key 0, .agg ⟨toFn op, 1⟩] none (ps.flatten.map (vrow base)) = .ok out ∧
      evalTree op (ps.map fun r => encPart (xgroup op m r)) t = .ok (encPart (xgroup op m ps.flatten)) ∧
      ∀ row, row ∈ out ↔ ∃ (j : Nat) (a : Option Int), ((j : Int), a) ∈ xgroup op m ps.flatten ∧
        row = [Val.int ((j : Int) + base), valOf a] := by
  have hflat : ∀ p ∈ ps.flatten, p.1 ≤ m := by
    intro p hp
    simp only [List.mem_flatten] at hp
    obtain ⟨r, hr', hp'⟩ := hp
    exact hk r hr' p hp'
  obtain ⟨out, ho, hrows⟩ := spec_rows_xgroup i2f op m base ps.flatten hflat hfit
  have hg := C04_groups_partial op m ps t hk (by rw [hl]; intro i hi; simpa using hi) hr
  have hleaves : (t.leaves.map fun i => ps.getD i []) = ps := by
    rw [hl]
    apply List.ext_getElem
    · simp
    · intro i h1 h2
      simp at h1
      simp [List.getD, h1]
  rw [hleaves] at hg
  exact ⟨out, ho, hg, hrows⟩

/-- The array path for a NULLABLE integer input (AggregateNullable, Exists, NonzeroIndices, CompactNullable, FuseNulls)
    yields `xgroupN`: NULL inputs are ignored, a group without any input is NULL (in-band i64::MAX). -/
theorem C04_array_partition_nullable (op : Agg) (m : Nat) (rows : List (Nat × Option Int))
    (h : ∀ p ∈ rows, p.1 ≤ m) (hv : ∀ p ∈ rows, ∀ v, p.2 = some v → inI64 v) :
    ∃ keys vals, arrayPartitionNullable (toOp op) m rows = some (keys, vals) ∧
      (⟨[keys.map Int.ofNat], vals⟩ : Part) = encPart (xgroupN op m rows) :=
  arrayPartitionNullable_eq op m rows h hv

example : arrayPartitionNullable .max 2 [(2, some 5), (0, none), (2, some 9)] = some ([0, 2], [I64_MAX, 9]) := by
  decide

/-- … and the top-level statement with NULLable inputs: any partitioning, any merge tree, NULL inputs ignored. -/
theorem C04_groups_nullable_partial (op : Agg) (m : Nat) (ps : List (List (Nat × Option Int))) (t : Tree)
    (hk : ∀ r ∈ ps, ∀ p ∈ r, p.1 ≤ m) (hl : ∀ i ∈ t.leaves, i < ps.length)
    (hr : NodesInRng op (ps.map (xgroupN op m)) t) :
    evalTree op (ps.map fun r => encPart (xgroupN op m r)) t =
      .ok (encPart (xgroupN op m ((t.leaves.map fun i => ps.getD i []).flatten))) := by
  have hs : ∀ p ∈ ps.map (xgroupN op m), XSorted p := by
    intro p hp; simp at hp; obtain ⟨r, _, rfl⟩ := hp; exact xgroupN_sorted op m r
  have e := evalTree_sim op (ps.map (xgroupN op m)) hs t (by simpa using hl) hr
  rw [List.map_map] at e
  rw [show (ps.map fun r => encPart (xgroupN op m r)) = ps.map (encPart ∘ xgroupN op m) from rfl, e,
    xeval_eq_xunion op _ hs t]
  congr 2
  have hget : ∀ i, (ps.map (xgroupN op m)).getD i [] = xgroupN op m (ps.getD i []) := by
    intro i
    by_cases hi : i < ps.length
    · simp [List.getD, hi]
    · simp [List.getD, hi, xgroupN]
  rw [show (t.leaves.map fun i => (ps.map (xgroupN op m)).getD i []) =
        (t.leaves.map fun i => ps.getD i []).map (xgroupN op m) by
      rw [List.map_map]; apply List.map_congr_left; intro i _; exact hget i]
  apply xunion_xgroupN
  intro r hr' p hp
  simp at hr'
  obtain ⟨i, _, rfl⟩ := hr'
  by_cases hi : i < ps.length
  · simp [hi] at hp
    exact hk _ (List.getElem_mem hi) p hp
  · simp [hi] at hp

/-- REFUTED on the same witness (rows of one group split over three partitions; exact total i64::MAX-5). -/
theorem C04_groups_refuted : ¬ C04_groups_statement := by
  intro h
  have := h .sum 0 [[(0, I64_MAX - 1)], [(0, 1)], [(0, -5)]] (.node (.node (.leaf 0) (.leaf 1)) (.leaf 2))
    (by intro r hr p hp; simp at hr; rcases hr with rfl | rfl | rfl <;> simp at hp <;> subst hp <;> decide)
    (by decide) (by decide)
  have e1 : evalTree .sum ([[(0, I64_MAX - 1)], [(0, 1)], [(0, -5)]].map fun r => encPart (xgroup .sum 0 r))
      (.node (.node (.leaf 0) (.leaf 1)) (.leaf 2)) = .ok ⟨[[0]], [-5]⟩ := by
    have x0 : xgroup .sum 0 [(0, I64_MAX - 1)] = [(0, some (I64_MAX - 1))] := by decide
    have x1 : xgroup .sum 0 [(0, 1)] = [(0, some 1)] := by decide
    have x2 : xgroup .sum 0 [(0, -5)] = [(0, some (-5))] := by decide
    simp only [List.map_cons, List.map_nil, x0, x1, x2]
    simp [evalTree, mergeParts, mergeKeys, mergeDedup, mergeAggregate, mergeAggLoop, combine, cmpEq, encPart, encV,
      I64_MAX, I64_MIN, inI64]
  have e2 : xgroup .sum 0 ((((Tree.leaf 0).node (Tree.leaf 1)).node (Tree.leaf 2)).leaves.map
      fun i => [[(0, I64_MAX - 1)], [(0, 1)], [((0 : Nat), (-5 : Int))]].getD i []).flatten = [(0, some (I64_MAX - 5))] := by
    decide
  rw [e1, e2] at this
  simp [encPart, encV, I64_MAX] at this

/-! ### F. the two other open findings, on the model -/

/-- `groupby-null-key-order`: inside a partition the NULL group is first (raw key 0) but is emitted as i64::MAX; merged
    with a partition that has a smaller-than-NULL key on the right, group `1` comes out twice. -/
theorem C04_null_key_order_refuted :
    mergeParts .count ⟨[[I64_MAX, 1]], [1, 1]⟩ ⟨[[1, 2]], [1, 1]⟩ = .ok ⟨[[1, 2, I64_MAX, 1]], [1, 1, 1, 1]⟩ := by
  simp [mergeParts, mergeKeys, mergeDedup, mergeAggregate, mergeAggLoop, cmpEq, I64_MAX]

/-- with the NULL group last (ascending in the merge order) the same data merges correctly -/
theorem C04_null_key_order_partial (op : Agg) (A B : XPart) (sA : XSorted A) (sB : XSorted B)
    (hA : InRng A) (hB : InRng B) (hC : InRng (xmerge op A B)) :
    mergeParts op (encPart A) (encPart B) = .ok (encPart (xmerge op A B)) := mergeParts_sim op A B sA sB hA hB hC

/-- `count-null-group`: COUNT over a nullable input through AggregateNullable leaves a group without present input
    unmarked (→ NULL after fusing) although its count is 0. -/
theorem C04_count_null_group_refuted :
    accumulateNullable countStep (freshAcc 1 0, [false, false]) [(0, some 7), (1, none)] =
      some ([1, 0], [true, false]) := by decide

end LM.C04
