import LocustModel.Store.Machine
import LocustModel.Store.Spec
import LocustModel.Lemmas.StoreWal
import LocustModel.Lemmas.StoreDurableRun
import LocustModel.Lemmas.StoreExample
import LocustModel.Store.Interleave
import LocustModel.Lemmas.StoreInterleave
/-
  C18 — a finished flush leaves no garbage and unblocks ingestion.  Property theorems only.
  Histories are arbitrary lists of `Op` (any length, any planner choices, any sizes, any replay orders).

  Second half (`C18_interleaved_…`, `C18_no_stuck_ingest`, `C18_force_flush_covers`): INTERLEAVED histories
  (`Store/Interleave.lean`) — a flush is the sequence of its real steps, ingestion calls and force_flush requests may
  happen between any two of them; the force_flush protocol of `enforce_wal_limit` (requests are TAKEN before the flush
  starts and answered when it ends) and the two cooperating comparisons on the accounted log size (ingestion waits while
  `wal_size > max`, the flush thread flushes when `wal_size > max`) are part of the model.
-/
namespace LM.C18
open LM LM.Store

variable {ν κ : Type} [DecidableEq ν]

/-- After ANY history, a completed flush leaves no log segment on disk and the accounted log size is zero;
    the cursor equals the id the next segment will get. -/
theorem C18_log_empty_after_flush (P : Params ν κ) (ops : List (Op ν κ)) (w w' : World ν κ) (fi : FlushIn ν)
    (hrun : run P ops (initWorld P) = .ok w) (hflush : flush P w fi = .ok w') :
    w'.disk.wal = [] ∧ w'.mem.walSize = 0 ∧ w'.mem.cat.earliest = w'.mem.cat.nextWal := by
  have h := walInv_flush P w w' fi (walInv_run P ops w hrun) hflush
  exact ⟨h.2.1, h.2.2.1, by rw [h.2.2.2.1, h.2.2.2.2]⟩

/-- The freeze block alone (before batching, persisting, compaction) already re-enables ingestion:
    `*wal_size = 0` under the ingestion lock.  Holds for every state and every limit. -/
theorem C18_ingest_enabled_after_freeze (P : Params ν κ) (w : World ν κ) : ingestEnabled P (freeze w) := by
  simp [ingestEnabled, freeze]

/-- … and ingestion is still enabled when the whole flush has completed. -/
theorem C18_ingest_enabled_after_flush (P : Params ν κ) (ops : List (Op ν κ)) (w w' : World ν κ) (fi : FlushIn ν)
    (hrun : run P ops (initWorld P) = .ok w) (hflush : flush P w fi = .ok w') : ingestEnabled P w' := by
  have h := C18_log_empty_after_flush P ops w w' fi hrun hflush
  simp [ingestEnabled, h.2.1]

/-- The accounted log size is, after any history, exactly the size of the segments on disk (so it cannot drift
    over repeated ingest / flush / restart cycles). -/
theorem C18_walsize_exact (P : Params ν κ) (ops : List (Op ν κ)) (w : World ν κ)
    (hrun : run P ops (initWorld P) = .ok w) : w.mem.walSize = (w.disk.wal.map (·.bytes)).sum :=
  (walInv_run P ops w hrun).size

/-- The number of log segments on disk is `nextWal - earliest` after any history: bounded by the number of
    ingestion calls since the last completed flush, whatever happened before. -/
theorem C18_segments_bounded (P : Params ν κ) (ops : List (Op ν κ)) (w : World ν κ)
    (hrun : run P ops (initWorld P) = .ok w) : w.disk.wal.length = w.mem.cat.nextWal - w.mem.cat.earliest := by
  have h := (walInv_run P ops w hrun).ids
  have : (walIds w.disk).length = w.disk.wal.length := by simp [walIds]
  rw [← this, h]; simp

/-- The directory after a completed flush, after ANY history and with ANY planned compactions: no log segment, the
    catalogue file exists, and for every table the partition files on disk are EXACTLY the files the catalogue
    file refers to (same ids, same sub-partition keys, each once; no file of a merged-away partition, no orphan).
    The model has no other kind of file (temporary files are below the granularity of a completed call). -/
theorem C18_clean (P : Params ν κ) (hP : ParamsOk P) (ops : List (Op ν κ)) (hwf : HistWF ops)
    (w w' : World ν κ) (fi : FlushIn ν) (hfi : FlushWF fi)
    (hrun : run P ops (initWorld P) = .ok w) (hflush : flush P w fi = .ok w') :
    w'.disk.wal = [] ∧ w'.mem.walSize = 0 ∧
    ∃ mf, w'.disk.metaFile = some mf ∧ ∀ t, fileNames (w'.disk.parts t) = expectedFiles (mf.parts t) := by
  obtain ⟨pre, hd⟩ := durable_run P hP ops hwf w hrun
  obtain ⟨hd', _, hwal, hmeta⟩ := hd.flush hP.reencode hfi hflush
  have h0 := (walInv_flush P w w' fi hd.wal hflush).2.2.1
  exact ⟨hwal, h0, _, hmeta, fun t => hd'.files_exact t⟩

/-- File counts stay bounded by the catalogue over any number of ingest / flush / restart cycles: at EVERY point of
    EVERY history the partition files of a table are exactly the files of its catalogue entries (so their number is
    the number of sub-partitions the catalogue lists), the catalogue in memory is the one in the catalogue file, and
    the number of log segments is the number of ingestion calls since the last completed flush. -/
theorem C18_bounded (P : Params ν κ) (hP : ParamsOk P) (ops : List (Op ν κ)) (hwf : HistWF ops) (w : World ν κ)
    (hrun : run P ops (initWorld P) = .ok w) :
    (∀ t, fileNames (w.disk.parts t) = expectedFiles (w.mem.cat.parts t)) ∧
    (∀ t, (w.disk.parts t).length = ((w.mem.cat.parts t).map (fun m => m.keys.length)).sum) ∧
    w.mem.cat.parts = (w.disk.metaFile.getD ⟨0, fun _ => []⟩).parts ∧
    w.disk.wal.length = w.mem.cat.nextWal - w.mem.cat.earliest := by
  obtain ⟨pre, hd⟩ := durable_run P hP ops hwf w hrun
  refine ⟨fun t => hd.files_exact t, fun t => ?_, hd.metaEq, C18_segments_bounded P ops w hrun⟩
  have := congrArg List.length (hd.files_exact t)
  rw [expectedFiles_length] at this
  simpa [fileNames] using this

-- non-vacuity: a concrete history (ingest, flush) runs without fault and ends with an empty log
example : ∃ w, run (ν := Nat) (κ := Nat) ⟨id, 0, [.columnName]⟩
      [.ingest [(.user 1, ⟨1, [(.user 7, [.val 5])]⟩)] 10, .flush ⟨[], fun _ => ["all"], fun _ => ["all"]⟩]
      (initWorld ⟨id, 0, [.columnName]⟩) = .ok w ∧ w.disk.wal = [] ∧ w.mem.walSize = 0 :=
  ⟨_, rfl, by decide, by decide⟩

-- non-vacuity of C18_clean / C18_bounded: history with a compaction (partitions 0 and 1 of table 1 merged into 2,
-- two sub-partition files), a restart with reversed replay, a final flush: the directory holds exactly the files of
-- the catalogue — the files of the merged-away partitions 0 and 1 are gone
example : ∃ w, ParamsOk Ex.P0 ∧ HistWF Ex.opsB ∧ run Ex.P0 Ex.opsB (initWorld Ex.P0) = .ok w ∧
    fileNames (w.disk.parts (.user 1)) = [(2, "a"), (2, "b"), (3, "all")] ∧ w.disk.wal = [] ∧ w.mem.walSize = 0 ∧
    (w.disk.metaFile.map (fun mf => mf.parts (.user 1))) = some [⟨2, 0, 3, ["a", "b"]⟩, ⟨3, 3, 1, ["all"]⟩] :=
  ⟨_, Ex.P0_ok, Ex.opsB_wf, rfl, by decide, rfl, rfl, by decide⟩

-- ================================================================================================ interleaved histories

/-- The directory when a flush has completed (`wal_flush` returned and the flush thread answered the requests it had
    taken: step `flushAnswer`) in ANY interleaved history:
    no flush in flight; the ONLY log segments are those of the ingestion calls that returned since this flush froze the
    buffers (ids `cursor, cursor+1, …`, as many as such calls) — every segment the flush captured is gone; the
    accounted size is the size of exactly these segments; so if no call overlapped the flush there is no segment and
    the accounted size is zero; the catalogue file exists, its cursor is `earliest`, and for every table the partition
    files on disk are EXACTLY the files the catalogue file refers to (no file of a merged-away partition, no orphan). -/
theorem C18_interleaved_clean (P : Params ν κ) (hP : ParamsOk P) (ops : List (IOp ν κ)) (hwf : IHistWF ops)
    (iw : IWorld ν κ) (hrun : irun P (ops ++ [.flushAnswer]) = .ok iw) :
    iw.fl = none ∧
    iw.w.disk.wal.map (·.id) = List.range' iw.w.mem.cat.earliest (sinceFreeze ops) ∧
    iw.w.mem.walSize = (iw.w.disk.wal.map (·.bytes)).sum ∧
    (sinceFreeze ops = 0 → iw.w.disk.wal = [] ∧ iw.w.mem.walSize = 0) ∧
    ∃ mf, iw.w.disk.metaFile = some mf ∧ mf.cursor = iw.w.mem.cat.earliest ∧
      ∀ t, fileNames (iw.w.disk.parts t) = expectedFiles (mf.parts t) := by
  have hwf' : IHistWF (ops ++ [.flushAnswer]) := by
    intro op hop
    rcases List.mem_append.mp hop with h | h
    · exact hwf op h
    · simp at h; subst h; trivial
  obtain ⟨iw0, hrun0, hstep⟩ := irun_snoc P ops _ iw hrun
  have hf0 := frame_run P hP ops hwf iw0 hrun0
  -- shape of the last step
  simp only [istep] at hstep
  cases hfl : iw0.fl with
  | none => rw [hfl] at hstep; cases hstep
  | some f =>
    rw [hfl] at hstep
    simp only at hstep
    split at hstep
    · rename_i hst
      have hmeta0 := ((hf0.flight f hfl).2.2.2.2 (Or.inr (Or.inr hst))).2
      cases hstep
      have hq : (⟨iw0.w, none, iw0.pending, iw0.done ++ f.served⟩ : IWorld ν κ).fl = none := rfl
      obtain ⟨pre, hd⟩ := (idurable_run P hP _ hwf' _ hrun).quiescent hq
      have hf := (frame_run P hP _ hwf' _ hrun).quiet hq
      rw [sinceFreeze_snoc] at hf
      simp only [sfStep] at hf
      have hids : iw0.w.disk.wal.map (·.id) = List.range' iw0.w.mem.cat.earliest (sinceFreeze ops) := by
        have := hd.wal.ids
        simp only [walIds] at this
        rw [this, hf]
        simp
      refine ⟨rfl, hids, hd.wal.size, ?_, ?_⟩
      · intro h0
        have hnil : iw0.w.disk.wal = [] := by
          rw [h0] at hids
          simpa using hids
        exact ⟨hnil, by rw [hd.wal.size, hnil]; rfl⟩
      · have hsome : iw0.w.disk.metaFile.isSome = true := hmeta0
        cases hm : iw0.w.disk.metaFile with
        | none => rw [hm] at hsome; cases hsome
        | some mf =>
          refine ⟨mf, rfl, ?_, fun t => ?_⟩
          · have := hd.wal.cursor
            rw [hm] at this
            simpa using this
          · have h1 := hd.files_exact t
            have h2 := hd.metaEq
            rw [hm] at h2
            simp only [Option.getD_some] at h2
            rw [h1, h2]
    · cases hstep

/-- File and segment counts stay bounded in interleaved histories too: at EVERY quiescent point the partition files
    of a table are exactly the files of its catalogue entries, the catalogue in memory is the one in the catalogue
    file, and the number of log segments is the number of ingestion calls since the last freeze. -/
theorem C18_interleaved_bounded (P : Params ν κ) (hP : ParamsOk P) (ops : List (IOp ν κ)) (hwf : IHistWF ops)
    (iw : IWorld ν κ) (hrun : irun P ops = .ok iw) (hq : iw.fl = none) :
    (∀ t, fileNames (iw.w.disk.parts t) = expectedFiles (iw.w.mem.cat.parts t)) ∧
    iw.w.mem.cat.parts = (iw.w.disk.metaFile.getD ⟨0, fun _ => []⟩).parts ∧
    iw.w.disk.wal.length = sinceFreeze ops ∧
    iw.w.mem.walSize = (iw.w.disk.wal.map (·.bytes)).sum := by
  obtain ⟨pre, hd⟩ := (idurable_run P hP ops hwf iw hrun).quiescent hq
  have hf := (frame_run P hP ops hwf iw hrun).quiet hq
  refine ⟨fun t => hd.files_exact t, hd.metaEq, ?_, hd.wal.size⟩
  have h := hd.wal.ids
  have : (walIds iw.w.disk).length = iw.w.disk.wal.length := by simp [walIds]
  rw [← this, h, hf]; simp

/-- The log-size gate of ingestion cannot get stuck, for EVERY limit (0 included) and every accounted size (a size
    exactly equal to the limit included).  In any reachable state of any interleaved history in which an ingestion
    call would wait (`wal_size > max_wal_size_bytes`): the flush thread — alone, without any other thread moving —
    first completes the flush it may be in the middle of (no step of it can fail, none changes the accounted size),
    is then idle in a state where ITS OWN trigger condition holds (`wal_size > max_wal_size_bytes`, the same
    comparison: the two sites agree on the boundary), so it starts the next flush, and that flush's freeze block
    alone re-opens the gate. -/
theorem C18_no_stuck_ingest (P : Params ν κ) (hP : ParamsOk P) (ops : List (IOp ν κ)) (hwf : IHistWF ops)
    (iw : IWorld ν κ) (hrun : irun P ops = .ok iw) (fi : FlushIn ν) (hfi : FlushWF fi) (maxWalFiles : Nat)
    (hwait : ingestWaits P iw) :
    ∃ iwq iw', ifold P (match iw.fl with | none => [] | some f => finishOps f.stage fi) iw = .ok iwq ∧ iwq.fl = none ∧
      flushTriggered P maxWalFiles iwq ∧
      istep P iwq (.flushBegin iwq.pending.length) = .ok iw' ∧ ¬ ingestWaits P iw' := by
  have hd := idurable_run P hP ops hwf iw hrun
  have key : ∀ iwq : IWorld ν κ, iwq.fl = none → iwq.w.mem.walSize = iw.w.mem.walSize →
      flushTriggered P maxWalFiles iwq ∧
      ∃ iw', istep P iwq (.flushBegin iwq.pending.length) = .ok iw' ∧ ¬ ingestWaits P iw' := by
    intro iwq hq hs
    refine ⟨Or.inl (by rw [hs]; exact gate_implies_trigger _ _ hwait), _, by simp only [istep, hq]; rfl, ?_⟩
    simp [ingestWaits, freeze, gate_open_at_zero]
  cases hfl : iw.fl with
  | none =>
    obtain ⟨h1, iw', h2, h3⟩ := key iw hfl rfl
    exact ⟨iw, iw', rfl, hfl, h1, h2, h3⟩
  | some f =>
    obtain ⟨iwq, h0, hq, hs, _⟩ := flight_completes P hP iw f fi hfi hd hfl
    obtain ⟨h1, iw', h2, h3⟩ := key iwq hq hs
    exact ⟨iwq, iw', h0, hq, h1, h2, h3⟩

/-- The interleaved machine follows the source in the choices that only matter when calls overlap a flush
    (`Gen/WalProtocol.lean`, regenerated from /repo by every check run): `enforce_wal_limit` takes the pending requests
    BEFORE `wal_flush()` and answers the taken ones; the freeze block resets the accounted size before any storage call
    of the tail; the trigger's other disjuncts are the request list and the file count.  (The two size comparisons are
    not pinned here: the model USES the ones found in the source, and `C18_no_stuck_ingest` needs them to agree on the
    boundary and to let an accounted size of 0 through.)  A source edit that changes one of these fails this obligation. -/
theorem C18_machine_follows_source :
    LM.Gen.WalProtocol.takeBeforeFlush = true ∧ LM.Gen.WalProtocol.answersTheTaken = true ∧
    LM.Gen.WalProtocol.resetBeforeTail = true ∧
    LM.Gen.WalProtocol.flushTriggerRest = "!pending_wal_flushes.is_empty()||too_many_wal_files" ∧
    (∀ (P : Params ν κ) (iw : IWorld ν κ) (op : IOp ν κ),
      istepVar false (!LM.Gen.WalProtocol.takeBeforeFlush) P iw op = istep P iw op) := by
  refine ⟨by decide, by decide, by decide, by decide, fun P iw op => ?_⟩
  have h : (!LM.Gen.WalProtocol.takeBeforeFlush) = false := by decide
  rw [h]; exact istepVar_ff P iw op

/-- What an answered force_flush guarantees, in ANY interleaved history.  A request is recorded as `q` = the id the next
    log segment would get at the moment the request was registered (every ingestion call that returned before has a
    smaller id).  Once the request was answered (`q ∈ done`): the cursor has passed `q` — in memory at every later
    moment, and whenever no flush is in flight also in the catalogue file, and no segment with an id below `q` is on
    disk: everything acknowledged before the call is in partition files the catalogue refers to and its log segment
    is gone.  (A request that arrives while a flush is past its freeze is therefore answered by a LATER flush.) -/
theorem C18_force_flush_covers (P : Params ν κ) (hP : ParamsOk P) (ops : List (IOp ν κ)) (hwf : IHistWF ops)
    (iw : IWorld ν κ) (hrun : irun P ops = .ok iw) (q : Nat) (hq : q ∈ iw.done) :
    q ≤ iw.w.mem.cat.earliest ∧
    (iw.fl = none → (∀ f ∈ iw.w.disk.wal, q ≤ f.id) ∧ q ≤ (iw.w.disk.metaFile.map (·.cursor)).getD 0) := by
  have hf := frame_run P hP ops hwf iw hrun
  have h1 := hf.done q hq
  refine ⟨h1, fun hfl => ?_⟩
  obtain ⟨pre, hd⟩ := (idurable_run P hP ops hwf iw hrun).quiescent hfl
  constructor
  · intro f hfm
    have := (mem_ids_of_range hd.wal.ids f hfm).1
    omega
  · rw [hd.wal.cursor]; exact h1

-- non-vacuity of C18_interleaved_clean / C18_force_flush_covers: the flush of `Ex.iopsFlush` overlaps two ingestion
-- calls; when it has completed the two overlapped segments (ids 1, 2) are the only ones, the accounted size is theirs
-- (20 + 5), the request (registered when the next id was 1) is answered and the cursor is 1
example : ∃ iw, ParamsOk Ex.P0 ∧ IHistWF Ex.iopsFlush ∧ irun Ex.P0 Ex.iopsFlush = .ok iw ∧ iw.fl = none ∧
    walIds iw.w.disk = [1, 2] ∧ iw.w.mem.walSize = 25 ∧ iw.done = [1] ∧ iw.w.mem.cat.earliest = 1 ∧
    fileNames (iw.w.disk.parts (.user 1)) = [(0, "all")] :=
  ⟨_, Ex.P0_ok, Ex.iopsFlush_wf, rfl, rfl, by decide, rfl, rfl, rfl, by decide⟩

-- a request that arrives while the flush is past its freeze stays pending when that flush ends
example : ∃ iw, irun Ex.P0 Ex.iopsLate = .ok iw ∧ iw.done = [1] ∧ iw.pending = [2] ∧ walIds iw.w.disk = [1] :=
  ⟨_, rfl, rfl, rfl, by decide⟩

-- non-vacuity of C18_no_stuck_ingest: limit 0, one segment of 10 bytes: ingestion would wait
example : ∃ iw, irun Ex.P0 [.ingest Ex.r1 10] = .ok iw ∧ ingestWaits Ex.P0 iw :=
  ⟨_, rfl, by decide⟩

/-- Sensitivity: `C18_force_flush_covers` depends on the requests being TAKEN BEFORE the flush starts.  In the variant
    machine that answers every request pending when a flush ENDS, the request registered after the freeze (`q = 2`:
    segment 1 was acknowledged before it) is answered by the earlier flush although the cursor is 1 and segment 1 is
    still on disk. -/
theorem C18_force_flush_must_be_taken_before_flush :
    ∃ iw : IWorld Nat Nat, ifoldVar false true Ex.P0 Ex.iopsLate (iinit Ex.P0) = .ok iw ∧ iw.fl = none ∧
      2 ∈ iw.done ∧ iw.w.mem.cat.earliest = 1 ∧ walIds iw.w.disk = [1] :=
  ⟨_, rfl, rfl, by decide, rfl, by decide⟩

end LM.C18
