import LocustModel.Store.Machine
import LocustModel.Store.Spec
import LocustModel.Lemmas.StoreWal
/-
  C18 — a finished flush leaves no garbage and unblocks ingestion.  Property theorems only.
  Histories are arbitrary lists of `Op` (any length, any planner choices, any sizes, any replay orders).
-/
namespace LM.C18
open LM LM.Store

variable {ν κ : Type} [DecidableEq ν]

/-- After ANY history, a completed flush leaves no log segment on disk and the accounted log size is zero;
    the cursor equals the id the next segment will get. -/
theorem C18_log_empty_after_flush (P : Params ν κ) (ops : List (Op ν κ)) (w w' : World ν κ) (fi : FlushIn ν)
    (hrun : run P ops (initWorld P) = .ok w) (hflush : flush P w fi = .ok w') :
    w'.disk.wal = [] ∧ w'.mem.walSize = 0 ∧ w'.mem.cat.earliest = w'.mem.cat.nextWal := by
  have h := walInv_flush P w w' fi (walInv_run P ops w hrun) hflush
  exact ⟨h.2.1, h.2.2.1, by rw [h.2.2.2.1, h.2.2.2.2]⟩

/-- The freeze block alone (before batching, persisting, compaction) already re-enables ingestion:
    `*wal_size = 0` under the ingestion lock.  Holds for every state and every limit. -/
theorem C18_ingest_enabled_after_freeze (P : Params ν κ) (w : World ν κ) : ingestEnabled P (freeze w) := by
  simp [ingestEnabled, freeze]

/-- … and ingestion is still enabled when the whole flush has completed. -/
theorem C18_ingest_enabled_after_flush (P : Params ν κ) (ops : List (Op ν κ)) (w w' : World ν κ) (fi : FlushIn ν)
    (hrun : run P ops (initWorld P) = .ok w) (hflush : flush P w fi = .ok w') : ingestEnabled P w' := by
  have h := C18_log_empty_after_flush P ops w w' fi hrun hflush
  simp [ingestEnabled, h.2.1]

/-- The accounted log size is, after any history, exactly the size of the segments on disk (so it cannot drift
    over repeated ingest / flush / restart cycles). -/
theorem C18_walsize_exact (P : Params ν κ) (ops : List (Op ν κ)) (w : World ν κ)
    (hrun : run P ops (initWorld P) = .ok w) : w.mem.walSize = (w.disk.wal.map (·.bytes)).sum :=
  (walInv_run P ops w hrun).size

/-- The number of log segments on disk is `nextWal - earliest` after any history: bounded by the number of
    ingestion calls since the last completed flush, whatever happened before. -/
theorem C18_segments_bounded (P : Params ν κ) (ops : List (Op ν κ)) (w : World ν κ)
    (hrun : run P ops (initWorld P) = .ok w) : w.disk.wal.length = w.mem.cat.nextWal - w.mem.cat.earliest := by
  have h := (walInv_run P ops w hrun).ids
  have : (walIds w.disk).length = w.disk.wal.length := by simp [walIds]
  rw [← this, h]; simp

-- non-vacuity: a concrete history (ingest, flush) runs without fault and ends with an empty log
example : ∃ w, run (ν := Nat) (κ := Nat) ⟨id, 0, [.columnName]⟩
      [.ingest [(.user 1, ⟨1, [(.user 7, [.val 5])]⟩)] 10, .flush ⟨[], fun _ => ["all"], fun _ => ["all"]⟩]
      (initWorld ⟨id, 0, [.columnName]⟩) = .ok w ∧ w.disk.wal = [] ∧ w.mem.walSize = 0 :=
  ⟨_, rfl, by decide, by decide⟩

end LM.C18
