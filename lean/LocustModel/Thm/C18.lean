import LocustModel.Store.Machine
import LocustModel.Store.Spec
import LocustModel.Lemmas.StoreWal
import LocustModel.Lemmas.StoreDurableRun
import LocustModel.Lemmas.StoreExample
/-
  C18 — a finished flush leaves no garbage and unblocks ingestion.  Property theorems only.
  Histories are arbitrary lists of `Op` (any length, any planner choices, any sizes, any replay orders).
-/
namespace LM.C18
open LM LM.Store

variable {ν κ : Type} [DecidableEq ν]

/-- After ANY history, a completed flush leaves no log segment on disk and the accounted log size is zero;
    the cursor equals the id the next segment will get. -/
theorem C18_log_empty_after_flush (P : Params ν κ) (ops : List (Op ν κ)) (w w' : World ν κ) (fi : FlushIn ν)
    (hrun : run P ops (initWorld P) = .ok w) (hflush : flush P w fi = .ok w') :
    w'.disk.wal = [] ∧ w'.mem.walSize = 0 ∧ w'.mem.cat.earliest = w'.mem.cat.nextWal := by
  have h := walInv_flush P w w' fi (walInv_run P ops w hrun) hflush
  exact ⟨h.2.1, h.2.2.1, by rw [h.2.2.2.1, h.2.2.2.2]⟩

/-- The freeze block alone (before batching, persisting, compaction) already re-enables ingestion:
    `*wal_size = 0` under the ingestion lock.  Holds for every state and every limit. -/
theorem C18_ingest_enabled_after_freeze (P : Params ν κ) (w : World ν κ) : ingestEnabled P (freeze w) := by
  simp [ingestEnabled, freeze]

/-- … and ingestion is still enabled when the whole flush has completed. -/
theorem C18_ingest_enabled_after_flush (P : Params ν κ) (ops : List (Op ν κ)) (w w' : World ν κ) (fi : FlushIn ν)
    (hrun : run P ops (initWorld P) = .ok w) (hflush : flush P w fi = .ok w') : ingestEnabled P w' := by
  have h := C18_log_empty_after_flush P ops w w' fi hrun hflush
  simp [ingestEnabled, h.2.1]

/-- The accounted log size is, after any history, exactly the size of the segments on disk (so it cannot drift
    over repeated ingest / flush / restart cycles). -/
theorem C18_walsize_exact (P : Params ν κ) (ops : List (Op ν κ)) (w : World ν κ)
    (hrun : run P ops (initWorld P) = .ok w) : w.mem.walSize = (w.disk.wal.map (·.bytes)).sum :=
  (walInv_run P ops w hrun).size

/-- The number of log segments on disk is `nextWal - earliest` after any history: bounded by the number of
    ingestion calls since the last completed flush, whatever happened before. -/
theorem C18_segments_bounded (P : Params ν κ) (ops : List (Op ν κ)) (w : World ν κ)
    (hrun : run P ops (initWorld P) = .ok w) : w.disk.wal.length = w.mem.cat.nextWal - w.mem.cat.earliest := by
  have h := (walInv_run P ops w hrun).ids
  have : (walIds w.disk).length = w.disk.wal.length := by simp [walIds]
  rw [← this, h]; simp

/-- The directory after a completed flush, after ANY history and with ANY planned compactions: no log segment, the
    catalogue file exists, and for every table the partition files on disk are EXACTLY the files the catalogue
    file refers to (same ids, same sub-partition keys, each once; no file of a merged-away partition, no orphan).
    The model has no other kind of file (temporary files are below the granularity of a completed call). -/
theorem C18_clean (P : Params ν κ) (hP : ParamsOk P) (ops : List (Op ν κ)) (hwf : HistWF ops)
    (w w' : World ν κ) (fi : FlushIn ν) (hfi : FlushWF fi)
    (hrun : run P ops (initWorld P) = .ok w) (hflush : flush P w fi = .ok w') :
    w'.disk.wal = [] ∧ w'.mem.walSize = 0 ∧
    ∃ mf, w'.disk.metaFile = some mf ∧ ∀ t, fileNames (w'.disk.parts t) = expectedFiles (mf.parts t) := by
  obtain ⟨pre, hd⟩ := durable_run P hP ops hwf w hrun
  obtain ⟨hd', _, hwal, hmeta⟩ := hd.flush hP.reencode hfi hflush
  have h0 := (walInv_flush P w w' fi hd.wal hflush).2.2.1
  exact ⟨hwal, h0, _, hmeta, fun t => hd'.files_exact t⟩

/-- File counts stay bounded by the catalogue over any number of ingest / flush / restart cycles: at EVERY point of
    EVERY history the partition files of a table are exactly the files of its catalogue entries (so their number is
    the number of sub-partitions the catalogue lists), the catalogue in memory is the one in the catalogue file, and
    the number of log segments is the number of ingestion calls since the last completed flush. -/
theorem C18_bounded (P : Params ν κ) (hP : ParamsOk P) (ops : List (Op ν κ)) (hwf : HistWF ops) (w : World ν κ)
    (hrun : run P ops (initWorld P) = .ok w) :
    (∀ t, fileNames (w.disk.parts t) = expectedFiles (w.mem.cat.parts t)) ∧
    (∀ t, (w.disk.parts t).length = ((w.mem.cat.parts t).map (fun m => m.keys.length)).sum) ∧
    w.mem.cat.parts = (w.disk.metaFile.getD ⟨0, fun _ => []⟩).parts ∧
    w.disk.wal.length = w.mem.cat.nextWal - w.mem.cat.earliest := by
  obtain ⟨pre, hd⟩ := durable_run P hP ops hwf w hrun
  refine ⟨fun t => hd.files_exact t, fun t => ?_, hd.metaEq, C18_segments_bounded P ops w hrun⟩
  have := congrArg List.length (hd.files_exact t)
  rw [expectedFiles_length] at this
  simpa [fileNames] using this

-- non-vacuity: a concrete history (ingest, flush) runs without fault and ends with an empty log
example : ∃ w, run (ν := Nat) (κ := Nat) ⟨id, 0, [.columnName]⟩
      [.ingest [(.user 1, ⟨1, [(.user 7, [.val 5])]⟩)] 10, .flush ⟨[], fun _ => ["all"], fun _ => ["all"]⟩]
      (initWorld ⟨id, 0, [.columnName]⟩) = .ok w ∧ w.disk.wal = [] ∧ w.mem.walSize = 0 :=
  ⟨_, rfl, by decide, by decide⟩

-- non-vacuity of C18_clean / C18_bounded: history with a compaction (partitions 0 and 1 of table 1 merged into 2,
-- two sub-partition files), a restart with reversed replay, a final flush: the directory holds exactly the files of
-- the catalogue — the files of the merged-away partitions 0 and 1 are gone
example : ∃ w, ParamsOk Ex.P0 ∧ HistWF Ex.opsB ∧ run Ex.P0 Ex.opsB (initWorld Ex.P0) = .ok w ∧
    fileNames (w.disk.parts (.user 1)) = [(2, "a"), (2, "b"), (3, "all")] ∧ w.disk.wal = [] ∧ w.mem.walSize = 0 ∧
    (w.disk.metaFile.map (fun mf => mf.parts (.user 1))) = some [⟨2, 0, 3, ["a", "b"]⟩, ⟨3, 3, 1, ["all"]⟩] :=
  ⟨_, Ex.P0_ok, Ex.opsB_wf, rfl, by decide, rfl, rfl, by decide⟩

end LM.C18
