import LocustModel.Codec.Decode2
import LocustModel.Codec.Rebuild
import LocustModel.Store.C07Machine
namespace LM.C07
open LM LM.Codec LM.D2

theorem C07_decodeQ_base {dec : Section → Section} {c : Col} {v : SVal} (h : ImgBase c v) : decodeQ dec c = .ok v := by
  cases h <;> simp_all [decodeQ, Codec.decode, Col.toQ, Op.toQ, runOps, step, ofSection, natsOf, natsToInts]

end LM.C07
