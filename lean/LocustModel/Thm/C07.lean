import LocustModel.Codec.Decode2
import LocustModel.Codec.Rebuild
import LocustModel.Store.C07Machine
import LocustModel.Lemmas.C07Decode
import LocustModel.Lemmas.C07Rebuild
import LocustModel.Lemmas.C07Present
import LocustModel.Lemmas.C07Builders
import LocustModel.Lemmas.C07Machine
import LocustModel.Lemmas.C07Reenc
import LocustModel.Lemmas.C07Env
import LocustModel.Lemmas.C07Tiles
import LocustModel.Lemmas.C07Real
/-
  C07 — flush, compaction and eviction never change table content.  Property theorems only.

  Models:  `D2.decode2` mirrors the free fn `decode` of src/mem_store/column.rs (= `DataSource::decode`, used only by
  `InnerLocustDB::compact`);  `D2.decodeQ` is the query path (`Codec::decode_ops`, C01's model) and is the
  SPECIFICATION of what a column image means;  `Rebuild.pushDecoded / pushAll` mirror the `match decoded.get_type()`
  re-push of `compact` and the null-map part of `ColumnBuffer`;  `C07M` is one table under maintenance
  (`ingest`, `freeze`, `batch`, `compact k`, `evict`, `restart`), with `content` = partitions by offset ++ frozen
  buffer ++ open buffer as the specification of what a query sees.

  All statements are for column images / cell lists / partition lists / histories of ANY size.  lz4 / pco are the
  parameter `dec` with the round trip `dec (enc s) = s` as an explicit hypothesis (inside `Img`, `builder_img`);
  that the real builders read back what was pushed is C01's theorem and enters as `BuildOk env`.
-/
namespace LM.C07
open LM LM.Codec LM.D2 LM.Rebuild LM.C07M
open LM.Bitmap (isSet)

/-! ## 1. the second decoder agrees with the query path -/

/-- **`decode2_eq_decode`.**  On EVERY column image a builder can produce — the 21 codec shapes of
    `IntegerColumn::new_boxed` / `create_col` (u8/u16/u32 × offset × delta × nullable, plain i64), `FloatColumn`,
    `fast_build_string_column` (dictionary u8/u16/u32, packed, hex-packed; nullable or not), `Column::null`, each
    plain or with section 0 lz4- / pco-compressed, all lengths, all contents — the free `decode` used by compaction
    returns exactly what the query path reads: same values, same null map, same type. -/
theorem C07_decode2_eq_decode (dec : Section → Section) (c : Col) (v : SVal) (h : Img dec c v) :
    decode2 dec c = decodeQ dec c ∧ decodeQ dec c = .ok v := by
  rw [decode2_img h, decodeQ_img h]; exact ⟨rfl, rfl⟩

/-- non-vacuity: a nullable u8 column with an offset (`[PushDataSection(1), Nullable, Add(U8, -5)]`, the shape on
    which compaction used to turn NULL into the offset), lz4-compressed. -/
example : ∃ v, Img (fun s => if s = .comp [9, 9] 0 then .nat .u8 [8, 0, 12] else s)
      ⟨3, [.lz4 .u8 3, .push 1, .nullable, .add .u8 (-5)], [.comp [9, 9] 0, .bitvec [5]]⟩ v ∧
      cellsOf v = [.int 3, .null, .int 7] :=
  ⟨⟨.i64 [3, -5, 7], some [5]⟩,
   .lz4 (.intAddN 3 .u8 trivial (-5) [8, 0, 12] [5] [3, -5, 7] rfl) .u8 rfl 3 [9, 9] 0 (by decide),
   by decide⟩

/-- Every builder image has one of the codec op lists the driver accepts (`builderShape` is evaluated on every real
    column the harness sees; a column outside the table is reported as a correspondence break). -/
theorem C07_img_builderShape (dec : Section → Section) (c : Col) (v : SVal) (h : Img dec c v) :
    builderShape c.ops = true := by
  cases h with
  | plain h => cases h <;> simp_all [builderShape, baseShape]
  | lz4 h t ht n p tag hdec => cases h <;> simp_all [builderShape, baseShape]
  | pco h t ht n fp p tag hdec => cases h <;> simp_all [builderShape, baseShape]

/-- **Builders ⊆ Img.**  Whatever C01's model of `ColumnBuffer::finalize` (`IntegerColumn::new_boxed`,
    `FloatColumn::new_boxed`, `fast_build_string_column`, `Column::null`) followed by `lz4_or_pco_encode` leaves
    behind, for any push history: if the query path reads `v` from it, it is a builder image with value `v` — so
    `C07_decode2_eq_decode` applies to it.  Library assumptions: compressing a typed section yields a compressed
    section, the round trip is the identity, `Null` sections are never compressed. -/
theorem C07_builders_only_img (cv : Conv) (cp : Compressor) (use : Bool) (cb : ColBuf) (q : Column) (v : SVal)
    (hq : cb.finalize cv = .ok q)
    (henc : ∀ s, secET s ≠ none → ∃ p tag, cp.enc s = .comp p tag)
    (hlaw : ∀ s, cp.dec (cp.enc s) = s)
    (huse : use = true → ∀ s0 rest, q.sections = s0 :: rest → secET s0 ≠ none)
    (hv : Codec.decode cp.dec (compress cp use q) = .ok v) :
    ∃ c : Col, c.toQ = compress cp use q ∧ Img cp.dec c v ∧ decode2 cp.dec c = .ok v := by
  obtain ⟨c, h1, h2⟩ := builder_img cv cp use cb q v hq henc hlaw huse hv
  exact ⟨c, h1, h2, decode2_img h2⟩

/-- **C01 ⇒ `BuildOk`, pointwise.**  For EVERY sequence of pushes ingestion can issue on one `ColumnBuffer` (any mix of
    `push_ints` / `push_floats` / `push_strings` / `push_nulls`, any sizes; i64 values, strings < 2^24 bytes, ≥ 1 row),
    with or without compression of section 0: `finalize` succeeds, the stored image is a builder image, the query path
    reads C01's specification cells from it, and the free `decode` of compaction returns the very same value.  This is
    the content of the hypothesis `BuildOk` for the REAL builder models (C01's refinement proof + `builder_img`). -/
theorem C07_builder_reads_back (cv : Conv) (hcv : ConvOk cv) (cp : Compressor) (hcp : CompOk cp) (use : Bool)
    (ops : List Codec.Op) (hops : ∀ op ∈ ops, OpOk op) (hrows : specColumn cv ops ≠ [])
    (huse : use = true → ∃ cell ∈ specColumn cv ops, cell ≠ .null) :
    ∃ cb q c v, ColBuf.applyAll cv {} ops = .ok cb ∧ cb.finalize cv = .ok q ∧ c.toQ = compress cp use q ∧
      Img cp.dec c v ∧ cellsOf v = specColumn cv ops ∧ decode2 cp.dec c = .ok v :=
  builder_reads_back cv hcv cp hcp use ops hops hrows huse

/-- non-vacuity: nullable ints with a NULL gap, compressed (C01's demo conversion / compressor satisfy the hypotheses). -/
example : ∃ cb q c v, ColBuf.applyAll demoConv {} [.ints [5, 300], .nulls 2, .ints [7]] = .ok cb ∧
    cb.finalize demoConv = .ok q ∧ c.toQ = compress demoComp true q ∧ Img demoComp.dec c v ∧
    cellsOf v = [.int 5, .int 300, .null, .null, .int 7] ∧ decode2 demoComp.dec c = .ok v :=
  C07_builder_reads_back demoConv demoConv_ok demoComp demoComp_ok true [.ints [5, 300], .nulls 2, .ints [7]]
    (by intro op hop; simp at hop; rcases hop with h | h | h <;> subst h <;> simp [OpOk] <;> decide)
    (by decide) (fun _ => ⟨.int 5, by decide, by decide⟩)

/-! ## 2. re-pushing the decoded values rebuilds the same cells -/

/-- **`rebuild_cells`.**  Pushing the decoded values of a single-typed column (any number of partitions, each dense,
    nullable, or all-NULL / absent, any lengths, any null maps) into a fresh `ColumnBuffer` the way `compact` does
    never panics and yields a buffer whose rows read as the concatenation of the values' cells — NULLs preserved. -/
theorem C07_rebuild_cells (k : Kind) (hk1 : k ≠ .empty) (hk2 : k ≠ .other) (vs : List SVal) (hh : homog k vs = true) :
    ∃ b, pushAll {} vs = .ok b ∧ b.length = (vs.map fun v => (cellsOf v).length).sum ∧
      b.cells = vs.flatMap cellsOf := by
  obtain ⟨b, h1, _, h3, h4⟩ := pushAll_spec k hk1 hk2 vs {} wf_default (Or.inl rfl) hh
  exact ⟨b, h1, by simpa using h3, by simpa [Buf.cells] using h4⟩

/-- non-vacuity: dense ints, then a nullable value (no bitmap exists yet — the case in which `push_present` used to
    drop the null map), then an absent column, then another nullable value. -/
example : ∃ b, pushAll {} [⟨.i64 [1, 2], none⟩, ⟨.i64 [0, 4, 0], some [2]⟩, ⟨.null 2, none⟩, ⟨.i64 [7], some [1]⟩] = .ok b ∧
    b.cells = [.int 1, .int 2, .null, .int 4, .null, .null, .null, .int 7] := by
  obtain ⟨b, h1, _, h3⟩ := C07_rebuild_cells .int (by decide) (by decide)
    [⟨.i64 [1, 2], none⟩, ⟨.i64 [0, 4, 0], some [2]⟩, ⟨.null 2, none⟩, ⟨.i64 [7], some [1]⟩] (by decide)
  exact ⟨b, h1, by rw [h3]; decide⟩

/-- **`push_present` for every accumulated length and every stored bitmap length.**  The bitmap of a `ColumnBuffer` is
    grown on demand (`BitVecMut::set` pushes bytes only up to the last bit it sets), so for `L` accumulated rows the
    stored vector `p` is any number of bytes up to `ceil(L / 8)` — SHORTER whenever the rows end in NULLs that cover whole
    bytes (a nullable partition ending in ≥ 8 NULLs, an all-NULL / absent partition, `init_present` of an `Empty` buffer);
    missing bytes read as NULL.  `BmWF L p` is that representation invariant: bytes, at most `ceil(L / 8)` of them, no bit at
    or beyond `L`.  For ALL `L` (multiple of 8 or not), ALL such `p`, ALL supplied null maps (or none) and counts,
    `push_present` keeps the invariant for `L + n` rows, leaves every earlier row as it was, and row `L + j` is present
    iff the supplied map says so (iff always, without a map): bits are addressed by row number, never by where the byte
    vector happens to end.  Without a bitmap and without a supplied map none is created. -/
theorem C07_push_present_any_bitmap_length (present newp : Option (List Nat)) (L n : Nat)
    (hwf : ∀ p, present = some p → BmWF L p) :
    match Rebuild.pushPresent present newp L n with
    | none => present = none ∧ newp = none
    | some q =>
      BmWF (L + n) q ∧
      (∀ j, j < L → isSet q j = match present with | some p => isSet p j | none => true) ∧
      (∀ j, j < n → isSet q (L + j) = newBit newp j) :=
  pushPresent_bmwf present newp L n hwf

/-- non-vacuity, exactly the shape on which an "append the map when the length is byte aligned" shortcut goes wrong:
    16 rows = 8 values then 8 NULLs are stored as ONE byte `[0xff]` (< 16 / 8 bytes); appending 8 rows `NULL, 7 values`
    (map `[0xfe]`) at the aligned length 16 must give `[0xff, 0x00, 0xfe]` — the new map lands in byte 2, not at the end
    of the vector (`[0xff, 0xfe]` would un-NULL rows 9..15 and NULL rows 17..23). -/
example : BmWF 16 [255] ∧ [255].length < 16 / 8 ∧ Rebuild.pushPresent (some [255]) (some [254]) 16 8 = some [255, 0, 254] ∧
    BmWF 24 [255, 0, 254] ∧ (∀ j, j < 8 → isSet [255, 0, 254] (16 + j) = isSet [254] j) := by
  have hwf : BmWF 16 [255] := BmWF.of_short (by unfold Bitmap.Bytes; decide) (by decide)
  have h := C07_push_present_any_bitmap_length (some [255]) (some [254]) 16 8 (fun p hp => by cases hp; exact hwf)
  have e : Rebuild.pushPresent (some [255]) (some [254]) 16 8 = some [255, 0, 254] := by decide
  rw [e] at h
  exact ⟨hwf, by decide, e, h.1, h.2.2⟩

/-- **the bitmap of every rebuilt buffer is well formed.**  Whatever sequence of decoded values the compaction loop pushes
    into a fresh `ColumnBuffer` (dense, nullable with null maps of any byte length, all-NULL / absent, any lengths, any
    types): if the buffer ends up with a bitmap, that bitmap satisfies the representation invariant for the buffer's
    row count — bytes, never longer than `ceil(length / 8)`, no bit at or beyond `length`.  This is the invariant
    `C07_push_present_any_bitmap_length` needs at every push, so its hypothesis holds along every compaction. -/
theorem C07_rebuild_bitmap_wf (vs : List SVal) (b : Buf) (h : pushAll {} vs = .ok b) :
    ∀ p, b.present = some p → BmWF b.length p :=
  pushAll_pwf vs {} pwf_default b h

/-- non-vacuity: the seeded shape end to end on the buffer — a nullable partition of 16 rows ending in 8 NULLs (its bitmap
    is one byte), then a nullable partition of 8 rows starting with a NULL: 24 rows, bitmap `[0xff, 0, 0xfe]`, every
    NULL where it was. -/
example : ∃ b1 b, pushAll {} [⟨.i64 [100, 101, 102, 103, 104, 105, 106, 107, 0, 0, 0, 0, 0, 0, 0, 0], some [255]⟩] = .ok b1 ∧
    b1.length = 16 ∧ b1.present = some [255] ∧
    pushAll {} [⟨.i64 [100, 101, 102, 103, 104, 105, 106, 107, 0, 0, 0, 0, 0, 0, 0, 0], some [255]⟩,
                ⟨.i64 [0, 201, 202, 203, 204, 205, 206, 207], some [254]⟩] = .ok b ∧
    b.length = 24 ∧ b.present = some [255, 0, 254] ∧ BmWF 24 [255, 0, 254] ∧
    b.cells = [.int 100, .int 101, .int 102, .int 103, .int 104, .int 105, .int 106, .int 107,
               .null, .null, .null, .null, .null, .null, .null, .null,
               .null, .int 201, .int 202, .int 203, .int 204, .int 205, .int 206, .int 207] := by
  refine ⟨_, _, rfl, rfl, rfl, rfl, rfl, rfl, ?_, by decide⟩
  exact C07_rebuild_bitmap_wf
    [⟨.i64 [100, 101, 102, 103, 104, 105, 106, 107, 0, 0, 0, 0, 0, 0, 0, 0], some [255]⟩,
     ⟨.i64 [0, 201, 202, 203, 204, 205, 206, 207], some [254]⟩] _ rfl _ rfl

/-- **`rebuild_id`.**  The whole column rebuild of `InnerLocustDB::compact` — stored image (or `Column::null` for a
    partition without the column) → free `decode` → `push_*` by decoded type → `assert_eq!(range.len(), builder.len())`
    → `finalize` → what a query reads from the new image — is the identity on cell lists: the concatenation of the
    partitions' cells with NULLs for partitions that lack the column.  For every column kind incl. all-NULL and absent
    columns, any number of merged partitions, any lengths. -/
theorem C07_rebuild_id (env : Env) (hb : BuildOk env) (xs : ReencIn) (hlen : LenOk xs) (hty : XsTyped xs) :
    reencOf env xs = .ok (xs.flatMap fun x => orNulls x.1 x.2) :=
  reencOf_reId env hb xs hlen hty

/-- non-vacuity (`BuildOk` is satisfiable, `demoEnv_ok`): three partitions — nullable ints, the column absent,
    an all-NULL stretch followed by a value. -/
example : reencOf demoEnv [(3, some [.int 5, .null, .int 7]), (2, none), (3, some [.null, .null, .int (-1)])] =
    .ok [.int 5, .null, .int 7, .null, .null, .null, .null, .int (-1)] := by
  have := C07_rebuild_id demoEnv demoEnv_ok
    [(3, some [.int 5, .null, .int 7]), (2, none), (3, some [.null, .null, .int (-1)])]
    (lenOk_of_B (by decide)) (xsTyped_of_B (k := .int) (Or.inl rfl) (by decide))
  simpa [orNulls] using this

/-! ## 3. every maintenance step preserves the content of every column -/

/-- **freeze + batch** (`Table::freeze_buffer`, `Table::batch`): the buffered rows become the next partition (or
    nothing happens when the buffer is empty); every column reads the same, columns the buffer lacks read NULL. -/
theorem C07_freeze_batch_preserves_content (ty : Name → Kind) (t : Table) (hwf : TWF t) (hty : TTyped ty t) :
    ∃ t1, freeze t = .ok t1 ∧ ∀ n, content (batch t1) n = content t n := by
  obtain ⟨t1, h1, _, _, h3, _⟩ := freeze_batch_content ty t hwf hty
  exact ⟨t1, h1, h3⟩

/-- **compaction** (`InnerLocustDB::compact` + `Table::compact`) with the REAL column rebuild, for ANY number `k` of
    trailing partitions the planner may select (`plan_compaction` returns a contiguous suffix in offset order; its
    size-based choice is an input): never panics, every column — also one that some or all merged partitions lack —
    reads the same before and after, `next_partition_offset` and the open buffer are untouched. -/
theorem C07_compact_preserves_content (env : Env) (hb : BuildOk env) (ty : Name → Kind) (t : Table) (hwf : TWF t)
    (hty : TTyped ty t) (k : Nat) :
    ∃ t', compact (reencOf env) t k = .ok t' ∧ (∀ n, content t' n = content t n) ∧ t'.nextOff = t.nextOff ∧
      t'.buffer = t.buffer := by
  obtain ⟨t', h1, _, _, h3, h4, h5⟩ := compact_content (reencOf env) (reencOf_reId env hb) ty t hwf hty k
  exact ⟨t', h1, h3, h4, h5⟩

/-- **eviction** (`evict_cache` / `enforce_mem_limit` → `Partition::evict`): residency only. -/
theorem C07_evict_preserves_content (t : Table) (n : Name) : content (evict t) n = content t n :=
  evict_content t n

/-- **restart / reload**: partitions come back non-resident, unflushed rows are replayed into the open buffer. -/
theorem C07_restart_preserves_content (t : Table) (hwf : TWF t) (n : Name) : content (restart t) n = content t n :=
  restart_content t hwf n

/-- **`step_preserves_content`.**  Every step of {ingest, flush (freeze, batch, compact any suffix), evict, restart}
    on a well-formed single-typed table succeeds, keeps the table well-formed and single-typed, and changes the
    content of every column by exactly the rows the step ingested (nothing for the maintenance steps). -/
theorem C07_step_preserves_content (env : Env) (hb : BuildOk env) (ty : Name → Kind) (t : Table) (hwf : TWF t)
    (hty : TTyped ty t) (s : Step) (hs : StepOk ty s) :
    ∃ t', step (reencOf env) t s = .ok t' ∧ TWF t' ∧ TTyped ty t' ∧
      ∀ n, content t' n = content t n ++ batchesCol (ingested [s]) n :=
  step_content (reencOf env) (reencOf_reId env hb) ty t hwf hty s hs

/-- maintenance steps proper: the content is literally unchanged -/
theorem C07_maintenance_preserves_content (env : Env) (hb : BuildOk env) (ty : Name → Kind) (t : Table) (hwf : TWF t)
    (hty : TTyped ty t) (s : Step) (hs : ∀ b, s ≠ .ingest b) :
    ∃ t', step (reencOf env) t s = .ok t' ∧ ∀ n, content t' n = content t n := by
  have hok : StepOk ty s := by cases s <;> first | exact absurd rfl (hs _) | trivial
  obtain ⟨t', h1, _, _, h4⟩ := C07_step_preserves_content env hb ty t hwf hty s hok
  refine ⟨t', h1, fun n => ?_⟩
  rw [h4]
  cases s <;> first | exact absurd rfl (hs _) | simp [ingested, batchesCol]

/-! ## 4. histories -/

/-- **`C07_history`.**  For every history over {ingest(batch), flush with any compaction the planner may choose, evict,
    restart}, of any length, over any single-typed table contents (columns present in some batches and absent or
    all-NULL in others): starting from any well-formed table the REAL machine (free `decode` + re-push + builders)
    never panics and the content of every column afterwards = content before ++ the ingested rows, in order. -/
theorem C07_history (env : Env) (hb : BuildOk env) (ty : Name → Kind) (steps : List Step) (t : Table) (hwf : TWF t)
    (hty : TTyped ty t) (hs : ∀ s ∈ steps, StepOk ty s) :
    ∃ t', run (reencOf env) t steps = .ok t' ∧ ∀ n, content t' n = content t n ++ batchesCol (ingested steps) n := by
  obtain ⟨t', h1, _, _, h4⟩ := run_content (reencOf env) (reencOf_reId env hb) ty steps t hwf hty hs
  exact ⟨t', h1, h4⟩

/-- from the empty table: the content is exactly the ingested rows -/
theorem C07_history_from_empty (env : Env) (hb : BuildOk env) (ty : Name → Kind) (hk : ∀ n, TypedK (ty n))
    (steps : List Step) (hs : ∀ s ∈ steps, StepOk ty s) :
    ∃ t', run (reencOf env) {} steps = .ok t' ∧ ∀ n, content t' n = batchesCol (ingested steps) n := by
  obtain ⟨t', h1, h2⟩ := C07_history env hb ty steps {} twf_empty ⟨hk, by simp, by simp⟩ hs
  exact ⟨t', h1, fun n => by rw [h2]; simp [content, batchesCol]⟩

/-- non-vacuity: two batches (the second lacks column `a`, has a late column `b`), flush merging both partitions,
    evict, restart, another batch, flush compacting one partition. -/
example : ∃ t', run (reencOf demoEnv) {}
      [.ingest ⟨2, [("a", [.int 1, .null])]⟩, .flush 0, .ingest ⟨1, [("b", [.int 9])]⟩, .flush 2, .evict, .restart,
       .ingest ⟨1, [("a", [.null]), ("b", [.int 3])]⟩, .flush 1] = .ok t' ∧
      content t' "a" = [.int 1, .null, .null, .null] ∧ content t' "b" = [.null, .null, .int 9, .int 3] := by
  obtain ⟨t', h1, h2⟩ := C07_history_from_empty demoEnv demoEnv_ok (fun _ => .int) (fun _ => Or.inl rfl)
    [.ingest ⟨2, [("a", [.int 1, .null])]⟩, .flush 0, .ingest ⟨1, [("b", [.int 9])]⟩, .flush 2, .evict, .restart,
     .ingest ⟨1, [("a", [.null]), ("b", [.int 3])]⟩, .flush 1]
    (stepsOk_of_B (by decide))
  exact ⟨t', h1, by rw [h2]; decide, by rw [h2]; decide⟩

/-- **`C07_history` with C01's builders plugged in — no builder hypothesis left.**  `realEnv cv cp use` stores, for
    every cell list of C01's domain, the image C01's model of the real builders produces (`C07_real_builder_is_c01`);
    its `BuildOk` is a theorem (`realEnv_ok`, from C01's refinement proof, `builder_img` and the shape analysis), for ANY
    float/integer formatting functions and ANY compressor.  Hence for every history over {ingest, flush k, evict,
    restart} on single-typed columns the machine with the real second decoder, the real re-push and C01's builders
    never panics and shows exactly the ingested rows. -/
theorem C07_history_c01 (cv : Conv) (cp : Compressor) (use : Bool) (ty : Name → Kind) (hk : ∀ n, TypedK (ty n))
    (steps : List Step) (hs : ∀ s ∈ steps, StepOk ty s) :
    ∃ t', run (reencOf (realEnv cv cp use)) {} steps = .ok t' ∧ ∀ n, content t' n = batchesCol (ingested steps) n :=
  C07_history_from_empty (realEnv cv cp use) (realEnv_ok cv cp use) ty hk steps hs

/-- what `realEnv` stores: on C01's domain (i64 integers, strings shorter than 2^24 bytes, ≥ 1 row; `ConvOk`, `CompOk`)
    the image of single-typed cells `cs` is `ColBuf.applyAll` → `finalize` → `compress` applied to the pushes for `cs`,
    it is a builder image and reads back as `cs`. -/
theorem C07_real_builder_is_c01 (cv : Conv) (hcv : ConvOk cv) (cp : Compressor) (hcp : CompOk cp) (use : Bool)
    (k : Kind) (hk : TypedK k) (cs : List Cell) (hu : Uniform k cs) (hne : cs ≠ []) (hok : ∀ c ∈ cs, CellOk c) :
    ∃ v cb q, ColBuf.applyAll cv {} (opsOf cs) = .ok cb ∧ cb.finalize cv = .ok q ∧
      (realBuild cv cp use cs).toQ = compress cp (use && hasValue cs) q ∧ Img cp.dec (realBuild cv cp use cs) v ∧
      cellsOf v = cs := by
  obtain ⟨v, cb, q, h1, h2, h3, h4, h5, _⟩ := realBuild_is_c01 cv hcv cp hcp use k hk cs hu hne hok
  exact ⟨v, cb, q, h1, h2, h3, h4, h5⟩

/-- non-vacuity: C01's demo formatting / compressor, compression on; a nullable column, a late column, compaction of
    2 and of 1 partitions, eviction, restart. -/
example : ∃ t', run (reencOf (realEnv demoConv demoComp true)) {}
      [.ingest ⟨2, [("a", [.int 1, .null])]⟩, .flush 0, .ingest ⟨1, [("b", [.int 9])]⟩, .flush 2, .evict, .restart,
       .ingest ⟨1, [("a", [.null]), ("b", [.int 3])]⟩, .flush 1] = .ok t' ∧
      content t' "a" = [.int 1, .null, .null, .null] ∧ content t' "b" = [.null, .null, .int 9, .int 3] := by
  obtain ⟨t', h1, h2⟩ := C07_history_c01 demoConv demoComp true (fun _ => .int) (fun _ => Or.inl rfl)
    [.ingest ⟨2, [("a", [.int 1, .null])]⟩, .flush 0, .ingest ⟨1, [("b", [.int 9])]⟩, .flush 2, .evict, .restart,
     .ingest ⟨1, [("a", [.null]), ("b", [.int 3])]⟩, .flush 1]
    (stepsOk_of_B (by decide))
  exact ⟨t', h1, by rw [h2]; decide, by rw [h2]; decide⟩

example : ∃ v cb q, ColBuf.applyAll demoConv {} (opsOf [.int 5, .null, .int 300]) = .ok cb ∧ cb.finalize demoConv = .ok q ∧
    (realBuild demoConv demoComp true [.int 5, .null, .int 300]).toQ = compress demoComp (true && hasValue [.int 5, .null, .int 300]) q ∧
    Img demoComp.dec (realBuild demoConv demoComp true [.int 5, .null, .int 300]) v ∧ cellsOf v = [.int 5, .null, .int 300] :=
  C07_real_builder_is_c01 demoConv demoConv_ok demoComp demoComp_ok true .int (Or.inl rfl) _
    (uniform_of_B (by decide)) (by decide)
    (by intro c hc; simp at hc; rcases hc with h | h | h <;> subst h <;> simp [CellOk] <;> decide)

/-- **partition ranges tile `[0, next_partition_offset)`** after every history: `batch` appends at
    `next_partition_offset`, `compact` of ANY suffix puts the merged partition at the offset of the first merged one with
    the summed length, eviction / restart do not move anything.  Holds for every re-encoding (also a faulty one). -/
theorem C07_partitions_tile (re : Reenc) (steps : List Step) (t t' : Table) (h : Tiled t)
    (hr : run re t steps = .ok t') : Tiled t' ∧ t'.nextOff = (t'.parts.map (·.len)).sum := by
  have ht := tiled_run re steps t t' h hr
  exact ⟨ht, by simpa using tiles_end _ _ _ ht⟩

/-- non-vacuity: after ingest 3, flush, ingest 2, flush merging both, ingest 4, flush (no compaction) the partitions are
    [0,5) and [5,9). -/
example : ∃ t', run idReenc {} [.ingest ⟨3, []⟩, .flush 0, .ingest ⟨2, []⟩, .flush 2, .ingest ⟨4, []⟩, .flush 0] = .ok t' ∧
    t'.parts.map (fun p => (p.offset, p.len)) = [(0, 5), (5, 4)] ∧ t'.nextOff = 9 := ⟨_, rfl, by decide, by decide⟩

end LM.C07
