import LocustModel.Lemmas.C17Encode
import LocustModel.Lemmas.C17Json
import LocustModel.Lemmas.C17Server
import LocustModel.Lemmas.C17Double
import LocustModel.Thm.C16
/-
  C17 — the HTTP interface behaves like the embedded one.  Property theorems only.

  Models: `Wire/Response.lean` (`encode_column`, response map, wire, client), `Wire/ResponseJson.lean`
  (JSON renderings and readers), `Wire/ResponseServer.lean` (handlers, `map_err_response`, histories),
  `Gen/Status.lean` (regenerated from the Rust source on every run).  Specification: `Wire/ResponseSpec.lean`.
  Columns range over all lists of any length; integers over all of i64; floats over all 64-bit patterns.
-/
namespace LM.C17
open LM LM.Wire LM.Wire.Response LM.Wire.XorFloat LM.Gen.Status

/-! ## Binary responses: `encode_column` → wire → client -/

/-- The 4-bit signature is the set of value kinds present: it stays below 16, contains the bit of every
    value, and nothing else. -/
theorem C17_type_signature (xs : List Val) :
    typeSignature xs < 16 ∧ (∀ v ∈ xs, sigBit v ||| typeSignature xs = typeSignature xs) ∧
    (∀ m, (∀ v ∈ xs, sigBit v ||| m = m) → typeSignature xs ||| m = m) :=
  ⟨typeSignature_lt xs, fun _ hv => sig_absorb hv, fun m h => sig_subset m h⟩

/-- `encode_column` is faithful, for every column kind, all 16 signatures of a Mixed column, and both float
    encodings: it never reaches an `unreachable!()`, and what the caller of `multi_query` holds after wire and
    client decoding agrees cell by cell with the specified view of the embedded column under the mask in effect
    (all 64 bits unless xor compression with a reduced mantissa was asked for).  `IntsOk`: the integer layouts of
    api.rs return the column (C16's theorem; discharged in `C17_binary_faithful`). -/
theorem C17_encode_column_faithful (col : BCol) (o : Opts) (hwf : WfCol col)
    (hm : o.xor = true → mantissaTooLarge o.mantissa = false) (hi : IntsOk col) :
    ∃ w, encodeColumn col o = .ok w ∧ BinColAgree o col w := encode_column_faithful col o hwf hm hi

/-- Without a reduced mantissa (or without xor compression, where the mantissa setting is ignored) the client's
    cells are exactly the specified view. -/
theorem C17_encode_column_exact (col : BCol) (o : Opts) (hwf : WfCol col)
    (ho : o.xor = false ∨ o.mantissa = none) (hi : IntsOk col) :
    ∃ w c, encodeColumn col o = .ok w ∧ deliver w = .ok c ∧ c.cells = some (specView col) := by
  have hm : o.xor = true → mantissaTooLarge o.mantissa = false := by
    intro hx; rcases ho with h | h
    · simp [h] at hx
    · simp [h, mantissaTooLarge]
  obtain ⟨w, e, c, ys, d, hc, z⟩ := C17_encode_column_faithful col o hwf hm hi
  have hmask : effMask o = ALL_ONES := by
    rcases ho with h | h
    · simp [effMask, h]
    · simp [effMask, h, maskOf, ALL_ONES]
  rw [hmask] at z
  have hx : ∀ v ∈ specView col, ∀ b, v = .float b → b < U64 := by
    intro v hv b hb
    simp only [specView] at hv
    split at hv
    · obtain ⟨u, hu, rfl⟩ := List.mem_map.mp hv
      cases u with
      | null => simp [nanNull] at hb; subst hb; exact NULL_BITS_lt
      | float b' => simp [nanNull] at hb; subst hb; exact hwf.1 _ hu b' rfl
      | int i => simp [nanNull] at hb
      | str s => simp [nanNull] at hb
    · exact hwf.1 v hv b hb
  exact ⟨w, c, e, d, by rw [hc, zip2_allOnes_eq z hx]⟩

/-- Reading the reserved NaN back as NULL recovers the embedded cells exactly, on the documented value domain
    (no float cell carries the reserved pattern). -/
theorem C17_view_recovers_cells (col : BCol) (h : NoSentinel col.cells) :
    (specView col).map unNanNull = col.cells := by
  have key : ∀ l : List Val, (∀ v ∈ l, v ≠ .float NULL_BITS) → (l.map nanNull).map unNanNull = l ∧ l.map unNanNull = l := by
    intro l hl
    induction l with
    | nil => exact ⟨rfl, rfl⟩
    | cons v vs ih =>
      obtain ⟨i1, i2⟩ := ih (fun w hw => hl w (List.mem_cons_of_mem _ hw))
      have hv := hl v (List.mem_cons_self)
      have e1 : unNanNull (nanNull v) = v := by
        cases v with
        | null => simp [nanNull, unNanNull]
        | float b => simp only [nanNull, unNanNull]; rw [if_neg]; intro hb; exact hv (by rw [hb])
        | int i => rfl
        | str s => rfl
      have e2 : unNanNull v = v := by
        cases v with
        | null => rfl
        | float b => simp only [unNanNull]; rw [if_neg]; intro hb; exact hv (by rw [hb])
        | int i => rfl
        | str s => rfl
      exact ⟨by simp [e1, i1], by simp [e2, i2]⟩
  simp only [specView]
  split
  · exact (key _ h).1
  · exact (key _ h).2

/-- The domain restriction is necessary: a float equal to the reserved NaN and a NULL produce the same wire column. -/
theorem C17_sentinel_alias (o : Opts) :
    encodeColumn (.mixed [.float NULL_BITS, .float 0]) o = encodeColumn (.mixed [.null, .float 0]) o := by
  simp [encodeColumn, typeSignature, sigBit, floatsOrNull]

/-- The documented assert: xor compression with `mantissa > 52` panics the handler on any non-empty float column. -/
theorem C17_mantissa_assert (x : Nat) (xs : List Nat) (m : Nat) (hm : 52 < m) :
    encodeColumn (.float (x :: xs)) { xor := true, mantissa := some m } = .error .assert := by
  simp [encodeColumn, floatColumn, C16.C16_xor_mantissa_assert m hm x xs 100]

/-- Every well-formed embedded column, through the real layouts of api.rs (C16): the binary response is faithful. -/
theorem C17_binary_faithful (col : BCol) (o : Opts) (hwf : WfCol col) (hints : IntsInRange col)
    (hm : o.xor = true → mantissaTooLarge o.mantissa = false) :
    ∃ w, encodeColumn col o = .ok w ∧ BinColAgree o col w := binary_faithful col o hwf hints hm

-- Non-vacuity: a nullable float column (signature 12) with a NaN payload, an infinity and a negative zero meets
-- the hypotheses, takes the float path, and NULL travels as the reserved NaN.
example :
    let col : BCol := .mixed [.float 0x7ff8000000000001, .null, .float 0x7ff0000000000000, .float 0x8000000000000000]
    WfCol col ∧ typeSignature col.cells = 12 ∧ floatish col.cells = true ∧
    encodeColumn col { xor := false, mantissa := none }
      = .ok (.float [0x7ff8000000000001, NULL_BITS, 0x7ff0000000000000, 0x8000000000000000]) := by
  refine ⟨⟨?_, by decide⟩, by decide, by decide, by rfl⟩
  intro v hv b hb
  simp [BCol.cells] at hv
  rcases hv with rfl | rfl | rfl | rfl <;> simp at hb <;> subst hb <;> decide

-- Non-vacuity for the other outcomes: signature 5 stays Mixed, signature 2 becomes String, signature 4 becomes Null.
example : encodeColumn (.mixed [.int 7, .null]) { xor := true, mantissa := some 3 } = .ok (.mixed [.int 7, .null]) ∧
    encodeColumn (.mixed [.str "x61", .str "x"]) { xor := true, mantissa := none } = .ok (.str ["x61", "x"]) ∧
    encodeColumn (.mixed [.null, .null]) { xor := false, mantissa := none } = .ok (.null 2) ∧
    encodeColumn (.mixed []) { xor := false, mantissa := none } = .ok (.mixed []) := ⟨by rfl, by rfl, by rfl, by rfl⟩

/-! ## JSON responses -/

/-- One cell: what a typed reader gets back is the cell itself, except that a non-finite float reads as NULL. -/
theorem C17_json_cell (v : Val) : readScalar (jsonVal v) = finiteOrNull v := readScalar_jsonVal v

/-- Integers are exact JSON numbers over all of i64 (serde_json's i64 reader gets the same integer). -/
theorem C17_json_int_exact (i : Int) : readScalar (jsonVal (.int i)) = .int i := rfl

/-- NULL ↦ `null`, a finite float ↦ itself, a string ↦ itself. -/
theorem C17_json_null_and_finite (v : Val) (h : ∀ b, v = .float b → isFinite b = true) :
    readScalar (jsonVal v) = v := by
  rw [readScalar_jsonVal, finiteOrNull_id_of_finite h]

/-- One column (any kind; a `Null(n)` column is the bare number `n`). -/
theorem C17_json_column (c : BCol) : readCol (jsonCol c) = c.cells.map finiteOrNull := readCol_jsonCol c

/-- `/query_cols`, `/multi_query_cols` (JSON): `colnames` is the embedded `colnames` in order, every embedded
    column is found under its name with its cells (non-finite floats as NULL), and the object has no other key —
    provided equal names carry equal columns (in particular when the names are distinct). -/
theorem C17_json_faithful_partial (o : QOut) (hc : ConsistentNames o.columns) :
    JsonColsAgree o (queryOutputToJsonCols o.colnames o.columns) := jsonCols_agree o hc

/-- Full-strength statement for the column endpoints: every result is rendered faithfully. -/
def C17_json_statement : Prop := ∀ o : QOut, JsonColsAgree o (queryOutputToJsonCols o.colnames o.columns)

/-- It fails for a result with two different columns under one name (`SELECT a AS x, b AS x`): the response
    object is keyed by name and keeps only the later column (open finding `http-cols-duplicate-names`). -/
theorem C17_json_refuted : ¬ C17_json_statement := by
  intro h
  have := (h { colnames := ["x", "x"], columns := [("x", .int [1]), ("x", .int [2])], rows := [] }).2.1
    "x" (.int [1]) (by simp)
  obtain ⟨jc, hl, hr⟩ := this
  simp [queryOutputToJsonCols, jsonColsMap, insertKV, lookupKV] at hl
  subst hl
  simp [readCol, jsonCol, BCol.cells, readScalar, finiteOrNull] at hr

/-- Distinct names are the common case of the hypothesis. -/
theorem C17_json_faithful_of_nodup (o : QOut) (hn : (o.columns.map (·.1)).Nodup) :
    JsonColsAgree o (queryOutputToJsonCols o.colnames o.columns) :=
  C17_json_faithful_partial o (consistent_of_nodup hn)

/-- `/query`: names and order of columns, order of rows and every cell (no name-keyed map here, so no
    restriction on names). -/
theorem C17_json_rows_faithful (o : QOut) : JsonRowsAgree o (queryRowsJson o.colnames o.rows) := jsonRows_agree o

-- Non-vacuity: a result with an integer beyond 2^53, a NULL column, a non-finite float and a string.
example :
    (([("i", BCol.int [9007199254740993]), ("n", .null 2), ("f", .mixed [.float 0x7ff0000000000000, .str "x61"])]).map (·.1)).Nodup ∧
    queryOutputToJsonCols ["i", "n", "f"]
        [("i", .int [9007199254740993]), ("n", .null 2), ("f", .mixed [.float 0x7ff0000000000000, .str "x61"])] =
      ⟨["i", "n", "f"], [("i", .arr [.int 9007199254740993]), ("n", .num 2), ("f", .arr [.null, .str "x61"])]⟩ := by
  exact ⟨by decide, by decide⟩

/-- A reader that has only doubles for numbers (JavaScript `JSON.parse`) still gets every integer of magnitude
    at most 2^53 back exactly: the double it reads denotes the integer itself. -/
theorem C17_json_int_double_reader_exact (i : Int) (h : i.natAbs ≤ 2 ^ 53) :
    ∃ b, jsReadScalar (jsonVal (.int i)) = .float b ∧ f64IntValue? b = some i :=
  ⟨_, rfl, f64IntValue_i64AsF64 i (by simpa [p53_eq] using h)⟩

/-- Beyond 2^53 it does not: 2^53 + 1 is read as 2^53 (and so is 2^53), while the number text in the response
    is exact (`C17_json_int_exact`).  The claim for integers is therefore: exact for a typed reader over all of i64,
    exact for a double-only reader up to 2^53, and not beyond. -/
theorem C17_json_int_double_reader_refuted :
    jsReadScalar (jsonVal (.int 9007199254740993)) = jsReadScalar (jsonVal (.int 9007199254740992)) ∧
    (∃ b, jsReadScalar (jsonVal (.int 9007199254740993)) = .float b ∧ f64IntValue? b = some 9007199254740992) := by
  exact ⟨by decide, _, rfl, by decide⟩

/-! ## Errors -/

/-- Every `QueryError` variant is mapped to a 4xx/5xx status (table regenerated from `map_err_response`). -/
theorem C17_status_total : ∀ e : QErr, IsErrorStatus (mapErrStatus e) := by
  intro e; cases e <;> decide

/-- Every query endpoint routes the result of `run_query` through `map_err_response` and none `.unwrap()`s it
    (read off the handler bodies by the translator). -/
theorem C17_handlers_map_errors : ∀ ep : Endpoint, handlerMapsErrors ep = true ∧ handlerUnwrapsResult ep = false := by
  intro ep; cases ep <;> decide

/-- Hence a failing query yields an error status at every endpoint, never a dropped connection. -/
theorem C17_error_outcome (ep : Endpoint) (e : QErr) : ∃ s, errorOutcome ep e = .error s ∧ IsErrorStatus s := by
  refine ⟨mapErrStatus e, ?_, C17_status_total e⟩
  simp [errorOutcome, (C17_handlers_map_errors ep).2]

example : mapErrStatus .NotImplemented = 501 ∧ mapErrStatus .FatalError = 500 ∧ mapErrStatus .Overflow = 400 := by decide

/-! ## Whole responses, requests, histories -/

/-- One query result through `/multi_query_cols` with `encoding_opts`: every column is encoded without a panic
    (`full_precision_cols` resolved per column), the map built by `.collect()` holds every result column under
    its name and nothing else, each agreeing with the embedded column, and serialising it does not panic. -/
theorem C17_binary_response_faithful (eo : EncodingOpts) (o : QOut) (hg : GoodOut o)
    (hm : eo.xor = true → mantissaTooLarge eo.mantissa = false) :
    ∃ r, encodeResponse eo o.columns = .ok r ∧ BinAgree eo o r ∧ (∀ nw ∈ r, transmit nw.2 ≠ .serverPanic) :=
  binResponse_agree eo o hg hm

/-- One request (insert, `/query`, `/query_cols`, `/multi_query_cols` JSON or binary, any number of queries):
    the HTTP outcome agrees with the embedded outcome of the same request — same names, order and values on
    success (JSON: non-finite floats as NULL; binary: NULL of a float column as the reserved NaN, reduced
    mantissa up to its mask), an error status (never a dropped connection) when a query fails — and the shared
    database is left in the same state. -/
theorem C17_request_agrees (B : Backend Db Batch) (db : Db) (req : Req Batch)
    (hB : GoodBackend B) (hreq : GoodReq req) :
    Agrees req.opts (embedded B db req).2 (serve B db req).2 ∧ (embedded B db req).1 = (serve B db req).1 :=
  request_agrees B db req (fun ep => (C17_handlers_map_errors ep).2) C17_status_total hB hreq

/-- All histories: any interleaving of inserts and queries on one server (one `Arc<LocustDB>`), including failing
    queries at any position — every request gets an outcome, in order, and each agrees with the embedded API at
    the same point of the history; in particular the request after a failing one is served like any other. -/
theorem C17_history_agrees (B : Backend Db Batch) (db : Db) (reqs : List (Req Batch))
    (hB : GoodBackend B) (hreqs : ∀ r ∈ reqs, GoodReq r) :
    (serveAll B db reqs).length = reqs.length ∧
    Zip2 (fun (re : Req Batch × Emb) resp => Agrees re.1.opts re.2 resp)
      (reqs.zip (embeddedAll B db reqs)) (serveAll B db reqs) :=
  ⟨serveAll_length B db reqs,
   history_agrees B db reqs (fun ep => (C17_handlers_map_errors ep).2) C17_status_total hB hreqs⟩

-- Non-vacuity: a backend with one table whose only query fails on "bad" and returns a nullable float column
-- otherwise; a history with an insert, a failing `/query`, then a `/multi_query_cols` with xor compression.
example :
    let B : Backend Nat Nat :=
      { ingest := fun db b => db + b,
        run := fun db q => if q = "bad" then .error .ParseError else
          .ok { colnames := ["n"], columns := [("n", .mixed [.float 0x3ff0000000000000, .null, .int (db : Int)])], rows := [] } }
    serveAll B 0 [.insert 5, .query "bad", .multi ["x"] (some { xor := true, mantissa := none, fullPrecisionCols := [] })]
      = [.inserted, .error 400, .multiBin [[("n", .mixed [.float 0x3ff0000000000000, .null, .int 5])]]] := by
  decide

end LM.C17
