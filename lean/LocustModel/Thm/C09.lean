import LocustModel.Store.Crash
/-
  C09 — recovery after a crash at any point is possible and atomic.  Property theorems only.
-/
namespace LM.C09
open LM.Crash

/-- A `store` never touches the final path before its last effect. -/
theorem C09_store_final_untouched (fs : FS) (b : Base) (f : File) (k : Nat) (hk : k < 5) :
    applyEffs fs ((storeEffs b f).take k) (finP b) = fs (finP b) := by
  have : k = 0 ∨ k = 1 ∨ k = 2 ∨ k = 3 ∨ k = 4 := by omega
  rcases this with h | h | h | h | h <;> subst h <;>
    simp [storeEffs, applyEffs, applyEff, FS.set, finP, tmpP]

end LM.C09
