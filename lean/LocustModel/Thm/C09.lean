import LocustModel.Lemmas.C09Reach
import LocustModel.Lemmas.C09Example
import LocustModel.Lemmas.C09Deletes
import LocustModel.Lemmas.C09Tile
/-
  C09 — recovery after a crash at any point is possible and atomic.  Property theorems only.

  Model: Store/Crash.lean (file system, effects, plans of ingest / flush / recovery), Store/CrashSpec.lean (`Dur`, `Reach`).
  `Reach w`: `w` is reachable by a history over {open, ingest, flush with any accepted compaction decision, stop} in which
  the process may be killed after ANY prefix of the primitive effects of any operation — including the effects of a recovery
  — any number of times; effects of the tasks of one phase interleave arbitrarily; directories are listed in any order.
  `w.log` = acknowledged requests ++ those in-flight requests of earlier crashes whose segment had been renamed.
  No bound on the length of histories, the number of tables / rows / partitions / crashes.
-/
namespace LM.C09
open LM.Crash

/-- A `store` never touches the final path before its last effect. -/
theorem C09_store_final_untouched (fs : FS) (b : Base) (f : File) (k : Nat) (hk : k < 5) :
    applyEffs fs ((storeEffs b f).take k) (finP b) = fs (finP b) := by
  have : k = 0 ∨ k = 1 ∨ k = 2 ∨ k = 3 ∨ k = 4 := by omega
  rcases this with h | h | h | h | h <;> subst h <;>
    simp [storeEffs, applyEffs, applyEff, FS.set, finP, tmpP]

example : applyEffs (FS.empty.set (finP (.wal 3)) (some .torn)) ((storeEffs (.wal 3) (.wal 3 ⟨[]⟩)).take 4) (finP (.wal 3))
    = some .torn := C09_store_final_untouched _ _ _ 4 (by omega)

/-- **Invariant `Durable`** at every effect prefix of every history: the catalogue on disk, the partition files it references
    (all present and complete) and the segments with id ≥ cursor (contiguous, complete, under their final names) make up a
    state `m` whose content is exactly the log; while the process is up `m` is its memory.  Files not mentioned — temp files,
    orphans, merged-away partitions — are unconstrained. -/
theorem C09_durable (w : World) (h : Reach w) : ∃ m, Dur w.fs w.log m ∧ ∀ m', w.mem = some m' → m' = m :=
  h.dur

/-- non-vacuity: the concrete history `exOps` (3 ingestions, one into two tables; 2 flushes) is reachable, and its durable
    state holds three partitions and one unflushed segment -/
example : ∃ fs, Reach ⟨fs, some exMemAfter, exLogAfter⟩ ∧ exMemAfter.parts.length = 3 ∧ exMemAfter.pending.length = 1 ∧
    exMemAfter.cursor = 2 :=
  let ⟨fs, h⟩ := ex_history
  ⟨fs, h, by decide, by decide, by decide⟩

/-- non-vacuity of "any interleaving": two partition stores of one `persist` phase whose effects alternate step by step
    form a `PoolTrace` (the theorems quantify over all of these, not only over the sequential schedule used above). -/
example : PoolTrace [storeTask (.part "t" 0) (.part ["1"]), storeTask (.part "u" 0) (.part ["2"])]
    [.mkdir (.part "t" 0), .mkdir (.part "u" 0), .create (.part "t" 0), .create (.part "u" 0),
     .write (.part "t" 0) (.part ["1"]), .write (.part "u" 0) (.part ["2"]), .sync (.part "u" 0), .sync (.part "t" 0),
     .rename (.part "u" 0), .rename (.part "t" 0)] :=
  ⟨storeEffs (.part "u" 0) (.part ["2"]), ⟨[], rfl, Shuffle.append _ []⟩,
    .left (.right (.left (.right (.left (.right (.right (.left (.right (.left .nil)))))))))⟩

/-- **Recovery is possible** in every reachable world (in particular after every crash prefix, also of a recovery): the
    model's `recover` is a total function and returns `ok` — no fault on the opening thread (`panic`), none in a pool job
    (`hang`) — whatever the order of the directory listing; and the content of every table is exactly the log: nothing
    lost, nothing duplicated, order kept. -/
theorem C09_recovery (w : World) (h : Reach w) (ls : List Path) (hls : Listing w.fs ls) :
    ∃ m dels, recover w.fs ls = .ok (m, dels) ∧ ∀ t, m.content t = ackedRows w.log t := by
  obtain ⟨m, hd, _⟩ := h.dur
  obtain ⟨dels, hr, _⟩ := hd.recover hls
  exact ⟨m, dels, hr, hd.content⟩

/-- non-vacuity: a reachable world (process killed, temp files around) with a directory listing -/
example : ∃ w ls, Reach w ∧ w.mem = none ∧ Listing w.fs ls ∧ w.fs (tmpP (.part "t" 3)) = some .torn := by
  obtain ⟨fs, h⟩ := ex_history
  have hc := Reach.crash (op := exLast) (pre := (exTrace exMemAfter exLast).take 7) h (ex_plan (by decide)) ex_trace
    (List.take_prefix _ _)
  obtain ⟨ls, hls⟩ := hc.listing
  refine ⟨_, ls, hc, rfl, hls, ?_⟩
  have : (exTrace exMemAfter exLast).take 7 = (exTrace exMemAfter exLast).take 6 ++ [.create (.part "t" 3)] := by decide
  simp only [this, applyEffs_append]
  simp [applyEff]

/-- **C09_crash**: for every history, every operation started after it, every interleaving of the operation's effects and
    EVERY PREFIX of that trace: recovery of the file system left by the prefix succeeds, and the content is the acknowledged
    requests, or those plus the request in flight — the same alternative for all tables. -/
theorem C09_crash (fs : FS) (m : Mem) (log : List Req) (h : Reach ⟨fs, some m, log⟩)
    (op : Op) (phs : List Phase) (m' : Mem) (new : List Req) (hp : op.plan m = some (phs, m', new))
    (tr : List Eff) (htr : PhasesTrace phs tr) (pre : List Eff) (hpre : pre <+: tr)
    (ls : List Path) (hls : Listing (applyEffs fs pre) ls) :
    ∃ mr dels, recover (applyEffs fs pre) ls = .ok (mr, dels) ∧
      ((∀ t, mr.content t = ackedRows log t) ∨ (∀ t, mr.content t = ackedRows (log ++ new) t)) := by
  obtain ⟨m0, hd, hm⟩ := h.dur
  have := hm m rfl
  subst this
  obtain ⟨md, hd', _, hs⟩ := (hd.op hp htr).1 pre hpre
  obtain ⟨dels, hr, _⟩ := hd'.recover hls
  refine ⟨md, dels, hr, ?_⟩
  rcases hs with hs | hs
  · left; intro t; have := hd'.content t; rwa [hs, List.append_nil] at this
  · right; intro t; have := hd'.content t; rwa [hs] at this

/-- non-vacuity of `C09_crash`: the history `exOps`, then a flush that COMPACTS (partitions 0, 1, 2 of `t` into 3), killed
    after 7 effects of its sequential schedule — inside the store of the merged partition, whose temp file is left torn;
    the theorem applies and the recovered table `t` holds rows 1, 2, 3, 5 once each. -/
example : ∃ fs ls, Reach ⟨fs, some exMemAfter, exLogAfter⟩ ∧
    Listing (applyEffs fs ((exTrace exMemAfter exLast).take 7)) ls ∧
    applyEffs fs ((exTrace exMemAfter exLast).take 7) (tmpP (.part "t" 3)) = some .torn ∧
    ∃ mr dels, recover (applyEffs fs ((exTrace exMemAfter exLast).take 7)) ls = .ok (mr, dels) ∧
      mr.content "t" = ["1", "2", "3", "5"] ∧ mr.content "u" = ["4"] := by
  obtain ⟨fs, h⟩ := ex_history
  have hp : exLast.plan exMemAfter = some (exPhases exMemAfter exLast, exMem exMemAfter exLast, exNew exMemAfter exLast) :=
    ex_plan (by decide)
  have hpre : (exTrace exMemAfter exLast).take 7 <+: exTrace exMemAfter exLast := List.take_prefix _ _
  obtain ⟨ls, hls⟩ := (Reach.crash h hp ex_trace hpre).listing
  obtain ⟨mr, dels, hr, hc⟩ := C09_crash fs _ _ h exLast _ _ _ hp _ ex_trace _ hpre ls hls
  refine ⟨fs, ls, h, hls, ?_, mr, dels, hr, ?_⟩
  · have : (exTrace exMemAfter exLast).take 7 = (exTrace exMemAfter exLast).take 6 ++ [.create (.part "t" 3)] := by decide
    simp only [this, applyEffs_append]
    simp [applyEff]
  · have hnew : exNew exMemAfter exLast = [] := by decide
    have h1 : ∀ t, mr.content t = ackedRows exLogAfter t := by
      rcases hc with hc | hc
      · exact hc
      · intro t; rw [hc t, hnew, List.append_nil]
    exact ⟨by rw [h1]; decide, by rw [h1]; decide⟩

/-- **The in-flight request is taken whole or not at all**: a crash during an ingestion into any number of tables recovers
    to the log plus the complete request in EVERY table it touched iff the rename of its segment happened, and to the log
    alone in every table otherwise — one bit decides for all tables. -/
theorem C09_inflight_atomic (fs : FS) (m : Mem) (log : List Req) (h : Reach ⟨fs, some m, log⟩) (r : Req)
    (tr : List Eff) (htr : PhasesTrace (ingestPlan m r).1 tr) (pre : List Eff) (hpre : pre <+: tr)
    (ls : List Path) (hls : Listing (applyEffs fs pre) ls) :
    ∃ mr dels, recover (applyEffs fs pre) ls = .ok (mr, dels) ∧
      (Eff.rename (.wal m.nextWal) ∈ pre → ∀ t, mr.content t = ackedRows log t ++ r.rowsOf t) ∧
      (Eff.rename (.wal m.nextWal) ∉ pre → ∀ t, mr.content t = ackedRows log t) := by
  obtain ⟨m0, hd, hm⟩ := h.dur
  have := hm m rfl
  subst this
  have htr' := ingest_trace htr
  subst htr'
  rcases hd.wal_phase r hpre with ⟨hn, hd'⟩ | ⟨_, hy, hd'⟩
  · obtain ⟨dels, hr, _⟩ := hd'.recover hls
    exact ⟨_, dels, hr, fun hc => absurd hc hn, fun _ => hd'.content⟩
  · obtain ⟨dels, hr, _⟩ := hd'.recover hls
    refine ⟨_, dels, hr, fun _ t => ?_, fun hc => absurd hy hc⟩
    rw [hd'.content t]; simp [ackedRows, rowsOfReqs_append, rowsOfReqs_single]

/-- non-vacuity of `C09_inflight_atomic`: an ingestion into two tables killed just before / just after the rename. -/
example : ∃ fs, Reach ⟨fs, some exMemAfter, exLogAfter⟩ ∧
    (let tr := exTrace exMemAfter exLastIngest
     PhasesTrace (ingestPlan exMemAfter ⟨[⟨"t", ["6"]⟩, ⟨"u", ["7", "8"]⟩]⟩).1 tr ∧
     Eff.rename (.wal exMemAfter.nextWal) ∉ tr.take 4 ∧ Eff.rename (.wal exMemAfter.nextWal) ∈ tr.take 5 ∧
     tr.take 4 <+: tr ∧ tr.take 5 <+: tr) := by
  obtain ⟨fs, h⟩ := ex_history
  exact ⟨fs, h, PhasesTrace.seq _, by decide, by decide, List.take_prefix _ _, List.take_prefix _ _⟩

/-- **Recovering again changes nothing**, and neither does a crash at any prefix of the recovery's own effects (it deletes
    stale temp files of `wal/` and segments below the cursor, in any order): the next recovery returns the very same state,
    has nothing to delete that the first one did not already set out to delete, and after a completed recovery nothing. -/
theorem C09_recover_idempotent (w : World) (h : Reach w) (ls : List Path) (hls : Listing w.fs ls)
    (m : Mem) (dels : List Path) (hr : recover w.fs ls = .ok (m, dels))
    (tr : List Eff) (htr : PoolTrace (recoverPhase dels).tasks tr) (pre : List Eff) (hpre : pre <+: tr)
    (ls' : List Path) (hls' : Listing (applyEffs w.fs pre) ls') :
    ∃ dels', recover (applyEffs w.fs pre) ls' = .ok (m, dels') ∧ (∀ p ∈ dels', p ∈ dels) ∧ (pre = tr → dels' = []) := by
  obtain ⟨m0, hd, _⟩ := h.dur
  exact hd.recover_idem hls hr htr hpre hls'

/-- non-vacuity of `C09_recover_idempotent`: after the crash above a recovery succeeds, has a (sequential) trace of its
    deletions, every prefix of which has a listing. -/
example : ∃ w ls m dels tr, Reach w ∧ Listing w.fs ls ∧ recover w.fs ls = .ok (m, dels) ∧
    PoolTrace (recoverPhase dels).tasks tr ∧ ∀ pre, pre <+: tr → ∃ ls', Listing (applyEffs w.fs pre) ls' := by
  obtain ⟨fs, h⟩ := ex_history
  have hc := Reach.crash (op := exLast) (pre := (exTrace exMemAfter exLast).take 7) h (ex_plan (by decide)) ex_trace
    (List.take_prefix _ _)
  obtain ⟨ls, hls⟩ := hc.listing
  obtain ⟨m, dels, hr, _⟩ := C09_recovery _ hc ls hls
  exact ⟨_, ls, m, dels, _, hc, hls, hr, PoolTrace.seq _, fun pre _ => listing_effs pre hls⟩

/-- **No row is duplicated** (nor lost): after recovery every row occurs in a table exactly as often as in the log. -/
theorem C09_no_duplicate (w : World) (h : Reach w) (ls : List Path) (hls : Listing w.fs ls) (m : Mem) (dels : List Path)
    (hr : recover w.fs ls = .ok (m, dels)) (t : Tbl) (row : Row) :
    (m.content t).count row = (ackedRows w.log t).count row := by
  obtain ⟨m', dels', hr', hc⟩ := C09_recovery w h ls hls
  rw [hr'] at hr
  simp only [Except.ok.injEq, Prod.mk.injEq] at hr
  rw [← hr.1, hc t]

/-- **Files the catalogue does not reference are never consulted**: change, add or delete temp files (torn or complete)
    and partition files outside the catalogue at will — recovery returns the same state.  (Since the fix of finding
    C09-wal-temp this includes the temp files of `wal/`.) -/
theorem C09_garbage_ignored (w : World) (h : Reach w) (ls : List Path) (hls : Listing w.fs ls) (m : Mem) (dels : List Path)
    (hr : recover w.fs ls = .ok (m, dels)) (fs' : FS)
    (hcat : fs' (finP .catalogue) = w.fs (finP .catalogue))
    (hwal : ∀ k, fs' (finP (.wal k)) = w.fs (finP (.wal k)))
    (hparts : ∀ p ∈ m.parts, fs' (finP (partBase p)) = w.fs (finP (partBase p)))
    (ls' : List Path) (hls' : Listing fs' ls') :
    ∃ dels', recover fs' ls' = .ok (m, dels') := by
  obtain ⟨m0, hd, _⟩ := h.dur
  obtain ⟨dels0, hr0, _⟩ := hd.recover hls
  rw [hr0] at hr
  simp only [Except.ok.injEq, Prod.mk.injEq] at hr
  obtain ⟨rfl, rfl⟩ := hr
  have hd' : Dur fs' w.log m0 := hd.congr hcat hparts (fun k => Or.inl (hwal k))
  obtain ⟨dels', hr', _⟩ := hd'.recover hls'
  exact ⟨dels', hr'⟩

/-- **Every delete finds its file** (`remove_file` cannot fail, so `delete(..).unwrap()` cannot panic): in every history,
    for every operation and every interleaving of its effects, each `remove p` is applied when `p` exists — the merged-away
    partition files when `delete_orphaned_partitions` runs, the segments `cursor..next` when `delete_wal_segments` runs.
    (A flush after a recovery that had replayed a segment from its temp name violated exactly this before the fix.) -/
theorem C09_deletes_find_file (fs : FS) (m : Mem) (log : List Req) (h : Reach ⟨fs, some m, log⟩)
    (op : Op) (phs : List Phase) (m' : Mem) (new : List Req) (hp : op.plan m = some (phs, m', new))
    (tr : List Eff) (htr : PhasesTrace phs tr) : RemovesExist fs tr := by
  obtain ⟨m0, hd, hm⟩ := h.dur
  have := hm m rfl
  subst this
  cases op with
  | ingest r =>
      obtain ⟨rfl, _, _⟩ := Op.plan_ingest hp
      have htr' := ingest_trace htr
      subst htr'
      exact RemovesExist.of_none (fun p hm => by simp [storeEffs] at hm)
  | flush comp =>
      obtain ⟨hf, _⟩ := Op.plan_flush hp
      exact hd.flush_removes hf htr

/-- The same for the deletions of a recovery (stale temp files of `wal/`, obsolete segments), in any order. -/
theorem C09_recovery_deletes_find_file (w : World) (h : Reach w) (ls : List Path) (hls : Listing w.fs ls)
    (m : Mem) (dels : List Path) (hr : recover w.fs ls = .ok (m, dels))
    (tr : List Eff) (htr : PoolTrace (recoverPhase dels).tasks tr) : RemovesExist w.fs tr := by
  obtain ⟨m0, hd, _⟩ := h.dur
  exact hd.recover_removes hls hr htr

/-- non-vacuity: the compacting flush of the concrete history has a plan and a trace with deletions (3 merged partitions,
    1 segment). -/
example : ∃ fs, Reach ⟨fs, some exMemAfter, exLogAfter⟩ ∧
    exLast.plan exMemAfter = some (exPhases exMemAfter exLast, exMem exMemAfter exLast, exNew exMemAfter exLast) ∧
    PhasesTrace (exPhases exMemAfter exLast) (exTrace exMemAfter exLast) ∧
    ((exTrace exMemAfter exLast).filter (fun e => match e with | .remove _ => true | _ => false)).length = 4 := by
  obtain ⟨fs, h⟩ := ex_history
  exact ⟨fs, h, ex_plan (by decide), ex_trace, by decide⟩

/-- **Partition ranges tile** (`Durable`, clause 2): in the state any recovery returns, the partitions of every table, in
    order, start at offset 0, each begins where the previous ends, and `len` is the number of rows of the partition file —
    `Table::batch` places a partition at `next_partition_offset` (restored as max of `offset + len`), a compaction replaces a
    suffix by one partition at the suffix's first offset. -/
theorem C09_ranges_tile (w : World) (h : Reach w) (ls : List Path) (hls : Listing w.fs ls) (m : Mem) (dels : List Path)
    (hr : recover w.fs ls = .ok (m, dels)) : Tiled m.parts := by
  obtain ⟨m0, hd, ht, _⟩ := Reach.dur_inv (Inv := fun m => Tiled m.parts) tiled_fresh plan_tiled h
  obtain ⟨dels0, hr0, _⟩ := hd.recover hls
  rw [hr0] at hr
  simp only [Except.ok.injEq, Prod.mk.injEq] at hr
  exact hr.1 ▸ ht

/-- non-vacuity: after the concrete history table `t` has partitions [0,2) and [2,3). -/
example : (partsOf exMemAfter.parts "t").map (fun p => (p.pm.offset, p.pm.len)) = [(0, 2), (2, 1)] := by decide

/-- non-vacuity: garbage that differs — a torn temp segment and an orphan partition file added to a reachable state. -/
example : ∃ w fs', Reach w ∧ fs' (finP .catalogue) = w.fs (finP .catalogue) ∧ (∀ k, fs' (finP (.wal k)) = w.fs (finP (.wal k))) ∧
    fs' (tmpP (.wal 9)) = some .torn ∧ fs' (finP (.part "zz" 7)) = some (.part ["x"]) ∧ fs' ≠ w.fs :=
  ⟨_, (FS.empty.set (tmpP (.wal 9)) (some .torn)).set (finP (.part "zz" 7)) (some (.part ["x"])), Reach.init,
    by simp [FS.set, FS.empty, finP, tmpP], by simp [FS.set, FS.empty, finP, tmpP], by simp [FS.set, finP, tmpP],
    by simp [FS.set], fun h => by have := congrFun h (tmpP (.wal 9)); simp [FS.set, FS.empty, finP, tmpP] at this⟩

end LM.C09
