import LocustModel.Query.Combine
import LocustModel.Query.Layout
import LocustModel.Lemmas.C02Combine
import LocustModel.Lemmas.C02Agg
import LocustModel.Lemmas.C02Sql
import LocustModel.Lemmas.C05Val
import LocustModel.Query.StreamOps
import LocustModel.Lemmas.C02Stream
import LocustModel.Lemmas.C02Live
/-
  C02 — query results do not depend on physical layout.  PROPERTY THEOREMS.

  All statements quantify over ALL tables, splits into partitions, bracketings of the pairwise merges and
  chunkings; nothing is bounded.  Where the code violates the full-strength statement the statement is kept as a
  `def …_statement : Prop`, proved under the extra hypothesis that excludes the finding (`…_partial`) and
  refuted on the model by a concrete witness (`…_refuted`) that is also replayed on the real code by the harness
  corpus (harness/src/bin/c02.rs, `corpus`).
-/
namespace LM.C02
open LM LM.Sql LM.Combine LM.Layout LM.OrderSpec LM.C02L LM.Merge

/-! ## 1. `combine` is independent of the bracketing (what threads and `combine_results` scheduling can change) -/

/-- **Select branch.**  Whatever the bracketing, the answer is rows `offset+1 .. offset+limit` of the
    concatenation of the partition results in row-range order. -/
theorem C02_combine_assoc_select {ρ : Type} (limit offset : Nat) (t : Tree (List ρ)) :
    outputSlice limit offset (t.eval (combineSel (limit + offset))) = outputSlice limit offset t.leaves.flatten :=
  outputSlice_congr limit offset (evalSel_take (limit + offset) t)

/-- The stable merge is associative: for a total preorder, for all lists (sorted or not), exactly — ties included. -/
theorem C02_merge_assoc {α : Type} (le : α → α → Bool) (h : TotalPre le) (a b c : List α) :
    mergeAll le (mergeAll le a b) c = mergeAll le a (mergeAll le b c) :=
  mergeAll_assoc le h a b c

/-- The engine's limited merge is the first `limit` elements of the stable merge. -/
theorem C02_merge_limit {α : Type} (le : α → α → Bool) (l r : List α) (n : Nat) :
    mergeLim le l r n = (mergeAll le l r).take n :=
  mergeLim_eq_take le l r n

/-- **Sort branch.**  Whatever the bracketing, and although every intermediate result is cut to `limit+offset`
    rows, the answer is the slice of the merge of all partition results in row-range order — the same rows in the
    same order, ties included (an earlier partition always wins a tie). -/
theorem C02_combine_assoc_sort {α : Type} (le : α → α → Bool) (h : TotalPre le) (limit offset : Nat)
    (t : Tree (List α)) :
    outputSlice limit offset (t.eval (combineSort le (limit + offset)))
      = outputSlice limit offset (mergeList le t.leaves) :=
  outputSlice_congr limit offset (evalSort_take le h (limit + offset) t)

/-- **Aggregate branch, exact level.**  The merge of grouped partial aggregates is associative, so every bracketing
    gives the merge of the partition results in row-range order. -/
theorem C02_combine_assoc_agg (op : Agg) (t : Tree (List (Int × Option Int))) :
    t.eval (mergeX op) = mergeXList op t.leaves :=
  evalX op t

/-- Any two executions (bracketings with the same leaves) agree, for all three branches. -/
theorem C02_combine_assoc {ρ : Type} (le : ρ → ρ → Bool) (h : TotalPre le) (op : Agg) (limit offset : Nat) :
    (∀ t1 t2 : Tree (List ρ), t1.leaves = t2.leaves →
        outputSlice limit offset (t1.eval (combineSel (limit + offset)))
          = outputSlice limit offset (t2.eval (combineSel (limit + offset)))) ∧
    (∀ t1 t2 : Tree (List ρ), t1.leaves = t2.leaves →
        outputSlice limit offset (t1.eval (combineSort le (limit + offset)))
          = outputSlice limit offset (t2.eval (combineSort le (limit + offset)))) ∧
    (∀ t1 t2 : Tree (List (Int × Option Int)), t1.leaves = t2.leaves →
        t1.eval (mergeX op) = t2.eval (mergeX op)) := by
  refine ⟨?_, ?_, ?_⟩
  · intro t1 t2 hl
    rw [C02_combine_assoc_select, C02_combine_assoc_select, hl]
  · intro t1 t2 hl
    rw [C02_combine_assoc_sort le h, C02_combine_assoc_sort le h, hl]
  · intro t1 t2 hl
    rw [C02_combine_assoc_agg, C02_combine_assoc_agg, hl]

example : (Tree.node (.node (.leaf [1, 2]) (.leaf [3])) (.leaf [4, 5])).eval (combineSel 4) = [1, 2, 3, 4] ∧
    (Tree.node (.leaf [1, 2]) (.node (.leaf [3]) (.leaf [4, 5]))).eval (combineSel 4) = [1, 2, 3, 4] := by decide

/-! ## 2. `combine_results`: every schedule computes some bracketing -/

/-- Whatever the assignment of partitions to worker threads and the order in which each worker completes them,
    every entry that `combine_results` ever holds is the evaluation of a bracketing of a contiguous run of
    partition results in row-range order (only adjacent ranges are merged, the earlier one on the left). -/
theorem C02_schedule_tree {α : Type} (f : α → α → α) (parts : List α) (assignment : List (List Nat)) :
    ∀ s ∈ schedule f parts assignment,
      s.lo ≤ s.hi ∧ s.hi ≤ parts.length ∧
        ∃ t : Tree α, t.leaves = (parts.drop s.lo).take (s.hi - s.lo) ∧ s.val = t.eval f :=
  schedule_ok f parts assignment

/-- Hence: when the schedule ends with the single entry covering all partitions (`owned_results.len() == 1`), the
    select answer is the one of C02_combine_assoc_select, independent of threads and completion order. -/
theorem C02_schedule_select {ρ : Type} (limit offset : Nat) (parts : List (List ρ)) (assignment : List (List Nat))
    (s : Seg (List ρ)) (hs : schedule (combineSel (limit + offset)) parts assignment = [s])
    (hlo : s.lo = 0) (hhi : s.hi = parts.length) :
    outputSlice limit offset s.val = outputSlice limit offset parts.flatten := by
  obtain ⟨_, _, t, ht, hv⟩ := C02_schedule_tree (combineSel (limit + offset)) parts assignment s (by simp [hs])
  rw [hlo, hhi] at ht
  simp only [List.drop_zero, Nat.sub_zero, List.take_length] at ht
  rw [hv, C02_combine_assoc_select, ht]

theorem C02_schedule_sort {α : Type} (le : α → α → Bool) (h : TotalPre le) (limit offset : Nat)
    (parts : List (List α)) (assignment : List (List Nat))
    (s : Seg (List α)) (hs : schedule (combineSort le (limit + offset)) parts assignment = [s])
    (hlo : s.lo = 0) (hhi : s.hi = parts.length) :
    outputSlice limit offset s.val = outputSlice limit offset (mergeList le parts) := by
  obtain ⟨_, _, t, ht, hv⟩ := C02_schedule_tree (combineSort le (limit + offset)) parts assignment s (by simp [hs])
  rw [hlo, hhi] at ht
  simp only [List.drop_zero, Nat.sub_zero, List.take_length] at ht
  rw [hv, C02_combine_assoc_sort le h, ht]

-- two workers; worker 1 completes partitions 2 then 0, worker 2 completes 1 and 3: one entry covering everything
example : (schedule (combineSel 10) [[1], [2], [3], [4]] [[2, 0], [1, 3]]).map (fun s => (s.lo, s.hi, s.val))
    = [(0, 4, [1, 2, 3, 4])] := by decide

/-! ## 3. Partition independence of the per-branch semantics -/

/-- WHERE over two consecutive row ranges = the two results, concatenated (errors: an error in either range is an
    error of the whole, overflow winning over "unsupported"). -/
theorem C02_filter_append (i2f : Int → Nat) (pred : Option Expr) (a b : List Row) :
    filterRows i2f pred (a ++ b) = resAppend (filterRows i2f pred a) (filterRows i2f pred b) :=
  filterRows_append i2f pred a b

theorem C02_project_append (i2f : Int → Nat) (es : List Expr) (a b : List Row) :
    projectRows i2f es (a ++ b) = resAppend (projectRows i2f es a) (projectRows i2f es b) :=
  projectRows_append i2f es a b

/-- Grouping the rows of two consecutive ranges = merging the two grouped results (exact level). -/
theorem C02_groupby_append (op : Agg) (a b : List (Int × Option Int)) :
    groupX op (a ++ b) = mergeX op (groupX op a) (groupX op b) :=
  groupX_append op a b

/-- Merging sorted partition results with a limit = the first `limit` rows of a sorted arrangement of all rows:
    the ORDER BY relation of C05 holds of the answer for every bracketing. -/
theorem C02_merge_sorted_take {α : Type} (le : α → α → Bool) (h : TotalPre le) (limit offset : Nat)
    (t : Tree (List α)) (hs : ∀ l ∈ t.leaves, Sorted le l) :
    OrderSpec le t.leaves.flatten
      (outputSlice limit offset (t.eval (combineSort le (limit + offset)))) limit offset := by
  refine ⟨mergeList le t.leaves, mergeList_perm le t.leaves, mergeList_sorted le h t.leaves hs, ?_⟩
  rw [C02_combine_assoc_sort le h, outputSlice_eq]

example : mergeLim (fun a b : Nat => decide (a ≤ b)) [1, 3, 5] [2, 3, 9] 4 = [1, 2, 3, 3] := by decide

/-! ## 4. Streaming stages: `batch_size` cannot matter -/

/-- An operator that satisfies the chunk law computes the same final state and the same output for EVERY chunking
    of its input as for the unchunked input. -/
theorem C02_stream_chunks {σ α β : Type} (op : StreamOp σ α β) (h : op.Lawful) (s : σ) (chunks : List (List α)) :
    op.runChunks s chunks = op.step s chunks.flatten :=
  runChunks_flatten op h s chunks

/-- In particular for the executor's chunking by `batch_size`, for every batch size. -/
theorem C02_stream_batch_size {σ α β : Type} (op : StreamOp σ α β) (h : op.Lawful) (s : σ) (n m : Nat) (input : List α) :
    op.runChunks s (chunksOf n input) = op.runChunks s (chunksOf m input) := by
  rw [C02_stream_chunks op h, C02_stream_chunks op h, chunksOf_flatten, chunksOf_flatten]

/-- The modelled streamable operators satisfy the law: element-wise maps, Filter, NonzeroIndices (carried
    `offset`), Aggregate (carried accumulators), TopN (carried heap and `last_index`). -/
theorem C02_stream_ops_lawful :
    (∀ {α β : Type} (f : α → β), (mapOp f).Lawful) ∧ (∀ {α : Type}, (filterOp (α := α)).Lawful) ∧
    nonzeroIndicesOp.Lawful ∧ (∀ acc, (accumulateOp acc).Lawful) ∧
    (∀ n beats sortFull heapReplace, (topNOp n beats sortFull heapReplace).Lawful) :=
  ⟨fun f => mapOp_lawful f, filterOp_lawful, nonzeroIndicesOp_lawful, accumulateOp_lawful, topNOp_lawful⟩

example : nonzeroIndicesOp.runChunks 0 [[0, 1], [1, 0, 1]] = (5, [1, 2, 4]) := by decide
/-- Sensitivity: an operator that resets its carried offset for every chunk does NOT satisfy the law. -/
theorem C02_stream_broken_refuted : ¬ nonzeroIndicesBroken.Lawful := by
  intro h
  have := h.2 0 [0, 1] [1, 0, 1]
  revert this
  decide

/-! ## 5. The engine's sentinel-encoded merge of partial aggregates -/

/-- Full-strength statement for the aggregate branch: the engine's merge (`merge_deduplicate` + `merge_aggregate`
    on i64 with `I64_NULL` in band and checked addition) of the encodings of two grouped partial results is the
    encoding of their exact merge. -/
def C02_combine_agg_statement : Prop :=
  ∀ (op : Agg) (l r : List (Int × Option Int)),
    combineAgg op (encPart l) (encPart r) = .ok (encPart (mergeX op l r))

/-- Proved under the hypotheses that exclude the open findings: group keys strictly ascending in each partial result
    (violated by `groupby-null-key-order`: the NULL group comes first but is encoded as i64::MAX), no partial
    aggregate equal to the sentinel (`sum-sentinel`), no overflow when two partials are added
    (`sum-overflow-order`). -/
theorem C02_combine_agg_partial (op : Agg) (l r : List (Int × Option Int))
    (hl : C04L.StrictAsc (l.map (·.1))) (hr : C04L.StrictAsc (r.map (·.1))) (hc : Clean op l r) :
    combineAgg op (encPart l) (encPart r) = .ok (encPart (mergeX op l r)) :=
  combineAgg_enc op l r hl hr hc

example : C04L.StrictAsc ([(1, some 10), (4, some 20)].map (·.1)) ∧ Clean .sum [(1, some 10), (4, some 20)] [(4, some 7)] := by
  refine ⟨by simp [C04L.StrictAsc], ?_, ?_, ?_⟩ <;> simp [CleanVal, ComboOk, inI64, I64_MIN, I64_MAX]
example : combineAgg .sum (encPart [(1, some 10), (4, some 20)]) (encPart [(4, some 7)])
    = .ok (encPart [(1, some 10), (4, some 27)]) := by
  simp [combineAgg, encPart, enc, mergeX, combineX, Merge.mergeDedup, Merge.mergeAggregate, Merge.mergeAggLoop, Merge.combine, Merge.cmpEq, I64_MAX, inI64, I64_MIN]

/-- Refuted, three ways (each witness is replayed on the real code by the harness corpus):
    a partial SUM equal to i64::MAX is dropped; the NULL group placed first duplicates a group; and the order
    of additions decides whether a SUM overflows. -/
theorem C02_combine_agg_refuted : ¬ C02_combine_agg_statement := by
  intro h
  have := h .sum [(0, some I64_MAX)] [(0, some 0)]
  revert this
  simp [combineAgg, encPart, enc, mergeX, combineX, Merge.mergeDedup, Merge.mergeAggregate, Merge.mergeAggLoop, Merge.combine, Merge.cmpEq, I64_MAX, inI64, I64_MIN]

/-- `sum-sentinel` on the model: partition 1 sums to i64::MAX, partition 2 to 0; the engine answers 0, exact is i64::MAX. -/
theorem C02_sum_sentinel_refuted :
    combineGlobal .sum [I64_MAX] [0] = .ok [0] ∧ mergeX .sum [(0, some I64_MAX)] [(0, some 0)] = [(0, some I64_MAX)] := by
  refine ⟨rfl, ?_⟩
  simp [mergeX, combineX]

/-- `groupby-null-key-order` on the model: partition results [NULL, 5] (NULL first, encoded i64::MAX) and [5]:
    the key 5 comes out twice. -/
theorem C02_null_key_order_refuted :
    combineAgg .count ⟨[I64_MAX, 5], [1, 1]⟩ ⟨[5], [1]⟩ = .ok ⟨[5, I64_MAX, 5], [1, 1, 1]⟩ := by
  simp [combineAgg, Merge.mergeDedup, Merge.mergeAggregate, Merge.mergeAggLoop, Merge.cmpEq, I64_MAX]

/-- `sum-overflow-order` on the model: the three partial sums i64::MAX-1, 5, -10 (exact total i64::MAX-6) fail with
    Overflow when the first two are added first and succeed when the last two are added first — bracketings of
    the same leaves, so thread timing / partition boundaries decide between an error and a value. -/
def C02_sum_assoc_statement : Prop :=
  ∀ t1 t2 : Tree (List Int), t1.leaves = t2.leaves →
    t1.evalE (combineGlobal .sum) = t2.evalE (combineGlobal .sum)

theorem C02_sum_assoc_refuted : ¬ C02_sum_assoc_statement := by
  intro h
  have := h (.node (.node (.leaf [I64_MAX - 1]) (.leaf [5])) (.leaf [-10]))
    (.node (.leaf [I64_MAX - 1]) (.node (.leaf [5]) (.leaf [-10]))) rfl
  have h1 : (Tree.node (.node (.leaf [I64_MAX - 1]) (.leaf [5])) (.leaf [-10])).evalE (combineGlobal .sum)
      = .error .overflow := by rfl
  have h2 : (Tree.node (.leaf [I64_MAX - 1]) (.node (.leaf [5]) (.leaf [-10]))).evalE (combineGlobal .sum)
      = .ok [I64_MAX - 6] := by rfl
  rw [h1, h2] at this
  cases this

/-- … and holds whenever no partial sum met on the way is the sentinel or overflows: under `TreeClean` the engine's
    evaluation of ANY bracketing is the encoding of the exact merge of the leaves. -/
def TreeClean (op : Agg) : Tree (List (Int × Option Int)) → Prop
  | .leaf _ => True
  | .node l r => TreeClean op l ∧ TreeClean op r ∧
      C04L.StrictAsc ((l.eval (mergeX op)).map (·.1)) ∧ C04L.StrictAsc ((r.eval (mergeX op)).map (·.1)) ∧
      Clean op (l.eval (mergeX op)) (r.eval (mergeX op))

def Tree.map {α β : Type} (f : α → β) : Tree α → Tree β
  | .leaf a => .leaf (f a)
  | .node l r => .node (Tree.map f l) (Tree.map f r)

theorem C02_combine_assoc_agg_partial (op : Agg) (t : Tree (List (Int × Option Int))) (hc : TreeClean op t) :
    (Tree.map encPart t).evalE (combineAgg op) = .ok (encPart (mergeXList op t.leaves)) := by
  rw [← C02_combine_assoc_agg]
  induction t with
  | leaf a => simp [Tree.map, Tree.evalE, Tree.eval]
  | node l r ihl ihr =>
    obtain ⟨hl, hr, sl, sr, hcl⟩ := hc
    simp only [Tree.map, Tree.evalE, ihl hl, ihr hr, Tree.eval]
    exact C02_combine_agg_partial op _ _ sl sr hcl

/-! ## 6. Top level: physical evaluation = logical evaluation -/

/-- **SELECT … WHERE … LIMIT/OFFSET.**  For every split of the table into partitions and every bracketing of the
    merges: if every partition evaluates (to `leaves`), the query on the whole table evaluates to exactly what the
    engine's combination of the partition results shows. -/
theorem C02_layout_select (i2f : Int → Nat) (q : SelQuery) (parts : List (List Row)) (t : Tree (List Row))
    (hleaves : parts.map (selectRows i2f q) = t.leaves.map Res.ok) :
    evalLogicalSel i2f q parts.flatten = .ok (evalPhysSel i2f q t) := by
  have key : ∀ (ps : List (List Row)) (ls : List (List Row)),
      ps.map (selectRows i2f q) = ls.map Res.ok → selectRows i2f q ps.flatten = .ok ls.flatten := by
    intro ps
    induction ps with
    | nil =>
      intro ls h
      cases ls with
      | nil => simp [selectRows, filterRows, projectRows, Res.bind]
      | cons _ _ => simp at h
    | cons p ps ih =>
      intro ls h
      cases ls with
      | nil => simp at h
      | cons l ls =>
        simp only [List.map_cons, List.cons.injEq] at h
        simp only [List.flatten_cons]
        exact (selectRows_append_ok i2f q p ps.flatten (l ++ ls.flatten)).mpr ⟨l, ls.flatten, h.1, ih ls h.2, rfl⟩
  unfold evalLogicalSel evalPhysSel
  rw [key parts t.leaves hleaves, C02_combine_assoc_select]
  simp [Res.bind, plainSpec, outputSlice_eq]

/-- … and a partition that fails makes the query fail in every layout (no layout can hide an error). -/
theorem C02_layout_select_error (i2f : Int → Nat) (q : SelQuery) (a b : List Row)
    (h : (∀ x, selectRows i2f q a ≠ .ok x) ∨ (∀ y, selectRows i2f q b ≠ .ok y)) :
    ∀ z, selectRows i2f q (a ++ b) ≠ .ok z := by
  intro z hz
  obtain ⟨x, y, hx, hy, _⟩ := (selectRows_append_ok i2f q a b z).mp hz
  rcases h with h | h
  · exact h x hx
  · exact h y hy

/-- **ORDER BY … LIMIT/OFFSET.**  For every split and bracketing, with every partition result sorted by the keys
    (stable `sort_by` or `top_n`: any sorted arrangement `leaf` of the partition's items): the engine's answer
    satisfies the ORDER BY relation of C05 on the whole table (ties may come in any order, the cut-off is exact). -/
theorem C02_layout_order (q : OrdQuery) (parts : List (List Item)) (t : Tree (List Item))
    (hlen : t.leaves.length = parts.length)
    (hleaf : ∀ i (hi : i < parts.length), (t.leaves[i]'(hlen ▸ hi)).Perm parts[i] ∧
        Sorted (itemLe (keyDirs q.keys)) (t.leaves[i]'(hlen ▸ hi))) :
    OrderSpec (itemLe (keyDirs q.keys)) parts.flatten (evalPhysOrd q t) q.limit q.offset := by
  have hle := itemLe_totalPre (keyDirs q.keys)
  have hs : ∀ l ∈ t.leaves, Sorted (itemLe (keyDirs q.keys)) l := by
    intro l hl
    obtain ⟨i, hi, rfl⟩ := List.getElem_of_mem hl
    exact (hleaf i (hlen ▸ hi)).2
  obtain ⟨s, hp, hsorted, hout⟩ := C02_merge_sorted_take (itemLe (keyDirs q.keys)) hle q.limit q.offset t hs
  refine ⟨s, hp.trans ?_, hsorted, hout⟩
  -- the leaves are, position by position, permutations of the partitions
  have : ∀ (ls ps : List (List Item)) (h : ls.length = ps.length),
      (∀ i (hi : i < ps.length), (ls[i]'(h ▸ hi)).Perm ps[i]) → ls.flatten.Perm ps.flatten := by
    intro ls
    induction ls with
    | nil => intro ps h _; cases ps with | nil => simp | cons _ _ => simp at h
    | cons l ls ih =>
      intro ps h hp
      cases ps with
      | nil => simp at h
      | cons p ps =>
        simp only [List.flatten_cons]
        have h0 := hp 0 (by simp)
        simp only [List.getElem_cons_zero] at h0
        refine List.Perm.append h0 (ih ps (by simpa using h) ?_)
        intro i hi
        have := hp (i + 1) (by simp; omega)
        simpa using this
  exact this t.leaves parts hlen (fun i hi => (hleaf i hi).1)

/-- **Grouped aggregates (exact level).**  For every split and bracketing: merging the grouped partial results of
    the partitions gives the grouped result of the whole table. -/
theorem C02_layout_group (op : Agg) (parts : List (List (Int × Option Int))) (t : Tree (List (Int × Option Int)))
    (hleaves : t.leaves = parts.map (groupX op)) :
    t.eval (mergeX op) = groupX op parts.flatten := by
  rw [C02_combine_assoc_agg, hleaves, mergeXList_group]

/-- The top-level statement for the three query classes, all splits, all bracketings. -/
theorem C02_layout :
    (∀ (i2f : Int → Nat) (q : SelQuery) (parts : List (List Row)) (t : Tree (List Row)),
        parts.map (selectRows i2f q) = t.leaves.map Res.ok →
        evalLogicalSel i2f q parts.flatten = .ok (evalPhysSel i2f q t)) ∧
    (∀ (q : OrdQuery) (parts : List (List Item)) (t : Tree (List Item)) (hlen : t.leaves.length = parts.length),
        (∀ i (hi : i < parts.length), (t.leaves[i]'(hlen ▸ hi)).Perm parts[i] ∧
            Sorted (itemLe (keyDirs q.keys)) (t.leaves[i]'(hlen ▸ hi))) →
        OrderSpec (itemLe (keyDirs q.keys)) parts.flatten (evalPhysOrd q t) q.limit q.offset) ∧
    (∀ (op : Agg) (parts : List (List (Int × Option Int))) (t : Tree (List (Int × Option Int))),
        t.leaves = parts.map (groupX op) → t.eval (mergeX op) = groupX op parts.flatten) :=
  ⟨C02_layout_select, C02_layout_order, C02_layout_group⟩

example : groupX .sum [(2, some 5), (1, none), (2, some 7), (1, some 3)] = [(1, some 3), (2, some 12)] := by
  simp [groupX, mergeX, combineX]
example : (Tree.node (.leaf (groupX .sum [(2, some 5), (1, none)])) (.leaf (groupX .sum [(2, some 7), (1, some 3)]))).eval (mergeX .sum)
    = [(1, some 3), (2, some 12)] := by
  simp [Tree.eval, groupX, mergeX, combineX]

/-! ## 7. Liveness of the schedule: one entry, full range — for EVERY assignment of partitions to workers -/

/-- `QueryTask` hands every partition to exactly one worker exactly once (`next_partition` increments a shared index):
    the per-worker completion orders `assignment`, concatenated, are a permutation of `0 .. n-1`.  Then — whatever the
    assignment and the completion orders — the merging of `QueryTask::run` + `push_result` + the final
    `combine_results(.., require_same_level = false)` ends with EXACTLY ONE entry, and it covers all partitions
    (`owned_results.len() == 1` is not an assumption but a consequence). -/
theorem C02_schedule_live {α : Type} (f : α → α → α) (parts : List α) (assignment : List (List Nat))
    (hne : parts ≠ []) (hperm : assignment.flatten.Perm (List.range parts.length)) :
    ∃ s, schedule f parts assignment = [s] ∧ s.lo = 0 ∧ s.hi = parts.length :=
  schedule_live f parts assignment hne hperm

/-- Hence the select answer of EVERY complete schedule is the canonical one (no hypothesis on how the schedule ends). -/
theorem C02_schedule_select_total {ρ : Type} (limit offset : Nat) (parts : List (List ρ)) (assignment : List (List Nat))
    (hne : parts ≠ []) (hperm : assignment.flatten.Perm (List.range parts.length)) :
    ∃ s, schedule (combineSel (limit + offset)) parts assignment = [s] ∧
      outputSlice limit offset s.val = outputSlice limit offset parts.flatten := by
  obtain ⟨s, hs, hlo, hhi⟩ := C02_schedule_live (combineSel (limit + offset)) parts assignment hne hperm
  exact ⟨s, hs, C02_schedule_select limit offset parts assignment s hs hlo hhi⟩

/-- … and so is the ORDER BY answer, ties included. -/
theorem C02_schedule_sort_total {α : Type} (le : α → α → Bool) (h : TotalPre le) (limit offset : Nat)
    (parts : List (List α)) (assignment : List (List Nat))
    (hne : parts ≠ []) (hperm : assignment.flatten.Perm (List.range parts.length)) :
    ∃ s, schedule (combineSort le (limit + offset)) parts assignment = [s] ∧
      outputSlice limit offset s.val = outputSlice limit offset (mergeList le parts) := by
  obtain ⟨s, hs, hlo, hhi⟩ := C02_schedule_live (combineSort le (limit + offset)) parts assignment hne hperm
  exact ⟨s, hs, C02_schedule_sort le h limit offset parts assignment s hs hlo hhi⟩

/-- … and the grouped answer (exact level): the merge of the partition results in row-range order. -/
theorem C02_schedule_agg_total (op : Agg) (parts : List (List (Int × Option Int))) (assignment : List (List Nat))
    (hne : parts ≠ []) (hperm : assignment.flatten.Perm (List.range parts.length)) :
    ∃ s, schedule (mergeX op) parts assignment = [s] ∧ s.val = mergeXList op parts := by
  obtain ⟨s, hs, hlo, hhi⟩ := C02_schedule_live (mergeX op) parts assignment hne hperm
  obtain ⟨_, _, t, ht, hv⟩ := C02_schedule_tree (mergeX op) parts assignment s (by simp [hs])
  rw [hlo, hhi] at ht
  simp only [List.drop_zero, Nat.sub_zero, List.take_length] at ht
  exact ⟨s, hs, by rw [hv, C02_combine_assoc_agg, ht]⟩

-- three workers, five partitions, interleaved completion orders: a permutation of 0..4, one entry [0,5)
example : ([[3, 0], [4], [1, 2]] : List (List Nat)).flatten.Perm (List.range 5) := by decide
example : (schedule (combineSel 10) [[1], [2], [3], [4], [5]] [[3, 0], [4], [1, 2]]).map (fun s => (s.lo, s.hi, s.val))
    = [(0, 5, [1, 2, 3, 4, 5])] := by decide

/-! ## 8. The remaining operators of a streaming stage (Query/StreamOps.lean) -/

open LM.StreamOps in
/-- The chunk law for the block buffers behind a streaming stage (`BufferStream`, `BufferStreamNull`, the repaired
    `BufferStreamNullable`), `Select` / `SelectNullable` with streamed indices (streaming and block output), `Compact`
    and `merge_keep` (carried read positions): with `C02_stream_chunks` none of them can see a chunk boundary. -/
theorem C02_stream_ops2_lawful :
    (∀ {α : Type}, (bufferStreamOp (α := α)).Lawful) ∧ (∀ {α : Type}, (bufferNullOp (α := α)).Lawful) ∧
    (∀ {α : Type}, (bufferNullableOp (α := α)).Lawful) ∧
    (∀ {α : Type} (data : List α), (selectOp data).Lawful) ∧ (∀ {α : Type} (data : List α), (selectBlockOp data).Lawful) ∧
    (∀ {α : Type} (data : List (α × Bool)), (selectNullableOp data).Lawful) ∧
    (∀ {α : Type}, (compactOp (α := α)).Lawful) ∧ (∀ {α : Type} (left right : List α), (mergeKeepOp left right).Lawful) :=
  ⟨bufferStreamOp_lawful, bufferNullOp_lawful, bufferNullableOp_lawful, fun d => selectOp_lawful d,
   fun d => selectBlockOp_lawful d, fun d => selectNullableOp_lawful d, compactOp_lawful, fun l r => mergeKeepOp_lawful l r⟩

open LM.StreamOps in
/-- What a blocking consumer finds in the nullable block buffer after ANY chunking of the stage's output: all the data
    in order, and presence bit `i` set exactly when element `i` of the whole stream is present — in particular when
    chunk lengths are not multiples of 8 (the output of a WHERE filter). -/
theorem C02_buffer_nullable_content {α : Type} (chunks : List (List (α × Bool))) :
    (bufferNullableOp.runChunks ([], []) chunks).1.1 = chunks.flatten.map (·.1) ∧
    ∀ i, i ∈ (bufferNullableOp.runChunks ([], []) chunks).1.2 ↔ ∃ x, chunks.flatten[i]? = some (x, true) := by
  rw [C02_stream_chunks _ bufferNullableOp_lawful]
  refine ⟨by simp [bufferNullableOp], ?_⟩
  intro i
  simp only [bufferNullableOp, List.nil_append, List.length_nil, Nat.add_zero, List.map_id']
  exact mem_presentIdx _ i

open LM.StreamOps in
/-- The operator as it was before /repo 54594d7 (presence BYTES of every chunk appended) violates the chunk law: two
    one-element chunks put the second presence bit at position 8 instead of 1.  (Defect `buffer-stream-nullable`,
    repaired; the witness of the real code is the corpus class of that name.) -/
theorem C02_buffer_nullable_old_refuted : ¬ (bufferNullableOld (α := Nat)).Lawful := by
  intro h
  have := h.2 ([], [], 0) [(10, true)] [(20, true)]
  revert this
  decide

open LM.StreamOps in
example : (bufferNullableOp.runChunks (([] : List Nat), []) [[(10, true), (11, false), (12, true)], [(20, true)]]).1
    = ([10, 11, 12, 20], [0, 2, 3]) := by decide
open LM.StreamOps in
example : (bufferNullableOld.runChunks (([] : List Nat), [], 0) [[(10, true), (11, false), (12, true)], [(20, true)]]).1
    = ([10, 11, 12, 20], [0, 2, 8], 2) := by decide

open LM.StreamOps in
/-- `ValToNullableInt` with block output (integer keys unpacked from value rows) as repaired in /repo 3044fa3 satisfies the
    chunk law; as it was before (presence bit at the index WITHIN the chunk while the data accumulates) it does not: the
    keys of every chunk after the first read as NULL.  (Part of `groupby-valrows-streamed`; witness on the real code:
    corpus class `corpus:groupby-valrows-streamed`, 20 rows, batch_size 8.) -/
theorem C02_val_to_nullable_lawful : valToNullableOp.Lawful := valToNullableOp_lawful

open LM.StreamOps in
theorem C02_val_to_nullable_old_refuted : ¬ valToNullableOld.Lawful := by
  intro h
  have := h.2 ([], []) [some 5] [some 6]
  revert this
  decide

open LM.StreamOps in
example : (valToNullableOp.runChunks ([], []) [[some 5, none], [some 6]]).1 = ([5, 0, 6], [0, 2]) := by decide
open LM.StreamOps in
example : (valToNullableOld.runChunks ([], []) [[some 5, none], [some 6]]).1 = ([5, 0, 6], [0]) := by decide

open LM.StreamOps in
/-- LATENT (model level, no plan observed that reaches it): `SelectNullable::execute(stream = false)` called once per chunk
    — block output inside a streaming stage — accumulates the data but sets presence bits at chunk-relative positions,
    so it does NOT satisfy the chunk law.  Every `SelectNullable` the differential has seen has a streaming consumer
    (`FuseNulls`, `NullableToVal`) and therefore runs with `stream = true`, which is lawful (`C02_stream_ops2_lawful`). -/
theorem C02_select_nullable_block_refuted :
    ¬ (selectNullableBlockOp [((10 : Nat), true), (20, false)]).Lawful := by
  intro h
  have := h.2 ([], []) [1] [0]
  revert this
  decide

open LM.StreamOps in
example : (mergeKeepOp [1, 3, 5] [2, 4]).runChunks (0, 0) [[true, false], [true, false, true]]
    = ((3, 2), [some 1, some 2, some 3, some 4, some 5]) := by decide
open LM.StreamOps in
example : compact [10, 20, 30, 40] [1, 0, 2] = [10, 30] := by decide

end LM.C02
