import LocustModel.Codec.Bitmap
import LocustModel.Codec.Ops
import LocustModel.Codec.Ints
import LocustModel.Codec.Strings
import LocustModel.Codec.ColumnBuffer
import LocustModel.Lemmas.C01Ints
/-
  C01 — ingested values come back unchanged from a plain SELECT.  Property theorems only.
  All statements are for lists of ANY length and values over all of i64 / all byte strings.
-/
namespace LM.C01
open LM LM.Codec LM.Bitmap

/-! ## Integers: `IntColBuffer::push*` → `finalize` → `IntegerColumn::new_boxed` → decode program -/

/-- Full-strength statement for one integer buffer: whatever i64 values were pushed (NULL slots hold the
    placeholder 0 and are masked by the present map `null`), building the column does not panic and the
    decode program returns exactly the pushed values, paired with the same present map. -/
def C01_ints_statement : Prop :=
  ∀ (dec : Section → Section) (xs : List Int) (null : Option (List Nat)),
    xs ≠ [] → (∀ x ∈ xs, inI64 x) →
    ∃ c, (IntBuf.pushAll {} xs).finalize null = .ok c ∧ decode dec c = .ok ⟨.i64 xs, null⟩ ∧ c.len = xs.length

/-- What holds for the code as it is: the round trip is exact — every width (u8/u16/u32/i64), with and
    without offset, delta-coded or not, nullable or not, no arithmetic overflow on the way — PROVIDED the two
    open defects are not hit: (i) delta coding chosen although an adjacent difference does not fit i64,
    (ii) minimum `i64::MIN` together with maximum `0` in a column that is not delta-coded. -/
theorem C01_ints_roundtrip_partial (dec : Section → Section) (xs : List Int) (null : Option (List Nat))
    (hne : xs ≠ []) (hv : ∀ x ∈ xs, inI64 x)
    (hD : (IntBuf.pushAll {} xs).deltaEncode = true → DeltaOk xs)
    (hI : (IntBuf.pushAll {} xs).deltaEncode = false → ¬ IntervalBad xs) :
    ∃ c, (IntBuf.pushAll {} xs).finalize null = .ok c ∧ decode dec c = .ok ⟨.i64 xs, null⟩ ∧
      c.len = xs.length :=
  intBuf_roundtrip dec xs null hne hv hD hI

/-- Cells of a decoded nullable integer column: value where the bit is set, NULL elsewhere. -/
theorem C01_ints_cells (dec : Section → Section) (xs : List Int) (null : Option (List Nat))
    (hne : xs ≠ []) (hv : ∀ x ∈ xs, inI64 x)
    (hD : (IntBuf.pushAll {} xs).deltaEncode = true → DeltaOk xs)
    (hI : (IntBuf.pushAll {} xs).deltaEncode = false → ¬ IntervalBad xs) :
    ∃ c, (IntBuf.pushAll {} xs).finalize null = .ok c ∧
      decodeCells dec c = .ok (cellsOf ⟨.i64 xs, null⟩) := by
  obtain ⟨c, h1, h2, _⟩ := intBuf_roundtrip dec xs null hne hv hD hI
  exact ⟨c, h1, by simp [decodeCells, h2]⟩

/-- Defect (i), witness `[-2, i64::MAX - 1]`: both steps count as increasing, delta coding is chosen and
    `*curr -= previous` overflows (src/mem_store/integers.rs:27). -/
theorem C01_ints_delta_refuted :
    (IntBuf.pushAll {} [-2, 9223372036854775806]).finalize none = .error .overflow := by
  rfl

/-- Defect (ii), witness `[i64::MIN, 0]` (equally `[i64::MIN, NULL]`, the NULL slot stores 0):
    `(max - min) as u64` overflows because the guard is `max > 0`, not `max >= 0` (integers.rs:36). -/
theorem C01_ints_interval_refuted :
    (IntBuf.pushAll {} [-9223372036854775808, 0]).finalize none = .error .overflow := by
  rfl

/-- Hence the full statement does not hold for the code as it is. -/
theorem C01_ints_statement_refuted : ¬ C01_ints_statement := by
  intro h
  obtain ⟨c, hc, _⟩ := h id [-2, 9223372036854775806] none (by simp) (by
    intro x hx; simp at hx; rcases hx with h | h <;> subst h <;> decide)
  rw [C01_ints_delta_refuted] at hc
  cases hc

/-- The hypotheses of the partial theorem are satisfiable on non-trivial input (delta-coded, offset, nullable). -/
example : ∃ c, (IntBuf.pushAll {} [1000, 1001, 1003, 0, 1007, 1008, 1009, 1010, 1011, 1012, 1013]).finalize (some [0xf7, 0x07]) = .ok c ∧
    decode id c = .ok ⟨.i64 [1000, 1001, 1003, 0, 1007, 1008, 1009, 1010, 1011, 1012, 1013], some [0xf7, 0x07]⟩ := by
  obtain ⟨c, h1, h2, _⟩ := C01_ints_roundtrip_partial id [1000, 1001, 1003, 0, 1007, 1008, 1009, 1010, 1011, 1012, 1013]
    (some [0xf7, 0x07]) (by simp) (by intro x hx; simp at hx; rcases hx with h | h | h | h | h | h | h | h | h | h | h <;> subst h <;> decide)
    (by intro _; decide) (by decide)
  exact ⟨c, h1, h2⟩

/-- The width ladder uses `<=` at 255 / 65535 / 4294967295 in both the zero-offset and the offset arm. -/
example : ((IntBuf.pushAll {} [255, 0]).finalize none).map (·.ops) = .ok [.toI64 .u8] := by rfl
example : ((IntBuf.pushAll {} [256, 0]).finalize none).map (·.ops) = .ok [.toI64 .u16] := by rfl
example : ((IntBuf.pushAll {} [254, -1]).finalize none).map (·.ops) = .ok [.add .u8 (-1)] := by rfl
example : ((IntBuf.pushAll {} [255, -1]).finalize none).map (·.ops) = .ok [.add .u16 (-1)] := by rfl

/-! ## The present bitmap primitives (`bitvec.rs`, `init_present`, lazy creation in `push_nulls`) -/

/-- `set(i)` makes bit `i` readable as set and changes no other bit — for every index, across byte
    boundaries and beyond the current length of the vector (which it grows). -/
theorem C01_bitmap_set (bm : List Nat) (i j : Nat) :
    isSet (setBit bm i) j = (decide (j = i) || isSet bm j) := isSet_setBit bm i j

/-- bytes stay bytes. -/
theorem C01_bitmap_set_bytes (bm : List Nat) (h : Bytes bm) (i : Nat) : Bytes (setBit bm i) :=
  bytes_setBit h i

/-- the three ways `ColumnBuffer` creates a bitmap: all-NULL prefix (`vec![0; len/8]`, the partial byte is
    missing but reads as clear), all-present prefix, and the `0xff`-filled prefix of `push_nulls`: each
    describes exactly the first `len` cells and has no bit at or beyond `len` — for EVERY `len`
    (7/8/9/63/64/65 included). -/
theorem C01_bitmap_init (len j : Nat) :
    isSet (initAllNull len) j = false ∧
    isSet (initAllPresent len) j = decide (j < len) ∧
    isSet (initOnNull len) j = decide (j < len) :=
  ⟨isSet_initAllNull len j, isSet_initAllPresent len j, isSet_initOnNull len j⟩

end LM.C01
