import LocustModel.Codec.Bitmap
import LocustModel.Codec.Ops
import LocustModel.Codec.Ints
import LocustModel.Codec.Strings
import LocustModel.Codec.ColumnBuffer
import LocustModel.Lemmas.C01Ops
import LocustModel.Lemmas.C01Ints
import LocustModel.Lemmas.C01Strings
import LocustModel.Lemmas.C01Present
import LocustModel.Lemmas.C01Column
import LocustModel.Lemmas.C01Rows
import LocustModel.Lemmas.C01Split
import LocustModel.Lemmas.C01Csv
/-
  C01 — ingested values come back unchanged from a plain SELECT.  Property theorems only.
  All statements are for lists of ANY length and values over all of i64 / all byte strings / all f64 bit
  patterns.  `dec` / `cp` stand for lz4 / pco (assumed lossless, `CompOk`), `cv` for Rust std's
  `i as f64`, `i64::to_string`, `f64::to_string` (`ConvOk`: their output is shorter than 2^24 bytes).
-/
namespace LM.C01
open LM LM.Codec LM.Bitmap

/-! ## The whole column path -/

/-- **C01, one column.**  For every sequence of pushes that ingestion can issue on one `ColumnBuffer`
    (`push_ints` / `push_floats` / `push_strings` / `push_nulls` in any order and any sizes, i.e. every batch
    representation, every null pattern, every type mix), over the whole value domain (all of i64, all f64 bit
    patterns, all byte strings shorter than 2^24 bytes), for either choice of compressing section 0:
    `finalize` does not panic, the decode program does not panic, and the cells a plain SELECT reads are
    exactly the cells of the specification — the supplied values in order, NULL exactly where nothing was
    supplied, with the documented degradation int+float → float, anything+string → string.
    (`specColumn cv ops ≠ []`: a buffer with zero rows is never turned into a partition.) -/
theorem C01_column (cv : Conv) (hcv : ConvOk cv) (cp : Compressor) (hcp : CompOk cp) (use : Bool)
    (ops : List Op) (hops : ∀ op ∈ ops, OpOk op) (hrows : specColumn cv ops ≠ []) :
    columnCells cv cp use ops = .ok (specColumn cv ops) := by
  obtain ⟨cb, h1, hrel⟩ := rel_applyAll cv hcv (rel_default cv) ops hops
  obtain ⟨col, h2, _, h3⟩ := rel_finalize cv hcv cp hcp use hrel hrows
  simp only [columnCells, h1, bind_ok, h2, h3, specColumn]

/-- non-vacuity: a type-mixed, nullable, compressed column (ints, a NULL gap, a float, strings, ints again). -/
example : columnCells demoConv demoComp true
      [.ints [5, -9223372036854775808, 9223372036854775806], .nulls 2, .floats [0x8000000000000000],
       .strs [[104, 105], []], .ints [7]] =
    .ok (specColumn demoConv
      [.ints [5, -9223372036854775808, 9223372036854775806], .nulls 2, .floats [0x8000000000000000],
       .strs [[104, 105], []], .ints [7]]) :=
  C01_column demoConv demoConv_ok demoComp demoComp_ok true _
    (by intro op hop; simp at hop; rcases hop with h | h | h | h | h <;> subst h <;> simp [OpOk] <;> decide)
    (by decide)

/-- The finalized column has exactly as many rows as cells were supplied (no row lost, none invented): the
    condition `Partition::from_buffer` asserts for every column; and the buffer's own length is the number
    of rows pushed. -/
theorem C01_column_len (cv : Conv) (hcv : ConvOk cv) (ops : List Op) (hops : ∀ op ∈ ops, OpOk op)
    (hrows : specColumn cv ops ≠ []) :
    ∃ cb col, ColBuf.applyAll cv {} ops = .ok cb ∧ cb.finalize cv = .ok col ∧
      col.len = (specColumn cv ops).length ∧ cb.length = (specColumn cv ops).length := by
  obtain ⟨cb, h1, hrel⟩ := rel_applyAll cv hcv (rel_default cv) ops hops
  obtain ⟨col, h2, h3, _⟩ := rel_finalize_raw cv hcv id hrel hrows
  exact ⟨cb, col, h1, h2, h3, by simpa [flagsOf, specColumn] using hrel.inv.len⟩

/-! ## The present bitmap -/

/-- After ANY sequence of pushes: either no bitmap exists and no NULL was pushed so far, or bit `j` of the
    bitmap is set exactly for the rows that received a value — for every `j`, in particular no bit at or
    beyond the length is set (lengths 7/8/9/63/64/65 included), and every element of the bitmap is a byte. -/
theorem C01_present_inv (cv : Conv) (ops : List Op) (cb : ColBuf) (h : ColBuf.applyAll cv {} ops = .ok cb) :
    cb.length = (ops.flatMap Op.flags).length ∧
    (cb.buffer = .empty → cb.present = none ∧ ∀ f ∈ ops.flatMap Op.flags, f = false) ∧
    (cb.buffer ≠ .empty →
      match cb.present with
      | none => ∀ f ∈ ops.flatMap Op.flags, f = true
      | some bm => Bitmap.Bytes bm ∧ ∀ j, isSet bm j = flagAt (ops.flatMap Op.flags) j) := by
  have := ColBuf.inv_applyAll cv ColBuf.inv_default ops h
  simp only [List.nil_append] at this
  exact ⟨this.len, this.empty, this.typed⟩

example : ∃ cb, ColBuf.applyAll demoConv {} [.nulls 7, .ints [1, 2], .nulls 8] = .ok cb ∧
    cb.present = some [0x80, 0x01] := ⟨_, rfl, rfl⟩

/-- `set(i)` makes bit `i` readable as set and changes no other bit — for every index, across byte
    boundaries and beyond the current length of the vector (which it grows). -/
theorem C01_bitmap_set (bm : List Nat) (i j : Nat) :
    isSet (setBit bm i) j = (decide (j = i) || isSet bm j) := isSet_setBit bm i j

/-- bytes stay bytes. -/
theorem C01_bitmap_set_bytes (bm : List Nat) (h : Bytes bm) (i : Nat) : Bytes (setBit bm i) :=
  bytes_setBit h i

/-- the three ways `ColumnBuffer` creates a bitmap: all-NULL prefix (`vec![0; len/8]`, the partial byte is
    missing but reads as clear), all-present prefix, and the `0xff`-filled prefix of `push_nulls`: each
    describes exactly the first `len` cells and has no bit at or beyond `len` — for EVERY `len`. -/
theorem C01_bitmap_init (len j : Nat) :
    isSet (initAllNull len) j = false ∧
    isSet (initAllPresent len) j = decide (j < len) ∧
    isSet (initOnNull len) j = decide (j < len) :=
  ⟨isSet_initAllNull len j, isSet_initAllPresent len j, isSet_initOnNull len j⟩

/-! ## Integers: `IntColBuffer::push*` → `finalize` → `IntegerColumn::new_boxed` → decode program -/

/-- Whatever i64 values were pushed (NULL slots hold the placeholder 0 and are masked by the present map
    `null`), building the column does not panic — no overflow in the delta pass, in `interval`, in
    `v - offset` — and the decode program returns exactly the pushed values, paired with the same present
    map: every width (u8/u16/u32/i64), with and without offset, delta-coded or not, nullable or not. -/
theorem C01_ints_roundtrip (dec : Section → Section) (xs : List Int) (null : Option (List Nat))
    (hne : xs ≠ []) (hv : ∀ x ∈ xs, inI64 x) :
    ∃ c, (IntBuf.pushAll {} xs).finalize null = .ok c ∧ decode dec c = .ok ⟨.i64 xs, null⟩ ∧
      c.len = xs.length := by
  obtain ⟨c, h1, h2, h3, _⟩ := intBuf_roundtrip dec xs null hne hv
  exact ⟨c, h1, h2, h3⟩

/-- the former defect witnesses (fixed by 4571b50 / 1bb63da upstream of this model) are now round trips:
    `[-2, i64::MAX-1]` is no longer delta-coded, `[i64::MIN, 0]` no longer overflows in `interval`. -/
example : ((IntBuf.pushAll {} [-2, 9223372036854775806]).finalize none).map (·.ops) = .ok [] := by rfl
example : ((IntBuf.pushAll {} [-9223372036854775808, 0]).finalize none).map (·.ops) = .ok [] := by rfl
/-- delta-coded, offset, nullable. -/
example : ((IntBuf.pushAll {} [1000, 1001, 1003, 0, 1007, 1008, 1009, 1010, 1011, 1012, 1013]).finalize
    (some [0xf7, 0x07])).map (·.ops) = .ok [.add .u16 (-1003), .delta .i64, .push 1, .nullable] := by rfl
/-- The width ladder uses `<=` at 255 / 65535 / 4294967295 in both the zero-offset and the offset arm. -/
example : ((IntBuf.pushAll {} [255, 0]).finalize none).map (·.ops) = .ok [.toI64 .u8] := by rfl
example : ((IntBuf.pushAll {} [256, 0]).finalize none).map (·.ops) = .ok [.toI64 .u16] := by rfl
example : ((IntBuf.pushAll {} [254, -1]).finalize none).map (·.ops) = .ok [.add .u8 (-1)] := by rfl
example : ((IntBuf.pushAll {} [255, -1]).finalize none).map (·.ops) = .ok [.add .u16 (-1)] := by rfl

/-! ## Strings -/

/-- `PackedStrings` / `PackedBytes` and their iterators: every list of byte strings of every length
    (254 / 255 / 256 / 510 … included: the `255`-continuation length prefix) reads back unchanged. -/
theorem C01_packed_roundtrip (bs : List (List Nat)) : unpackAll (packAll bs) = .ok bs :=
  unpackAll_packAll bs

example : lenPrefix 254 = [254] ∧ lenPrefix 255 = [255, 0] ∧ lenPrefix 256 = [255, 1] ∧ lenPrefix 510 = [255, 255, 0] := by
  refine ⟨?_, ?_, ?_, ?_⟩ <;> simp [lenPrefix]

/-- hex packing: `hex::encode(_upper)(hex::decode(s)) = s` for every even-length string in the matching
    single case (the only strings for which `StringColBuffer` keeps `lhex` / `uhex`). -/
theorem C01_hex_roundtrip (upper : Bool) (s : Bytes) (hlen : s.length % 2 = 0)
    (hall : ∀ c ∈ s, validHexByte upper c = true) : hexEncode upper (hexDecode s) = s :=
  hexEncode_hexDecode upper s hlen hall

/-- `fast_build_string_column` followed by the decode program, all three layouts (packed, hex-packed,
    sorted dictionary with u8/u16/u32 indices), with or without a present map: the strings come back
    byte-exact.  (`HexFlagsOk`: the hex flags say what `StringColBuffer::push` computes.) -/
theorem C01_strings_roundtrip (dec : Section → Section) (strings : List Bytes) (lhex uhex : Bool)
    (present : Option (List Nat))
    (hlen : ∀ s ∈ strings, s.length < 2 ^ 24) (hflags : HexFlagsOk lhex uhex strings) :
    decode dec (fastBuild strings strings.length lhex uhex (sumLen strings) present) =
      .ok ⟨.str strings, present⟩ :=
  fastBuild_decode dec strings lhex uhex present hlen hflags

/-- the same through `StringColBuffer` (flags, byte count and the `IndexedPackedStrings` store as the buffer
    itself maintains them). -/
theorem C01_strbuf_roundtrip (dec : Section → Section) (ss : List Bytes) (present : Option (List Nat))
    (h : ∀ s ∈ ss, s.length < 2 ^ 24) :
    ∃ c, (StrBuf.pushAll {} ss).finalize present = .ok c ∧ decode dec c = .ok ⟨.str ss, present⟩ ∧
      c.len = ss.length := by
  obtain ⟨c, h1, h2, h3, _⟩ := strBuf_finalize_decode dec ss present h
  exact ⟨c, h1, h2, h3⟩

-- hex-packed: two distinct 12-digit lower-case strings → early exit (2/2 = 1 distinct), average length > 5.
set_option maxRecDepth 20000 in
example : ((StrBuf.pushAll {} [[100, 101, 97, 100, 98, 101, 101, 102, 48, 48, 49, 49],
      [48, 48, 49, 49, 50, 50, 97, 97, 98, 98, 99, 99]]).finalize none).map (·.ops)
    = .ok [.unhex false 24] := by rfl

/-- every dictionary index is below the dictionary size and fits the index width chosen by
    `dict_size <= u8::MAX` / `<= u16::MAX` / else u32 (so the `i as u8` / `as u16` / `as u32` casts are exact). -/
theorem C01_dict_index_fits (strings : List Bytes) (hsz : (sortedUniq strings).length < 2 ^ 32) :
    ∀ i ∈ strings.map (fun s => (sortedUniq strings).idxOf s),
      i < (sortedUniq strings).length ∧ i < 2 ^ (dictWidth (sortedUniq strings).length).bits := by
  intro i hi
  have h1 := idxOf_lt (sortedUniq strings) strings (fun s hs => (mem_sortedUniq s strings).mpr hs) i hi
  refine ⟨h1, ?_⟩
  unfold dictWidth
  split
  · simp only [Width.bits]; omega
  · split
    · simp only [Width.bits]; omega
    · simp only [Width.bits]; omega

/-! ## Floats -/

/-- `FloatColumn::new_boxed`: NULL slots are overwritten by the previous value, but what the client reads
    is unchanged — bit patterns preserved at every non-null position, NULL elsewhere. -/
theorem C01_float_bits (dec : Section → Section) (d : List Nat) (present : Option (List Nat)) :
    ∃ d', decode dec (floatColumn d present) = .ok ⟨.f64 d', present⟩ ∧
      cellsOf ⟨.f64 d', present⟩ = cellsOf ⟨.f64 d, present⟩ :=
  (floatColumn_decode dec d present).1

example : decodeCells id (floatColumn [0x8000000000000000, 0, 0x7ff8000000000001] (some [0b101])) =
    .ok [.float 0x8000000000000000, .null, .float 0x7ff8000000000001] := by rfl

/-! ## Compression -/

/-- lz4 / pco in front of section 0 is transparent for every column whose program does not read section 0
    again (true for every column the builders produce: `NoPush0` is part of each builder lemma). -/
theorem C01_compress_transparent (cp : Compressor) (hcp : CompOk cp) (use : Bool) (c : Column)
    (h : NoPush0 c.ops) : decode cp.dec (compress cp use c) = decode cp.dec c :=
  compress_decode cp hcp use c h

example : CompOk demoComp := demoComp_ok

/-! ## The table: rows, order, alignment across columns -/

/-- **C01, the table.**  For every non-empty sequence of batches (each with ≥ 1 row, ≥ 1 column, distinct
    column names, every column valid for the batch length — dense, short dense, sparse, mixed, empty or
    missing, in any combination and with columns coming and going between batches):
    `push_typed_cols` never fails (none of its three assertions, no underflow in the sparse loops), the
    buffer holds exactly the sum of the batch lengths, and for EVERY column name — present in all, some or
    none of the batches — a plain SELECT reads exactly one cell per ingested row, in batch order: the cells
    the batch supplied for that column (`tableOps`), NULL for every row of a batch that did not carry the
    column.  Row `k` of every column therefore belongs to the same ingested row (alignment), no column is
    shorter or longer than the table (the `from_buffer` assertion holds), nothing panics. -/
theorem C01_rows (cv : Conv) (hcv : ConvOk cv) (cp : Compressor) (hcp : CompOk cp) (use : Bool)
    (bts : List Batch) (hok : ∀ bt ∈ bts, BatchOk bt) (hne : bts ≠ []) :
    ∃ b, pushBatches cv {} bts = .ok b ∧ b.length = totalRows bts ∧
      ∀ name, b.columnCells cv cp use name = .ok (specColumn cv (tableOps name bts)) ∧
        (specColumn cv (tableOps name bts)).length = totalRows bts := by
  obtain ⟨b, h1, hinv⟩ := pushBatches_spec cv hcv bts hok (tableInv_nil cv) (by simp)
  simp only [List.nil_append] at hinv
  exact ⟨b, h1, hinv.len, fun name => tableInv_columnCells cv hcv cp hcp use hinv hok hne name⟩

/-- non-vacuity: three batches; `a` dense ints then missing then sparse, `s` appears in the second batch only. -/
example : ∃ b, pushBatches demoConv {} [
      ⟨2, [("a", .int [1, 2])]⟩,
      ⟨1, [("s", .str [[120]])]⟩,
      ⟨3, [("a", .nullableInt 3 [(1, -5)]), ("s", .null 3)]⟩] = .ok b ∧ b.length = 6 ∧
    b.columnCells demoConv demoComp true "a" = .ok [.int 1, .int 2, .null, .null, .int (-5), .null] ∧
    b.columnCells demoConv demoComp true "s" = .ok [.null, .null, .str [120], .null, .null, .null] ∧
    b.columnCells demoConv demoComp true "zz" = .ok (List.replicate 6 .null) := by
  obtain ⟨b, h1, h2, h3⟩ := C01_rows demoConv demoConv_ok demoComp demoComp_ok true [
      ⟨2, [("a", .int [1, 2])]⟩,
      ⟨1, [("s", .str [[120]])]⟩,
      ⟨3, [("a", .nullableInt 3 [(1, -5)]), ("s", .null 3)]⟩]
    (by
      intro bt hbt
      simp only [List.mem_cons, List.not_mem_nil, or_false] at hbt
      rcases hbt with h | h | h <;> subst h
      · exact ⟨by decide, by simp, by simp, by intro p hp; simp at hp; subst hp; exact ⟨rfl, by intro x hx; simp at hx; rcases hx with h | h <;> subst h <;> decide⟩⟩
      · exact ⟨by decide, by simp, by simp, by intro p hp; simp at hp; subst hp; exact ⟨rfl, by intro x hx; simp at hx; subst hx; decide⟩⟩
      · exact ⟨by decide, by simp, by simp, by
          intro p hp; simp at hp
          rcases hp with h | h <;> subst h
          · exact ⟨rfl, by simp [SparseOk], by intro q hq; simp at hq; subst hq; decide⟩
          · exact rfl⟩)
    (by simp)
  exact ⟨b, h1, h2, (h3 "a").1, (h3 "s").1, (h3 "zz").1⟩

/-- `InputColumn::from_column_data`: for every valid wire representation of a column in a batch of `rows`
    rows (dense, SHORT dense → nullable, sparse with strictly increasing indices, strings of the batch
    length, mixed, empty) the conversion succeeds, the resulting input column is valid for `C01_rows`, and the
    calls it makes on the column buffer supply — from any state of the specification — exactly the cells
    of the representation (`repOps`: the dense prefix / the sparse entries / the mixed values, NULL elsewhere). -/
theorem C01_input_column (cv : Conv) (rows : Nat) (hrows : rows > 0) (rep : Rep) (h : RepOk rows rep) :
    ∃ ic, fromColumnData rep rows = .ok ic ∧ InputOk rows ic ∧
      ∀ s, (inputOps ic).foldl (specStep cv) s = (repOps rows (some rep)).foldl (specStep cv) s :=
  fromColumnData_spec cv rows hrows rep h

example : ∃ ic, fromColumnData (.i64 [7, 8]) 5 = .ok ic ∧ InputOk 5 ic :=
  let ⟨ic, h1, h2, _⟩ := C01_input_column demoConv 5 (by decide) (.i64 [7, 8])
    ⟨by decide, by intro x hx; simp at hx; rcases hx with h | h <;> subst h <;> decide⟩
  ⟨ic, h1, h2⟩

/-! ## `ensure_property`: the planner's two-stage decode -/

/-- `Codec::ensure_property` returns a genuine split `prefix ++ suffix = ops` — or, when every op has the
    property, `([], reversed ops)` (the fall-through forgets `reverse()`; `compile_expr` only calls it
    when `is_elementwise_decodable()` is false, so that branch is dead). -/
theorem C01_split_is_split (p : CodecOp → Bool) (ops : List CodecOp) :
    (ensureProperty p ops).1 ++ (ensureProperty p ops).2 = ops ∨
      ((ensureProperty p ops).1 = [] ∧ (ensureProperty p ops).2 = ops.reverse) :=
  ensureProperty_split p ops

/-- For every column `ColumnBuffer::finalize` can return (all integer shapes, packed / hex-packed /
    dictionary strings, floats, the all-NULL column; nullable or not), compressed or not: decoding in two
    stages — `ensure_fixed_width`'s prefix with its `assert_eq!(stack.len(), 1)`, then the rest of the codec —
    gives exactly what the one-stage decode program gives. -/
theorem C01_split_decode (cv : Conv) (cp : Compressor) (use : Bool) (cb : ColBuf) (col : Column)
    (hfin : cb.finalize cv = .ok col) (v : SVal) (h : decode cp.dec (compress cp use col) = .ok v) :
    decodeQuery cp.dec (compress cp use col) = .ok v := by
  have hcore := finalize_core cv cb col hfin
  have hg := coreOps_good col.ops hcore
  refine decodeQuery_eq cp.dec _ ?_ v h
  rcases compress_ops cp use col with h1 | h1 <;> rw [h1]
  · exact hg.1
  · exact hg.2

example : ensureProperty CodecOp.elementwise [.decomp, .push 3, .nullable, .push 1, .push 2, .dict .u8] =
    ([.decomp, .push 3, .nullable], [.push 1, .push 2, .dict .u8]) := by rfl

/-! ## CSV: per-chunk column typing (`RawCol::finalize`; `str::parse` results are inputs) -/

/-- one typed value per CSV field, in order (row alignment across the columns of a chunk). -/
theorem C01_csv_aligned (allow : Bool) (cells : List CsvCell) :
    (csvFinalize allow cells).length = cells.length := csvFinalize_length allow cells

/-- a chunk's column is single-typed — strings, or floats, or integers, NULLs aside — so the batch built
    from it never triggers type degradation inside the chunk. -/
theorem C01_csv_single_typed (allow : Bool) (cells : List CsvCell) :
    (∀ v ∈ csvFinalize allow cells, v.isNull ∨ v.isStr) ∨
    (∀ v ∈ csvFinalize allow cells, v.isNull ∨ v.isFloat) ∨
    (∀ v ∈ csvFinalize allow cells, v.isNull ∨ v.isInt) := csvFinalize_uniform allow cells

/-- without `allow_nulls` a typed column has no NULL (an empty field reads `""` / `0.0` / `0`). -/
theorem C01_csv_no_null (cells : List CsvCell)
    (htyped : (csvTypes cells).str = true ∨ (csvTypes cells).float = true ∨ (csvTypes cells).int = true) :
    ∀ v ∈ csvFinalize false cells, v.isNull = false := csvFinalize_no_null cells htyped

example : csvFinalize true [⟨[55], .int 7 0x401c000000000000⟩, ⟨[], .empty⟩, ⟨[49, 46, 53], .float 0x3ff8000000000000⟩] =
    [.float 0x401c000000000000, .null, .float 0x3ff8000000000000] := by rfl

end LM.C01
