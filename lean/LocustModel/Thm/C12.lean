import LocustModel.Lemmas.C12Convert
import LocustModel.Lemmas.C12Normalize
import LocustModel.Lemmas.C12Output
import LocustModel.Lemmas.C12Task
import LocustModel.Lemmas.C12Front
/-
  C12 — every query string gets a well-formed answer or an error value.
  Property theorems only (helper lemmas live in Lemmas/C12*.lean).  All statements quantify over
  ALL syntax trees / queries / batch shapes / schedules; nothing is bounded.
-/
namespace LM.C12
open LM LM.Norm

/-! ### 1. The converter never panics -/

/-- `parse_query` returns a `Query` or an error VALUE for every syntax tree sqlparser can hand it
    (hypothesis: the text of every number token is accepted by Rust's float parser — the tokenizer's
    number grammar; it is the only `unwrap` left on the path, in `get_raw_val`).  Before the `fix:`
    commits this failed for `LIMIT 1.5`, `OFFSET 1e3`, `LIMIT 99999999999999999999`, `""`, `";"`. -/
theorem C12_convert_total (p : Parsed) (h : p.NumsOk) : (parseQuery p).NoFault := by
  cases p with
  | parserError => trivial
  | otherError => trivial
  | stmts ss =>
    simp only [parseQuery]
    split
    · trivial
    · split
      · trivial
      · trivial
      · rename_i q hlast
        obtain ⟨ys, hys⟩ := List.getLast?_eq_some_iff.mp hlast
        have hq : q.NumsOk := by
          have : Statement.NumsOk (.query q) := h (.query q) (by rw [hys]; simp)
          exact this
        refine Res.noFault_bind (getQueryComponents_noFault q) fun c hc => ?_
        obtain ⟨s, hs, hproj, hsel, hob⟩ := getQueryComponents_fields q c hc
        unfold AQuery.NumsOk at hq
        rw [hs] at hq
        obtain ⟨⟨hitems, hselok⟩, hobok⟩ := hq
        refine Res.noFault_bind (getProjection_noFault _ (by rw [hproj]; exact hitems)) fun _ _ => ?_
        refine Res.noFault_bind (getTableName_noFault _) fun _ _ => ?_
        have hob' : (getOrderBy c.orderBy).NoFault := by
          rw [hob]
          cases hq2 : q.orderBy with
          | none => trivial
          | all => trivial
          | exprs es =>
            rw [hq2] at hobok
            exact getOrderByList_noFault es hobok
        have htail : ∀ (sel : List ColumnInfo) (tbl : String) (filter : Expr),
            (getOrderBy c.orderBy >>= fun orderBy => getLimit c.limit >>= fun limit =>
              getOffset c.offset >>= fun offset =>
                (pure { select := sel, table := tbl, filter := filter, orderBy := orderBy,
                        limit := { limit := limit, offset := offset } } : Res Query)).NoFault := by
          intro sel tbl filter
          refine Res.noFault_bind hob' fun _ _ => ?_
          refine Res.noFault_bind (getLimit_noFault _) fun _ _ => ?_
          exact Res.noFault_bind (getOffset_noFault _) fun _ _ => trivial
        refine Res.noFault_bind (getFilter_noFault _ (by rw [hsel]; exact hselok)) fun _ _ => ?_
        exact htail _ _ _

/-- The whole part of `run_query` that executes on the CALLER's thread — `parse_query`, the column-name
    lookup for `*`, the table lookup, the `SELECT *` expansion with its `column_names.unwrap()`, and
    `Query::normalize` inside `QueryTask::new` — ends in a task or an error value for every syntax tree and
    every catalogue state: no panic in the caller. -/
theorem C12_front_total (p : Parsed) (cat : Catalog) (h : p.NumsOk) : (runFront p cat).NoFault :=
  runFront_noFault p cat (C12_convert_total p h)

/-- Non-vacuity, and the fixed defects as concrete trees: `SELECT a FROM t LIMIT 1.5` is a ParseError
    value, as are `OFFSET 1e3`, a LIMIT beyond u64, and a string without any statement. -/
def limitQuery (lim : Option AExpr) (off : Option AExpr) : Parsed :=
  .stmts [.query { body := .select { distinct := false, projection := [.unnamed (.ident "a") "a"],
                                      from_ := [{ relation := .table "t", joins := 0 }], selection := none,
                                      groupBy := .exprs 0 0, having := false },
                   orderBy := .none, limit := .limitOffset lim off }]

example : (limitQuery (some (.value (.number "1.5" (some 0x3ff8000000000000)))) none).NumsOk := by
  simp [limitQuery, Parsed.NumsOk, Statement.NumsOk, AQuery.NumsOk, SelItem.NumsOk, AExpr.NumsOk]
example : parseQuery (limitQuery (some (.value (.number "1.5" (some 0x3ff8000000000000)))) none) = .err .parse := by
  decide
example : parseQuery (limitQuery none (some (.value (.number "1e3" (some 0x408f400000000000))))) = .err .parse := by
  decide
example : parseQuery (limitQuery (some (.value (.number "18446744073709551616" (some 0x43f0000000000000)))) none) = .err .parse := by
  decide
example : parseQuery (limitQuery (some (.value (.number "18446744073709551615" (some 0x43f0000000000000)))) none)
    = .ok { select := [{ expr := .col "a", name := "a" }], table := "t", filter := .const (.int 1), orderBy := [],
            limit := { limit := 18446744073709551615, offset := 0 } } := by
  decide
example : parseQuery (.stmts []) = .err .parse := by decide
/-- The hypothesis of `C12_convert_total` is needed: a number text that Rust's float parser rejects
    (which sqlparser's tokenizer never produces) would reach the remaining `unwrap`. -/
def badNumberQuery : Parsed :=
  .stmts [.query { body := .select { distinct := false,
                                      projection := [.unnamed (.value (.number "1x" none)) "1x"],
                                      from_ := [], selection := none, groupBy := .all, having := false },
                   orderBy := .none, limit := .none }]
example : parseQuery badNumberQuery = .fault .unwrap := by decide

/-! ### 2. Shape of the normal form -/

/-- `Query::normalize`: `result_column_sources` has exactly one entry per select item, in select-list
    order; every entry indexes an existing projection / aggregate of the pass whose result is turned
    into the answer, and that projection / aggregate carries the select item's name; the LIMIT/OFFSET
    of that pass is the query's. -/
theorem C12_normalize_shape (q : Query) (n : Normalized) (h : normalize q = .ok n) :
    n.sources.length = q.select.length ∧
    (∀ (k : Nat) (ci : ColumnInfo), q.select[k]? = some ci →
      ∃ rc, n.sources[k]? = some rc ∧
        SrcOk n.outputPass.projection n.outputPass.aggregate rc ci.name) ∧
    n.outputPass.limit = q.limit := by
  unfold normalize at h
  split at h
  · cases h
  · cases h
  · rename_i acc heq
    have g : Good q.select acc := by simpa using Good.loop q.select Good.init heq
    dsimp only at h
    split at h
    · -- a final pass is needed
      split at h
      · cases h
      · cases h
      · rename_i oacc _
        injection h with h; subst h
        refine ⟨by simp [g.fplen], ?_, rfl⟩
        intro k ci hk
        obtain ⟨c, hc, hn⟩ := g.fpnames k ci hk
        have hlt : k < acc.finalProjection.length := (List.getElem?_eq_some_iff.mp hc).1
        refine ⟨.proj k, ?_, ?_⟩
        · simp [List.getElem?_map, List.getElem?_range hlt]
        · exact ⟨c, by simpa [Normalized.outputPass] using hc, hn⟩
    · injection h with h; subst h
      refine ⟨g.len, ?_, rfl⟩
      intro k ci hk
      obtain ⟨rc, hrc, hs⟩ := g.src k ci hk
      exact ⟨rc, hrc, by simpa [Normalized.outputPass] using hs⟩

/-- Non-vacuity: `SELECT a, SUM(b) AS s, a + 1 FROM t LIMIT 10 OFFSET 2` has no final pass; sources are
    projection 0, aggregate 0, projection 1. -/
def exQuery1 : Query :=
  { select := [{ expr := .col "a", name := "a" }, { expr := .agg .sum (.col "b"), name := "s" },
               { expr := .f2 .add (.col "a") (.const (.int 1)), name := "a + 1" }],
    table := "t", filter := .const (.int 1), orderBy := [], limit := { limit := 10, offset := 2 } }

example : ∃ n, normalize exQuery1 = .ok n ∧ n.sources = [.proj 0, .agg 0, .proj 1] ∧ n.final = none ∧
    n.main.projection.length = 2 ∧ n.main.aggregate.length = 1 := by
  refine ⟨_, rfl, ?_⟩; decide

/-- … and `SELECT AVG(x) FROM t` (= SUM/COUNT) goes through a final pass with source projection 0. -/
def exQuery2 : Query :=
  { select := [{ expr := .f2 .div (.agg .sum (.col "x")) (.agg .count (.col "x")), name := "AVG(x)" }],
    table := "t", filter := .const (.int 1), orderBy := [], limit := { limit := 5, offset := 0 } }

example : ∃ n, normalize exQuery2 = .ok n ∧ n.sources = [.proj 0] ∧ n.final.isSome = true ∧
    n.main.aggregate.length = 2 := by
  refine ⟨_, rfl, ?_⟩; decide

/-! ### 3. The answer is well-formed -/

/-- `convert_to_output_format`: on any batch result that passes `validate` and in which every result
    column source resolves, the conversion neither panics nor fails and the answer is well-formed: one column per
    output name, in order, under that name; all columns equally long; the row view (if requested) is the
    transposition of the column view; at most LIMIT rows — for every LIMIT and OFFSET, including
    OFFSET beyond the result (clamped since the `fix:`). -/
theorem C12_output_wellformed {α : Type} (t : TaskShape) (b : Batch α)
    (hv : b.validate = true)
    (hs : ∀ rc ∈ t.sources, ∃ c, sourceColumn b rc = .ok c)
    (hl : t.outputColnames.length = t.sources.length) :
    ∃ o, convertToOutput t b = .ok o ∧ WellFormed (t.outputColnames.map .exact) t.limit.limit o := by
  obtain ⟨cs, hcs⟩ := Sources.exists b hv t.sources hs
  have hcl : cs.length = t.sources.length := hcs.length
  -- the quantities of the Rust function
  generalize hoff : min t.limit.offset b.len = offset
  generalize hcnt : min t.limit.limit (b.len - offset) = count
  have hoc : offset + count ≤ b.len := by omega
  have hcl' : count ≤ t.limit.limit := by omega
  have hrec := recordsFrom_ok hcs offset count hoc
  have hcol := columnsOut_ok hcs offset count hoc t.outputColnames hl
  obtain ⟨slices, hslices⟩ : ∃ s, s = cs.map fun c => (c.drop offset).take count := ⟨_, rfl⟩
  rw [← hslices] at hcol
  have hslen : ∀ s ∈ slices, s.length = count := by
    intro s hs'
    rw [hslices] at hs'
    obtain ⟨c, hc, rfl⟩ := List.mem_map.mp hs'
    have hcL : c.length = b.len := hcs.col_length c hc
    simp; omega
  have hzl : t.outputColnames.length = slices.length := by simp [hslices, hcl, hl]
  have hrows : (List.range count).map (fun j => cs.filterMap fun c => c[offset + j]?) = rowView slices count := by
    unfold rowView
    apply List.map_congr_left
    intro k hk
    have hk' : k < count := List.mem_range.mp hk
    simp only [hslices, List.filterMap_map]
    congr 1
    funext c
    simp [Function.comp, getElem?_slice c offset count k hk']
  rw [hrows] at hrec
  refine ⟨⟨t.outputColnames, if t.rowformat then some (rowView slices count) else none,
            t.outputColnames.zip slices⟩, ?_, ?_⟩
  · unfold convertToOutput
    simp only [hoff, hcnt, hv, Bool.not_true, Bool.false_eq_true, if_false, hrec, hcol]
    cases t.rowformat <;> simp [Except.map]
  · -- well-formedness
    have hcolsnd : (t.outputColnames.zip slices).map (·.2) = slices := zip_map_snd _ _ hzl
    have hlen : ∀ c ∈ t.outputColnames.zip slices, c.2.length = count := by
      intro c hc
      exact hslen c.2 (by rw [← hcolsnd]; exact List.mem_map_of_mem hc)
    -- number of rows of the answer
    have holen : (Output.len (⟨t.outputColnames, if t.rowformat then some (rowView slices count) else none,
            t.outputColnames.zip slices⟩ : Output α) = count) ∨
        (t.outputColnames.zip slices = [] ∧ t.rowformat = false ∧
          Output.len (⟨t.outputColnames, if t.rowformat then some (rowView slices count) else none,
            t.outputColnames.zip slices⟩ : Output α) = 0) := by
      unfold Output.len
      cases hz : t.outputColnames.zip slices with
      | cons c rest => left; simp only; exact hlen c (by rw [hz]; simp)
      | nil =>
        cases hr : t.rowformat with
        | true => left; simp [rowView]
        | false => right; simp
    refine ⟨?_, ?_, namesOk_exact _, ?_, ?_, ?_⟩
    · simp only [List.length_zip, List.length_map, ← hzl, Nat.min_self]
    · exact (zip_map_fst _ _ hzl).symm
    · intro c hc
      rcases holen with h1 | ⟨h1, _, _⟩
      · rw [h1]; exact hlen c hc
      · simp only at hc; rw [h1] at hc; cases hc
    · rcases holen with h1 | ⟨_, _, h1⟩
      · rw [h1]; exact hcl'
      · rw [h1]; exact Nat.zero_le _
    · rcases holen with h1 | ⟨_, hrf, _⟩
      · rw [h1]
        simp only [hcolsnd]
        cases t.rowformat <;> simp [rowsAgree]
      · simp only [hrf]; simp [rowsAgree]

/-- Non-vacuity: 2 columns × 4 rows, `LIMIT 2 OFFSET 1`, both views. -/
example : convertToOutput (α := Nat)
    { outputColnames := ["x", "n"], sources := [.agg 0, .proj 0], limit := { limit := 2, offset := 1 }, rowformat := true }
    { columns := [[1, 2, 3, 4], [10, 20, 30, 40]], projection := [0], aggregations := [1] }
    = .ok { colnames := ["x", "n"], rows := some [[20, 2], [30, 3]],
            columns := [("x", [20, 30]), ("n", [2, 3])] } := by
  rfl

/-- A batch result that fails `validate` (columns of different lengths — what the executor produced for
    the open finding where-null-partition-empty) is answered with a FatalError VALUE, for every task shape:
    no panic on the worker, no lost answer (since the `fix:`; before, `validate().unwrap()` panicked). -/
theorem C12_output_invalid_is_error {α : Type} (t : TaskShape) (b : Batch α) (h : b.validate = false) :
    convertToOutput t b = .err .fatal := by
  unfold convertToOutput
  simp [h]

example : convertToOutput (α := Nat)
    { outputColnames := ["x", "n"], sources := [.proj 0, .proj 1], limit := { limit := 5, offset := 0 }, rowformat := true }
    { columns := [[1, 2, 3], []], projection := [0, 1], aggregations := [] } = .err .fatal := by
  rfl
example : WellFormed (α := Nat) [.exact "x", .any] 2
    { colnames := ["x", "n"], rows := some [[20, 2], [30, 3]], columns := [("x", [20, 30]), ("n", [2, 3])] } := by
  decide
/-- … and what the specification rejects: the early answer before the `fix:` (names without columns). -/
example : ¬ WellFormed (α := Nat) [.exact "name"] U64_MAX { colnames := ["name"], rows := some [], columns := [] } := by
  decide

/-- The early answer of `QueryTask::new` for a table without partitions is well-formed. -/
theorem C12_early_answer_wellformed {α : Type} (names : List String) (limit : Nat) :
    WellFormed (α := α) (names.map .exact) limit (earlyAnswer names) := by
  unfold earlyAnswer
  refine ⟨by simp, by simp [List.map_map, Function.comp_def], namesOk_exact _, ?_, ?_, ?_⟩
  · intro c hc
    obtain ⟨n, _, rfl⟩ := List.mem_map.mp hc
    unfold Output.len
    cases names <;> simp
  · unfold Output.len; cases names <;> simp
  · unfold Output.len; cases names <;> simp [rowsAgree, rowView]

/-! ### 4. End to end: from the syntax tree to the answer -/

/-- Composition: whenever the front end produces a task, every batch result of the trusted shape is
    converted, without panic, into an answer with one column per (expanded) select item, in select-list
    order, under the item's name, with equal column lengths, matching row view, and at most LIMIT rows,
    where LIMIT is the one written in the query. -/
theorem C12_answer_wellformed {α : Type} (p : Parsed) (cat : Catalog) (plan : TaskPlan) (rowformat : Bool)
    (b : Batch α) (h : runFront p cat = .ok plan) (hb : ExecShape plan.norm.outputPass b) :
    ∃ q o, parseQuery p = .ok q ∧
      convertToOutput { outputColnames := plan.outputColnames, sources := plan.norm.sources,
                        limit := plan.norm.outputPass.limit, rowformat := rowformat } b = .ok o ∧
      WellFormed (plan.outputColnames.map .exact) q.limit.limit o ∧
      (q.isSelectStar = false → plan.outputColnames = q.select.map (·.name)) := by
  obtain ⟨q, q', cols, hq, _, hx, hn, hnames⟩ := runFront_ok p cat plan h
  obtain ⟨hlen, hsrc, hlim⟩ := C12_normalize_shape q' plan.norm hn
  have hq'lim : q'.limit = q.limit := by
    unfold expandStar at hx
    split at hx
    · split at hx
      · cases hx
      · injection hx with hx; subst hx; rfl
    · injection hx with hx; subst hx; rfl
  have hsources : ∀ rc ∈ plan.norm.sources, ∃ c, sourceColumn b rc = .ok c := by
    intro rc hrc
    obtain ⟨k, hk, hkrc⟩ := List.getElem_of_mem hrc
    have hk' : k < q'.select.length := by rw [← hlen]; exact hk
    obtain ⟨rc', hrc', hs⟩ := hsrc k q'.select[k] (List.getElem?_eq_getElem hk')
    rw [List.getElem?_eq_getElem hk, hkrc] at hrc'
    injection hrc' with hrc'; subst hrc'
    cases rc with
    | proj i =>
      obtain ⟨c, hc, _⟩ := hs
      have hi : i < b.projection.length := by rw [hb.nproj]; exact (List.getElem?_eq_some_iff.mp hc).1
      have hidx := hb.projRange b.projection[i] (List.getElem_mem hi)
      exact ⟨b.columns[b.projection[i]], by simp [sourceColumn, List.getElem?_eq_getElem hi, List.getElem?_eq_getElem hidx]⟩
    | agg i =>
      obtain ⟨a, ha, _⟩ := hs
      have hi : i < b.aggregations.length := by rw [hb.nagg]; exact (List.getElem?_eq_some_iff.mp ha).1
      have hv := hb.valid
      unfold Batch.validate at hv
      simp only [Bool.and_eq_true, List.all_eq_true, decide_eq_true_eq] at hv
      have hidx := hv.2 b.aggregations[i] (List.getElem_mem hi)
      exact ⟨b.columns[b.aggregations[i]], by simp [sourceColumn, List.getElem?_eq_getElem hi, List.getElem?_eq_getElem hidx]⟩
  obtain ⟨o, ho, hwf⟩ := C12_output_wellformed
    { outputColnames := plan.outputColnames, sources := plan.norm.sources,
      limit := plan.norm.outputPass.limit, rowformat := rowformat } b hb.valid hsources
    (by simp [hnames, hlen])
  refine ⟨q, o, hq, ho, ?_, ?_⟩
  · simpa [hlim, hq'lim] using hwf
  · intro hstar
    unfold expandStar at hx
    rw [hstar] at hx
    simp at hx
    rw [hnames, ← hx]

/-- An unknown table never yields a result: `run_query` answers with an error value. -/
theorem C12_unknown_table_is_error (p : Parsed) (cat : Catalog) (hnum : p.NumsOk) (ht : cat.tableExists = false) :
    ∃ e, runFront p cat = .err e := by
  have hnf := C12_convert_total p hnum
  unfold runFront
  cases hq : parseQuery p with
  | err e => exact ⟨e, by simp⟩
  | fault f => rw [hq] at hnf; exact absurd hnf (by simp [Res.NoFault])
  | ok q =>
    simp only [Res.ok_bind, ht]
    split
    · split
      · exact ⟨.fatal, by simp⟩
      · exact ⟨.fatal, by simp⟩
      · exact ⟨.notimpl, by simp⟩
    · exact ⟨.notimpl, by simp⟩

/-! ### 4b. One column per select item — full statement, what holds, and the open finding -/

/-- Full-strength statement: a single SELECT whose select list contains no wildcard item is answered
    with exactly one output column per select item. -/
def C12_one_column_per_item_statement : Prop :=
  ∀ (q : AQuery) (s : ASelect) (cat : Catalog) (plan : TaskPlan),
    q.body = .select s → (∀ it ∈ s.projection, it ≠ SelItem.wildcard) →
    runFront (.stmts [.query q]) cat = .ok plan → plan.outputColnames.length = s.projection.length

/-- It holds whenever the converted query is not taken for `SELECT *`, i.e. unless the select list is the
    single item `"*"` — an identifier written WITH quotes, which `is_select_star` cannot tell from the
    wildcard because both become `ColName("*")` (open finding C12-quoted-star-is-wildcard). -/
theorem C12_one_column_per_item_partial (q : AQuery) (s : ASelect) (cat : Catalog) (plan : TaskPlan)
    (hb : q.body = .select s)
    (hstar : ∀ qq, parseQuery (.stmts [.query q]) = .ok qq → qq.isSelectStar = false)
    (h : runFront (.stmts [.query q]) cat = .ok plan) :
    plan.outputColnames.length = s.projection.length := by
  obtain ⟨qq, q', cols, hq, _, hx, _, hnames⟩ := runFront_ok _ cat plan h
  have hns := hstar qq hq
  unfold expandStar at hx
  rw [hns] at hx
  simp at hx
  subst hx
  obtain ⟨c, hc, hp⟩ := parseQuery_select q qq hq
  obtain ⟨s', hs', hproj, _, _⟩ := getQueryComponents_fields q c hc
  rw [hb] at hs'
  injection hs' with hs'
  subst hs'
  rw [hnames, List.length_map, getProjection_length _ _ hp, hproj]

/-- The witness: `SELECT "*" FROM t` on a table with columns a and b. -/
def quotedStarQuery : AQuery :=
  { body := .select { distinct := false, projection := [.unnamed (.ident "*") "\"*\""],
                      from_ := [{ relation := .table "t", joins := 0 }], selection := none,
                      groupBy := .exprs 0 0, having := false },
    orderBy := .none, limit := .none }

/-- The full statement is false: the quoted identifier `"*"` is expanded like the wildcard (replayed on
    the real code by the harness class `sys:ident:"*`). -/
theorem C12_one_column_per_item_refuted : ¬ C12_one_column_per_item_statement := by
  intro h
  have := h quotedStarQuery _ { tableExists := true, metaCols := .names ["a", "b"], partitions := 1 }
    { norm := { main := { projection := [{ expr := .col "a", name := "a" }, { expr := .col "b", name := "b" }],
                          aggregate := [], filter := .const (.int 1), orderBy := [],
                          limit := { limit := U64_MAX, offset := 0 } },
                final := none, sources := [.proj 0, .proj 1] },
      outputColnames := ["a", "b"], partitions := 1 }
    rfl (by decide) (by decide)
  simp at this

/-- Non-vacuity of the partial theorem's hypothesis: `SELECT a FROM t` is not taken for `SELECT *`. -/
def plainQueryResult : Query :=
  { select := [{ expr := .col "a", name := "a" }], table := "t", filter := .const (.int 1), orderBy := [],
    limit := { limit := U64_MAX, offset := 0 } }

example : ∀ qq, parseQuery (limitQuery none none) = .ok qq → qq.isSelectStar = false := by
  intro qq h
  have : parseQuery (limitQuery none none) = .ok plainQueryResult := by decide
  rw [this] at h
  injection h with h
  subst h
  decide

/-! ### 5. The answer is delivered exactly once -/

/-- Every run of a query task — any number of partitions, any number of worker threads, any
    interleaving of their atomic steps, any outcome (value, error value, panic) of the executor, the
    merges, the final pass and the conversion — puts AT MOST one value into the answer channel; and
    once every worker has returned, EXACTLY one value has been delivered unless some worker panicked. -/
theorem C12_answer_exactly_once (parts workers : Nat) (s : Task.St)
    (hr : Task.Reach (Task.init parts workers) s) :
    s.sh.delivered ≤ 1 ∧
    (Task.Terminal s → (parts = 0 ∨ 1 ≤ workers) → s.sh.delivered = 1 ∨ ∃ w ∈ s.ws, w = .dead) := by
  have hi := (Task.Inv.init parts workers).reach hr
  have hparts : s.sh.parts = parts := by
    clear hi
    induction hr with
    | refl => unfold Task.init; simp; split <;> simp [Task.send]
    | step _ hs ih =>
      rw [← ih]
      cases hs <;> simp [Task.failNoLock, Task.send] <;> (try split) <;> rfl
  constructor
  · rw [hi.deliv]; split <;> omega
  · intro hterm hw
    by_cases hdead : ∃ w ∈ s.ws, w = Task.Worker.dead
    · right; exact hdead
    · left
      have hnd : Task.NoDead s.ws := fun w hw hd => hdead ⟨w, hw, hd⟩
      have hdone : ∀ w ∈ s.ws, w = Task.Worker.done := by
        intro w hw
        rcases hterm w hw with h | h
        · exact h
        · exact absurd h (hnd w hw)
      have hsender : s.sh.senderPresent = false := by
        by_cases hp0 : s.sh.parts = 0
        · exact hi.empty hp0
        · cases hc : s.sh.completed with
          | true => exact hi.compl hc
          | false =>
            exfalso
            have hwk : 1 ≤ workers := by
              rcases hw with h | h
              · exact absurd (hparts.trans h) hp0
              · exact h
            have hlen : s.ws.length = workers := by
              rw [Task.reach_length hr]; simp [Task.init]
            obtain ⟨w, hwm⟩ : ∃ w, w ∈ s.ws := by
              cases hws : s.ws with
              | nil => rw [hws] at hlen; simp at hlen; omega
              | cons w _ => exact ⟨w, by simp⟩
            have hpast := hi.past w hwm (Or.inl (hdone w hwm))
            rw [hc] at hpast
            have hge : s.sh.parts ≤ s.sh.batchIndex := by
              rcases hpast with h | h
              · cases h
              · exact h
            have hacct := hi.acct hnd hc
            rw [Task.total_done _ rfl _ hdone, Task.total_done _ rfl _ hdone] at hacct
            rcases hi.below hnd hc with h | h
            · exact hp0 h
            · omega
      rw [hi.deliv, hsender]; rfl

/-- Non-vacuity: two partitions, one worker, everything succeeds — the run ends with one delivery. -/
example : ∃ s, Task.Reach (Task.init 2 1) s ∧ Task.Terminal s ∧ s.sh.delivered = 1 ∧ s.sh.completed = true := by
  let sh0 : Task.Shared := { parts := 2, batchIndex := 0, completed := false, completedBatches := 0,
                             senderPresent := true, delivered := 0, poisoned := false }
  refine ⟨⟨{ sh0 with batchIndex := 3, completedBatches := 2, senderPresent := false, delivered := 1, completed := true },
           [.done]⟩, ?_, ?_, rfl, rfl⟩
  · have r0 : Task.Reach (Task.init 2 1) ⟨sh0, [] ++ Task.Worker.looping 0 :: []⟩ := Task.Reach.refl _
    have r1 := r0.step (Task.Step.claim sh0 [] [] 0 (by decide))
    have r2 := r1.step (Task.Step.processed _ [] [] 0)
    have r3 := r2.step (Task.Step.checkContinue _ [] [] 1 rfl)
    have r4 := r3.step (Task.Step.claim _ [] [] 1 (by decide))
    have r5 := r4.step (Task.Step.processed _ [] [] 1)
    have r6 := r5.step (Task.Step.checkContinue _ [] [] 2 rfl)
    have r7 := r6.step (Task.Step.exhausted _ [] [] 2 (by decide))
    have r8 := r7.step (Task.Step.pushFinalOk _ [] [] 2 2 (by decide) rfl rfl rfl)
    have r9 := r8.step (Task.Step.finish _ [] [] rfl)
    exact r9
  · intro w hw; simp at hw; left; exact hw

/-- … and a run in which the final push panics under the lock ends without a delivery (the caller sees
    `Canceled` when the sender is dropped): the "or a fault" branch is really there. -/
example : ∃ s, Task.Reach (Task.init 1 1) s ∧ Task.Terminal s ∧ s.sh.delivered = 0 := by
  let sh0 : Task.Shared := { parts := 1, batchIndex := 0, completed := false, completedBatches := 0,
                             senderPresent := true, delivered := 0, poisoned := false }
  refine ⟨⟨{ sh0 with batchIndex := 2, completedBatches := 1, poisoned := true }, [.dead]⟩, ?_, ?_, rfl⟩
  · have r0 : Task.Reach (Task.init 1 1) ⟨sh0, [] ++ Task.Worker.looping 0 :: []⟩ := Task.Reach.refl _
    have r1 := r0.step (Task.Step.claim sh0 [] [] 0 (by decide))
    have r2 := r1.step (Task.Step.processed _ [] [] 0)
    have r3 := r2.step (Task.Step.checkContinue _ [] [] 1 rfl)
    have r4 := r3.step (Task.Step.exhausted _ [] [] 1 (by decide))
    have r5 := r4.step (Task.Step.pushFinalPanic _ [] [] 1 1 (by decide) rfl rfl rfl)
    exact r5
  · intro w hw; simp at hw; right; exact hw

end LM.C12
