import LocustModel.Query.Arith
import LocustModel.Query.ArithSpec
import LocustModel.Query.ArithTree
/-
  C06 — integer arithmetic is exact or the query fails; it never wraps.
  Property theorems only.  Operands range over all of i64 (`inI64`), no size bound.
-/
namespace LM.C06
open LM LM.Arith LM.ArithSpec

/-- Totality: no `perform_checked` call panics, for any operands (in particular `i64::MIN % -1`
    and `i64::MIN / -1`). -/
theorem C06_checked_total (op : Op) (l r : Int) : ∃ v o, performChecked op l r = .ok (v, o) := by
  cases op
  · exact ⟨_, _, rfl⟩
  · exact ⟨_, _, rfl⟩
  · exact ⟨_, _, rfl⟩
  · simp only [performChecked]; split <;> exact ⟨_, _, rfl⟩
  · simp only [performChecked]; split <;> exact ⟨_, _, rfl⟩

/-- Exactness: when the overflow flag is clear, the value is the mathematically exact one and fits i64. -/
theorem C06_checked_exact (op : Op) (l r : Int) (hl : inI64 l) (hr : inI64 r) (v : Int)
    (h : performChecked op l r = .ok (v, false)) :
    exact op l r = some v ∧ inI64 v := by
  cases op
  · -- add
    simp [performChecked, ovfAdd] at h
    obtain ⟨h1, h2⟩ := h
    simp [exact]; rw [← h1, wrap64_id h2]; exact ⟨rfl, h2⟩
  · simp [performChecked, ovfSub] at h
    obtain ⟨h1, h2⟩ := h
    simp [exact]; rw [← h1, wrap64_id h2]; exact ⟨rfl, h2⟩
  · simp [performChecked, ovfMul] at h
    obtain ⟨h1, h2⟩ := h
    simp [exact]; rw [← h1, wrap64_id h2]; exact ⟨rfl, h2⟩
  · -- div
    simp only [performChecked] at h
    split at h
    · simp at h
    · rename_i hg
      simp at h
      have hr0 : r ≠ 0 := by intro h0; exact hg (Or.inl h0)
      simp [exact, hr0, h]
      subst h
      -- |l / r| ≤ |l|, and the only out-of-range quotient MIN / -1 is excluded by the guard
      unfold inI64 I64_MIN I64_MAX at *
      have hguard : ¬ (l ≤ -9223372036854775807 ∧ r = -1) := by
        intro hh; exact hg (Or.inr hh)
      have habs : (Int.tdiv l r).natAbs ≤ l.natAbs := Int.natAbs_tdiv_le_natAbs l r
      by_cases hrm : r = -1
      · subst hrm
        have : ¬ l ≤ -9223372036854775807 := fun hh => hguard ⟨hh, rfl⟩
        have : Int.tdiv l (-1) = -l := by simp [Int.tdiv_neg]
        omega
      · by_cases hl0 : l = -9223372036854775808
        · -- |r| ≥ 2 (r ≠ 0, -1; r = 1 gives MIN which is in range)
          subst hl0
          by_cases hr1 : r = 1
          · subst hr1; simp
          · have h2 : 2 ≤ r.natAbs := by omega
            have : (Int.tdiv (-9223372036854775808) r).natAbs = (9223372036854775808 : Nat) / r.natAbs := by
              rw [Int.natAbs_tdiv]; rfl
            have hle : (9223372036854775808 : Nat) / r.natAbs ≤ 9223372036854775808 / 2 :=
              Nat.div_le_div_left h2 (by decide)
            omega
        · omega
  · -- mod
    simp only [performChecked] at h
    split at h
    · simp at h
    · rename_i hr0
      simp at h
      simp [exact, hr0]
      have hlt : (Int.tmod l r).natAbs < r.natAbs := by
        rw [Int.natAbs_tmod]; exact Nat.mod_lt _ (by omega)   -- |l % r| < |r|
      have hin : inI64 (Int.tmod l r) := by
        unfold inI64 I64_MIN I64_MAX at *; omega
      rw [wrap64_id hin] at h
      exact ⟨h.symm ▸ rfl, h ▸ hin⟩

/-- Soundness of the flag the other way round is *not* required by the property (an error is
    always allowed), but the only spurious error is the documented `(i64::MIN+1) / -1`. -/
theorem C06_flag_only_when_needed (op : Op) (l r : Int) (hl : inI64 l) (hr : inI64 r) (v : Int)
    (h : performChecked op l r = .ok (v, true)) :
    (exact op l r = none) ∨ (∃ e, exact op l r = some e ∧ ¬ inI64 e) ∨
    (op = .div ∧ l = I64_MIN + 1 ∧ r = -1) := by
  cases op
  · simp [performChecked, ovfAdd] at h; right; left; exact ⟨_, rfl, h.2⟩
  · simp [performChecked, ovfSub] at h; right; left; exact ⟨_, rfl, h.2⟩
  · simp [performChecked, ovfMul] at h; right; left; exact ⟨_, rfl, h.2⟩
  · simp only [performChecked] at h
    split at h
    · rename_i hg
      rcases hg with h0 | ⟨hl', hr'⟩
      · left; simp [exact, h0]
      · subst hr'
        unfold inI64 I64_MIN I64_MAX at *
        by_cases hmin : l = -9223372036854775808
        · right; left; subst hmin; refine ⟨9223372036854775808, ?_, ?_⟩
          · simp [exact]
          · omega
        · right; right; refine ⟨rfl, ?_, rfl⟩; omega
    · simp at h
  · simp only [performChecked] at h
    split at h
    · rename_i h0; left; simp [exact, h0]
    · simp at h

/-- Row-level statement of the property for the nullable shells: the produced cell and flag are
    an outcome the specification allows; NULL operands never raise the flag. -/
theorem C06_cell_allowed (op : Op) (l r : Option Int)
    (hl : ∀ a, l = some a → inI64 a) (hr : ∀ b, r = some b → inI64 b) :
    ∃ v o, cell op l r = .ok (v, o) ∧
      allowed op l r (if o then .error else .value v) := by
  cases l with
  | none => exact ⟨none, false, by simp [cell], by simp [allowed]⟩
  | some a =>
    cases r with
    | none => exact ⟨none, false, by simp [cell], by simp [allowed]⟩
    | some b =>
      obtain ⟨v, o, hv⟩ := C06_checked_total op a b
      refine ⟨some v, o, by simp [cell, hv], ?_⟩
      cases o with
      | true => simp [allowed]
      | false =>
        have := C06_checked_exact op a b (hl a rfl) (hr b rfl) v hv
        simp only [allowed]; exact ⟨v, this.1, this.2, rfl⟩

/-- Null propagation: a NULL operand gives a NULL cell and never an error. -/
theorem C06_null_propagates (op : Op) (l r : Option Int) (h : l = none ∨ r = none) :
    cell op l r = .ok (none, false) := by
  cases l <;> cases r <;> simp_all [cell]

/-- The oracle's strict cell agrees with the model on every input except the documented spurious
    overflow, so comparing the implementation against `specCell` demands nothing beyond the property
    on the complement of that case. -/
theorem C06_model_eq_spec (op : Op) (l r : Option Int)
    (hl : ∀ a, l = some a → inI64 a) (hr : ∀ b, r = some b → inI64 b)
    (hsp : ¬ (op = .div ∧ l = some (I64_MIN + 1) ∧ r = some (-1))) :
    ∃ v o, cell op l r = .ok (v, o) ∧
      specCell op l r = (if o then .error else .value v) := by
  cases l with
  | none => exact ⟨none, false, by simp [cell], by simp [specCell]⟩
  | some a =>
    cases r with
    | none => exact ⟨none, false, by simp [cell], by simp [specCell]⟩
    | some b =>
      obtain ⟨v, o, hv⟩ := C06_checked_total op a b
      refine ⟨some v, o, by simp [cell, hv], ?_⟩
      cases o with
      | false =>
        have := C06_checked_exact op a b (hl a rfl) (hr b rfl) v hv
        simp [specCell, this.1, this.2]
      | true =>
        have := C06_flag_only_when_needed op a b (hl a rfl) (hr b rfl) v hv
        rcases this with h | ⟨e, he, hne⟩ | ⟨h1, h2, h3⟩
        · simp [specCell, h]
        · simp [specCell, he, hne]
        · exact absurd ⟨h1, by rw [h2], by rw [h3]⟩ hsp

open LM.ArithTree in
/-- Well-formed inputs: every constant of the tree and every cell of the row is an i64. -/
def WfExpr : Expr → Prop
  | .col _ => True
  | .const v => inI64 v
  | .nullConst => True
  | .bin _ l r => WfExpr l ∧ WfExpr r

def WfRow (row : ArithTree.Row) : Prop := ∀ x, x ∈ row → ∀ a, x = some a → inI64 a

open LM.ArithTree in
/-- Whole-expression soundness, any tree depth, any row: if no operator of the tree raised its
    overflow flag, the produced cell is exactly the specification's cell (and is an i64 or NULL).
    Hence a wrapped / truncated value is never *returned*: either the flag is up (the query fails
    with Overflow) or the value is exact. -/
theorem C06_tree_sound (e : Expr) (row : ArithTree.Row) (he : WfExpr e) (hrow : WfRow row)
    (v : Option Int) (h : evalRowModel e row = .ok (v, false)) :
    evalRowSpec e row = some v ∧ (∀ a, v = some a → inI64 a) := by
  induction e generalizing v with
  | col i =>
    simp [evalRowModel] at h; subst h
    refine ⟨by simp [evalRowSpec], ?_⟩
    intro a ha
    have : row[i]?.getD none = some a := by simpa [List.getD] using ha
    cases hi : row[i]? with
    | none => simp [hi] at this
    | some x =>
      simp [hi] at this; subst this
      exact hrow (some a) (List.mem_of_getElem? hi) a rfl
  | const c =>
    simp [evalRowModel] at h; subst h
    exact ⟨by simp [evalRowSpec], by intro a ha; cases ha; exact he⟩
  | nullConst =>
    simp [evalRowModel] at h; subst h
    exact ⟨by simp [evalRowSpec], by intro a ha; cases ha⟩
  | bin op l r ihl ihr =>
    obtain ⟨hwl, hwr⟩ := he
    simp only [evalRowModel] at h
    split at h
    · rename_i a oa b ob hl hr
      split at h
      · rename_i v' o hc
        simp at h
        obtain ⟨hv, ho⟩ := h
        have hoa : oa = false := by cases oa <;> simp_all
        have hob : ob = false := by cases ob <;> simp_all
        have ho' : o = false := by cases o <;> simp_all
        subst hoa hob ho' hv
        obtain ⟨sl, il⟩ := ihl hwl a hl
        obtain ⟨sr, ir⟩ := ihr hwr b hr
        simp only [evalRowSpec, sl, sr]
        -- one node: model cell with clear flag = spec cell
        cases a with
        | none => simp [cell] at hc; subst hc; simp [specCell]
        | some x =>
          cases b with
          | none => simp [cell] at hc; subst hc; simp [specCell]
          | some y =>
            simp only [cell] at hc
            split at hc
            · simp at hc
            · rename_i w o2 hp
              simp at hc
              obtain ⟨h1, h2⟩ := hc
              subst h1 h2
              have := C06_checked_exact op x y (il x rfl) (ir y rfl) w hp
              simp [specCell, this.1, this.2]
      · simp at h
    · simp at h
    · simp at h

open LM.ArithTree in
/-- Whole-expression totality: evaluation never panics, whatever the operands. -/
theorem C06_tree_total (e : Expr) (row : ArithTree.Row) : ∃ v o, evalRowModel e row = .ok (v, o) := by
  induction e with
  | col i => exact ⟨_, _, rfl⟩
  | const c => exact ⟨_, _, rfl⟩
  | nullConst => exact ⟨_, _, rfl⟩
  | bin op l r ihl ihr =>
    obtain ⟨a, oa, hl⟩ := ihl
    obtain ⟨b, ob, hr⟩ := ihr
    simp only [evalRowModel, hl, hr]
    have : ∃ v o, cell op a b = .ok (v, o) := by
      cases a with
      | none => simp [cell]
      | some x =>
        cases b with
        | none => simp [cell]
        | some y =>
          obtain ⟨v, o, h⟩ := C06_checked_total op x y
          simp [cell, h]
    obtain ⟨v, o, hc⟩ := this
    simp [hc]

-- Non-vacuity: concrete operands meeting the hypotheses, at the edges of i64.
example : performChecked .mod I64_MIN (-1) = .ok (0, false) := by
  simp [performChecked, I64_MIN, wrap64]
example : performChecked .div I64_MIN (-1) = .ok (1, true) := by
  simp [performChecked, I64_MIN, I64_MAX]
example : performChecked .add I64_MAX 1 = .ok (I64_MIN, true) := by
  simp [performChecked, ovfAdd, I64_MIN, I64_MAX, wrap64, inI64]
example : inI64 I64_MIN ∧ inI64 (-1) := by decide

end LM.C06
