import LocustModel.Query.Arith
import LocustModel.Query.ArithSpec
import LocustModel.Query.ArithTree
import LocustModel.Query.ArithPlan
import LocustModel.Query.ArithSelect
import LocustModel.Lemmas.C06Shell
import LocustModel.Lemmas.C06Sum
import LocustModel.Lemmas.C06Plan
/-
  C06 — integer arithmetic is exact or the query fails; it never wraps.
  Property theorems only.  Operands range over all of i64 (`inI64`), no size bound.
-/
namespace LM.C06
open LM LM.Arith LM.ArithSpec

/-- Totality: no `perform_checked` call panics, for any operands (in particular `i64::MIN % -1`
    and `i64::MIN / -1`). -/
theorem C06_checked_total (op : Op) (l r : Int) : ∃ v o, performChecked op l r = .ok (v, o) := by
  cases op
  · exact ⟨_, _, rfl⟩
  · exact ⟨_, _, rfl⟩
  · exact ⟨_, _, rfl⟩
  · simp only [performChecked]; split <;> exact ⟨_, _, rfl⟩
  · simp only [performChecked]; split <;> exact ⟨_, _, rfl⟩

/-- Exactness: when the overflow flag is clear, the value is the mathematically exact one and fits i64. -/
theorem C06_checked_exact (op : Op) (l r : Int) (hl : inI64 l) (hr : inI64 r) (v : Int)
    (h : performChecked op l r = .ok (v, false)) :
    exact op l r = some v ∧ inI64 v := by
  cases op
  · -- add
    simp [performChecked, ovfAdd] at h
    obtain ⟨h1, h2⟩ := h
    simp [exact]; rw [← h1, wrap64_id h2]; exact ⟨rfl, h2⟩
  · simp [performChecked, ovfSub] at h
    obtain ⟨h1, h2⟩ := h
    simp [exact]; rw [← h1, wrap64_id h2]; exact ⟨rfl, h2⟩
  · simp [performChecked, ovfMul] at h
    obtain ⟨h1, h2⟩ := h
    simp [exact]; rw [← h1, wrap64_id h2]; exact ⟨rfl, h2⟩
  · -- div
    simp only [performChecked] at h
    split at h
    · simp at h
    · rename_i hg
      simp at h
      have hr0 : r ≠ 0 := by intro h0; exact hg (Or.inl h0)
      simp [exact, hr0, h]
      subst h
      -- |l / r| ≤ |l|, and the only out-of-range quotient MIN / -1 is excluded by the guard
      unfold inI64 I64_MIN I64_MAX at *
      have hguard : ¬ (l ≤ -9223372036854775807 ∧ r = -1) := by
        intro hh; exact hg (Or.inr hh)
      have habs : (Int.tdiv l r).natAbs ≤ l.natAbs := Int.natAbs_tdiv_le_natAbs l r
      by_cases hrm : r = -1
      · subst hrm
        have : ¬ l ≤ -9223372036854775807 := fun hh => hguard ⟨hh, rfl⟩
        have : Int.tdiv l (-1) = -l := by simp [Int.tdiv_neg]
        omega
      · by_cases hl0 : l = -9223372036854775808
        · -- |r| ≥ 2 (r ≠ 0, -1; r = 1 gives MIN which is in range)
          subst hl0
          by_cases hr1 : r = 1
          · subst hr1; simp
          · have h2 : 2 ≤ r.natAbs := by omega
            have : (Int.tdiv (-9223372036854775808) r).natAbs = (9223372036854775808 : Nat) / r.natAbs := by
              rw [Int.natAbs_tdiv]; rfl
            have hle : (9223372036854775808 : Nat) / r.natAbs ≤ 9223372036854775808 / 2 :=
              Nat.div_le_div_left h2 (by decide)
            omega
        · omega
  · -- mod
    simp only [performChecked] at h
    split at h
    · simp at h
    · rename_i hr0
      simp at h
      simp [exact, hr0]
      have hlt : (Int.tmod l r).natAbs < r.natAbs := by
        rw [Int.natAbs_tmod]; exact Nat.mod_lt _ (by omega)   -- |l % r| < |r|
      have hin : inI64 (Int.tmod l r) := by
        unfold inI64 I64_MIN I64_MAX at *; omega
      rw [wrap64_id hin] at h
      exact ⟨h.symm ▸ rfl, h ▸ hin⟩

/-- Soundness of the flag the other way round is *not* required by the property (an error is
    always allowed), but the only spurious error is the documented `(i64::MIN+1) / -1`. -/
theorem C06_flag_only_when_needed (op : Op) (l r : Int) (hl : inI64 l) (hr : inI64 r) (v : Int)
    (h : performChecked op l r = .ok (v, true)) :
    (exact op l r = none) ∨ (∃ e, exact op l r = some e ∧ ¬ inI64 e) ∨
    (op = .div ∧ l = I64_MIN + 1 ∧ r = -1) := by
  cases op
  · simp [performChecked, ovfAdd] at h; right; left; exact ⟨_, rfl, h.2⟩
  · simp [performChecked, ovfSub] at h; right; left; exact ⟨_, rfl, h.2⟩
  · simp [performChecked, ovfMul] at h; right; left; exact ⟨_, rfl, h.2⟩
  · simp only [performChecked] at h
    split at h
    · rename_i hg
      rcases hg with h0 | ⟨hl', hr'⟩
      · left; simp [exact, h0]
      · subst hr'
        unfold inI64 I64_MIN I64_MAX at *
        by_cases hmin : l = -9223372036854775808
        · right; left; subst hmin; refine ⟨9223372036854775808, ?_, ?_⟩
          · simp [exact]
          · omega
        · right; right; refine ⟨rfl, ?_, rfl⟩; omega
    · simp at h
  · simp only [performChecked] at h
    split at h
    · rename_i h0; left; simp [exact, h0]
    · simp at h

/-- Row-level statement of the property for the nullable shells: the produced cell and flag are
    an outcome the specification allows; NULL operands never raise the flag. -/
theorem C06_cell_allowed (op : Op) (l r : Option Int)
    (hl : ∀ a, l = some a → inI64 a) (hr : ∀ b, r = some b → inI64 b) :
    ∃ v o, cell op l r = .ok (v, o) ∧
      allowed op l r (if o then .error else .value v) := by
  cases l with
  | none => exact ⟨none, false, by simp [cell], by simp [allowed]⟩
  | some a =>
    cases r with
    | none => exact ⟨none, false, by simp [cell], by simp [allowed]⟩
    | some b =>
      obtain ⟨v, o, hv⟩ := C06_checked_total op a b
      refine ⟨some v, o, by simp [cell, hv], ?_⟩
      cases o with
      | true => simp [allowed]
      | false =>
        have := C06_checked_exact op a b (hl a rfl) (hr b rfl) v hv
        simp only [allowed]; exact ⟨v, this.1, this.2, rfl⟩

/-- Null propagation: a NULL operand gives a NULL cell and never an error. -/
theorem C06_null_propagates (op : Op) (l r : Option Int) (h : l = none ∨ r = none) :
    cell op l r = .ok (none, false) := by
  cases l <;> cases r <;> simp_all [cell]

/-- The oracle's strict cell agrees with the model on every input except the documented spurious
    overflow, so comparing the implementation against `specCell` demands nothing beyond the property
    on the complement of that case. -/
theorem C06_model_eq_spec (op : Op) (l r : Option Int)
    (hl : ∀ a, l = some a → inI64 a) (hr : ∀ b, r = some b → inI64 b)
    (hsp : ¬ (op = .div ∧ l = some (I64_MIN + 1) ∧ r = some (-1))) :
    ∃ v o, cell op l r = .ok (v, o) ∧
      specCell op l r = (if o then .error else .value v) := by
  cases l with
  | none => exact ⟨none, false, by simp [cell], by simp [specCell]⟩
  | some a =>
    cases r with
    | none => exact ⟨none, false, by simp [cell], by simp [specCell]⟩
    | some b =>
      obtain ⟨v, o, hv⟩ := C06_checked_total op a b
      refine ⟨some v, o, by simp [cell, hv], ?_⟩
      cases o with
      | false =>
        have := C06_checked_exact op a b (hl a rfl) (hr b rfl) v hv
        simp [specCell, this.1, this.2]
      | true =>
        have := C06_flag_only_when_needed op a b (hl a rfl) (hr b rfl) v hv
        rcases this with h | ⟨e, he, hne⟩ | ⟨h1, h2, h3⟩
        · simp [specCell, h]
        · simp [specCell, he, hne]
        · exact absurd ⟨h1, by rw [h2], by rw [h3]⟩ hsp

open LM.ArithTree in
/-- Well-formed inputs: every constant of the tree and every cell of the row is an i64. -/
def WfExpr : Expr → Prop
  | .col _ => True
  | .const v => inI64 v
  | .nullConst => True
  | .bin _ l r => WfExpr l ∧ WfExpr r

def WfRow (row : ArithTree.Row) : Prop := ∀ x, x ∈ row → ∀ a, x = some a → inI64 a

open LM.ArithTree in
/-- Whole-expression soundness, any tree depth, any row: if no operator of the tree raised its
    overflow flag, the produced cell is exactly the specification's cell (and is an i64 or NULL).
    Hence a wrapped / truncated value is never *returned*: either the flag is up (the query fails
    with Overflow) or the value is exact. -/
theorem C06_tree_sound (e : Expr) (row : ArithTree.Row) (he : WfExpr e) (hrow : WfRow row)
    (v : Option Int) (h : evalRowModel e row = .ok (v, false)) :
    evalRowSpec e row = some v ∧ (∀ a, v = some a → inI64 a) := by
  induction e generalizing v with
  | col i =>
    simp [evalRowModel] at h; subst h
    refine ⟨by simp [evalRowSpec], ?_⟩
    intro a ha
    have : row[i]?.getD none = some a := by simpa [List.getD] using ha
    cases hi : row[i]? with
    | none => simp [hi] at this
    | some x =>
      simp [hi] at this; subst this
      exact hrow (some a) (List.mem_of_getElem? hi) a rfl
  | const c =>
    simp [evalRowModel] at h; subst h
    exact ⟨by simp [evalRowSpec], by intro a ha; cases ha; exact he⟩
  | nullConst =>
    simp [evalRowModel] at h; subst h
    exact ⟨by simp [evalRowSpec], by intro a ha; cases ha⟩
  | bin op l r ihl ihr =>
    obtain ⟨hwl, hwr⟩ := he
    simp only [evalRowModel] at h
    split at h
    · rename_i a oa b ob hl hr
      split at h
      · rename_i v' o hc
        simp at h
        obtain ⟨hv, ho⟩ := h
        have hoa : oa = false := by cases oa <;> simp_all
        have hob : ob = false := by cases ob <;> simp_all
        have ho' : o = false := by cases o <;> simp_all
        subst hoa hob ho' hv
        obtain ⟨sl, il⟩ := ihl hwl a hl
        obtain ⟨sr, ir⟩ := ihr hwr b hr
        simp only [evalRowSpec, sl, sr]
        -- one node: model cell with clear flag = spec cell
        cases a with
        | none => simp [cell] at hc; subst hc; simp [specCell]
        | some x =>
          cases b with
          | none => simp [cell] at hc; subst hc; simp [specCell]
          | some y =>
            simp only [cell] at hc
            split at hc
            · simp at hc
            · rename_i w o2 hp
              simp at hc
              obtain ⟨h1, h2⟩ := hc
              subst h1 h2
              have := C06_checked_exact op x y (il x rfl) (ir y rfl) w hp
              simp [specCell, this.1, this.2]
      · simp at h
    · simp at h
    · simp at h

open LM.ArithTree in
/-- Whole-expression totality: evaluation never panics, whatever the operands. -/
theorem C06_tree_total (e : Expr) (row : ArithTree.Row) : ∃ v o, evalRowModel e row = .ok (v, o) := by
  induction e with
  | col i => exact ⟨_, _, rfl⟩
  | const c => exact ⟨_, _, rfl⟩
  | nullConst => exact ⟨_, _, rfl⟩
  | bin op l r ihl ihr =>
    obtain ⟨a, oa, hl⟩ := ihl
    obtain ⟨b, ob, hr⟩ := ihr
    simp only [evalRowModel, hl, hr]
    have : ∃ v o, cell op a b = .ok (v, o) := by
      cases a with
      | none => simp [cell]
      | some x =>
        cases b with
        | none => simp [cell]
        | some y =>
          obtain ⟨v, o, h⟩ := C06_checked_total op x y
          simp [cell, h]
    obtain ⟨v, o, hc⟩ := this
    simp [hc]

-- ================================================================================================================
-- Operator shells (binary_operator.rs): column at a time = row at a time, for all lengths and all garbage
-- under NULL slots.
section Shells
open LM.ArithShell

/-- **Shell correctness.** Whatever shell the factory picks for the operand kinds (vector∘vector, vector∘scalar,
    scalar∘vector with the swap for `+`/`*`; nullable or not; null maps combined or taken from one side), the
    nullable output it produces is well formed and reads, slot by slot, as the row-at-a-time model's cells, and the
    error flag it returns is up exactly when the row-at-a-time model flags some row — independent of the data
    stored under NULL slots, for columns of every length.
    (`WfOperand n`: data and bitmap have `n` entries; `operandView`: the operand as a column of cells.) -/
theorem C06_shell_rowwise (op : Op) (n : Nat) (l r : Operand) (hl : WfOperand n l) (hr : WfOperand n r)
    (hv : (∃ d p, l = .vec d p) ∨ (∃ d p, r = .vec d p)) :
    ∃ d p o, dispatch op l r = .ok d p o ∧ WfOperand n (.vec d p) ∧
      (view d p, o) = rowsEval op (operandView n l) (operandView n r) :=
  dispatch_rowwise op n l r hl hr hv

/-- Two constant operands: the factory has no (ScalarI64, ScalarI64) case — the FatalError value of an unsupported
    query shape (no constant folding), never a wrong number. -/
theorem C06_shell_scalar_scalar_fatal (op : Op) (a b : Int) : dispatch op (.scalar a) (.scalar b) = .fatal := rfl

/-- The row-at-a-time evaluation is, slot by slot, `Arith.cell` (to which `C06_cell_allowed` applies) … -/
theorem C06_rows_cells (op : Op) (as bs : List (Option Int)) :
    (rowsEval op as bs).1 = List.zipWith (fun a b => (cellT op a b).1) as bs ∧
    (∀ a b, cell op a b = .ok (cellT op a b)) := by
  refine ⟨?_, cell_eq_cellT op⟩
  induction as generalizing bs with
  | nil => cases bs <;> simp [rowsEval]
  | cons a as ih => cases bs <;> simp [rowsEval, ih]

/-- … and its flag is the disjunction of the rows' flags: a NULL row never raises it. -/
theorem C06_rows_flag (op : Op) (as bs : List (Option Int)) :
    (rowsEval op as bs).2 = (List.zipWith (fun a b => (cellT op a b).2) as bs).any id := by
  induction as generalizing bs with
  | nil => cases bs <;> simp [rowsEval]
  | cons a as ih => cases bs <;> simp [rowsEval, ih]

/-- **Chunked execution of the null-map combination.**  When a stage is streamed in chunks of `B` rows, the presence bit
    that CombineNullMaps hands to the nullable shells for local row `i` of chunk `k` is exactly the conjunction of the two
    operands' presence of global row `k*B + i` — for bitmaps of any length (shorter than the column: implied unset
    bits), any chunk, any chunk size. -/
theorem C06_combine_chunks (B k i : Nat) (hi : i < B) (l r : List Bool) :
    (combineChunk B (chunkOf B k l) (chunkOf B k r)).getD i false
      = (l.getD (k * B + i) false && r.getD (k * B + i) false) := by
  simp [combineChunk, chunkOf, List.getD, hi, List.getElem?_take, List.getElem?_drop]

/-- The code before fix `combine-null-maps-stale` did not have this property: second chunk (`k = 1`, `B = 8`) of
    `l = [1,1] ++ 7 NULLs` (bitmap holds 2 bits only) and a fully present `r`: local row 0 inherits row 0's bit. -/
theorem C06_combine_chunks_old_refuted :
    let l := [true, true]
    let r := List.replicate 9 true
    let out0 := combineChunkOld (List.replicate 8 false) (chunkOf 8 0 l) (chunkOf 8 0 r)
    (combineChunkOld out0 (chunkOf 8 1 l) (chunkOf 8 1 r)).getD 0 false = true ∧
    (l.getD 8 false && r.getD 8 false) = false := by
  decide

example : dispatch .div (.vec [I64_MIN, 7, 5] (some [true, true, false])) (.vec [-1, 0, 0] (some [false, false, true]))
    = .ok [1, 1, 1] (some [false, false, false]) false := by
  simp [dispatch, combineNulls2, combineNullMaps, nullableVV, pcT, performChecked, I64_MIN, I64_MAX]
example : WfOperand 3 (.vec [I64_MIN, 7, 5] (some [true, true, false])) := by simp [WfOperand]

end Shells

-- ================================================================================================================
-- Planner + shells on one partition = the row-at-a-time model (supported fragment).
section Plan
open LM.ArithPlan LM.ArithShell LM.ArithTree

/-- **The implementation model refines the row-level model.**  For every expression of the supported fragment (no NULL
    literal, no operator over two constants), every partition length and every assignment of columns (present with or
    without NULLs, entirely NULL, absent): compiling through the registry and executing through the operator shells
    succeeds without FatalError / panic, and the value it computes denotes (`ValOk`) exactly the column-lifted
    row-at-a-time semantics `colSem` — cells by `cellT` (= `Arith.cell`, cf. `C06_cell_allowed`), error flag = some
    row's flag. -/
theorem C06_plan_refines_rows (len : Nat) (cols : Nat → Option PCol)
    (hcols : ∀ i x, cols i = some x → x.cells.length = len) (e : Expr) (hs : Supported e) :
    ∃ v, evalPart len cols e = .ok v ∧ ValOk len v (colSem len cols e).1 (colSem len cols e).2 := by
  obtain ⟨v, h1, h2, _⟩ := evalPart_colSem len cols hcols e hs
  exact ⟨v, h1, h2⟩

/-- Consequently one partition of `SELECT <expr> FROM t` answers Overflow iff some row's flag is up, and otherwise
    exactly the row-level cells (a constant projection is not in the generated fragment). -/
theorem C06_plan_partition (len : Nat) (cols : Nat → Option PCol)
    (hcols : ∀ i x, cols i = some x → x.cells.length = len) (e : Expr) (hs : Supported e) (hc : isConst e = false) :
    ((colSem len cols e).2 = true → ∃ q, runPartition len cols e = .err q ∧ q = .overflow) ∧
    ((colSem len cols e).2 = false → ∃ nb, runPartition len cols e = .cells (colSem len cols e).1 nb) := by
  obtain ⟨v, h1, ⟨hf, hflt, hun, hov, hlen, hty⟩, hsc⟩ := evalPart_colSem len cols hcols e hs
  have hns : v.ty ≠ .scalar := fun h => by simp [hsc.mp h] at hc
  constructor
  · intro hflag
    refine ⟨.overflow, ?_, rfl⟩
    simp [runPartition, h1, hf, hun, hflt, hov, hflag]
  · intro hflag
    cases hv : v.ty with
    | scalar => exact absurd hv hns
    | null =>
      simp only [hv] at hty
      exact ⟨true, by simp [runPartition, h1, hf, hun, hflt, hov, hflag, hv, hty]⟩
    | int nb =>
      simp only [hv] at hty
      obtain ⟨_, _, hview, _⟩ := hty
      refine ⟨nb, ?_⟩
      have htake : (colSem len cols e).1.take len = (colSem len cols e).1 := List.take_of_length_le (by omega)
      simp [runPartition, h1, hf, hun, hflt, hov, hflag, hv, hview, htake]

/-- A column that is entirely NULL in the partition (or absent from it) never turns integer arithmetic into a TypeError:
    a node whose operands are integer vectors, constants or NULL columns always compiles. -/
theorem C06_plan_no_type_error (op : Op) (len : Nat) (l r : Val) : evalNode op len l r ≠ .error .type := by
  have hlk : ∃ e, lookup op l.ty r.ty = some e := by
    cases hl : l.ty <;> cases hr : r.ty <;> cases op <;> exact ⟨_, rfl⟩
  obtain ⟨e, he⟩ := hlk
  simp only [evalNode, he]
  split <;> (try split) <;> (try split) <;> simp

/-- Cell `j` of the column-lifted semantics is the row-level model (`evalRowModel`) on row `j` of the partition, and the
    partition's flag is up iff some row's flag is. -/
theorem C06_plan_rows (len ncols : Nat) (cols : Nat → Option PCol)
    (hcols : ∀ i x, cols i = some x → x.cells.length = len) (hn : ∀ i, ncols ≤ i → cols i = none) (e : Expr) :
    (∀ j, j < len → evalRowModel e (rowOf len ncols cols j)
        = .ok ((colSem len cols e).1.getD j none, (rowT e (rowOf len ncols cols j)).2)) ∧
    ((colSem len cols e).2 = true ↔ ∃ j, j < len ∧ (rowT e (rowOf len ncols cols j)).2 = true) := by
  obtain ⟨h1, h2⟩ := colSem_rows len ncols cols hcols hn e
  refine ⟨?_, h2⟩
  intro j hj
  rw [evalRowModel_eq_rowT, h1 j hj]

/-- **End to end on one partition, against the specification.**  If the implementation model — registry, shells, null
    maps and all — returns cells for a partition of `SELECT <expr> FROM t` (supported fragment, i64 inputs), then every
    returned cell is the specification's exact cell for its row: a wrapped, saturated or truncated value is never
    returned, and a NULL operand gives NULL. -/
theorem C06_plan_sound (len ncols : Nat) (cols : Nat → Option PCol)
    (hcols : ∀ i x, cols i = some x → x.cells.length = len) (hn : ∀ i, ncols ≤ i → cols i = none)
    (e : Expr) (hs : Supported e) (hc : isConst e = false) (he : WfExpr e)
    (hrows : ∀ j, j < len → WfRow (rowOf len ncols cols j))
    (cs : List (Option Int)) (nb : Bool) (h : runPartition len cols e = .cells cs nb) :
    ∀ j, j < len → evalRowSpec e (rowOf len ncols cols j) = some (cs.getD j none) := by
  obtain ⟨p1, p2⟩ := C06_plan_partition len cols hcols e hs hc
  have hflag : (colSem len cols e).2 = false := by
    cases hf : (colSem len cols e).2 with
    | false => rfl
    | true => obtain ⟨q, hq, _⟩ := p1 hf; rw [hq] at h; cases h
  obtain ⟨nb', hcells⟩ := p2 hflag
  rw [hcells] at h
  have hcs : cs = (colSem len cols e).1 := by cases h; rfl
  obtain ⟨r1, r2⟩ := C06_plan_rows len ncols cols hcols hn e
  intro j hj
  have hrj : (rowT e (rowOf len ncols cols j)).2 = false := by
    cases hf : (rowT e (rowOf len ncols cols j)).2 with
    | false => rfl
    | true => exact absurd (r2.mpr ⟨j, hj, hf⟩) (by simp [hflag])
  have hm := r1 j hj
  rw [hrj] at hm
  rw [hcs]
  exact (C06_tree_sound e _ he (hrows j hj) _ hm).1

example : Supported (.bin .add (.col 0) (.bin .mul (.col 1) (.const 3))) := by simp [Supported, isConst]

-- ----------------------------------------------------------------------------------------------------------------
-- Assembly of the partitions' cells into the result that is shown (batch_merging select branch + get_raw).

/-- The property for `SELECT <expr>` at full strength: the rows that are shown are the cells the partitions computed
    (which are exact by `C06_plan_sound`). -/
def C06_select_statement : Prop :=
  ∀ (parts : List (Nat × (Nat → Option PCol))) (e : Expr) (cells : List (Option Int)),
    runQuery parts e = .rows cells → cells = partCells parts e

/-- **What is shown = what was computed**, outside the region `sentinelShown` of the open finding: the result column
    is nullable (or Null-typed) in at least one partition — the merged column is then a `Vec<Val>` in which a present
    i64::MAX is `Val::Integer` (`NullableToVal` after fix a145ed7, `to_mixed` for the plain partitions) — or no computed
    cell equals i64::MAX, the one value `wrap_one` reads as NULL in a plain I64 result column. -/
theorem C06_select_partial (parts : List (Nat × (Nat → Option PCol))) (e : Expr) (cells : List (Option Int))
    (h : runQuery parts e = .rows cells)
    (hr : sentinelShown parts e = false) :
    cells = partCells parts e := by
  have hr : allNonNullable parts e = false ∨ some I64_MAX ∉ partCells parts e := by
    simp only [sentinelShown, Bool.and_eq_false_iff] at hr
    rcases hr with h1 | h2
    · exact Or.inl h1
    · right; intro hm; simp [hm] at h2
  have hid : ∀ cs : List (Option Int), some I64_MAX ∉ cs → cs.map renderI64 = cs := by
    intro cs hcs
    induction cs with
    | nil => rfl
    | cons c cs ih =>
      simp only [List.mem_cons, not_or] at hcs
      simp only [List.map_cons, ih hcs.2]
      have : renderI64 c = c := by
        unfold renderI64; split
        · rename_i hc; exact absurd hc.symm hcs.1
        · rfl
      rw [this]
  unfold runQuery at h
  simp only at h
  split at h
  · cases h
  · split at h
    · cases h
    · split at h
      · cases h
      · split at h
        · cases h
        · injection h with h
          subst h
          rcases hr with hn | hm
          · split
            · rename_i hc
              have hc' : allNonNullable parts e = true := hc
              rw [hn] at hc'; cases hc'
            · rfl
          · split
            · exact hid _ hm
            · rfl

/-- The full statement is FALSE for the code as it is (finding `select-i64max-null`): one partition, `c0 = [MAX-1, 5]`
    without NULLs, `SELECT c0 + 1`: the partition computes `[MAX, 6]` exactly, the result shows `[NULL, 6]`.
    Replayed on the real code by `corpus:select-i64max-null`. -/
theorem C06_select_refuted : ¬ C06_select_statement := by
  intro h
  have := h [(2, fun i => if i = 0 then some ⟨[some (I64_MAX - 1), some 5]⟩ else none)]
    (.bin .add (.col 0) (.const 1)) [none, some 6] (by rfl)
  revert this
  decide

/-- Non-vacuity of `C06_select_partial`: the same values with a NULL in the column (result column nullable) are outside
    the finding's region and shown exactly; the refuting witness is inside the region. -/
example : sentinelShown [(2, fun i => if i = 0 then some ⟨[some (I64_MAX - 1), none]⟩ else none)]
    (.bin .add (.col 0) (.const 1)) = false := by decide
example : runQuery [(2, fun i => if i = 0 then some ⟨[some (I64_MAX - 1), none]⟩ else none)]
    (.bin .add (.col 0) (.const 1)) = .rows [some I64_MAX, none] := by rfl
example : sentinelShown [(2, fun i => if i = 0 then some ⟨[some (I64_MAX - 1), some 5]⟩ else none)]
    (.bin .add (.col 0) (.const 1)) = true := by decide
/-- Two partitions, the first plain I64 holding the i64::MAX result, the second nullable: shown exactly. -/
example : runQuery [(2, fun i => if i = 0 then some ⟨[some (I64_MAX - 1), some 5]⟩ else none),
                    (2, fun i => if i = 0 then some ⟨[some 3, none]⟩ else none)]
    (.bin .add (.col 0) (.const 1)) = .rows [some I64_MAX, some 6, some 4, none] := by rfl

end Plan

-- ================================================================================================================
-- SUM over integers: inside a partition (CheckedAggregate) and across partitions (merge_aggregate).
section SumThms
open LM.Sum LM.Merge

/-- **In-partition SUM is exact or raises Overflow**, for every list of i64 values: if the accumulator's flag is clear
    the result is the exact sum (and an i64). -/
theorem C06_sum_partition_exact (xs : List Int) (v : Int) (h : sumChecked xs = (v, false)) :
    v = xs.sum ∧ inI64 v := by
  obtain ⟨_, hv, hin⟩ := accumulate_exact xs 0 false v h
  exact ⟨by simpa using hv, hin (by decide)⟩

/-- The flag is raised only when some running sum really leaves i64 (no spurious Overflow inside a partition). -/
theorem C06_sum_partition_flag_needed (xs : List Int) (h : (sumChecked xs).2 = true) :
    ∃ k, k ≤ xs.length ∧ ¬ inI64 ((xs.take k).sum) := by
  obtain ⟨k, hk, hbad⟩ := accumulate_flag_needed xs 0 (by decide) h
  exact ⟨k, hk, by simpa using hbad⟩

/-- **Grouped accumulation.** The accumulator array of CheckedAggregate holds in slot `g` exactly what accumulating
    the values of the rows with grouping id `g`, in row order, gives (all ids within the array, as sized by the
    planner's `max_index`). -/
theorem C06_agg_slot (rows : List (Nat × Int)) (accs : List Int) (o : Bool) (g : Nat)
    (hrows : ∀ r ∈ rows, r.1 < accs.length) :
    (aggArray (accs, o) rows).1.getD g 0
      = (accumulate (accs.getD g 0, false) ((rows.filter (fun r => r.1 = g)).map (·.2))).1 := by
  induction rows generalizing accs o with
  | nil => simp [aggArray, accumulate]
  | cons r rows ih =>
    obtain ⟨g', x⟩ := r
    have hg' : g' < accs.length := hrows (g', x) (by simp)
    have hlen : (accs.set g' (ovfAdd (accs.getD g' 0) x).1).length = accs.length := by simp
    have hrows' : ∀ r ∈ rows, r.1 < (accs.set g' (ovfAdd (accs.getD g' 0) x).1).length := by
      intro r hr; rw [hlen]; exact hrows r (by simp [hr])
    simp only [aggArray]
    rw [ih _ _ hrows']
    by_cases hgg : g' = g
    · subst hgg
      simp only [List.filter_cons, decide_true, if_true, List.map_cons, accumulate]
      rw [accumulate_fst_flag _ _ (false || _)]
      simp [List.getD, hg']
    · simp only [List.filter_cons, hgg, decide_false, Bool.false_eq_true, if_false]
      simp [List.getD, hgg]

/-- … and if the operator did not fail, no group's accumulation raised its flag (so `C06_sum_partition_exact`
    applies to every group). -/
theorem C06_agg_no_error (rows : List (Nat × Int)) (accs : List Int) (o : Bool) (g : Nat)
    (hrows : ∀ r ∈ rows, r.1 < accs.length) (h : (aggArray (accs, o) rows).2 = false) :
    o = false ∧ (accumulate (accs.getD g 0, false) ((rows.filter (fun r => r.1 = g)).map (·.2))).2 = false := by
  induction rows generalizing accs o with
  | nil => simp_all [aggArray, accumulate]
  | cons r rows ih =>
    obtain ⟨g', x⟩ := r
    have hg' : g' < accs.length := hrows (g', x) (by simp)
    have hrows' : ∀ r ∈ rows, r.1 < (accs.set g' (ovfAdd (accs.getD g' 0) x).1).length := by
      intro r hr; simp; exact hrows r (by simp [hr])
    simp only [aggArray] at h
    obtain ⟨ho, hacc⟩ := ih _ _ hrows' h
    have ho1 : o = false := by cases o <;> simp_all
    have ho2 : (ovfAdd (accs.getD g' 0) x).2 = false := by cases o <;> simp_all
    refine ⟨ho1, ?_⟩
    by_cases hgg : g' = g
    · subst hgg
      simp only [List.filter_cons, decide_true, if_true, List.map_cons, accumulate, Bool.false_or, ho2]
      simpa [List.getD, List.getElem?_set, hg'] using hacc
    · simp only [List.filter_cons, hgg, decide_false, Bool.false_eq_true, if_false]
      simpa [List.getD, List.getElem?_set, hgg] using hacc

/-- The property for SUM at full strength: whatever way the partitions' partial sums are merged, a result that is
    returned is the exact sum of the non-NULL cells (NULL if there is none). -/
def C06_sum_statement : Prop :=
  ∀ t : PTree, WfTree t → ∀ v, evalTree t = .ok v → decodeOut v = exactSum (cellsOf t)

/-- **Merging partial sums over ANY split and ANY merge tree is exact or fails with Overflow** — provided no partial
    result (of a partition or of a merged range) is exactly i64::MAX, the value the engine reserves as its in-band
    NULL.  Under that hypothesis the returned cell is the exact sum, and it is an i64. -/
theorem C06_sum_partial (t : PTree) (hs : NoSentinel t) (v : Int) (h : evalTree t = .ok v) :
    decodeOut v = exactSum (cellsOf t) ∧ inI64 v := by
  rcases evalTree_represents t hs v h with ⟨he, hv⟩ | ⟨he, hne, hin⟩
  · exact ⟨by simp [decodeOut, hv, he], by rw [hv]; decide⟩
  · exact ⟨by simp [decodeOut, hne, he], hin⟩

/-- The full statement is FALSE for the code as it is (finding `sum-sentinel`, DESIGN §8 #16): partition 1 holds
    `i64::MAX-1, 1` (partial sum = i64::MAX = the NULL sentinel), partition 2 holds `0`; the merge drops partition 1's
    partial result and returns 0 instead of 9223372036854775807.  Replayed on the real code by the harness corpus
    (`corpus:sum-sentinel:*`). -/
theorem C06_sum_refuted : ¬ C06_sum_statement := by
  intro h
  have := h (.node (.leaf [some (I64_MAX - 1), some 1]) (.leaf [some 0]))
    ⟨by intro a ha; simp at ha; rcases ha with rfl | rfl <;> decide, by intro a ha; simp at ha; subst ha; decide⟩ 0
    (by rfl)
  revert this
  decide

/-- A failing SUM fails with the Overflow error value, never with a panic-like fault, for every tree. -/
theorem C06_sum_error_is_overflow (t : PTree) (e : MergeErr) (h : evalTree t = .error e) : e = .overflow := by
  induction t with
  | leaf cells =>
    simp only [evalTree, partialSum] at h
    split at h
    · simp at h; exact h.symm
    · split at h <;> simp at h
  | node l r ihl ihr =>
    simp only [evalTree] at h
    cases hl : evalTree l with
    | error e1 => simp [hl] at h; subst h; exact ihl hl
    | ok a =>
      cases hr : evalTree r with
      | error e2 => simp [hl, hr] at h; subst h; exact ihr hr
      | ok b =>
        simp only [hl, hr, combine] at h
        split at h
        · simp at h
        · split at h
          · simp at h
          · split at h
            · simp at h
            · simp at h; exact h.symm

/-- Where an exact running sum (inside a partition) or an exact merged sum (of two adjacent ranges) leaves i64. -/
def OverflowSomewhere : PTree → Prop
  | .leaf cells => ∃ k, k ≤ (presentVals cells).length ∧ ¬ inI64 (((presentVals cells).take k).sum)
  | .node l r => OverflowSomewhere l ∨ OverflowSomewhere r ∨
      ∃ a b, exactSum (cellsOf l) = some a ∧ exactSum (cellsOf r) = some b ∧ ¬ inI64 (a + b)

/-- **No spurious Overflow from SUM**: (outside the sentinel finding) a SUM fails only if, under the bracketing that was
    used, some exact running sum of a partition or some exact sum of two merged ranges really leaves i64. -/
theorem C06_sum_error_needed (t : PTree) (hs : NoSentinel t) (e : MergeErr) (h : evalTree t = .error e) :
    OverflowSomewhere t := by
  induction t generalizing e with
  | leaf cells =>
    simp only [evalTree, partialSum] at h
    split at h
    · rename_i hflag
      exact C06_sum_partition_flag_needed _ hflag
    · split at h <;> simp at h
  | node l r ihl ihr =>
    obtain ⟨hsl, hsr, _⟩ := hs
    simp only [evalTree] at h
    cases hl : evalTree l with
    | error e1 => exact Or.inl (ihl hsl e1 hl)
    | ok a =>
      cases hr : evalTree r with
      | error e2 => exact Or.inr (Or.inl (ihr hsr e2 hr))
      | ok b =>
        simp only [hl, hr, combine] at h
        right; right
        rcases evalTree_represents l hsl a hl with ⟨_, hamax⟩ | ⟨la, hane, _⟩
        · simp [hamax] at h
        · rcases evalTree_represents r hsr b hr with ⟨_, hbmax⟩ | ⟨lb, hbne, _⟩
          · simp [hane, hbmax] at h
          · simp [hane, hbne] at h
            split at h
            · simp at h
            · rename_i hnf
              exact ⟨a, b, la, lb, hnf⟩

example : NoSentinel (.node (.leaf [some (I64_MAX - 1), none]) (.leaf [some (-5), some 3])) := by
  simp [NoSentinel, exactSum, presentVals, cellsOf, I64_MAX]
example : evalTree (.node (.leaf [some (I64_MAX - 1), none]) (.leaf [some (-5), some 3])) = .ok (I64_MAX - 3) := by rfl
example : evalTree (.node (.leaf [some (I64_MAX - 1)]) (.leaf [some 5])) = .error .overflow := by rfl
example : sumChecked [I64_MAX - 1, 5] = (I64_MIN + 3, true) := by decide

end SumThms

-- ================================================================================================================
-- Translator tie: the operator registry of query_plan.rs, re-extracted on every run (Gen/Registry.lean).
section Registry
open LM.Gen.Registry LM.ArithPlan

/-- The checked planner node each user-visible integer operator must be compiled to. -/
def checkedFactory : Func → Option Factory
  | .add => some (.call "checked_add")
  | .subtract => some (.call "checked_subtract")
  | .multiply => some (.call "checked_multiply")
  | .divide => some (.call "checked_divide")
  | .modulo => some (.call "checked_modulo")
  | _ => none

def arithFuncs : List Func := [.add, .subtract, .multiply, .divide, .modulo]

/-- **Every user-visible integer `+ - * / %` maps to a checked node**: in the registry as the source has it now, the
    declaration the planner selects for (Integer, Integer) operands is the `checked_*` factory of that operator. -/
theorem C06_registry_checked :
    ∀ f ∈ arithFuncs,
      ((entries f).find? fun e => e.sigs.contains (.integer, .integer)).map (·.factory) = checkedFactory f := by
  decide

/-- No declaration of an arithmetic operator builds an UNCHECKED integer node on integer operands: every entry is the
    operator's checked node, a NULL forwarder (result NULL), the float multiplication (outside C06), or the
    (Null, Integer) multiplication whose left operand — hence every result row — is NULL. -/
theorem C06_registry_no_unchecked_int :
    ∀ f ∈ arithFuncs, ∀ e ∈ entries f,
      some e.factory = checkedFactory f ∨ e.factory = .forwardLeft ∨ e.factory = .forwardRight ∨
      (e.factory = .callEnc "multiply" "F64" ∧ ¬ e.sigs.contains (.integer, .integer)) ∨
      (e.factory = .castThen true "NullableI64" "multiply" "I64" ∧ e.sigs = [(.null, .integer)]) := by
  decide

/-- A column that is entirely NULL in a partition (type Null there) never makes integer arithmetic fail with a type
    error: every operator has a declaration for every combination of Integer and Null operands. -/
theorem C06_registry_null_total :
    ∀ f ∈ arithFuncs, ∀ a ∈ [BT.integer, BT.null], ∀ b ∈ [BT.integer, BT.null],
      ((entries f).find? fun e => e.sigs.contains (a, b)).isSome = true := by
  decide

/-- The model's interpretation of the selected declarations: Integer∘Integer is the checked node of the operator. -/
theorem C06_registry_model (op : Op) (tl tr : Ty) (hl : tl.basic = .integer) (hr : tr.basic = .integer) :
    (lookup op tl tr).map (fun e => interp e.factory) = some (.checked op) := by
  simp only [lookup, hl, hr]
  cases op <;> decide

end Registry

-- Non-vacuity: concrete operands meeting the hypotheses, at the edges of i64.
example : performChecked .mod I64_MIN (-1) = .ok (0, false) := by
  simp [performChecked, I64_MIN, wrap64]
example : performChecked .div I64_MIN (-1) = .ok (1, true) := by
  simp [performChecked, I64_MIN, I64_MAX]
example : performChecked .add I64_MAX 1 = .ok (I64_MIN, true) := by
  simp [performChecked, ovfAdd, I64_MIN, I64_MAX, wrap64, inI64]
example : inI64 I64_MIN ∧ inI64 (-1) := by decide

end LM.C06
