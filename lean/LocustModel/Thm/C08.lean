import LocustModel.Store.Machine
import LocustModel.Store.Spec
import LocustModel.Lemmas.StoreWal
/-
  C08 — acknowledged data survives a clean restart, exactly once.  Property theorems only.
-/
namespace LM.C08
open LM LM.Store

variable {ν κ : Type} [DecidableEq ν]

/-- Cursor arithmetic: after ANY history the segments on disk are exactly the ids `earliest .. nextWal`
    (in order, each once) and the cursor stored in the catalogue file is `earliest`. -/
theorem C08_cursor_exact (P : Params ν κ) (ops : List (Op ν κ)) (w : World ν κ)
    (hrun : run P ops (initWorld P) = .ok w) :
    walIds w.disk = List.range' w.mem.cat.earliest (w.mem.cat.nextWal - w.mem.cat.earliest) ∧
    (w.disk.metaFile.map (·.cursor)).getD 0 = w.mem.cat.earliest :=
  ⟨(walInv_run P ops w hrun).ids, (walInv_run P ops w hrun).cursor⟩

/-- A restart after ANY history keeps exactly the segments that were on disk (none is below the cursor, none is
    dropped), restores the same cursor and the same next id, and the accounted log size. -/
theorem C08_restart_keeps_log (P : Params ν κ) (ops : List (Op ν κ)) (w w' : World ν κ)
    (order : Nat → Request ν κ → Request ν κ)
    (hrun : run P ops (initWorld P) = .ok w) (hre : recover P w.disk w.log w.lossy order = .ok w') :
    w'.disk.wal = w.disk.wal ∧ w'.mem.cat.earliest = w.mem.cat.earliest ∧ w'.mem.cat.nextWal = w.mem.cat.nextWal ∧
    w'.mem.walSize = w.mem.walSize :=
  (walInv_recover P w w' order (walInv_run P ops w hrun) hre).2

example : ∃ w, run (ν := Nat) (κ := Nat) ⟨id, 0, [.columnName]⟩
      [.ingest [(.user 1, ⟨1, [(.user 7, [.val 5])]⟩)] 10, .restart (fun _ r => r)]
      (initWorld ⟨id, 0, [.columnName]⟩) = .ok w ∧ walIds w.disk = [0] :=
  ⟨_, rfl, by decide⟩

end LM.C08
