import LocustModel.Store.Machine
import LocustModel.Store.Spec
import LocustModel.Lemmas.StoreWal
import LocustModel.Lemmas.StoreDurableRun
import LocustModel.Lemmas.StoreDurableTotal
import LocustModel.Lemmas.StoreExample
import LocustModel.Store.Interleave
import LocustModel.Lemmas.StoreInterleave
/-
  C08 — acknowledged data survives a clean restart, exactly once.  Property theorems only.

  Histories are arbitrary lists of `Op` (ingest / flush / restart; any length, any planner decisions, any
  sub-partition keys, any sizes, any replay order of a request's tables).  Hypotheses (`ParamsOk`, `HistWF`):
  compaction re-encodes losslessly (C07's theorem), `_meta_columns_*` tables start with the name set
  {"column_name"}, a request is a map (each table / column once), at most one compaction per table and flush,
  key lists non-empty, replay orders are permutations.
  The proofs go through the invariant `Durable` (Lemmas/StoreDurable*.lean), by induction over the history.

  Second half (`C08_interleaved_…`): the same statements for INTERLEAVED histories (`Store/Interleave.lean`): a flush is
  the sequence of its real steps (freeze block / batching + persist_partitions + compactions / persist_metastore /
  delete_orphaned_partitions / delete_wal_segments) and ingestion calls (and force_flush requests) may happen between
  any two of them, as in the code, where only the freeze block excludes ingestion.  A clean restart needs a quiescent
  state (no flush in flight).  Sequential histories are the special case `embed` (`C08_sequential_is_interleaved`).
  Invariant: `IDurable` (Lemmas/StoreInterleave.lean).
-/
namespace LM.C08
open LM LM.Store

variable {ν κ : Type} [DecidableEq ν]

/-- Cursor arithmetic: after ANY history the segments on disk are exactly the ids `earliest .. nextWal`
    (in order, each once) and the cursor stored in the catalogue file is `earliest`. -/
theorem C08_cursor_exact (P : Params ν κ) (ops : List (Op ν κ)) (w : World ν κ)
    (hrun : run P ops (initWorld P) = .ok w) :
    walIds w.disk = List.range' w.mem.cat.earliest (w.mem.cat.nextWal - w.mem.cat.earliest) ∧
    (w.disk.metaFile.map (·.cursor)).getD 0 = w.mem.cat.earliest :=
  ⟨(walInv_run P ops w hrun).ids, (walInv_run P ops w hrun).cursor⟩

/-- A restart after ANY history keeps exactly the segments that were on disk (none is below the cursor, none is
    dropped), restores the same cursor and the same next id, and the accounted log size. -/
theorem C08_restart_keeps_log (P : Params ν κ) (ops : List (Op ν κ)) (w w' : World ν κ)
    (order : Nat → Request ν κ → Request ν κ)
    (hrun : run P ops (initWorld P) = .ok w) (hre : recover P w.disk w.log w.lossy order = .ok w') :
    w'.disk.wal = w.disk.wal ∧ w'.mem.cat.earliest = w.mem.cat.earliest ∧ w'.mem.cat.nextWal = w.mem.cat.nextWal ∧
    w'.mem.walSize = w.mem.walSize :=
  (walInv_recover P w w' order (walInv_run P ops w hrun) hre).2

/-- After ANY history a query of user table `n` sees exactly the rows of all returned ingestion calls, in call
    order, every batch with the columns it was given: nothing lost, nothing twice, whatever flushes,
    compactions and restarts happened in between. -/
theorem C08_content (P : Params ν κ) (hP : ParamsOk P) (ops : List (Op ν κ)) (hwf : HistWF ops) (w : World ν κ)
    (hrun : run P ops (initWorld P) = .ok w) (n : ν) :
    content w (.user n) = .ok (acked ops (.user n)) := by
  obtain ⟨pre, hd⟩ := durable_run P hP ops hwf w hrun
  rw [hd.content, run_log_user_init P n ops w hrun]

/-- Restart: after ANY history, opening the database on the directory it left behind — for EVERY replay order of
    the tables inside each log segment — shows for every user table exactly the acknowledged rows (order, columns,
    no loss, no duplicate), shows every table (catalogue tables included) exactly as before the restart, the same
    set of tables exists, and the directory is untouched. -/
theorem C08_restart_content (P : Params ν κ) (hP : ParamsOk P) (ops : List (Op ν κ)) (hwf : HistWF ops)
    (w w' : World ν κ) (order : Nat → Request ν κ → Request ν κ) (hord : ∀ id r, (order id r).Perm r)
    (hrun : run P ops (initWorld P) = .ok w) (hre : recover P w.disk w.log w.lossy order = .ok w') :
    (∀ n, content w' (.user n) = .ok (acked ops (.user n))) ∧
    (∀ t, content w' t = content w t) ∧
    (∀ t, (w'.mem.tables t).isSome = (w.mem.tables t).isSome) ∧
    w'.disk = w.disk := by
  obtain ⟨pre, hd⟩ := durable_run P hP ops hwf w hrun
  obtain ⟨hd', hdisk, hlog⟩ := hd.recover hP.init hord hre
  refine ⟨fun n => ?_, fun t => ?_, fun t => ?_, hdisk⟩
  · rw [hd'.content, hlog, run_log_user_init P n ops w hrun]
  · rw [hd'.content, hd.content, hlog]
  · have h1 := hd'.exists_iff t
    have h2 := hd.exists_iff t
    rw [hlog] at h1
    exact Bool.eq_iff_iff.mpr (h1.trans h2.symm)

/-- … and the restart itself cannot fail: after ANY history, for EVERY replay order, `recover` succeeds — the log
    segments found are contiguous from the cursor, every share can be replayed, the lazy column-name query of a
    restored table finds a non-empty catalogue (none of the asserts / unwraps / expects on that path can fire). -/
theorem C08_restart_total (P : Params ν κ) (hP : ParamsOk P) (ops : List (Op ν κ)) (hwf : HistWF ops)
    (w : World ν κ) (order : Nat → Request ν κ → Request ν κ) (hord : ∀ id r, (order id r).Perm r)
    (hrun : run P ops (initWorld P) = .ok w) : ∃ w', recover P w.disk w.log w.lossy order = .ok w' := by
  obtain ⟨pre, hd⟩ := durable_run P hP ops hwf w hrun
  exact hd.recover_total hP.init hord

/-- No step of a clean history can fail: for every history whose ingestion requests are maps with at least one row and
    one column per table (`HistWF`, `HistOk`) the machine runs to completion — none of the asserts / unwraps / expects
    of ingest_efficient, wal_flush, compact, recover and the lazy column-name query fires.  (So the theorems above are
    not vacuous for any such history.) -/
theorem C08_history_total (P : Params ν κ) (hP : ParamsOk P) (ops : List (Op ν κ)) (hwf : HistWF ops) (hok : HistOk ops) :
    ∃ w, run P ops (initWorld P) = .ok w := run_total P hP ops hwf hok

/-- Restarting twice is the same as restarting once (any two replay orders): the second restart finds the
    directory the first one found and shows the same content for every table. -/
theorem C08_restart_idempotent (P : Params ν κ) (hP : ParamsOk P) (ops : List (Op ν κ)) (hwf : HistWF ops)
    (w w1 w2 : World ν κ) (o1 o2 : Nat → Request ν κ → Request ν κ)
    (h1 : ∀ id r, (o1 id r).Perm r) (h2 : ∀ id r, (o2 id r).Perm r)
    (hrun : run P ops (initWorld P) = .ok w) (hre1 : recover P w.disk w.log w.lossy o1 = .ok w1)
    (hre2 : recover P w1.disk w1.log w1.lossy o2 = .ok w2) :
    w2.disk = w.disk ∧ (∀ t, content w2 t = content w1 t) ∧ (∀ n, content w2 (.user n) = .ok (acked ops (.user n))) := by
  have hrun1 : run P (ops ++ [.restart o1]) (initWorld P) = .ok w1 := run_snoc P ops _ _ w w1 hrun hre1
  have hwf1 : HistWF (ops ++ [.restart o1]) := histWF_snoc ops _ hwf h1
  obtain ⟨a1, a2, _, a4⟩ := C08_restart_content P hP _ hwf1 w1 w2 o2 h2 hrun1 hre2
  obtain ⟨_, _, _, b4⟩ := C08_restart_content P hP ops hwf w w1 o1 h1 hrun hre1
  refine ⟨by rw [a4, b4], a2, fun n => ?_⟩
  rw [a1 n, acked_append]
  simp [acked, userRequests, logOf]

-- non-vacuity: the hypotheses hold for a concrete history with a compaction and a restart, a restart of it succeeds
-- with a replay order that reverses every request, and the content is the acknowledged one
example : ∃ w w', ParamsOk Ex.P0 ∧ HistWF Ex.opsA ∧ run Ex.P0 Ex.opsA (initWorld Ex.P0) = .ok w ∧
    recover Ex.P0 w.disk w.log w.lossy Ex.revOrder = .ok w' ∧
    content w' (.user 1) = .ok [⟨1, [(.user 7, [.val 5])]⟩, ⟨2, [(.user 8, [.val 6, .null])]⟩,
                                 ⟨1, [(.user 7, [.val 9]), (.user 9, [.val 3])]⟩] ∧
    walIds w.disk = [2] :=
  ⟨_, _, Ex.P0_ok, Ex.opsA_wf, rfl, rfl, rfl, by decide⟩

-- ================================================================================================ interleaved histories

/-- At EVERY state of EVERY interleaved history — also while a flush is between any two of its steps and ingestion
    calls have run since its freeze — a query of user table `n` sees exactly the rows of all returned ingestion calls,
    in the order the calls returned. -/
theorem C08_interleaved_content (P : Params ν κ) (hP : ParamsOk P) (ops : List (IOp ν κ)) (hwf : IHistWF ops)
    (iw : IWorld ν κ) (hrun : irun P ops = .ok iw) (n : ν) :
    content iw.w (.user n) = .ok (iacked ops (.user n)) := by
  rw [(idurable_run P hP ops hwf iw hrun).content, irun_log_user P n ops iw hrun]

/-- Clean restart after ANY interleaved history that ended with no flush in flight — in particular after a flush that
    overlapped ingestion calls: the rows acknowledged between its freeze and its persist_metastore are in log segments
    with ids ≥ the cursor that flush stored (the CAPTURED end of the unflushed range), so `recover` replays them:
    for EVERY replay order every user table shows exactly the acknowledged rows (nothing lost, nothing twice), every
    table is as before the restart, the same tables exist, the directory is untouched. -/
theorem C08_interleaved_restart_content (P : Params ν κ) (hP : ParamsOk P) (ops : List (IOp ν κ)) (hwf : IHistWF ops)
    (iw : IWorld ν κ) (w' : World ν κ) (order : Nat → Request ν κ → Request ν κ) (hord : ∀ id r, (order id r).Perm r)
    (hrun : irun P ops = .ok iw) (hq : iw.fl = none) (hre : recover P iw.w.disk iw.w.log iw.w.lossy order = .ok w') :
    (∀ n, content w' (.user n) = .ok (iacked ops (.user n))) ∧
    (∀ t, content w' t = content iw.w t) ∧
    (∀ t, (w'.mem.tables t).isSome = (iw.w.mem.tables t).isSome) ∧
    w'.disk = iw.w.disk := by
  obtain ⟨pre, hd⟩ := (idurable_run P hP ops hwf iw hrun).quiescent hq
  obtain ⟨hd', hdisk, hlog⟩ := hd.recover hP.init hord hre
  refine ⟨fun n => ?_, fun t => ?_, fun t => ?_, hdisk⟩
  · rw [hd'.content, hlog, irun_log_user P n ops iw hrun]
  · rw [hd'.content, hd.content, hlog]
  · have h1 := hd'.exists_iff t
    have h2 := hd.exists_iff t
    rw [hlog] at h1
    exact Bool.eq_iff_iff.mpr (h1.trans h2.symm)

/-- … and that restart cannot fail. -/
theorem C08_interleaved_restart_total (P : Params ν κ) (hP : ParamsOk P) (ops : List (IOp ν κ)) (hwf : IHistWF ops)
    (iw : IWorld ν κ) (order : Nat → Request ν κ → Request ν κ) (hord : ∀ id r, (order id r).Perm r)
    (hrun : irun P ops = .ok iw) (hq : iw.fl = none) : ∃ w', recover P iw.w.disk iw.w.log iw.w.lossy order = .ok w' := by
  obtain ⟨pre, hd⟩ := (idurable_run P hP ops hwf iw hrun).quiescent hq
  exact hd.recover_total hP.init hord

/-- Cursor arithmetic for interleaved histories: whenever no flush is in flight, the segments on disk are exactly the
    ids `earliest .. nextWal`, the cursor in the catalogue file is `earliest`, and their number is the number of
    ingestion calls that returned since the last freeze (`sinceFreeze`): the calls a flush overlapped keep their
    segments, everything the flush captured is gone. -/
theorem C08_interleaved_cursor_exact (P : Params ν κ) (hP : ParamsOk P) (ops : List (IOp ν κ)) (hwf : IHistWF ops)
    (iw : IWorld ν κ) (hrun : irun P ops = .ok iw) (hq : iw.fl = none) :
    walIds iw.w.disk = List.range' iw.w.mem.cat.earliest (sinceFreeze ops) ∧
    (iw.w.disk.metaFile.map (·.cursor)).getD 0 = iw.w.mem.cat.earliest ∧
    iw.w.mem.cat.nextWal = iw.w.mem.cat.earliest + sinceFreeze ops := by
  obtain ⟨pre, hd⟩ := (idurable_run P hP ops hwf iw hrun).quiescent hq
  have hf := (frame_run P hP ops hwf iw hrun).quiet hq
  refine ⟨?_, hd.wal.cursor, hf⟩
  have := hd.wal.ids
  rw [hf] at this
  simpa using this

/-- No step of an interleaved history hits an assert / unwrap / expect (`assert!(frozen_buffer.len() == 0)` of
    freeze_buffer, the contiguity assert of replay, the expects of the lazy column-name query, the asserts of
    push_typed_cols, the unwraps of compact): in every reachable state every well-formed step either happens or is
    simply not enabled (e.g. a second flush while one is in flight). -/
theorem C08_interleaved_no_fault (P : Params ν κ) (hP : ParamsOk P) (ops : List (IOp ν κ)) (hwf : IHistWF ops)
    (iw : IWorld ν κ) (hrun : irun P ops = .ok iw) (op : IOp ν κ) (hop : IOpWF op) (hok : IOpOk op) :
    (∃ iw', istep P iw op = .ok iw') ∨ istep P iw op = .error .disabled :=
  istep_no_fault P hP iw op hop hok (idurable_run P hP ops hwf iw hrun)

/-- The sequential histories of the first half are the interleaved histories in which every flush runs its five steps
    back to back: same final world, same acknowledged rows.  (So the `C08_interleaved_…` theorems imply the
    sequential ones.) -/
theorem C08_sequential_is_interleaved (P : Params ν κ) (ops : List (Op ν κ)) (w : World ν κ)
    (hrun : run P ops (initWorld P) = .ok w) :
    irun P (embed ops) = .ok ⟨w, none, [], []⟩ ∧ ∀ t, iacked (embed ops) t = acked ops t :=
  ⟨embed_run P ops _ w [] hrun, fun t => iacked_embed ops t⟩

-- non-vacuity: a flush that overlaps two ingestion calls (one between freeze and batching, one between batching and
-- persist_metastore), then a clean restart with reversed replay: all three batches of table 1 are there, the two
-- overlapped segments (ids 1, 2) are still on disk, the stored cursor is the captured end (1)
example : ∃ iw, ParamsOk Ex.P0 ∧ IHistWF Ex.iopsA ∧ irun Ex.P0 Ex.iopsA = .ok iw ∧ iw.fl = none ∧
    content iw.w (.user 1) = .ok [⟨1, [(.user 7, [.val 5])]⟩, ⟨2, [(.user 8, [.val 6, .null])]⟩,
                                   ⟨1, [(.user 7, [.val 9]), (.user 9, [.val 3])]⟩] ∧
    walIds iw.w.disk = [1, 2] ∧ iw.w.disk.metaFile.map (·.cursor) = some 1 ∧ sinceFreeze Ex.iopsA = 2 :=
  ⟨_, Ex.P0_ok, Ex.iopsA_wf, rfl, rfl, rfl, by decide, by decide, by decide⟩

/-- The interleaved machine follows the source in the cursor choices that only matter when calls overlap a flush
    (`Gen/WalProtocol.lean`, regenerated from /repo by every check run): the unflushed range is
    `earliest_unflushed_wal_id..next_wal_id`, captured in the freeze block after `wal_size` is locked;
    `persist_metastore` gets the captured END and stores it as `earliest_unflushed_wal_id`; `MetaStore::serialize`
    writes `earliest_unflushed_wal_id` as the cursor; `delete_wal_segments` gets the captured range; the tail of
    `wal_flush` runs in the order partitions, catalogue, orphans, segments.  A source edit that changes one of these
    fails this obligation. -/
theorem C08_machine_follows_source :
    LM.Gen.WalProtocol.serializedCursorField = "earliest_unflushed_wal_id" ∧
    LM.Gen.WalProtocol.unflushedRange = "self.earliest_unflushed_wal_id..self.next_wal_id" ∧
    LM.Gen.WalProtocol.advanceEarliest = "self.earliest_unflushed_wal_id=wal_id;" ∧
    LM.Gen.WalProtocol.capturedUnderLock = true ∧
    LM.Gen.WalProtocol.persistMetastoreArg = "unflushed_wal_ids.end" ∧
    LM.Gen.WalProtocol.deleteWalSegmentsArg = "unflushed_wal_ids" ∧
    LM.Gen.WalProtocol.flushTailOrder = ["persist_partitions", "persist_metastore", "delete_orphaned_partitions", "delete_wal_segments"] ∧
    (∀ (P : Params ν κ) (iw : IWorld ν κ) (op : IOp ν κ),
      istepVar (decide (LM.Gen.WalProtocol.serializedCursorField ≠ "earliest_unflushed_wal_id")) false P iw op = istep P iw op) := by
  refine ⟨by decide, by decide, by decide, by decide, by decide, by decide, by decide, fun P iw op => ?_⟩
  have h : decide (LM.Gen.WalProtocol.serializedCursorField ≠ "earliest_unflushed_wal_id") = false := by decide
  rw [h]; exact istepVar_ff P iw op

/-- Sensitivity: the theorems above depend on `persist_metastore` storing the CAPTURED end of the unflushed range.
    In the variant machine that stores `next_wal_id` instead (`persistMetaNext`), the same history loses the two
    batches acknowledged during the flush at the clean restart: before the restart all 4 rows are visible, after it 1. -/
theorem C08_interleaved_cursor_must_be_captured_end :
    ∃ (iw : IWorld Nat Nat) (w' : World Nat Nat),
      ifoldVar true false Ex.P0 Ex.iopsFlush (iinit Ex.P0) = .ok iw ∧ iw.fl = none ∧
      recover Ex.P0 iw.w.disk iw.w.log iw.w.lossy Ex.idOrder = .ok w' ∧
      (content iw.w (.user 1)).map rowsLen = .ok 4 ∧ rowsLen (iacked Ex.iopsFlush (.user 1)) = 4 ∧
      (content w' (.user 1)).map rowsLen = .ok 1 ∧ w'.disk.wal = [] :=
  ⟨_, _, rfl, rfl, rfl, rfl, rfl, rfl, rfl⟩

end LM.C08
