import LocustModel.Query.Merge
import LocustModel.Lemmas.C05Judge
import LocustModel.Lemmas.C05Val
import LocustModel.Lemmas.C05Tree
import LocustModel.Lemmas.C05Multi2
import LocustModel.Lemmas.C05TopN
import LocustModel.Query.OrderFused
import LocustModel.Lemmas.C05Fused
/-
  C05 — ORDER BY / LIMIT / OFFSET.  Property theorems.

  Specification (Query/OrderSpec.lean): `OrderSpec le rows out n m` — `out` is rows m+1..m+n of SOME arrangement
  of the filtered rows sorted by the keys (ties in any order); without ORDER BY exactly `plainSpec`.
  Implementation model (Query/Order.lean): per-partition stable sorts or top-n, pairwise limited merges
  along an arbitrary tree, final slice.
-/
namespace LM.C05
open LM LM.Sql LM.Merge LM.OrderSpec LM.Order

/-! ## 1. The executable judge decides the declarative property -/

/-- Whatever the judge accepts is rows m+1..m+n of a sorted arrangement of the filtered rows. -/
theorem C05_judge_sound {α : Type} [DecidableEq α] (le : α → α → Bool) (rows out : List α) (n m : Nat)
    (h : judge le rows out n m = .ok) : OrderSpec le rows out n m := judge_sound le rows out n m h

/-- Every output that satisfies the property is accepted (no false alarm), for any total preorder. -/
theorem C05_judge_complete {α : Type} [DecidableEq α] {le : α → α → Bool} (hle : TotalPre le)
    (rows out : List α) (n m : Nat) (h : OrderSpec le rows out n m) : judge le rows out n m = .ok :=
  judge_complete hle rows out n m h

theorem C05_judge_iff {α : Type} [DecidableEq α] {le : α → α → Bool} (hle : TotalPre le)
    (rows out : List α) (n m : Nat) : judge le rows out n m = .ok ↔ OrderSpec le rows out n m :=
  ⟨judge_sound le rows out n m, judge_complete hle rows out n m⟩

/-- The comparator the judge is run with (keys with directions, NULL last / first when descending,
    lexicographic) is a total preorder on all rows. -/
theorem C05_keys_total_preorder (dirs : List Bool) : TotalPre (itemLe dirs) := itemLe_totalPre dirs

/-- … and it is the shared reference semantics' order: the negation of `Sql.keysLt` (Query/Sql.lean) with the
    arguments swapped, on key tuples of the right length. -/
theorem C05_keys_agree_with_shared_spec (dirs : List Bool) (a b : List Val) (ha : a.length = dirs.length)
    (hb : b.length = dirs.length) : keysLe dirs a b = !Sql.keysLt (b.zip dirs) (a.zip dirs) :=
  keysLe_eq_not_keysLt dirs a b ha hb

/-- The property pins down everything except the order inside tie classes: two outputs that both satisfy it
    agree position by position up to ties. -/
theorem C05_spec_determines_keys {α : Type} {le : α → α → Bool} (hle : TotalPre le) (rows o₁ o₂ : List α) (n m : Nat)
    (h₁ : OrderSpec le rows o₁ n m) (h₂ : OrderSpec le rows o₂ n m) :
    F2 (fun a b => eqv le a b = true) o₁ o₂ := by
  obtain ⟨s₁, p₁, hs₁, rfl⟩ := h₁
  obtain ⟨s₂, p₂, hs₂, rfl⟩ := h₂
  exact forall2_take n (forall2_drop m (sorted_perm_forall2 hle hs₁ hs₂ (p₁.trans p₂.symm)))

example : judge (itemLe [false]) [([.int 2], [.int 0]), ([.int 1], [.int 1]), ([.int 2], [.int 2])]
    [([.int 2], [.int 2])] 1 1 = .ok := by decide
example : judge (itemLe [false]) [([.int 2], [.int 0]), ([.int 1], [.int 1]), ([.int 2], [.int 2])]
    [([.int 1], [.int 1])] 1 1 = .wrongCut := by decide
example : judge (itemLe [true]) [([.null], [.int 0]), ([.int 1], [.int 1])] [([.null], [.int 0])] 1 0 = .ok := by decide

/-! ## 2. Sorting inside a partition -/

/-- `sort_lex`: stable sorts from the last key to the first are ONE stable sort by the lexicographic comparator. -/
theorem C05_sort_lex {β : Type} (cmps : List (β → β → Bool)) (h : ∀ c ∈ cmps, TotalPre c) (rows : List β) :
    sortSucc cmps rows = isort (lexOf cmps) rows := sortSucc_eq_isort_lex cmps h rows

/-- A list sorted by `le` is determined by its tie classes: the stable sort is unique, so modelling
    `slice::sort_by` by the reference sort assumes exactly "sorted, and ties keep their input order". -/
theorem C05_stable_sort_unique {α : Type} {le : α → α → Bool} (h : TotalPre le) (s l : List α)
    (hs : Sorted le s) (hstable : ∀ x, s.filter (eqv le x) = l.filter (eqv le x)) : s = isort le l :=
  eq_isort h s l hs hstable

example : sortSucc [fun (a b : Nat × Nat) => decide (a.1 ≤ b.1), fun a b => decide (a.2 ≥ b.2)] [(1, 1), (0, 2), (1, 3), (0, 0)]
    = [(0, 2), (0, 0), (1, 3), (1, 1)] := by decide

/-! ## 3. Merging sorted partial results (one key) -/

/-- The i64 instance exercised through the hooks is the generic model at `cmpEq desc`. -/
theorem C05_merge_instance (desc : Bool) (l r : List Int) (n : Nat) :
    Merge.merge desc l r n = Order.merge (cmpEq desc) l r n := by
  fun_induction Merge.merge desc l r n <;> simp_all [Order.merge]

/-- The limited merge the engine runs is exactly the first `n` rows of the full stable merge, for all inputs and
    every limit (this is what makes "each partition keeps limit+offset rows" sound). -/
theorem C05_merge_eq_take {α : Type} (le : α → α → Bool) (l r : List α) (n : Nat) :
    (Order.merge le l r n).1 = (Order.mergeAll le l r).take n := merge_fst_eq_take le l r n

/-- Replaying the flags with `merge_keep` on the merged column itself reproduces it: the flags describe a genuine
    interleaving of the two inputs, so every other column merged with the same flags receives the same row
    permutation (no row shifted between columns). -/
theorem C05_merge_keep_replays {α : Type} (le : α → α → Bool) (l r : List α) (n : Nat) :
    Order.mergeKeep (Order.merge le l r n).2 l r = some (Order.merge le l r n).1 := mergeKeep_merge le l r n

/-- The full stable merge of two sorted lists IS the stable sort of their concatenation. -/
theorem C05_merge_is_stable_sort {α : Type} {le : α → α → Bool} (h : TotalPre le) (l r : List α)
    (hl : Sorted le l) (hr : Sorted le r) : Order.mergeAll le l r = isort le (l ++ r) := mergeAll_eq_isort h l r hl hr

/-- Main two-way statement: for sorted partial results the limited merge returns the first `n` rows of *the*
    stable sorted arrangement of all rows of both partitions. -/
theorem C05_merge_sorted_prefix {α : Type} {le : α → α → Bool} (h : TotalPre le) (l r : List α) (n : Nat)
    (hl : Sorted le l) (hr : Sorted le r) : (Order.merge le l r n).1 = (isort le (l ++ r)).take n := by
  rw [merge_fst_eq_take, mergeAll_eq_isort h l r hl hr]

/-- Inputs cut to at least `n` rows give the same first `n` rows: a partition may keep only limit+offset rows. -/
theorem C05_merge_truncated_inputs {α : Type} (le : α → α → Bool) (n : Nat) (a b : List α) (ka kb : Nat)
    (ha : n ≤ ka) (hb : n ≤ kb) :
    (Order.merge le (a.take ka) (b.take kb) n).1 = (Order.merge le a b n).1 := by
  rw [merge_fst_eq_take, merge_fst_eq_take]; exact take_mergeAll_take le n a b ka kb ha hb

example : Merge.merge false [1, 3, 5] [2, 3, 9] 4 = ([1, 2, 3, 3], [1, 0, 1, 0]) := by decide
example : Sorted (cmpEq true) [5, 3, 3] ∧ Sorted (cmpEq true) [9, 3] := by
  simp [Sorted, cmpEq]

/-! ## 4. Final slice -/

/-- `slice_ok`: `convert_to_output_format` is total for every limit / offset / result length (no `Except`: the
    clamped offset cannot underflow) and returns exactly rows offset+1..offset+limit of the full result, of length
    `min limit (len - offset)`.  Before the fix (`len - offset` in usize) the statement was refuted by
    `LIMIT 2 OFFSET 20` on 8 rows; the witness stays in the harness corpus. -/
theorem C05_slice_ok {β : Type} (full : List β) (limit offset : Nat) :
    slice full limit offset = (full.drop offset).take limit ∧
    (slice full limit offset).length = min limit (full.length - offset) :=
  ⟨slice_eq full limit offset, slice_length full limit offset⟩

example : slice [10, 11, 12] 2 20 = ([] : List Nat) := by decide
example : slice [10, 11, 12] 2 2 = [12] := by decide
example : combinedLimit U64_MAX 1 = U64_MAX := by decide

/-! ## 5. Whole query -/

/-- `topn_smallest` as a statement: the rows selected by `TopN` are the first `n` rows of a sorted arrangement of
    the partition, for every `sort_unstable_by` that returns a sorted permutation. -/
def C05_topn_statement : Prop :=
  ∀ (β : Type) (usort : USort), USortLaw usort → ∀ (c : β → β → Bool), TotalPre c → ∀ (n : Nat) (rows : List β),
    PrefixOf c n rows ((topN usort c n rows).filterMap fun i => rows[i]?)

/-- `topn_smallest`: heap invariant by induction over the input stream (`heap_replace` keeps the worst kept key at
    the root and exchanges exactly the root for the new row; every dropped row may come after every kept row), the
    two unstable sorts of the fill phase and the one of `finalize` being ANY functions returning sorted permutations. -/
theorem C05_topn_smallest : C05_topn_statement :=
  fun _ usort hlaw _ hc n rows => topN_prefix usort hlaw hc n rows

/-- One `heap_replace` step (the function exercised through the hook): on a heap (worst key at the root) whose
    parent of `node` may come after the new entry, the result is again a heap and holds exactly the old entries with
    the one at `node` exchanged for the new one. -/
theorem C05_heap_replace {α : Type} {le : α → α → Bool} (hle : TotalPre le) (h : List (α × Nat)) (x : α × Nat)
    (hne : 0 < h.length) (hh : IsHeap le h) :
    IsHeap le (heapReplace le h.length h x 0) ∧ (heapReplace le h.length h x 0).Perm (h.set 0 x) :=
  heapReplace_spec hle h.length h x 0 (by omega) hne hh (fun _ h0 _ => by omega)

example : topN (fun le l => isort le l) (fun (a b : Nat) => decide (a ≤ b)) 2 [5, 1, 4, 2, 3] = [1, 3] := by decide +kernel
example : topN (fun le l => isort le l) (fun (a b : Nat) => decide (a ≥ b)) 3 [5, 1, 4, 2, 3, 9] = [5, 0, 2] := by decide +kernel
example : topN (fun le l => isort le l) (fun (a b : Nat) => decide (a ≤ b)) 0 [5, 1] = [] := by decide +kernel
example : USortLaw (fun le l => isort le l) := ⟨fun le l => isort_perm le l, fun _ h l => isort_sorted h l⟩

/-- Multi-key combination as a statement: `merge_partitioned ∘ subpartition* ∘ partition` followed by `merge_keep`
    is the limited stable merge under the lexicographic comparator (partial results of fewer than 2^32 - 1 rows:
    the `Premerge` counters and the limit inside `partition` are u32). -/
def C05_multikey_statement : Prop :=
  ∀ (β : Type) (c₁ c₂ : β → β → Bool) (cs : List (β → β → Bool)), (∀ c ∈ c₁ :: c₂ :: cs, TotalPre c) →
    ∀ (a b : List β) (n : Nat), a.length + b.length < U32_MAX →
      Sorted (lexOf (c₁ :: c₂ :: cs)) a → Sorted (lexOf (c₁ :: c₂ :: cs)) b →
      combineSorted (c₁ :: c₂ :: cs) a b n = some ((Order.mergeAll (lexOf (c₁ :: c₂ :: cs)) a b).take n)

/-- `merge_partitioned ∘ subpartition* ∘ partition` + `merge_keep` = lexicographic merge prefix, for any number
    of keys ≥ 2, any directions, any limit (incl. 0 and > u32::MAX), ties allowed everywhere. -/
theorem C05_multikey : C05_multikey_statement := by
  intro β c₁ c₂ cs hc a b n hlen ha hb
  have hK : (c₂ :: cs).dropLast ++ [(c₂ :: cs).getLast (by simp)] = c₂ :: cs := List.dropLast_concat_getLast _
  have hmid : ∀ c ∈ (c₂ :: cs).dropLast, TotalPre c := fun c hc' =>
    hc c (List.mem_cons_of_mem _ ((List.dropLast_sublist _).subset hc'))
  have := combineSortedN_eq c₁ ((c₂ :: cs).dropLast) ((c₂ :: cs).getLast (by simp)) (hc c₁ (by simp)) hmid a b n hlen
    (by rw [hK]; exact ha) (by rw [hK]; exact hb)
  rw [hK] at this
  exact this

example : combineSorted [fun (a b : Nat × Nat) => decide (a.1 ≤ b.1), fun a b => decide (a.2 ≥ b.2)]
    [(0, 5), (1, 7), (1, 2)] [(0, 9), (1, 7), (2, 0)] 4 = some [(0, 9), (0, 5), (1, 7), (1, 7)] := by decide +kernel

/-- The property at full strength on the model: for every table, every split into partitions, every bracketing
    of the pairwise merges, every strategy choice, every unstable sort, every limit and offset, the query does not
    fault and returns rows offset+1..offset+limit of a sorted arrangement of the filtered rows. -/
def C05_order_statement : Prop :=
  ∀ (β : Type) (usort : USort), USortLaw usort →
  ∀ (cmps : List (β → β → Bool)), cmps ≠ [] → (∀ c ∈ cmps, TotalPre c) →
  ∀ (constant : Bool) (limit offset : Nat) (t : PTree β), t.rows.length < U32_MAX →
    ∃ out, runQuery usort cmps constant limit offset t = some out ∧
      OrderSpec (lexOf cmps) t.rows out limit offset

/-- The top-level statement follows from the two operator-level statements (everything else — strategy choice,
    stable sorts, any merge tree, truncation to limit+offset, saturating limit arithmetic, final slice — is proved
    here). -/
theorem C05_order_from_operators (hTopN : C05_topn_statement) (hMulti : C05_multikey_statement) : C05_order_statement := by
  intro β usort hlaw cmps hne hc constant limit offset t hlen
  have hle : TotalPre (lexOf cmps) := lexOf_totalPre cmps hc
  have hleaf : ∀ partLen rows, PrefixOf (lexOf cmps) (combinedLimit limit offset) rows
      (partRun usort cmps constant (combinedLimit limit offset) partLen rows) := by
    intro partLen rows
    cases cmps with
    | nil => exact absurd rfl hne
    | cons c cs =>
      simp only [partRun]
      split
      · rename_i htop
        have hlen1 : (c :: cs).length = 1 := by
          simp [useTopN] at htop; simpa using htop.1.2
        have hcs : cs = [] := by
          cases cs with
          | nil => rfl
          | cons _ _ => simp at hlen1
        subst hcs
        rw [lexOf_single]
        exact hTopN β usort hlaw c (hc c (by simp)) _ rows
      · rw [sortSucc_eq_isort_lex (c :: cs) hc]
        exact prefixOf_isort hle _ rows
  have hcomb : ∀ a b, Sorted (lexOf cmps) a → Sorted (lexOf cmps) b → a.length + b.length ≤ t.rows.length →
      combineSorted cmps a b (combinedLimit limit offset)
        = some ((Order.mergeAll (lexOf cmps) a b).take (combinedLimit limit offset)) := by
    intro a b hsa hsb hab
    match cmps, hne, hc, hsa, hsb with
    | [c], _, _, _, _ => rw [lexOf_single]; exact combineSorted1_eq c a b _
    | c₁ :: c₂ :: cs, _, hc, hsa, hsb => exact hMulti β c₁ c₂ cs hc a b _ (by omega) hsa hsb
  obtain ⟨full, hfull, hp⟩ := evalTree_prefix usort cmps constant _ _ hne hle hleaf hcomb t (Nat.le_refl _)
  have hlen64 : t.rows.length ≤ U64_MAX := by
    have : U32_MAX ≤ U64_MAX := by decide
    omega
  exact ⟨slice full limit offset, by simp [runQuery, hfull], prefixOf_slice limit offset hlen64 hp⟩

/-- `C05_order`: the property at full strength holds on the model (tables of fewer than 2^32 - 1 rows). -/
theorem C05_order : C05_order_statement := C05_order_from_operators C05_topn_smallest C05_multikey

/-- One key (the common case), any strategy mix, any unstable sort: only the u64 row bound is needed (the u32
    counters belong to the multi-key path). -/
theorem C05_order_one_key {β : Type} (usort : USort) (hlaw : USortLaw usort) (c : β → β → Bool) (hc : TotalPre c)
    (constant : Bool) (limit offset : Nat) (t : PTree β) (hlen : t.rows.length ≤ U64_MAX) :
    ∃ out, runQuery usort [c] constant limit offset t = some out ∧ OrderSpec c t.rows out limit offset := by
  have hle : TotalPre (lexOf [c]) := by rw [lexOf_single]; exact hc
  have hleaf : ∀ partLen rows, PrefixOf (lexOf [c]) (combinedLimit limit offset) rows
      (partRun usort [c] constant (combinedLimit limit offset) partLen rows) := by
    intro partLen rows
    rw [lexOf_single]
    simp only [partRun]
    split
    · exact topN_prefix usort hlaw hc _ rows
    · have : sortSucc [c] rows = isort c rows := rfl
      rw [this]; exact prefixOf_isort hc _ rows
  have hcomb : ∀ a b, Sorted (lexOf [c]) a → Sorted (lexOf [c]) b → a.length + b.length ≤ t.rows.length →
      combineSorted [c] a b (combinedLimit limit offset)
        = some ((Order.mergeAll (lexOf [c]) a b).take (combinedLimit limit offset)) := by
    intro a b _ _ _; rw [lexOf_single]; exact combineSorted1_eq c a b _
  obtain ⟨full, hfull, hp⟩ := evalTree_prefix usort [c] constant _ _ (by simp) hle hleaf hcomb t (Nat.le_refl _)
  refine ⟨slice full limit offset, by simp [runQuery, hfull], ?_⟩
  have := prefixOf_slice limit offset hlen hp
  rwa [lexOf_single] at this

/-- Without ORDER BY the rows come back in ingestion order: exactly rows offset+1..offset+limit of the table, for
    every partitioning and every bracketing of the pairwise appends. -/
theorem C05_plain {β : Type} (usort : USort) (constant : Bool) (limit offset : Nat) (t : PTree β)
    (hlen : t.rows.length ≤ U64_MAX) :
    runQuery usort ([] : List (β → β → Bool)) constant limit offset t = some (plainSpec t.rows limit offset) := by
  obtain ⟨k, hk, he⟩ := evalTree_plain usort constant (combinedLimit limit offset) t
  simp only [runQuery, he, Option.map_some, plainSpec]
  congr 1
  rw [slice_eq]
  apply take_drop_take
  unfold combinedLimit at hk
  by_cases h : limit + offset ≤ U64_MAX
  · left; omega
  · right; omega

example : runQuery (fun le l => isort le l) ([] : List (Nat → Nat → Bool)) false 2 1
    (.node (.leaf 2 [7, 8]) (.leaf 3 [9, 10, 11])) = some [8, 9] := by decide
example : runQuery (fun le l => isort le l) [fun (a b : Nat) => decide (a ≤ b)] false 2 1
    (.node (.leaf 2 [8, 7]) (.leaf 3 [9, 11, 5])) = some [7, 8] := by decide

end LM.C05

/-! ## 6. The comparator the engine really uses on fused keys (known finding C05-nan-null-tie) -/
namespace LM.C05
open LM LM.Sql LM.OrderSpec LM.OrderFused

/-- Full statement: comparing fused float keys is comparing by the specification's order (NULL after every value). -/
def C05_fused_float_statement : Prop :=
  ∀ (desc : Bool) (a b : Val), isFloatOrNull a = true → isFloatOrNull b = true → fusedFloatLe desc a b = valLe desc a b

/-- It holds when neither value is a NaN … -/
theorem C05_fused_float_partial (desc : Bool) (a b : Val) (ha : isFloatOrNull a = true) (hb : isFloatOrNull b = true)
    (hna : isNaNVal a = false) (hnb : isNaNVal b = false) : fusedFloatLe desc a b = valLe desc a b := by
  cases a <;> cases b <;> simp [isFloatOrNull] at ha hb
  · cases desc <;> simp [fusedFloatLe, fuseFloat, valLe, valLt, valRank]
  · rename_i y
    have h1 := floatKey_lt_of_not_nan y hnb
    have h2 : ¬ (9223372036854775808 : Int) ≤ floatKey y := by omega
    have h3 : floatKey y ≤ 9223372036854775808 := by omega
    cases desc <;> simp [fusedFloatLe, fuseFloat, valLe, valLt, valRank, floatKey_null, h2, h3]
  · rename_i x
    have h1 := floatKey_lt_of_not_nan x hna
    have h2 : ¬ (9223372036854775808 : Int) ≤ floatKey x := by omega
    have h3 : floatKey x ≤ 9223372036854775808 := by omega
    cases desc <;> simp [fusedFloatLe, fuseFloat, valLe, valLt, valRank, floatKey_null, h2, h3]
  · rename_i x y
    cases desc <;> simp only [fusedFloatLe, fuseFloat, valLe, valLt, Bool.false_eq_true, if_false, if_true, ge_iff_le]
    · exact decide_le_eq_not_lt _ _
    · exact decide_le_eq_not_lt _ _

/-- … and is refuted by NULL against a NaN value: the engine may put NULL first (ascending); replayed on the real
    code by the harness (`corpus:nan-null`, two partitions `[NULL, NaN] | [NaN]`). -/
theorem C05_fused_float_refuted : ¬ C05_fused_float_statement := by
  intro h
  have := h false .null (.float 0x7ff8000000000000) rfl rfl
  revert this; decide

/-- Integer keys: the sentinel is outside the value domain, so fused comparison is the specification's. -/
theorem C05_fused_int (desc : Bool) (a b : Val) (ha : a = .null ∨ ∃ i, a = .int i ∧ i < I64_MAX)
    (hb : b = .null ∨ ∃ i, b = .int i ∧ i < I64_MAX) : fusedIntLe desc a b = valLe desc a b := by
  rcases ha with rfl | ⟨i, rfl, hi⟩ <;> rcases hb with rfl | ⟨j, rfl, hj⟩
  · cases desc <;> simp [fusedIntLe, fuseInt, valLe, valLt, valRank]
  · have h1 : ¬ I64_MAX ≤ j := by omega
    have h2 : j ≤ I64_MAX := by omega
    cases desc <;> simp [fusedIntLe, fuseInt, valLe, valLt, valRank, h1, h2]
  · have h1 : ¬ I64_MAX ≤ i := by omega
    have h2 : i ≤ I64_MAX := by omega
    cases desc <;> simp [fusedIntLe, fuseInt, valLe, valLt, valRank, h1, h2]
  · cases desc <;> simp only [fusedIntLe, fuseInt, valLe, valLt, Bool.false_eq_true, if_false, if_true, ge_iff_le]
    · exact decide_le_eq_not_lt _ _
    · exact decide_le_eq_not_lt _ _

example : isNaNVal (.float 0x7ff8000000000000) = true ∧ isNaNVal (.float 0x3ff0000000000000) = false := by decide
example : nanAndNull [.float 0x7ff8000000000000, .int 3, .null] = true := by decide

end LM.C05
