import LocustModel.Query.Merge
/-
  C05 — ORDER BY / LIMIT / OFFSET.  Property theorems about the merge of sorted partial results.
-/
namespace LM.C05
open LM LM.Merge

/-- The comparator's order as a relation: `a` may precede `b`. -/
def le (desc : Bool) (a b : Int) : Prop := if desc then a ≥ b else a ≤ b

theorem cmpEq_iff (desc : Bool) (a b : Int) : cmpEq desc a b = true ↔ le desc a b := by
  cases desc <;> simp [cmpEq, le]

theorem le_total (desc : Bool) (a b : Int) : le desc a b ∨ le desc b a := by
  cases desc <;> simp [le] <;> omega

theorem le_trans (desc : Bool) {a b c : Int} (h1 : le desc a b) (h2 : le desc b c) : le desc a c := by
  cases desc <;> simp [le] at * <;> omega

/-- The limited merge the engine runs is exactly the first `n` elements of the full stable merge,
    for all inputs and every limit (this is what makes "each partition keeps limit+offset rows" sound). -/
theorem C05_merge_eq_take (desc : Bool) (l r : List Int) (n : Nat) :
    (merge desc l r n).1 = (mergeAll desc l r).take n := by
  fun_induction merge desc l r n <;> simp_all [mergeAll]

/-- The flags have the same length as the merged keys. -/
theorem C05_merge_ops_length (desc : Bool) (l r : List Int) (n : Nat) :
    (merge desc l r n).2.length = (merge desc l r n).1.length := by
  fun_induction merge desc l r n <;> simp_all

theorem mergeKeep_left_tail {α : Type} (l r : List α) (n : Nat) :
    mergeKeep ((l.take n).map fun _ => 1) l r = some (l.take n) := by
  induction l generalizing n with
  | nil => simp [mergeKeep]
  | cons a l ih =>
    cases n with
    | zero => simp [mergeKeep]
    | succ n => simp [mergeKeep]; rw [← List.map_take]; exact ih n

theorem mergeKeep_right_tail {α : Type} (l r : List α) (n : Nat) :
    mergeKeep ((r.take n).map fun _ => 0) l r = some (r.take n) := by
  induction r generalizing n with
  | nil => simp [mergeKeep]
  | cons b r ih =>
    cases n with
    | zero => simp [mergeKeep]
    | succ n => simp [mergeKeep]; rw [← List.map_take]; exact ih n

/-- Replaying the flags with `merge_keep` on the key columns themselves reproduces the merged keys:
    the flags describe a genuine interleaving of `l` and `r`, so every other column merged with
    the same flags receives the same row permutation (no row shifted between columns). -/
theorem C05_merge_keep_replays (desc : Bool) (l r : List Int) (n : Nat) :
    mergeKeep (merge desc l r n).2 l r = some (merge desc l r n).1 := by
  fun_induction merge desc l r n
  · simp [mergeKeep]
  · exact mergeKeep_right_tail _ _ _
  · exact mergeKeep_left_tail _ _ _
  · simp_all [mergeKeep]
  · simp_all [mergeKeep]

/-- The full merge is a permutation of both inputs … -/
theorem C05_mergeAll_perm (desc : Bool) (l r : List Int) : (mergeAll desc l r).Perm (l ++ r) := by
  fun_induction mergeAll desc l r
  · simp
  · simp
  · rename_i a l b r h ih
    exact List.Perm.cons a ih
  · rename_i a l b r h ih
    have : (b :: mergeAll desc (a :: l) r).Perm (b :: (a :: l ++ r)) := List.Perm.cons b ih
    exact this.trans (List.perm_middle.symm)

/-- … and sorted whenever both inputs are (any direction, duplicates allowed). -/
theorem C05_mergeAll_sorted (desc : Bool) (l r : List Int)
    (hl : l.Pairwise (le desc)) (hr : r.Pairwise (le desc)) :
    (mergeAll desc l r).Pairwise (le desc) := by
  fun_induction mergeAll desc l r
  · exact hr
  · exact hl
  · rename_i a l b r h ih
    have hab : le desc a b := (cmpEq_iff desc a b).mp h
    rw [List.pairwise_cons] at hl
    refine List.pairwise_cons.mpr ⟨?_, ih hl.2 hr⟩
    intro x hx
    have := (C05_mergeAll_perm desc l (b :: r)).mem_iff.mp hx
    rw [List.mem_append] at this
    rcases this with h1 | h1
    · exact hl.1 x h1
    · rw [List.pairwise_cons] at hr
      rcases List.mem_cons.mp h1 with h2 | h2
      · subst h2; exact hab
      · exact le_trans desc hab (hr.1 x h2)
  · rename_i a l b r h ih
    have hba : le desc b a := by
      rcases le_total desc a b with h1 | h1
      · exact absurd ((cmpEq_iff desc a b).mpr h1) (by simpa using h)
      · exact h1
    rw [List.pairwise_cons] at hr
    refine List.pairwise_cons.mpr ⟨?_, ih hl hr.2⟩
    intro x hx
    have := (C05_mergeAll_perm desc (a :: l) r).mem_iff.mp hx
    rw [List.mem_append] at this
    rcases this with h1 | h1
    · rw [List.pairwise_cons] at hl
      rcases List.mem_cons.mp h1 with h2 | h2
      · subst h2; exact hba
      · exact le_trans desc hba (hl.1 x h2)
    · exact hr.1 x h1

/-- Main merge statement: for sorted partial results the engine's limited merge returns the first
    `n` rows of *the* sorted arrangement of all rows of both partitions. -/
theorem C05_merge_sorted_prefix (desc : Bool) (l r : List Int) (n : Nat)
    (hl : l.Pairwise (le desc)) (hr : r.Pairwise (le desc)) :
    ∃ s : List Int, s.Perm (l ++ r) ∧ s.Pairwise (le desc) ∧ (merge desc l r n).1 = s.take n :=
  ⟨mergeAll desc l r, C05_mergeAll_perm desc l r, C05_mergeAll_sorted desc l r hl hr,
   C05_merge_eq_take desc l r n⟩

example : (merge false [1, 3, 5] [2, 3, 9] 4) = ([1, 2, 3, 3], [1, 0, 1, 0]) := by decide
example : [1, 3, 5].Pairwise (le false) ∧ [2, 3, 9].Pairwise (le false) := by
  simp [le]

end LM.C05
