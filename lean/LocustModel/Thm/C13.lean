import LocustModel.Store.Machine
import LocustModel.Store.Spec
/-
  C13 — columns may come and go; the catalogue lists each exactly once.  Property theorems only.
-/
namespace LM.C13
open LM LM.Store

variable {ν κ : Type} [DecidableEq ν]

/-- A column a batch did not mention reads as NULL for every row of that batch. -/
theorem C13_missing_is_null (c : CName ν) (b : Batch ν κ) (h : c ∉ b.names) :
    colCells c b = List.replicate b.nrows Cell.null := by
  unfold colCells
  have : b.cols.lookup c = none := by
    rw [List.lookup_eq_none_iff]
    intro p hp
    simp only [Batch.names, List.mem_map, not_exists, not_and] at h
    have := h p hp
    simp only [bne_iff_ne, ne_eq]
    exact fun heq => this heq.symm
  rw [this]

example : colCells (ν := Nat) (κ := Nat) (.user 2) ⟨2, [(.user 1, [.val 5, .val 6])]⟩ = [.null, .null] := by decide

end LM.C13
