import LocustModel.Store.Machine
import LocustModel.Store.Spec
import LocustModel.Lemmas.StoreDurableRun
import LocustModel.Lemmas.StoreExample
import LocustModel.Store.Interleave
import LocustModel.Lemmas.StoreInterleave
import LocustModel.Lemmas.C13NullFirst
/-
  C13 — columns may come and go; the catalogue lists each exactly once.  Property theorems only.
  Histories, hypotheses and proof method as in Thm/C08.lean (invariant `Durable`; its clause `LogCat` says that
  the catalogue rows travelling in the log list every table / column exactly once, for every prefix of the log).
-/
namespace LM.C13
open LM LM.Store

variable {ν κ : Type} [DecidableEq ν]

/-- A column a batch did not mention reads as NULL for every row of that batch. -/
theorem C13_missing_is_null (c : CName ν) (b : Batch ν κ) (h : c ∉ b.names) :
    colCells c b = List.replicate b.nrows Cell.null := colCells_missing c b h

example : colCells (ν := Nat) (κ := Nat) (.user 2) ⟨2, [(.user 1, [.val 5, .val 6])]⟩ = [.null, .null] := by decide

/-- After ANY history (flushes, compactions, restarts included):
    `_meta_tables` lists every table that was ever ingested (and its column-catalogue table) exactly once and
    nothing else; `_meta_columns_<n>` lists every column name ever ingested into `n` exactly once and nothing else. -/
theorem C13_catalogue_exact (P : Params ν κ) (hP : ParamsOk P) (ops : List (Op ν κ)) (hwf : HistWF ops) (w : World ν κ)
    (hrun : run P ops (initWorld P) = .ok w) :
    (∃ (bs : List (Batch ν κ)) (L : List (TName ν)), content w .metaTables = .ok bs ∧ listedTables bs = L.map Cell.tname ∧
        L.Nodup ∧ ∀ t, t ∈ L ↔ ∃ n, (t = .user n ∨ t = .metaCols n) ∧ specHasTable ops n) ∧
    (∀ n, ∃ (bs : List (Batch ν κ)) (L : List (CName ν)), content w (.metaCols n) = .ok bs ∧
        listedColumns bs = L.map Cell.cname ∧ L.Nodup ∧ ∀ c, c ∈ L ↔ specHasColumn ops (.user n) c) := by
  obtain ⟨pre, hd⟩ := durable_run P hP ops hwf w hrun
  have hlc := hd.logcat.whole
  have huser : ∀ n, logOf (.user n) w.log = acked ops (.user n) := fun n => run_log_user_init P n ops w hrun
  constructor
  · obtain ⟨L, h1, h2, h3⟩ := hlc.tabs
    refine ⟨_, L, hd.content .metaTables, h1, h2, fun t => ?_⟩
    rw [h3 t]
    constructor
    · rintro ⟨hne, hlog⟩
      cases t with
      | user n => exact ⟨n, Or.inl rfl, by rw [specHasTable, ← huser n]; exact hlog⟩
      | metaTables => exact absurd rfl hne
      | metaCols n =>
        refine ⟨n, Or.inr rfl, ?_⟩
        rw [specHasTable, ← huser n]
        exact fun e => hlog ((hlc.pair n).mp e)
    · rintro ⟨n, ht | ht, hs⟩
      · subst ht
        refine ⟨(by intro e; cases e), ?_⟩
        rw [huser n]; exact hs
      · subst ht
        refine ⟨(by intro e; cases e), ?_⟩
        rw [specHasTable, ← huser n] at hs
        exact fun e => hs ((hlc.pair n).mpr e)
  · intro n
    obtain ⟨L, h1, h2, h3⟩ := hlc.cols n
    refine ⟨_, L, hd.content (.metaCols n), h1, h2, fun c => ?_⟩
    rw [h3 c, specHasColumn, huser n]

/-- A column first seen late reads as NULL for all earlier rows: if no call of the first part of a history
    mentioned `c` for table `n`, then after the whole history (whatever flushes / compactions / restarts it
    contains) column `c` of `n` is NULL on exactly the rows of the first part, followed by what the second part gave. -/
theorem C13_late_column_null (P : Params ν κ) (hP : ParamsOk P) (ops1 ops2 : List (Op ν κ)) (hwf : HistWF (ops1 ++ ops2))
    (w : World ν κ) (hrun : run P (ops1 ++ ops2) (initWorld P) = .ok w) (n : ν) (c : CName ν)
    (hlate : c ∉ namesIn (acked ops1 (.user n))) :
    ∃ bs, content w (.user n) = .ok bs ∧
      readColumn c bs = List.replicate (rowsLen (acked ops1 (.user n))) Cell.null ++ readColumn c (acked ops2 (.user n)) := by
  obtain ⟨pre, hd⟩ := durable_run P hP _ hwf w hrun
  refine ⟨_, hd.content (.user n), ?_⟩
  rw [run_log_user_init P n _ w hrun, acked_append, readColumn_append, readColumn_missing c _ hlate]

/-- Compaction carries every column over: a flush after ANY history, with ANY planned compactions, leaves the
    content of every table (all columns of all batches) unchanged, and no compaction ever ran with a name set that
    missed a column of the partitions it merged (`lossy` stays false). -/
theorem C13_compaction_keeps_columns (P : Params ν κ) (hP : ParamsOk P) (ops : List (Op ν κ)) (hwf : HistWF ops)
    (w w' : World ν κ) (fi : FlushIn ν) (hfi : FlushWF fi)
    (hrun : run P ops (initWorld P) = .ok w) (hflush : flush P w fi = .ok w') :
    w'.lossy = false ∧ ∀ t, content w' t = content w t := by
  obtain ⟨pre, hd⟩ := durable_run P hP ops hwf w hrun
  obtain ⟨hd', hlog, _, _⟩ := hd.flush hP.reencode hfi hflush
  exact ⟨hd'.lossy, fun t => by rw [hd'.content, hd.content, hlog]⟩

-- non-vacuity: a history with a late column (9), a column that disappears (8), a compaction and a restart;
-- the catalogue of table 1 lists 7, 8, 9 once each; the late column is NULL on the three earlier rows
example : ∃ w, ParamsOk Ex.P0 ∧ HistWF Ex.opsA ∧ run Ex.P0 Ex.opsA (initWorld Ex.P0) = .ok w ∧
    (content w (.metaCols 1)).map listedColumns = .ok [.cname (.user 7), .cname (.user 8), .cname (.user 9)] ∧
    (content w (.user 1)).map (readColumn (.user 9)) = .ok [.null, .null, .null, .val 3] ∧
    (content w .metaTables).map listedTables =
      .ok [.tname (.user 1), .tname (.metaCols 1), .tname (.user 2), .tname (.metaCols 2)] ∧ w.lossy = false :=
  ⟨_, Ex.P0_ok, Ex.opsA_wf, rfl, rfl, rfl, rfl, rfl⟩

/-- A column is catalogued by being NAMED, not by carrying a value (`ingest_efficient` hands every key of the table buffer
    to `new_column_names`, `ColumnData::Empty` included, and `ingest_homogeneous` records the same keys): if some returned
    call named column `c` for table `n` — in particular in a batch whose cells for `c` are all NULL, also when that is the
    FIRST batch that names `c` — then after the whole history (any flushes, compactions, restarts, replay orders) the
    catalogue of `n` lists `c` (once: `L.Nodup`), and column `c` of `n` reads exactly the cells the calls gave, the values of
    later batches included. -/
theorem C13_valueless_column_catalogued (P : Params ν κ) (hP : ParamsOk P) (ops : List (Op ν κ)) (hwf : HistWF ops)
    (w : World ν κ) (hrun : run P ops (initWorld P) = .ok w) (n : ν) (c : CName ν) (b : Batch ν κ)
    (hb : b ∈ acked ops (.user n)) (hc : c ∈ b.names) :
    (∃ (bs : List (Batch ν κ)) (L : List (CName ν)), content w (.metaCols n) = .ok bs ∧
        listedColumns bs = L.map Cell.cname ∧ L.Nodup ∧ c ∈ L) ∧
    (∃ us, content w (.user n) = .ok us ∧ readColumn c us = readColumn c (acked ops (.user n))) := by
  constructor
  · obtain ⟨bs, L, h1, h2, h3, h4⟩ := (C13_catalogue_exact P hP ops hwf w hrun).2 n
    exact ⟨bs, L, h1, h2, h3, (h4 c).mpr (List.mem_flatMap.mpr ⟨b, hb, hc⟩)⟩
  · obtain ⟨pre, hd⟩ := durable_run P hP ops hwf w hrun
    exact ⟨_, hd.content (.user n), by rw [run_log_user_init P n ops w hrun]⟩

-- non-vacuity: column 9 of table 1 first arrives as two NULLs (`Ex.n1`), gets the value 7 after a flush and a restart, is
-- not mentioned by the last batch, and goes through a compaction and two more restarts: listed once, value kept
example : ∃ w, ParamsOk Ex.P0 ∧ HistWF Ex.opsN ∧ run Ex.P0 Ex.opsN (initWorld Ex.P0) = .ok w ∧
    Ex.n1.map (fun sh => colCells (.user 9) sh.2) = [[.null, .null]] ∧
    (content w (.metaCols 1)).map listedColumns = .ok [.cname (.user 7), .cname (.user 9)] ∧
    (content w (.user 1)).map (readColumn (.user 9)) = .ok [.null, .null, .val 7, .null] ∧ w.lossy = false :=
  ⟨_, Ex.P0_ok, Ex.opsN_wf, rfl, rfl, rfl, rfl, rfl⟩

/-- The same for INTERLEAVED histories (`Store/Interleave.lean`: a flush in its real steps, ingestion calls between any
    two of them), at EVERY state — also in the middle of a flush: `_meta_tables` lists every table ever ingested (and
    its column-catalogue table) exactly once, `_meta_columns_<n>` lists every column ever ingested into `n` exactly once. -/
theorem C13_interleaved_catalogue_exact (P : Params ν κ) (hP : ParamsOk P) (ops : List (IOp ν κ)) (hwf : IHistWF ops)
    (iw : IWorld ν κ) (hrun : irun P ops = .ok iw) :
    (∃ (bs : List (Batch ν κ)) (L : List (TName ν)), content iw.w .metaTables = .ok bs ∧ listedTables bs = L.map Cell.tname ∧
        L.Nodup ∧ ∀ t, t ∈ L ↔ ∃ n, (t = .user n ∨ t = .metaCols n) ∧ iacked ops (.user n) ≠ []) ∧
    (∀ n, ∃ (bs : List (Batch ν κ)) (L : List (CName ν)), content iw.w (.metaCols n) = .ok bs ∧
        listedColumns bs = L.map Cell.cname ∧ L.Nodup ∧ ∀ c, c ∈ L ↔ c ∈ namesIn (iacked ops (.user n))) := by
  have hd := idurable_run P hP ops hwf iw hrun
  have hlc := hd.logcat.whole
  have huser : ∀ n, logOf (.user n) iw.w.log = iacked ops (.user n) := fun n => irun_log_user P n ops iw hrun
  constructor
  · obtain ⟨L, h1, h2, h3⟩ := hlc.tabs
    refine ⟨_, L, hd.content .metaTables, h1, h2, fun t => ?_⟩
    rw [h3 t]
    constructor
    · rintro ⟨hne, hlog⟩
      cases t with
      | user n => exact ⟨n, Or.inl rfl, by rw [← huser n]; exact hlog⟩
      | metaTables => exact absurd rfl hne
      | metaCols n =>
        refine ⟨n, Or.inr rfl, ?_⟩
        rw [← huser n]
        exact fun e => hlog ((hlc.pair n).mp e)
    · rintro ⟨n, ht | ht, hs⟩
      · subst ht
        refine ⟨(by intro e; cases e), ?_⟩
        rw [huser n]; exact hs
      · subst ht
        refine ⟨(by intro e; cases e), ?_⟩
        rw [← huser n] at hs
        exact fun e => hs ((hlc.pair n).mpr e)
  · intro n
    obtain ⟨L, h1, h2, h3⟩ := hlc.cols n
    refine ⟨_, L, hd.content (.metaCols n), h1, h2, fun c => ?_⟩
    rw [h3 c, huser n]

-- non-vacuity: in the middle of a flush (after batching, before persist_metastore) that overlapped `r2` and `r3`,
-- the column catalogue of table 1 already lists 7, 8, 9 once each
example : ∃ iw, IHistWF (Ex.iopsFlush.take 6) ∧ irun Ex.P0 (Ex.iopsFlush.take 6) = .ok iw ∧ iw.fl.isSome = true ∧
    (content iw.w (.metaCols 1)).map listedColumns = .ok [.cname (.user 7), .cname (.user 8), .cname (.user 9)] :=
  ⟨_, fun op h => Ex.iopsFlush_wf op (List.mem_of_mem_take h), rfl, rfl, rfl⟩

end LM.C13
