import LocustModel.Conc.Flush
import LocustModel.Conc.Cols
import LocustModel.Lemmas.C10Flush
import LocustModel.Lemmas.C10Cols
/-
  C10 — a concurrent query sees a clean prefix of every table.  Property theorems only.

  PARTIAL: the theorems quantify over ALL interleavings of the modelled atomic steps (`Steps` is the inductive closure
  of `apply`, any number of ingesting / flushing / querying / evicting clients, any number of tables, no bound on
  anything).  That each step really is atomic in the running code is read off the lock acquisitions and exercised by
  the harness at named sync points and by a multi-threaded stress run; the real scheduler, data races inside a
  critical section, memory ordering and OS timing are outside the model.
-/
namespace LM.C10
open LM LM.Conc.Flush LM.Conc.Cols

/-! ## First half: what a snapshot contains -/

/-- Invariant over ALL reachable states and every table: the pieces `Table::snapshot` returns — the partitions, then the
    frozen buffer, then the open buffer — hold exactly the table's ingestion history (every share appended so far, in
    order, each exactly once), and their row ranges tile `[0, total rows)` without gap or overlap.  In particular rows
    moving buffer → frozen → partition → merged partition are never missing and never present twice. -/
theorem C10_snapshot_prefix (s : State) (h : Reachable s) (t : Nat) :
    content (snapshot (s.tabs t)) = (s.tabs t).log ∧
    Tiles 0 (snapshot (s.tabs t)) (rowsOf (s.tabs t).log).length := by
  have hi := (Inv_reachable h).tab t
  exact ⟨by rw [snapshot_content, hi.content_eq], snapshot_tiles hi⟩

/-- The partition map itself: ranges tile `[0, next_partition_offset)`, ids are distinct (a `HashMap::insert` never
    overwrites a live partition) and below `next_partition_id`. -/
theorem C10_partitions_tile (s : State) (h : Reachable s) (t : Nat) :
    Tiles 0 (s.tabs t).parts (s.tabs t).nextOff ∧ ((s.tabs t).parts.map (·.id)).Nodup ∧
    ∀ p ∈ (s.tabs t).parts, p.id < (s.tabs t).nextId :=
  let hi := (Inv_reachable h).tab t
  ⟨hi.tiles, hi.ids_nodup, hi.ids_lt⟩

/-- `assert!(frozen_buffer.len() == 0)` in `Table::freeze_buffer` never fires: when the flush thread is idle every frozen
    buffer is empty (the batching fan-in waited for every table). -/
theorem C10_freeze_assert_unreachable (s : State) (h : Reachable s) :
    s.fault = false ∧ (s.fl = .idle → ∀ t, (s.tabs t).frozen = []) :=
  ⟨(Inv_reachable h).noFault, (Inv_reachable h).idle⟩

/-- History only grows at the end and acknowledgements are never taken back. -/
theorem C10_history_grows (s s' : State) (h : Reachable s) (hs : Steps s s') (t : Nat) :
    (s.tabs t).log <+: (s'.tabs t).log ∧ (s.tabs t).acked ≤ (s'.tabs t).acked ∧
    (s'.tabs t).acked ≤ (s'.tabs t).log.length := by
  obtain ⟨⟨ext, he⟩, hak⟩ := log_grows_steps (Inv_reachable h) hs t
  exact ⟨⟨ext, he.symm⟩, hak, ((Inv_steps (Inv_reachable h) hs).tab t).acked_le⟩

/-- A query that begins in state `s0`, takes its snapshot of table `t` in a later state `s1`, while the system runs on
    to any `s2`: the snapshot contains every batch acknowledged before the query began, and is a prefix of the table's
    history at any later time. -/
theorem C10_query_sees_acked_prefix (s0 s1 s2 : State) (h0 : Reachable s0) (h01 : Steps s0 s1) (h12 : Steps s1 s2)
    (t : Nat) :
    ((s0.tabs t).log.take (s0.tabs t).acked) <+: content (snapshot (s1.tabs t)) ∧
    content (snapshot (s1.tabs t)) <+: (s2.tabs t).log := by
  have hi0 := Inv_reachable h0
  have hi1 := Inv_steps hi0 h01
  have hsnap : content (snapshot (s1.tabs t)) = (s1.tabs t).log := by
    rw [snapshot_content, (hi1.tab t).content_eq]
  obtain ⟨⟨e1, he1⟩, _⟩ := log_grows_steps hi0 h01 t
  obtain ⟨⟨e2, he2⟩, _⟩ := log_grows_steps hi1 h12 t
  rw [hsnap]
  exact ⟨List.IsPrefix.trans (List.take_prefix _ _) ⟨e1, he1.symm⟩, ⟨e2, he2.symm⟩⟩

/-- No tear: the rows a query sees are exactly the rows of the first `k` batches of the (eventual) history, with `k` at
    least the number of batches acknowledged before the query began — each request's share for the table is in the
    result entirely or not at all. -/
theorem C10_no_tear (s0 s1 s2 : State) (h0 : Reachable s0) (h01 : Steps s0 s1) (h12 : Steps s1 s2) (t : Nat) :
    ∃ k, (s0.tabs t).acked ≤ k ∧ k ≤ (s2.tabs t).log.length ∧
      content (snapshot (s1.tabs t)) = (s2.tabs t).log.take k ∧
      rowsOf (content (snapshot (s1.tabs t))) = rowsOf ((s2.tabs t).log.take k) := by
  have hi0 := Inv_reachable h0
  have hi1 := Inv_steps hi0 h01
  have hsnap : content (snapshot (s1.tabs t)) = (s1.tabs t).log := by
    rw [snapshot_content, (hi1.tab t).content_eq]
  obtain ⟨⟨e1, he1⟩, hak1⟩ := log_grows_steps hi0 h01 t
  obtain ⟨⟨e2, he2⟩, _⟩ := log_grows_steps hi1 h12 t
  refine ⟨(s1.tabs t).log.length, Nat.le_trans hak1 (hi1.tab t).acked_le, ?_, ?_, ?_⟩
  · rw [he2]; simp
  · rw [hsnap, he2]; simp
  · rw [hsnap, he2]; simp

/-! ### Non-vacuity and sensitivity (concrete runs of the same `apply`) -/

/-- request 7 → tables 0 and 1; flush parked after batching table 0; request 8 → table 0; compaction later. -/
def demoActs : List Act :=
  [.ingestBegin 7 [(0, [10, 11]), (1, [20])], .ingestShare, .ingestShare, .ingestEnd,
   .freeze, .batch 0, .ingestBegin 8 [(0, [12])], .ingestShare, .snapshot 0, .ingestEnd, .batch 1, .flushEnd,
   .freeze, .batch 0, .compactSwap 0 0 2, .evict 0 2, .flushEnd]

example : (run init demoActs).map (fun s => (content (snapshot (s.tabs 0)), (s.tabs 0).parts.map (fun p => (p.id, p.offset, p.len)), (s.tabs 0).acked))
    = some ([⟨7, [10, 11]⟩, ⟨8, [12]⟩], [(2, 0, 3)], 2) := by decide

example : Reachable ((run init (demoActs.take 9)).get (by decide)) := by
  have : ∀ (as : List Act) (s s' : State), Steps init s → run s as = some s' → Steps init s' := by
    intro as
    induction as with
    | nil => intro s s' hs h; simp [run] at h; subst h; exact hs
    | cons a as ih =>
      intro s s' hs h
      simp only [run] at h
      cases ha : apply s a with
      | none => simp [ha] at h
      | some s1 => simp [ha] at h; exact ih s1 s' (Steps.step hs a ha) h
  exact this _ init _ (Steps.refl _) (Option.eq_some_of_isSome _ |>.symm ▸ rfl)

/-- Sensitivity: if `Table::batch` released the frozen-buffer lock before inserting the partition (take, then insert, as
    two steps), the intermediate state — which a snapshot could then observe — loses the frozen rows. -/
def batchTakeOnly (T : Table) : Table := { T with frozen := [] }
example :
    let T : Table := { frozen := [⟨1, [5]⟩], log := [⟨1, [5]⟩] }
    content (snapshot T) = T.log ∧ content (snapshot (batchTakeOnly T)) ≠ T.log := by decide

/-- Sensitivity: if `Table::compact` removed the old partitions and inserted the merged one under two separate write
    locks, the intermediate state loses the rows of the removed partitions. -/
def compactRemoveOnly (T : Table) (i n : Nat) : Table := { T with parts := T.parts.take i ++ (T.parts.drop i).drop n }
example :
    let T : Table := { parts := [⟨0, 0, [⟨1, [5]⟩], true⟩, ⟨1, 1, [⟨2, [6]⟩], true⟩], nextId := 2, nextOff := 2, log := [⟨1, [5]⟩, ⟨2, [6]⟩] }
    content (snapshot T) = T.log ∧ content (snapshot (compactRemoveOnly T 0 2)) ≠ T.log := by decide

/-- Sensitivity: a snapshot that read the open buffer first and partitions + frozen buffer later (locks not held together)
    could pair an old buffer with a newer partition map: here the state before and after `freeze; batch` — the batch
    shows up twice. -/
example :
    let T0 : Table := { buffer := [⟨1, [5]⟩], log := [⟨1, [5]⟩] }
    let T1 : Table := T0.freeze.batch
    content T1.parts ++ T1.frozen ++ T0.buffer ≠ T1.log := by decide

/-! ## Second half: the query's column lookups do not fail because of the concurrent activity -/

/-- The full claim: at every point of a partition object's life every column lookup succeeds, and the flush thread can
    read the handles of the partition it just registered.  The code does not provide this (see the two `_refuted`
    theorems): nothing keeps the catalogue entry of a partition in step with the table map, and queries may add
    placeholder handles to a partition the flush thread is about to read. -/
def C10_query_steps_statement : Prop :=
  ∀ p, PReach p → (∀ c, ∃ r, getCols p c = .ok r) ∧ (∃ p', flushHandles p = .ok p')

/-- Memory-resident data: a lookup of a column whose handle is resident (or already marked absent) succeeds in every
    phase of the partition's life, whatever the catalogue and the files look like; so does the lookup of a column without
    a handle in an ephemeral partition (buffer views, freshly batched partitions) and any lookup while the partition is
    in the catalogue with its files (persisted; or compacted away but not yet garbage-collected). -/
theorem C10_query_steps_ok_partial (p : PState) (c : Nat)
    (h : lookup c p.cols = some .resident ∨ lookup c p.cols = some .empty ∨
         (lookup c p.cols = none ∧ p.ephemeral = true) ∨
         (p.phase.inCatalogue = true ∧ p.phase.filesExist = true)) :
    ∃ r, getCols p c = .ok r := by
  unfold getCols
  rcases h with h | h | ⟨h, he⟩ | ⟨h1, h2⟩
  · rw [h]; exact ⟨_, rfl⟩
  · rw [h]; exact ⟨_, rfl⟩
  · rw [h]; simp only [he, if_true]; exact ⟨_, rfl⟩
  · cases hl : lookup c p.cols with
    | some hd =>
      cases hd with
      | resident => exact ⟨_, rfl⟩
      | empty => exact ⟨_, rfl⟩
      | nonresident =>
        simp only [getOrLoad, h1, h2, Bool.not_true, Bool.false_eq_true, if_false]
        split <;> exact ⟨_, rfl⟩
    | none =>
      simp only
      split
      · exact ⟨_, rfl⟩
      · simp only [h1, Bool.not_true, Bool.false_eq_true, if_false]
        split
        · exact ⟨_, rfl⟩
        · simp only [getOrLoad, h1, h2, Bool.not_true, Bool.false_eq_true, if_false]
          split <;> exact ⟨_, rfl⟩

/-- The flush side: a freshly batched partition visited (any number of times, by any number of queries) only for
    columns it has keeps all its handles resident, and `flush_table_buffer` reads them without fault. -/
theorem C10_flush_handles_ok_partial (cs : List Nat) (visits : List Nat) (hv : ∀ c ∈ visits, c ∈ cs) :
    ∃ p, prun (bornByBatch cs) (visits.map PAct.getCols) = .ok p ∧
         ∃ p', flushHandles p = .ok p' ∧ p'.phase = .handlesRead := by
  have key : ∀ (visits : List Nat) (p : PState), FreshOk cs p → p.phase = .fresh → (∀ c ∈ visits, c ∈ cs) →
      prun p (visits.map PAct.getCols) = .ok p := by
    intro visits
    induction visits with
    | nil => intro p _ _ _; rfl
    | cons c rest ih =>
      intro p hp hph hv
      simp only [List.map_cons, prun, papply]
      rw [getCols_present hp (hv c (List.mem_cons_self ..))]
      exact ih p hp hph (fun c hc => hv c (List.mem_cons_of_mem _ hc))
  refine ⟨bornByBatch cs, key visits _ (FreshOk_born cs) rfl hv, _, ?_, rfl⟩
  exact flushHandles_ok_of_allResident rfl (FreshOk_born cs).allRes

/-- Refutation 1 (finding `c10-fresh-partition-placeholder`, DESIGN §8 #18): a query for a column the freshly batched
    partition lacks, placed between `Table::batch` and `clone_column_handles`, succeeds itself but leaves a placeholder
    handle on which the flush thread's `try_get().unwrap()` faults (the pool job dies, the fan-in waits forever). -/
theorem C10_flush_handles_refuted :
    ∃ p, PReach p ∧ flushHandles p = .error .unwrap := by
  refine ⟨{ bornByBatch [0] with cols := [(0, .resident), (1, .empty)] }, ?_, by decide⟩
  exact PReach.step (PReach.born (Born.batch [0])) (.getCols 1) (by decide)

/-- Refutation 2 (finding `c10-compacted-partition-not-in-catalogue`): between `Table::compact` and the catalogue update
    of `prepare_compact` the merged partition is visible to new snapshots but unknown to the catalogue; a lookup of a
    column without a handle indexes the missing entry. -/
theorem C10_query_steps_refuted_swapped :
    ∃ p c, PReach p ∧ getCols p c = .error .index :=
  ⟨bornByCompact [0], 1, PReach.born (Born.compact [0]), by decide⟩

/-- Refutation 3 (DESIGN §8 #19): a query still holding a compacted-away partition whose column was evicted before the
    swap asks the catalogue for an entry `prepare_compact` has removed. -/
theorem C10_query_steps_refuted_uncatalogued :
    ∃ p c, PReach p ∧ getCols p c = .error .index := by
  refine ⟨{ restored [0] with phase := .uncatalogued, cols := [(0, .nonresident)], loadedFlag := true }, 0, ?_, by decide⟩
  -- restored; loaded by a query; evicted; compacted away; catalogue entry removed
  have h1 : PReach _ := PReach.step (PReach.born (Born.restored [0])) (.getCols 0) (p' := { restored [0] with cols := [(0, .resident)], loadedFlag := true }) (by decide)
  have h2 : PReach _ := PReach.step h1 (.evict 0) (p' := { restored [0] with cols := [(0, .nonresident)], loadedFlag := true }) (by decide)
  have h3 : PReach _ := PReach.step h2 .remove (p' := { restored [0] with phase := .removed, cols := [(0, .nonresident)], loadedFlag := true }) (by decide)
  exact PReach.step h3 .uncatalogue (by decide)

/-- Hence the full claim does not hold of the code as modelled. -/
theorem C10_query_steps_refuted : ¬ C10_query_steps_statement := by
  intro h
  obtain ⟨p, hp, hf⟩ := C10_flush_handles_refuted
  obtain ⟨_, ⟨p', hp'⟩⟩ := h p hp
  rw [hf] at hp'
  cases hp'

/-- Non-vacuity of the partial theorems' hypotheses. -/
example : ∃ r, getCols (bornByBatch [0, 1]) 1 = .ok r := C10_query_steps_ok_partial _ _ (Or.inl (by decide))
example : ∃ r, getCols { restored [0] with phase := .removed } 5 = .ok r :=
  C10_query_steps_ok_partial _ _ (Or.inr (Or.inr (Or.inr ⟨rfl, rfl⟩)))

end LM.C10
