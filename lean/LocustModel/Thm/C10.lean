import LocustModel.Conc.Flush
import LocustModel.Conc.Cols
import LocustModel.Lemmas.C10Flush
import LocustModel.Lemmas.C10Cols
/-
  C10 — a concurrent query sees a clean prefix of every table.  Property theorems only.

  PARTIAL: the theorems quantify over ALL interleavings of the modelled atomic steps (`Steps` is the inductive closure
  of `apply`, any number of ingesting / flushing / querying / evicting clients, any number of tables, no bound on
  anything).  That each step really is atomic in the running code is read off the lock acquisitions and exercised by
  the harness at named sync points and by a multi-threaded stress run; the real scheduler, data races inside a
  critical section, memory ordering and OS timing are outside the model.
-/
namespace LM.C10
open LM LM.Conc.Flush LM.Conc.Cols

/-! ## First half: what a snapshot contains -/

/-- Invariant over ALL reachable states and every table: the pieces `Table::snapshot` returns — the partitions, then the
    frozen buffer, then the open buffer — hold exactly the table's ingestion history (every share appended so far, in
    order, each exactly once), and their row ranges tile `[0, total rows)` without gap or overlap.  In particular rows
    moving buffer → frozen → partition → merged partition are never missing and never present twice. -/
theorem C10_snapshot_prefix (s : State) (h : Reachable s) (t : Nat) :
    content (snapshot (s.tabs t)) = (s.tabs t).log ∧
    Tiles 0 (snapshot (s.tabs t)) (rowsOf (s.tabs t).log).length := by
  have hi := (Inv_reachable h).tab t
  exact ⟨by rw [snapshot_content, hi.content_eq], snapshot_tiles hi⟩

/-- The partition map itself: ranges tile `[0, next_partition_offset)`, ids are distinct (a `HashMap::insert` never
    overwrites a live partition) and below `next_partition_id`. -/
theorem C10_partitions_tile (s : State) (h : Reachable s) (t : Nat) :
    Tiles 0 (s.tabs t).parts (s.tabs t).nextOff ∧ ((s.tabs t).parts.map (·.id)).Nodup ∧
    ∀ p ∈ (s.tabs t).parts, p.id < (s.tabs t).nextId :=
  let hi := (Inv_reachable h).tab t
  ⟨hi.tiles, hi.ids_nodup, hi.ids_lt⟩

/-- `assert!(frozen_buffer.len() == 0)` in `Table::freeze_buffer` never fires: when the flush thread is idle every frozen
    buffer is empty (the batching fan-in waited for every table). -/
theorem C10_freeze_assert_unreachable (s : State) (h : Reachable s) :
    s.fault = false ∧ (s.fl = .idle → ∀ t, (s.tabs t).frozen = []) :=
  ⟨(Inv_reachable h).noFault, (Inv_reachable h).idle⟩

/-- History only grows at the end and acknowledgements are never taken back. -/
theorem C10_history_grows (s s' : State) (h : Reachable s) (hs : Steps s s') (t : Nat) :
    (s.tabs t).log <+: (s'.tabs t).log ∧ (s.tabs t).acked ≤ (s'.tabs t).acked ∧
    (s'.tabs t).acked ≤ (s'.tabs t).log.length := by
  obtain ⟨⟨ext, he⟩, hak⟩ := log_grows_steps (Inv_reachable h) hs t
  exact ⟨⟨ext, he.symm⟩, hak, ((Inv_steps (Inv_reachable h) hs).tab t).acked_le⟩

/-- A query that begins in state `s0`, takes its snapshot of table `t` in a later state `s1`, while the system runs on
    to any `s2`: the snapshot contains every batch acknowledged before the query began, and is a prefix of the table's
    history at any later time. -/
theorem C10_query_sees_acked_prefix (s0 s1 s2 : State) (h0 : Reachable s0) (h01 : Steps s0 s1) (h12 : Steps s1 s2)
    (t : Nat) :
    ((s0.tabs t).log.take (s0.tabs t).acked) <+: content (snapshot (s1.tabs t)) ∧
    content (snapshot (s1.tabs t)) <+: (s2.tabs t).log := by
  have hi0 := Inv_reachable h0
  have hi1 := Inv_steps hi0 h01
  have hsnap : content (snapshot (s1.tabs t)) = (s1.tabs t).log := by
    rw [snapshot_content, (hi1.tab t).content_eq]
  obtain ⟨⟨e1, he1⟩, _⟩ := log_grows_steps hi0 h01 t
  obtain ⟨⟨e2, he2⟩, _⟩ := log_grows_steps hi1 h12 t
  rw [hsnap]
  exact ⟨List.IsPrefix.trans (List.take_prefix _ _) ⟨e1, he1.symm⟩, ⟨e2, he2.symm⟩⟩

/-- No tear: the rows a query sees are exactly the rows of the first `k` batches of the (eventual) history, with `k` at
    least the number of batches acknowledged before the query began — each request's share for the table is in the
    result entirely or not at all. -/
theorem C10_no_tear (s0 s1 s2 : State) (h0 : Reachable s0) (h01 : Steps s0 s1) (h12 : Steps s1 s2) (t : Nat) :
    ∃ k, (s0.tabs t).acked ≤ k ∧ k ≤ (s2.tabs t).log.length ∧
      content (snapshot (s1.tabs t)) = (s2.tabs t).log.take k ∧
      rowsOf (content (snapshot (s1.tabs t))) = rowsOf ((s2.tabs t).log.take k) := by
  have hi0 := Inv_reachable h0
  have hi1 := Inv_steps hi0 h01
  have hsnap : content (snapshot (s1.tabs t)) = (s1.tabs t).log := by
    rw [snapshot_content, (hi1.tab t).content_eq]
  obtain ⟨⟨e1, he1⟩, hak1⟩ := log_grows_steps hi0 h01 t
  obtain ⟨⟨e2, he2⟩, _⟩ := log_grows_steps hi1 h12 t
  refine ⟨(s1.tabs t).log.length, Nat.le_trans hak1 (hi1.tab t).acked_le, ?_, ?_, ?_⟩
  · rw [he2]; simp
  · rw [hsnap, he2]; simp
  · rw [hsnap, he2]; simp

/-- A partition id never comes to denote different rows: if a query's snapshot holds partition `p` (taken in state `s`)
    and at any later time the table has a partition with the same id, it has the same rows at the same offset — under
    every interleaving, across any number of flushes and compactions.  (The catalogue and the partition files are keyed
    by this id: a later reload by id cannot return another partition's rows.) -/
theorem C10_partition_identity_stable (s s' : State) (h : Reachable s) (hs : Steps s s') (t : Nat)
    (p p' : Part) (hp : p ∈ (s.tabs t).parts) (hp' : p' ∈ (s'.tabs t).parts) (hid : p.id = p'.id) :
    p'.batches = p.batches ∧ p'.offset = p.offset := by
  have hi := (Inv_reachable h).tab t
  rcases (TStep_steps hs t).2 p' hp' with ⟨q, hq, hsame⟩ | hge
  · have : q = p := eq_of_nodup_ids hi.ids_nodup hq hp (hsame.1.trans hid.symm)
    subst this
    exact ⟨hsame.2.1.symm, hsame.2.2.symm⟩
  · have := hi.ids_lt p hp
    omega

/-! ### Non-vacuity and sensitivity (concrete runs of the same `apply`) -/

/-- request 7 → tables 0 and 1; flush parked after batching table 0; request 8 → table 0; compaction later. -/
def demoActs : List Act :=
  [.ingestBegin 7 [(0, [10, 11]), (1, [20])], .ingestShare, .ingestShare, .ingestEnd,
   .freeze, .batch 0, .ingestBegin 8 [(0, [12])], .ingestShare, .snapshot 0, .ingestEnd, .batch 1, .flushEnd,
   .freeze, .batch 0, .compactSwap 0 0 2, .evict 0 2, .flushEnd]

example : (run init demoActs).map (fun s => (content (snapshot (s.tabs 0)), (s.tabs 0).parts.map (fun p => (p.id, p.offset, p.len)), (s.tabs 0).acked))
    = some ([⟨7, [10, 11]⟩, ⟨8, [12]⟩], [(2, 0, 3)], 2) := by decide

/-- Every prefix of the demo run is a reachable state, so the theorems above apply to it (in particular to the state the
    `.snapshot 0` step observes: flush parked after batching table 0, request 8 half-way through). -/
example : ∀ k s, run init (demoActs.take k) = some s → Reachable s := fun k s h => reachable_of_run _ s h
example : (run init (demoActs.take 9)).isSome = true := by decide
example : (run init (demoActs.take 9)).map (fun s => (content (snapshot (s.tabs 0)), (s.tabs 0).acked, (s.tabs 0).log.length))
    = some ([⟨7, [10, 11]⟩, ⟨8, [12]⟩], 1, 2) := by decide

/-- `C10_partition_identity_stable` on the demo run: partition 0 as seen by the parked query (after 6 steps) is gone after the
    compaction (replaced by partition 2), partition ids 0 and 1 are not reused. -/
example : ((run init (demoActs.take 6)).map fun s => (s.tabs 0).parts.map (·.id)) = some [0] ∧
          ((run init demoActs).map fun s => (s.tabs 0).parts.map (·.id)) = some [2] := by decide

/-- Sensitivity: if `Table::batch` released the frozen-buffer lock before inserting the partition (take, then insert, as
    two steps), the intermediate state — which a snapshot could then observe — loses the frozen rows. -/
def batchTakeOnly (T : Table) : Table := { T with frozen := [] }
example :
    let T : Table := { frozen := [⟨1, [5]⟩], log := [⟨1, [5]⟩] }
    content (snapshot T) = T.log ∧ content (snapshot (batchTakeOnly T)) ≠ T.log := by decide

/-- Sensitivity: if `Table::compact` removed the old partitions and inserted the merged one under two separate write
    locks, the intermediate state loses the rows of the removed partitions. -/
def compactRemoveOnly (T : Table) (i n : Nat) : Table := { T with parts := T.parts.take i ++ (T.parts.drop i).drop n }
example :
    let T : Table := { parts := [⟨0, 0, [⟨1, [5]⟩], true⟩, ⟨1, 1, [⟨2, [6]⟩], true⟩], nextId := 2, nextOff := 2, log := [⟨1, [5]⟩, ⟨2, [6]⟩] }
    content (snapshot T) = T.log ∧ content (snapshot (compactRemoveOnly T 0 2)) ≠ T.log := by decide

/-- Sensitivity: a snapshot that read the open buffer first and partitions + frozen buffer later (locks not held together)
    could pair an old buffer with a newer partition map: here the state before and after `freeze; batch` — the batch
    shows up twice. -/
example :
    let T0 : Table := { buffer := [⟨1, [5]⟩], log := [⟨1, [5]⟩] }
    let T1 : Table := T0.freeze.batch
    content T1.parts ++ T1.frozen ++ T0.buffer ≠ T1.log := by decide

/-! ## Second half: the query's column lookups do not fail because of the concurrent activity -/

/-- The full claim: at every point of a partition object's life every column lookup succeeds, and the flush thread can
    obtain the columns of the partition it just registered.  The code does not provide the first part (see the
    `_refuted` theorems): nothing keeps the catalogue entry of a partition in step with the table map and with the
    snapshots that still hold the partition. -/
def C10_query_steps_statement : Prop :=
  ∀ p, PReach p → (∀ c, ∃ r, getCols p c = .ok r) ∧ (∃ p', flushHandles p = .ok p')

/-- Memory-resident data: a lookup of a column whose handle is resident (or already marked absent) succeeds in every
    phase of the partition's life, whatever the catalogue and the files look like; so does the lookup of a column without
    a handle in an ephemeral partition (buffer views, freshly batched partitions) and any lookup while the partition is
    in the catalogue with its files (persisted; or compacted away but not yet garbage-collected). -/
theorem C10_query_steps_ok_partial (p : PState) (c : Nat)
    (h : lookup c p.cols = some .resident ∨ lookup c p.cols = some .empty ∨
         (lookup c p.cols = none ∧ p.ephemeral = true) ∨
         (p.phase.inCatalogue = true ∧ p.phase.filesExist = true)) :
    ∃ r, getCols p c = .ok r := by
  rcases h with h | h | ⟨h, he⟩ | ⟨h1, h2⟩
  · unfold getCols; rw [h]; exact ⟨_, rfl⟩
  · unfold getCols; rw [h]; exact ⟨_, rfl⟩
  · unfold getCols; rw [h]; simp only [he, if_true]; exact ⟨_, rfl⟩
  · exact getCols_catalogued_ok h1 h2 c

/-- One whole `get_cols` call (any set of columns, as issued by a query or by compaction) on a partition that is in the
    catalogue with its files — whatever is resident, evicted or never loaded — succeeds. -/
theorem C10_query_cols_ok_catalogued_partial (p : PState) (cs : List Nat)
    (h1 : p.phase.inCatalogue = true) (h2 : p.phase.filesExist = true) : ∃ p', getColsMany p cs = .ok p' :=
  getColsMany_catalogued_ok h1 h2 cs

/-- One whole `get_cols` call on an ephemeral partition (buffer / frozen-buffer view of a snapshot, or a partition made by
    `Table::batch`) none of whose columns has been evicted succeeds in EVERY phase (registered, persisted, compacted away,
    catalogue entry gone, files deleted), and so does every later one. -/
theorem C10_query_cols_ok_ephemeral_partial (p : PState) (cs : List Nat)
    (he : p.ephemeral = true) (hn : ∀ kh ∈ p.cols, kh.2 ≠ Handle.nonresident) : ∃ p', getColsMany p cs = .ok p' := by
  obtain ⟨p', h, _⟩ := getColsMany_ephemeral_ok he hn cs
  exact ⟨p', h⟩

/-- The flush side (full, since the fix of finding `c10-fresh-partition-placeholder`): whatever queries and evictions did
    to the handle map of the partition `Table::batch` just registered — any history at all — `flush_table_buffer` obtains
    its columns without fault … -/
theorem C10_flush_handles_ok (p : PState) :
    ∃ p', flushHandles p = .ok p' ∧ (p.phase = .fresh → p'.phase = .handlesRead) := by
  unfold flushHandles
  split
  · exact ⟨_, rfl, fun _ => rfl⟩
  · rename_i h; exact ⟨_, rfl, fun h' => absurd h' h⟩

/-- … and the columns it persists are exactly the columns the partition was made from, after ANY fault-free history of
    lookups (placeholders), evictions and flush steps. -/
theorem C10_flush_persists_born_columns (cs : List Nat) (as : List PAct) (p : PState)
    (h : prun (bornByBatch cs) as = .ok p) : flushedCols p = cs := by
  unfold flushedCols; rw [prun_fileCols h]; rfl

/-- Regression witness for the fixed finding (DESIGN §8 #18): with the old code — handles read AFTER the partition was
    registered — a query for a column the fresh partition lacks, placed between `Table::batch` and the read, left a
    placeholder on which `try_get().unwrap()` faulted (pool job dies, fan-in waits forever); so did an eviction. -/
example : (prun (bornByBatch [0]) [.getCols 1]).bind flushHandlesOld = .error .unwrap := by decide
example : (prun (bornByBatch [0]) [.evict 0]).bind flushHandlesOld = .error .unwrap := by decide
example : (prun (bornByBatch [0]) [.getCols 1, .evict 0]).bind flushHandles = .ok { bornByBatch [0] with phase := .handlesRead, cols := [(0, .nonresident), (1, .empty)] } := by decide
/-- … and the smaller repair "skip handles without a column" would silently drop an evicted column from the file. -/
example : (prun (bornByBatch [0, 1]) [.evict 1]).map flushedColsSkipping = .ok [0] ∧
          (prun (bornByBatch [0, 1]) [.evict 1]).map flushedCols = .ok [0, 1] := by decide

/-- Refutation 1 (finding `c10-uncatalogued-partition-lookup`): between `Table::compact` and the catalogue update of
    `prepare_compact` the merged partition is visible to new snapshots but unknown to the catalogue; a lookup of a
    column without a handle indexes the missing entry. -/
theorem C10_query_steps_refuted_swapped :
    ∃ p c, PReach p ∧ getCols p c = .error .index :=
  ⟨bornByCompact [0, 2], 1, PReach.born (Born.compact [0, 2]), by decide⟩

/-- Refutation 2 (same finding, DESIGN §8 #19): a query still holding a compacted-away partition whose column was evicted
    before the swap asks the catalogue for an entry `prepare_compact` has removed. -/
theorem C10_query_steps_refuted_uncatalogued :
    ∃ p c, PReach p ∧ getCols p c = .error .index := by
  refine ⟨{ restored [0] with phase := .uncatalogued, cols := [(0, .nonresident)], loadedFlag := true }, 0, ?_, by decide⟩
  -- restored; loaded by a query; evicted; compacted away; catalogue entry removed
  have h1 : PReach _ := PReach.step (PReach.born (Born.restored [0])) (.getCols 0) (p' := { restored [0] with cols := [(0, .resident)], loadedFlag := true }) (by decide)
  have h2 : PReach _ := PReach.step h1 (.evict 0) (p' := { restored [0] with cols := [(0, .nonresident)], loadedFlag := true }) (by decide)
  have h3 : PReach _ := PReach.step h2 .remove (p' := { restored [0] with phase := .removed, cols := [(0, .nonresident)], loadedFlag := true }) (by decide)
  exact PReach.step h3 .uncatalogue (by decide)

/-- Refutation 3 (same finding): a column of the partition `Table::batch` just registered is evicted before the partition
    reaches the catalogue; the next query's reload indexes the missing entry. -/
theorem C10_query_steps_refuted_unpersisted_evicted :
    ∃ p c, PReach p ∧ getCols p c = .error .index :=
  ⟨{ bornByBatch [0] with cols := [(0, .nonresident)] }, 0,
   PReach.step (PReach.born (Born.batch [0])) (.evict 0) (by decide), by decide⟩

/-- Hence the full claim does not hold of the code as modelled. -/
theorem C10_query_steps_refuted : ¬ C10_query_steps_statement := by
  intro h
  obtain ⟨p, c, hp, hf⟩ := C10_query_steps_refuted_swapped
  obtain ⟨r, hr⟩ := (h p hp).1 c
  rw [hf] at hr
  cases hr

/-- Non-vacuity of the partial theorems' hypotheses. -/
example : ∃ r, getCols (bornByBatch [0, 1]) 1 = .ok r := C10_query_steps_ok_partial _ _ (Or.inl (by decide))
example : ∃ r, getCols { restored [0] with phase := .removed } 5 = .ok r :=
  C10_query_steps_ok_partial _ _ (Or.inr (Or.inr (Or.inr ⟨rfl, rfl⟩)))
example : ∃ p', getColsMany { restored [0, 3] with phase := .removed } [3, 1, 7] = .ok p' :=
  C10_query_cols_ok_catalogued_partial _ _ rfl rfl
example : ∃ p', getColsMany { bornByBatch [0, 3] with phase := .deleted } [3, 1, 7] = .ok p' :=
  C10_query_cols_ok_ephemeral_partial _ _ rfl (by decide)
example : flushedCols ((prun (bornByBatch [0, 3]) [.getCols 9, .evict 3, .flushHandles, .persist, .getCols 3]).toOption.getD (restored [])) = [0, 3] := by decide

end LM.C10
