import LocustModel.Conc.Sched
import LocustModel.Conc.SchedDb
import LocustModel.Conc.LockOrder
import LocustModel.Lemmas.C11Sched
import LocustModel.Lemmas.C11Progress
import LocustModel.Lemmas.C11Value
import LocustModel.Lemmas.C11Db
import LocustModel.Thm.C06
import LocustModel.Conc.WalGate
import LocustModel.Thm.C18
/-
  C11 — every call completes; a failing request does not damage the database.

  Property theorems over the scheduler model (Conc/Sched.lean, Conc/SchedDb.lean, Conc/LockOrder.lean).
  `Cfg.current` is the code as it is today (after the `fix:` commits that catch panics in `worker_loop` and in
  the flush thread and make the flush fan-in disconnect); theorems named `…_legacy_…` are about `Cfg.legacy`
  (the code before those commits) and say what each guard buys.  Job bodies are parameters: the theorems
  quantify over every outcome (`done | err | fault`) of every body, every number of workers and every schedule.
-/
namespace LM.C11
open LM LM.Sched LM.LockOrder

/-! ## Worker threads -/

/-- No worker is ever lost: for every number of workers, every schedule (any interleaving of submissions, `await_task`
    calls and partition executions) and EVERY outcome of every job body — including panics — the number of live
    worker threads stays `n`. -/
theorem C11_workers_const (n : Nat) (as : List Act) : (run .current (Pool.init n) as).workers = n := by
  have h1 := run_total .current as (Pool.init n)
  have h2 := run_dead_catch .current rfl as (Pool.init n)
  simp [Pool.total, Pool.init, Pool.workers] at *
  omega

example : (run .current (Pool.init 2) [.submit [.fault, .done] .done, .await, .part 0, .await, .part 0, .part 0]).workers = 2 := by decide

/-- Before the fix the same held only for job bodies that never fault. -/
theorem C11_workers_const_nofault (cfg : Cfg) (n : Nat) (as : List Act) (h : ∀ a ∈ as, a.NoFault) :
    (run cfg (Pool.init n) as).workers = n := by
  have h1 := run_total cfg as (Pool.init n)
  have h2 := run_dead_nofault cfg as (Pool.init n) (by simp [Pool.init, TasksNoFault]) h
  simp [Pool.total, Pool.init, Pool.workers] at *
  omega

example : Act.NoFault (.submit [.done, .err] .done) := by simp [Act.NoFault]

/-- What the code did before the fix: one faulting body removes one worker for good … -/
theorem C11_legacy_fault_loses_worker :
    (run .legacy (Pool.init 2) [.submit [.fault] .done, .await, .part 0]).workers = 1 := by decide

/-- … and once every worker is gone nothing that is submitted afterwards is ever answered, whatever happens next. -/
theorem C11_legacy_dead_pool_answers_nothing (cfg : Cfg) (p : Pool) (hi : p.idle = 0) (hb : p.busy = []) (as : List Act) :
    (run cfg p as).idle = 0 ∧ (run cfg p as).busy = [] ∧
    ∀ (id : Nat) (t : Task), p.tasks[id]? = some t → (run cfg p as).tasks[id]? = some t :=
  run_dead_pool cfg as p hi hb

/-- two faulting tasks kill both workers of a two-worker pool; the third (harmless) task waits forever -/
example : let p := run .legacy (Pool.init 2) [.submit [.fault] .done, .submit [.fault] .done, .await, .await, .part 0, .part 0, .submit [.done] .done]
    p.idle = 0 ∧ p.busy = [] ∧ (p.tasks[2]?.map (·.reply)) = some none := by decide

/-! ## Every call returns -/

/-- Progress: every step that does anything (an idle worker finds the queue non-empty, a busy worker advances)
    strictly decreases `measure`; so no schedule can keep the pool busy forever without new submissions. -/
theorem C11_progress (cfg : Cfg) (p : Pool) (hw : WF p) :
    (p.idle ≠ 0 → p.queue ≠ [] → measure (await p) < measure p) ∧
    (∀ i, i < p.busy.length → measure (part cfg p i) < measure p) :=
  ⟨fun hi hq => await_measure p hi hq, fun i hi => part_measure cfg p i hw hi⟩

/-- When nothing can move any more, every task that was ever submitted has been answered (a value, an error value, or
    `Canceled`) — for every number `n ≥ 1` of workers, every schedule and every outcome of every body. -/
theorem C11_every_call_returns (n : Nat) (hn : 1 ≤ n) (as : List Act)
    (hq : Quiescent (run .current (Pool.init n) as)) :
    ∀ t ∈ (run .current (Pool.init n) as).tasks, t.reply.isSome = true := by
  have hw := C11_workers_const n as
  have hinv := run_inv .current as (Pool.init n) (init_inv n)
  obtain ⟨h1, h2⟩ := hq
  have hqe : (run .current (Pool.init n) as).queue = [] := by
    rcases h1 with h1 | h1
    · simp [Pool.workers, h1, h2] at hw; omega
    · exact h1
  exact answered_of_quiescent _ hinv hqe h2

/-- The canonical scheduler reaches such a state within `measure p` steps from any reachable state. -/
theorem C11_drain_quiescent (cfg : Cfg) (as : List Act) (n : Nat) :
    Quiescent (drain cfg (measure (run cfg (Pool.init n) as)) (run cfg (Pool.init n) as)) :=
  (drain_spec cfg _ _ (run_inv cfg as _ (init_inv n)) (Nat.le_refl _)).2.2.2.2

example : Quiescent (run .current (Pool.init 1) [.submit [.done] .done, .await, .part 0, .part 0]) := by
  simp [Quiescent, run, step, submit, await, popLoop, part, Pool.init, Task.isCompleted, pushResults, finish, release,
    referenced, setTask, Task.send, Task.orphan]

/-- A request none of whose bodies fails is answered with its value — never with `Canceled` or an error — under every
    schedule, whatever the tasks submitted before and after it do (old and new code alike): at every point of every
    run its receiver holds `ok` or is still waiting. -/
theorem C11_nofault_task_gets_value (cfg : Cfg) (n : Nat) (pre post : List Act) (bodies : List Out)
    (hb : ∀ x ∈ bodies, x = .done) :
    let p0 := run cfg (Pool.init n) pre
    ∃ t, (run cfg (submit p0 bodies .done) post).tasks[p0.tasks.length]? = some t ∧
      (t.reply = some .ok ∨ t.reply = none) := by
  intro p0
  have hw : WF p0 := (run_inv cfg pre _ (init_inv n)).1
  exact valinv_reply _ _ (run_valinv cfg post _ _ (submit_new_valinv p0 hw bodies hb))

example : ((run .current (Pool.init 2) [.submit [.fault] .done, .submit [.done, .done] .done, .await, .await, .part 0,
    .part 0, .part 0, .part 0]).tasks[1]?.map (·.reply)) = some (some .ok) := by decide

/-! ## Pool fan-in -/

/-- With the sender dropped (`drop(tx)`) the receiver's loop returns for every set of job outcomes, in every
    completion order. -/
theorem C11_fanin_terminates (k r : Nat) (evs : List Bool) : (recvLoop true k r evs).isSome = true := by
  fun_induction recvLoop true k r evs <;> simp_all

/-- If every job sends exactly once, `take k` returns with all `k` results (old and new code). -/
theorem C11_fanin_all_sent (dropTx : Bool) (k r : Nat) (evs : List Bool) (hlen : r + evs.length = k)
    (hall : ∀ e ∈ evs, e = true) : recvLoop dropTx k r evs = some k :=
  recvLoop_all_sent dropTx k r evs hlen hall

example : recvLoop false 3 0 [true, true, true] = some 3 := by decide

/-- Before the fix a single job that died left the receiver waiting forever. -/
theorem C11_legacy_fanin_blocks (k r : Nat) (evs : List Bool) (hlen : r + evs.length = k) (hdead : false ∈ evs) :
    recvLoop false k r evs = none := by
  have aux : ∀ (evs : List Bool) (r : Nat), r + evs.count true < k → recvLoop false k r evs = none := by
    intro evs
    induction evs with
    | nil => intro r h; have : r ≠ k := by simp at h; omega
             simp [recvLoop, this]
    | cons e evs ih =>
      intro r h
      cases e with
      | true =>
        have hne : r ≠ k := by simp at h; omega
        simp only [recvLoop, hne, if_false]
        exact ih (r + 1) (by simp at h; omega)
      | false =>
        have hne : r ≠ k := by simp at h; omega
        simp only [recvLoop, hne, if_false]
        exact ih r (by simpa using h)
  have hcount : ∀ evs : List Bool, false ∈ evs → evs.count true < evs.length := by
    intro evs
    induction evs with
    | nil => intro h; simp at h
    | cons e evs ih =>
      intro h
      cases e with
      | true => simp at h; have := ih h; simp; omega
      | false => have := List.count_le_length (a := true) (l := evs); simp; omega
  have := hcount evs hdead
  exact aux evs r (by omega)

example : recvLoop false 3 0 [true, false, true] = none := by decide
example : recvLoop true 3 0 [true, false, true] = some 2 := by decide

/-- `LocustDB::new` returns for every set of outcomes of the WAL loading jobs (it opens, or panics in the caller when a
    segment cannot be loaded); it opens iff no job failed. -/
theorem C11_open_returns (jobs : List Out) :
    (recover .current jobs).isSome = true ∧ (recover .current jobs = some true ↔ ∀ j ∈ jobs, j ≠ .fault) :=
  recover_current jobs

example : recover .current [.done, .fault, .done] = some false := by decide

/-- Before the fix one WAL segment that could not be loaded made `LocustDB::new` wait forever. -/
theorem C11_legacy_open_blocks (jobs : List Out) (h : .fault ∈ jobs) : recover .legacy jobs = none :=
  recover_legacy jobs h

example : recover .legacy [.done, .fault, .done] = none := by decide

/-! ## The flush thread -/

/-- The flush thread survives every flush, whatever the batching jobs, the compaction jobs and its own body do:
    afterwards it is alive and not stuck, the caller got an answer, and `failed` is reported only if something failed. -/
theorem C11_flush_alive (s : FlushSt) (hs : s.alive = true ∧ s.stuck = false) (b : List Out) (tb : Out) (c : List Out) :
    let r := forceFlush .current [] s b tb c
    r.1.alive = true ∧ r.1.stuck = false ∧ r.2.1 = [] ∧ r.2.2 ≠ .hang ∧ r.2.2 ≠ .panic ∧
    (r.2.2 = .failed → .fault ∈ b ∨ tb = .fault) :=
  forceFlush_current s hs b tb c

example : (forceFlush .current [] {} [.done, .fault] .done [.fault]).2.2 = .failed := by decide
example : (forceFlush .current [] {} [.done, .done] .done [.fault]).2.2 = .ok := by decide

/-- Old and new code agree when nothing faults: the flush completes. -/
theorem C11_flush_alive_nofault (cfg : Cfg) (s : FlushSt) (hs : s.alive = true ∧ s.stuck = false) (b : List Out) (tb : Out) (c : List Out)
    (hb : ∀ x ∈ b, x ≠ .fault) (htb : tb ≠ .fault) (hc : ∀ x ∈ c, x ≠ .fault) :
    forceFlush cfg [] s b tb c = (s, [], .ok) :=
  forceFlush_nofault cfg s hs b tb c hb htb hc

/-- Before the fix: a batching or compaction job that panics blocks the flush thread (and the caller) forever;
    a panic on the flush thread itself ends it, and the next `force_flush` is never answered. -/
theorem C11_legacy_flush_job_fault_blocks :
    (forceFlush .legacy [] {} [.done, .fault] .done []).2.2 = .hang ∧
    (forceFlush .legacy [] {} [.done] .done [.fault]).2.2 = .hang ∧
    (let r := forceFlush .legacy [] {} [.done] .fault []
     r.2.2 = .failed ∧ (forceFlush .legacy [] r.1 [.done] .done []).2.2 = .hang) := by decide

/-! ## Lock poisoning -/

/-- No lock is poisoned as long as no caller-side critical section faults: for every sequence of requests whose faults
    (if any) happen in job bodies — on workers, in the flush pool, on the flush thread — the set of poisoned locks stays empty. -/
theorem C11_no_poison (n : Nat) (rs : List Req) (h : ∀ r ∈ rs, r.CallerOk) :
    (Db.rounds .current (Db.init n) rs).poisoned = [] :=
  (rounds_clean rs (Db.init n) ⟨rfl, rfl, rfl⟩ h).1

example : Req.CallerOk (.flush 3 1 2 1 1) := by simp [Req.CallerOk]

/-- The poisoning semantics itself (what the harness observes when it injects a fault under `wal_size`): the lock stays
    poisoned, ingestion panics in the caller, the flush thread dies at the top of its loop. -/
theorem C11_caller_fault_poisons :
    let d := (Db.init 2).request .current (.callerFault .walSize)
    d.1.poisoned = [.walSize] ∧ (d.1.request .current .ingest).2 = .panic ∧
    (d.1.request .current (.flush 1 0 0 0 0)).2 = .hang := by decide

/-! ## Lock order -/

/-- Every nested acquisition in the anchored code goes from a smaller to a larger rank … -/
theorem C11_lock_order_ranked : ∀ e ∈ edges, rank e.2.1 < rank e.2.2 := by decide

/-- … hence there is no wait-for cycle among the modelled critical sections: no list of locks `l₀ … lₘ` such that
    some thread holds `lᵢ` while acquiring `lᵢ₊₁` and some thread holds `lₘ` while acquiring `l₀`. -/
theorem C11_lock_order_acyclic : ∀ l : List Lock, ¬ Cycle Edge l := by
  have hR : ∀ a b, Edge a b → rank a < rank b := by
    intro a b ⟨f, hf⟩
    exact C11_lock_order_ranked (f, a, b) hf
  have path : ∀ (l : List Lock) (a b : Lock), Path Edge a l b → rank a < rank b := by
    intro l
    induction l with
    | nil => intro a b h; exact hR a b h
    | cons c rest ih => intro a b h; exact Nat.lt_trans (hR a c h.1) (ih c b h.2)
  intro l hc
  cases l with
  | nil => exact hc
  | cons a rest => exact Nat.lt_irrefl _ (path rest a a hc)

example : Edge .walSize .frozen := ⟨"wal_flush", by decide⟩

/-- The same for ANY relation that goes up in `rank` — in particular for the held → acquired pairs the harness extracts
    from the source on every run: if the driver accepted every pair (`pairRanked`, the test behind `judgePairs`), the
    wait-for relation those pairs generate has no cycle.  A swapped acquisition order inside a function, or a call that
    re-acquires a lock the caller holds, produces a pair the test rejects (`BAD lock-order <fn>: <a> before <b>`). -/
theorem C11_extracted_pairs_acyclic (pairs : List (String × String × String))
    (h : ∀ p ∈ pairs, pairRanked p.1 p.2.1 p.2.2 = true) : ∀ l : List Lock, ¬ Cycle (PairEdge pairs) l := by
  have hR : ∀ a b, PairEdge pairs a b → rank a < rank b := by
    intro a b ⟨p, hp, ha, hb⟩
    have := h p hp
    simp only [pairRanked, ha, hb] at this
    exact of_decide_eq_true this
  have path : ∀ (l : List Lock) (a b : Lock), Path (PairEdge pairs) a l b → rank a < rank b := by
    intro l
    induction l with
    | nil => intro a b h; exact hR a b h
    | cons c rest ih => intro a b h; exact Nat.lt_trans (hR a c h.1) (ih c b h.2)
  intro l hc
  cases l with
  | nil => exact hc
  | cons a rest => exact Nat.lt_irrefl _ (path rest a a hc)

example : pairRanked "table.rs" "frozen_buffer" "buffer" = true := by decide
-- a swapped order inside `freeze_buffer`, and `push_result` calling `fail_with` under the state mutex, are rejected
example : pairRanked "table.rs" "buffer" "frozen_buffer" = false := by decide
example : pairRanked "query_task.rs" "unsafe_state" "unsafe_state" = false := by decide
example : pairRanked "disk_read_scheduler.rs" "task_queue" "background_load_in_progress" = true := by decide

/-! ## The log-size gate of ingestion -/

/-- `ingest_efficient` returns whatever the limit and the accounted log size are (limit 0 and a size exactly equal to
    the limit included): the comparison that makes it wait (`ingestGate`, as found in the source) implies the comparison
    that makes the flush thread flush (`flushTriggerSize`, as found in the source).  A source edit that moves one of the
    two boundaries but not the other fails this obligation (and `C18_no_stuck_ingest`). -/
theorem C11_ingest_gate_returns (max size add : Nat) : (LM.WalGate.ingestCall max size add).1 = true := by
  simp only [LM.WalGate.ingestCall]
  split
  · next h =>
    exfalso
    simp [LM.Gen.WalProtocol.ingestGate, LM.Gen.WalProtocol.flushTriggerSize, LM.Gen.WalProtocol.Cmp.holds] at h
  · rfl

example : LM.WalGate.ingestCall 0 0 100 = (true, 0) := by decide
example : LM.WalGate.ingestCall 100 100 7 = (true, 0) := by decide
example : LM.WalGate.ingestCalls 100 0 [100, 7, 7] = [(true, 100), (true, 0), (true, 7)] := by decide

/-- "A waiting ingestion implies a triggered flush", in the interleaved machine of the store (flush in flight, pending
    force_flush requests, file-count trigger): cross-reference to `C18_no_stuck_ingest`, not a second proof. -/
theorem C11_waiting_ingest_is_released {ν κ : Type} [DecidableEq ν]
    (P : LM.Store.Params ν κ) (hP : LM.Store.ParamsOk P) (ops : List (LM.Store.IOp ν κ)) (hwf : LM.Store.IHistWF ops)
    (iw : LM.Store.IWorld ν κ) (hrun : LM.Store.irun P ops = .ok iw) (fi : LM.Store.FlushIn ν) (hfi : LM.Store.FlushWF fi)
    (maxWalFiles : Nat) (hwait : LM.Store.ingestWaits P iw) :
    ∃ iwq iw', LM.Store.ifold P (match iw.fl with | none => [] | some f => LM.Store.finishOps f.stage fi) iw = .ok iwq ∧
      iwq.fl = none ∧ LM.Store.flushTriggered P maxWalFiles iwq ∧
      LM.Store.istep P iwq (.flushBegin iwq.pending.length) = .ok iw' ∧ ¬ LM.Store.ingestWaits P iw' :=
  LM.C18.C18_no_stuck_ingest P hP ops hwf iw hrun fi hfi maxWalFiles hwait

/-! ## Composition -/

/-- `C11_requests`: for every `n ≥ 1` and every sequence of requests whose caller-side sections do not fault
    (job bodies may fault at will), after every request: the call returned — with a value, an error value, or, for a
    flush with a failing job, the report that it failed — all `n` workers are alive, the flush thread answers, and
    a follow-up query is answered. -/
theorem C11_requests (n : Nat) (hn : 1 ≤ n) (rs : List Req) (h : ∀ r ∈ rs, r.CallerOk) :
    RoundsOk n (Db.init n) rs :=
  rounds_ok n hn rs (Db.init n) ⟨good_init n, rfl⟩ h

/-- What `C11_requests` establishes for a round is what the executable specification `specRound` — the judge the driver
    applies to the values observed on the real database — demands. -/
theorem C11_round_meets_spec (n : Nat) (r : Req) (out : Ret) (o : Obs) (h : RoundOk n r out o) :
    specRound n r out o = none :=
  roundOk_spec n r out o h

example : specRound 2 (.fnTask .fault) (.err "canceled") ⟨2, .ok, .ok⟩ = none := by decide
-- a query whose failure arises in the final merge / final pass (under the task's state mutex), one worker, three partitions
example : ((Db.init 1).round .current (.queryPhase [.done, .done, .done] .err "overflow")).2 = (.err "overflow", ⟨1, .ok, .ok⟩) := by decide
example : ((Db.init 2).round .current (.queryPhase [.done, .err, .done] .done "type")).2 = (.err "type", ⟨2, .ok, .ok⟩) := by decide
example : Req.CallerOk (.queryPhase [.done, .done, .done] .err "overflow") := by simp [Req.CallerOk]
example : specRound 2 (.fnTask .fault) (.err "canceled") ⟨1, .ok, .ok⟩ = some "worker lost" := by decide

/-- The bodies of the requests of the modelled fragment are `NoFault`: wherever another property proves totality of the
    `Except Fault` model of the code a body executes, the body's outcome is `done` or `err`, never `fault`.  Instance:
    C06's `evalRowModel` (every arithmetic expression on every row, `C06_tree_total`). -/
theorem C11_body_of_total {α β : Type} (body : α → Except Fault β) (isErr : β → Bool)
    (htotal : ∀ x, ∃ v, body x = .ok v) (x : α) :
    outOf (body x) isErr ≠ .fault := by
  obtain ⟨v, hv⟩ := htotal x
  simp [outOf, hv]; split <;> simp

theorem C11_arith_bodies_nofault (e : LM.ArithTree.Expr) (rows : List LM.ArithTree.Row) :
    ∀ b ∈ rows.map (fun row => outOf (LM.ArithTree.evalRowModel e row) (fun r => r.2)), b ≠ .fault := by
  intro b hb
  simp at hb
  obtain ⟨row, _, rfl⟩ := hb
  exact C11_body_of_total (fun row => LM.ArithTree.evalRowModel e row) (fun r => r.2)
    (fun row => by obtain ⟨v, o, h⟩ := LM.C06.C06_tree_total e row; exact ⟨(v, o), h⟩) row

end LM.C11
