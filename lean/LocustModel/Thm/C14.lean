import LocustModel.Disk.Envelope
import LocustModel.Disk.Segment
import LocustModel.Lemmas.C14Envelope
import LocustModel.Lemmas.C14Segment
/-
  C14 — stored files read back as written or are rejected.
  Property theorems only.  Quantification: ALL payloads / files (byte lists of any length below 2^64 - 48), ALL hash
  functions `H` with 32-byte digests (collision freedom is a hypothesis only in `C14_payload_change_rejected`),
  ALL columns (any name, codec op list, data sections), ALL log segments and catalogues.
-/
namespace LM.C14
open LM LM.Envelope LM.Segment LM.Routing LM.Gen.SegmentTables

/-! ### envelope -/

/-- ROUND TRIP: what `store` wrote, `load` returns (payload below 2^64 - 48 bytes, digest of 32 bytes). -/
theorem C14_unwrap_wrap (H : List UInt8 → List UInt8) (hLen : ∀ x, (H x).length = 32) (d : List UInt8)
    (hd : 48 + d.length < 2 ^ 64) : unwrap H (wrap H d) = .ok d := by
  have hl : (wrap H d).length = 48 + d.length := by simp [wrap, be64_length, hLen]; omega
  have h8 : (wrap H d).take 8 = be64 0 := by
    have : wrap H d = be64 0 ++ (be64 d.length ++ H d ++ d) := by simp [wrap]
    rw [this, List.take_left' (be64_length 0)]
  have h16 : ((wrap H d).drop 8).take 8 = be64 d.length := by
    have : wrap H d = be64 0 ++ (be64 d.length ++ (H d ++ d)) := by simp [wrap]
    rw [this, List.drop_left' (be64_length 0), List.take_left' (be64_length _)]
  have h48 : (wrap H d).drop 48 = d := by
    have : wrap H d = (be64 0 ++ be64 d.length ++ H d) ++ d := by simp [wrap]
    rw [this, List.drop_left' (by simp [be64_length, hLen])]
  have h32 : ((wrap H d).drop 16).take 32 = H d := by
    have : wrap H d = (be64 0 ++ be64 d.length) ++ (H d ++ d) := by simp [wrap]
    rw [this, List.drop_left' (by simp [be64_length])]
    rw [List.take_left' (hLen d)]
  unfold unwrap
  rw [hl, h8, h16, h48, h32, fromBe_be64 0 (by omega), fromBe_be64 d.length (by omega)]
  have : ¬ (48 + d.length < 48) := by omega
  simp [this]
  omega

/-- ONLY WHAT WAS WRITTEN IS ACCEPTED: if `load` returns a payload, the file is byte for byte the envelope of that
    payload.  Hence a file is never decoded into data other than what its bytes spell. -/
theorem C14_unwrap_only_wrap (H : List UInt8 → List UInt8) (b d : List UInt8) (h : unwrap H b = .ok d) :
    b = wrap H d := by
  unfold unwrap at h
  split at h
  · simp at h
  · split at h
    · simp at h
    · simp only [] at h
      split at h
      · simp at h
      · split at h
        · simp at h
        · split at h
          · simp at h
          · rename_i h1 h2 h3 h4 h5
            simp only [Loaded.ok.injEq] at h
            have hv : fromBe (b.take 8) = 0 := by simpa using h2
            have hlen : b.length = 48 + fromBe ((b.drop 8).take 8) := by simpa using h4
            have hck : (b.drop 16).take 32 = H (b.drop 48) := by simpa using h5
            have hge : 48 ≤ b.length := by omega
            -- split b into its four fields
            have e1 : b = b.take 8 ++ b.drop 8 := (List.take_append_drop 8 b).symm
            have e2 : b.drop 8 = (b.drop 8).take 8 ++ b.drop 16 := by
              have := (List.take_append_drop 8 (b.drop 8)).symm
              simpa [List.drop_drop] using this
            have e3 : b.drop 16 = (b.drop 16).take 32 ++ b.drop 48 := by
              have := (List.take_append_drop 32 (b.drop 16)).symm
              simpa [List.drop_drop] using this
            have t8 : (b.take 8).length = 8 := by simp; omega
            have t16 : ((b.drop 8).take 8).length = 8 := by simp; omega
            have hdl : d.length = fromBe ((b.drop 8).take 8) := by rw [← h]; simp; omega
            have f1 : b.take 8 = be64 0 := by rw [← hv, be64_fromBe _ t8]
            have f2 : (b.drop 8).take 8 = be64 d.length := by rw [hdl, be64_fromBe _ t16]
            unfold wrap
            rw [← h]
            conv => lhs; rw [e1, e2, e3, hck, f1, f2, h]
            simp [h]

/-- What an accepted file looks like, read off `load` directly. -/
theorem C14_unwrap_ok_shape (H : List UInt8 → List UInt8) (b d : List UInt8) (h : unwrap H b = .ok d) :
    d = b.drop 48 ∧ 48 ≤ b.length ∧ b.length = 48 + fromBe ((b.drop 8).take 8) ∧
    48 + fromBe ((b.drop 8).take 8) < 2 ^ 64 ∧ (b.drop 16).take 32 = H (b.drop 48) := by
  unfold unwrap at h
  split at h
  · simp at h
  · split at h
    · simp at h
    · simp only [] at h
      split at h
      · simp at h
      · split at h
        · simp at h
        · split at h
          · simp at h
          · rename_i h1 h2 h3 h4 h5
            simp only [Loaded.ok.injEq] at h
            exact ⟨h.symm, by omega, by simpa using h4, by omega, by simpa using h5⟩

/-- TRUNCATION: every proper prefix of a stored file (any length 0 ≤ n < size) is rejected. -/
theorem C14_truncation_rejected (H : List UInt8 → List UInt8) (hLen : ∀ x, (H x).length = 32) (d : List UInt8)
    (hd : 48 + d.length < 2 ^ 64) (n : Nat) (hn : n < (wrap H d).length) (d' : List UInt8) :
    unwrap H ((wrap H d).take n) ≠ .ok d' := by
  intro h
  obtain ⟨_, hge, hlen, _, _⟩ := C14_unwrap_ok_shape H _ _ h
  have hl := wrap_length H hLen d
  have hn' : ((wrap H d).take n).length = n := by simp; omega
  rw [hn'] at hge hlen
  have hfield : (((wrap H d).take n).drop 8).take 8 = be64 d.length := by
    rw [← wrap_len_field H d, List.drop_take, List.take_take]
    congr 1; omega
  rw [hfield, fromBe_be64 _ (by omega)] at hlen
  omega

/-- EXTENSION: every file with bytes appended is rejected. -/
theorem C14_extension_rejected (H : List UInt8 → List UInt8) (hLen : ∀ x, (H x).length = 32) (d : List UInt8)
    (hd : 48 + d.length < 2 ^ 64) (s : List UInt8) (hs : s ≠ []) (d' : List UInt8) :
    unwrap H (wrap H d ++ s) ≠ .ok d' := by
  intro h
  obtain ⟨_, _, hlen, _, _⟩ := C14_unwrap_ok_shape H _ _ h
  have hl := wrap_length H hLen d
  have hfield : ((wrap H d ++ s).drop 8).take 8 = be64 d.length := by
    rw [← wrap_len_field H d, List.drop_append_of_le_length (by omega), List.take_append_of_le_length (by simp; omega)]
  rw [hfield, fromBe_be64 _ (by omega), List.length_append, hl] at hlen
  have : s.length ≠ 0 := fun h0 => hs (List.eq_nil_of_length_eq_zero h0)
  omega

/-- HEADER CHANGES (version, length, digest — in particular each of the 384 single-bit flips of the header):
    any file that keeps the payload but differs from the stored file is rejected, whatever `H` is. -/
theorem C14_header_change_rejected (H : List UInt8 → List UInt8) (d b : List UInt8)
    (hpay : b.drop 48 = d) (hne : b ≠ wrap H d) (d' : List UInt8) : unwrap H b ≠ .ok d' := by
  intro h
  have hb := C14_unwrap_only_wrap H b d' h
  obtain ⟨hd', _⟩ := C14_unwrap_ok_shape H _ _ h
  rw [hpay] at hd'
  subst hd'
  exact hne hb

/-- PAYLOAD CHANGES: a file that keeps the 48 header bytes of a stored file and is accepted carries a payload with
    the same digest as the stored one. -/
theorem C14_payload_change_needs_collision (H : List UInt8 → List UInt8) (hLen : ∀ x, (H x).length = 32)
    (d b d' : List UInt8) (hhdr : b.take 48 = (wrap H d).take 48) (h : unwrap H b = .ok d') : H d' = H d := by
  have hb := C14_unwrap_only_wrap H b d' h
  have e1 : (b.drop 16).take 32 = H d' := by rw [hb]; exact wrap_digest_field H hLen d'
  have e2 : (b.drop 16).take 32 = ((wrap H d).drop 16).take 32 := by
    have h1 : (b.take 48).drop 16 = (b.drop 16).take 32 := by rw [List.drop_take]
    have h2 : ((wrap H d).take 48).drop 16 = ((wrap H d).drop 16).take 32 := by rw [List.drop_take]
    rw [← h1, ← h2, hhdr]
  rw [← e1, e2, wrap_digest_field H hLen d]

/-- … hence, if nothing else has the digest of the stored payload, every payload change (in particular every
    single-bit flip in the payload) is rejected. -/
theorem C14_payload_change_rejected (H : List UInt8 → List UInt8) (hLen : ∀ x, (H x).length = 32)
    (d b : List UInt8) (hcoll : ∀ x, H x = H d → x = d)
    (hhdr : b.take 48 = (wrap H d).take 48) (hne : b ≠ wrap H d) (d' : List UInt8) : unwrap H b ≠ .ok d' := by
  intro h
  have := hcoll d' (C14_payload_change_needs_collision H hLen d b d' hhdr h)
  subst this
  exact hne (C14_unwrap_only_wrap H b d' h)


/-! ### tables translated from partition_segment.rs (break when two arms are swapped in the Rust source) -/

/-- `deserialize_type ∘ encoding_type_to_capnp = id` on every type the writer accepts. -/
theorem C14_enc_table_roundtrip (t : Enc) (c : CapEnc) (h : encodingTypeToCapnp t = some c) : deserializeType c = t :=
  enc_roundtrip t c h

/-- All eight capnp enumerants are produced by the writer (the reader's table has no unreachable row). -/
theorem C14_enc_table_onto (c : CapEnc) : ∃ t, encodingTypeToCapnp t = some c := by
  cases c
  · exact ⟨.U8, rfl⟩
  · exact ⟨.U16, rfl⟩
  · exact ⟨.U32, rfl⟩
  · exact ⟨.U64, rfl⟩
  · exact ⟨.I64, rfl⟩
  · exact ⟨.Null, rfl⟩
  · exact ⟨.F64, rfl⟩
  · exact ⟨.Bitvec, rfl⟩

/-- `CodecOp` variant → union member → variant is the identity (every variant but `Unknown` is writable). -/
theorem C14_op_tag_roundtrip (t : OpTag) : (t = .Unknown ∧ opTagToCapnp t = none) ∨
    ∃ c, opTagToCapnp t = some c ∧ capnpToOpTag c = t := by
  cases t <;> simp [opTagToCapnp, capnpToOpTag]

/-- `DataSection` variant → union member → variant is the identity. -/
theorem C14_section_tag_roundtrip (t : SecTag) : capnpToSecTag (secTagToCapnp t) = t := by
  cases t <;> rfl

/-- The hand-written arms of the model are the arms of the Rust source: `serOp` writes each variant to the union
    member the translated `serialize` table says, `deserOp` reads each member into the variant the translated
    `deserialize` table says; likewise for data sections. -/
theorem C14_model_arms_match_source :
    (∀ op c, serOp op = .ok c → opTagToCapnp op.tag = some c.tag) ∧
    (∀ op, (serOp op).isOk = false → op.tag = .Unknown ∨ ∃ t, encodingTypeToCapnp t = none) ∧
    (∀ c, (deserOp c).tag = capnpToOpTag c.tag) ∧
    (∀ s, (serSection s).tag = secTagToCapnp s.tag) ∧
    (∀ c, (deserSection c).tag = capnpToSecTag c.tag) := by
  refine ⟨?_, ?_, ?_, ?_, ?_⟩
  · intro op c h
    have hd := op_roundtrip op c h
    subst hd
    cases c <;> rfl
  · intro op _
    cases op with
    | unknown => left; rfl
    | _ => right; exact ⟨.Str, rfl⟩
  · intro c; cases c <;> rfl
  · intro s; cases s <;> rfl
  · intro c; cases c <;> rfl

/-! ### partition segments -/

/-- Every codec op that the writer accepts is read back identically. -/
theorem C14_op_roundtrip (op : CodecOp) (c : CapOp) (h : serOp op = .ok c) : deserOp c = op := op_roundtrip op c h

/-- Every data section kind is read back identically (element for element; floats as bit patterns). -/
theorem C14_section_roundtrip (s : DataSection) : deserSection (serSection s) = s := section_roundtrip s

/-- COLUMN ROUND TRIP: for every storable column — any name, length, range, any list of codec ops without `Unknown`
    over storable encodings, any list of data sections of every kind — `deserialize (serialize c) = c`. -/
theorem C14_column_roundtrip (c : Column) (hs : Storable c) :
    ∃ t, serColumn c = .ok t ∧ deserColumn t = .ok c := by
  obtain ⟨hops, hdata⟩ := hs
  obtain ⟨ops', hser, hback⟩ := mapM_ok_of_all serOp deserOp c.codec hops op_roundtrip
  refine ⟨{ name := c.name, len := c.len, range := serRange c.range, codec := ops', data := c.data.map serSection },
    by simp [serColumn, hser, bind, Except.bind, pure, Except.pure], ?_⟩
  have hdata' : (c.data.map serSection).map deserSection = c.data := by
    simp [List.map_map, Function.comp_def, section_roundtrip]
  have hrange : deserRange (serRange c.range) = c.range := by
    cases hr : c.range with
    | none => rfl
    | some p => rfl
  have hcol : ({ name := c.name, len := c.len, range := deserRange (serRange c.range),
                 codec := ops'.map deserOp, data := (c.data.map serSection).map deserSection } : Column) = c := by
    rw [hback, hdata', hrange]
  rw [deserColumn_eq _ c hcol]
  by_cases hnil : c.codec = []
  · obtain ⟨d, rest, hd, hb⟩ := hdata hnil
    simp [hnil, hd, hb]
  · have : c.codec.isEmpty = false := by
      cases hc : c.codec with
      | nil => exact absurd hc hnil
      | cons _ _ => rfl
    simp [this]

/-- SEGMENT ROUND TRIP: a partition file with any number of storable columns decodes to exactly those columns. -/
theorem C14_segment_roundtrip (cols : List Column) (hs : ∀ c ∈ cols, Storable c) :
    ∃ t, serSegment cols = .ok t ∧ deserSegment t = .ok cols := by
  induction cols with
  | nil => exact ⟨[], rfl, rfl⟩
  | cons c cs ih =>
    obtain ⟨ts, h1, h2⟩ := ih (fun x hx => hs x (List.mem_cons_of_mem _ hx))
    obtain ⟨t, h3, h4⟩ := C14_column_roundtrip c (hs c (by simp))
    refine ⟨t :: ts, ?_, ?_⟩
    · unfold serSegment at h1 ⊢; rw [List.mapM_cons, h3, h1]; rfl
    · unfold deserSegment at h2 ⊢; rw [List.mapM_cons, h4, h2]; rfl

/-- The writer panics exactly on the columns excluded above (an `Unknown` op or a non-storable encoding in an op). -/
theorem C14_serialize_fails_only_on_unstorable (c : Column) (h : ∀ op ∈ c.codec, (serOp op).isOk = true) :
    ∃ t, serColumn c = .ok t := by
  obtain ⟨ops', hser, _⟩ := mapM_ok_of_all serOp deserOp c.codec h op_roundtrip
  exact ⟨_, by simp [serColumn, hser, bind, Except.bind, pure, Except.pure]; rfl⟩

/-! ### log segments -/

/-- Every column-data kind of the event buffer (dense / sparse floats and ints, strings, mixed, empty) is read back
    identically; the sparse forms are `unzip`ped on write and `zip`ped on read. -/
theorem C14_coldata_roundtrip (d : ColumnData) : deserColData (serColData d) = d := colData_roundtrip d

/-- WAL ROUND TRIP: for every log segment whose hash maps have distinct keys (any id, any number of tables and
    columns, in any iteration order), `deserialize (serialize w) = w`. -/
theorem C14_wal_roundtrip (w : WalSegment) (hw : WalWf w) : deserWal (serWal w) = w := by
  obtain ⟨hk, hcols⟩ := hw
  have htab : ∀ e ∈ w.tables, deserTable (serTable e.1 e.2) = e := by
    intro e he
    obtain ⟨n, t⟩ := e
    have hc := hcols (n, t) he
    simp only [deserTable, serTable, List.map_map]
    have : (t.columns.map ((fun x => (x.1, deserColData x.2)) ∘ fun x => (x.1, serColData x.2))) = t.columns := by
      have : ((fun x : Name × CapColData => (x.1, deserColData x.2)) ∘ fun x : Name × ColumnData => (x.1, serColData x.2)) = id := by
        funext x; simp [colData_roundtrip]
      rw [this]; simp
    rw [this, mapOfList_id _ hc]
  unfold deserWal serWal
  simp only [List.map_map]
  have hmap : w.tables.map (deserTable ∘ fun x => serTable x.1 x.2) = w.tables := by
    have : ∀ (l : List (Name × TableBuffer)), (∀ e ∈ l, deserTable (serTable e.1 e.2) = e) →
        l.map (deserTable ∘ fun x => serTable x.1 x.2) = l := by
      intro l hl
      induction l with
      | nil => rfl
      | cons x xs ih =>
        simp only [List.map_cons, Function.comp]
        rw [hl x (by simp), ih (fun e he => hl e (List.mem_cons_of_mem _ he))]
    exact this _ htab
  rw [hmap, mapOfList_id _ hk]

/-! ### catalogue -/

/-- CATALOGUE ROUND TRIP: for every catalogue (any two cursor values, 0..k tables, any partitions with any
    sub-partitions, distinct (table, id) pairs), `deserialize (serialize m) = normalise m`: the content — ids,
    table names, offsets, lengths, keys, sizes, last columns — is preserved exactly; the cursor is stored as
    `earliest_unflushed_wal_id`, the `loaded` flags are reset and the routing index is rebuilt. -/
theorem C14_meta_roundtrip (m : MetaStore) (hm : MetaWf m) : deserMeta (serMeta m) = normaliseMeta m := by
  unfold deserMeta serMeta normaliseMeta
  simp only [List.map_map]
  have hfun : (deserPart ∘ serPart) = normalisePart := by
    funext p
    simp only [Function.comp, deserPart, serPart, normalisePart, List.map_map]
    rfl
  rw [hfun]
  have hkeys : (m.partitions.map normalisePart).map (fun q => (q.tablename, q.id)) =
      m.partitions.map (fun q => (q.tablename, q.id)) := by
    simp [List.map_map, Function.comp_def, normalisePart]
  have := foldl_partInsert [] (m.partitions.map normalisePart) (by rw [List.nil_append, hkeys]; exact hm)
  rw [this]; simp

/-- The routing index depends only on the `last_column`s, so resetting `loaded` flags does not change it: a catalogue
    whose index was built by the flush / compaction path (`buildByLast`) routes identically after a round trip. -/
theorem C14_meta_index_stable (subs : List SubpartitionMetadata) :
    buildByLast (subs.map resetLoaded) = buildByLast subs := by
  unfold buildByLast
  have : ∀ (l : List SubpartitionMetadata) (n : Nat) (acc : List (Name × Nat)),
      ((l.map resetLoaded).zipIdx n).foldl (fun m p => btInsert m p.1.lastColumn p.2) acc =
      (l.zipIdx n).foldl (fun m p => btInsert m p.1.lastColumn p.2) acc := by
    intro l
    induction l with
    | nil => intros; rfl
    | cons s rest ih => intro n acc; simp only [List.map_cons, List.zipIdx_cons, List.foldl_cons]; exact ih _ _
  exact this subs 0 []

/-! ### non-vacuity -/

def exH : List UInt8 → List UInt8 := fun d => List.replicate 31 0 ++ [UInt8.ofNat d.length]
example : ∀ x, (exH x).length = 32 := by intro x; simp [exH]
example : unwrap exH (wrap exH [1, 2, 3]) = .ok [1, 2, 3] := by decide
example : unwrap exH ((wrap exH [1, 2, 3]).take 50) = .err .length := by decide
example : unwrap exH (wrap exH [1, 2, 3] ++ [0]) = .err .length := by decide
example : unwrap exH (be64 1 ++ (wrap exH [1, 2, 3]).drop 8) = .err .version := by decide
def exCol : Column := ⟨[99], 3, some (-5, 250), [.add .U8 (-5), .nullable], [.u8 [0, 255, 7], .bitvec [5]]⟩
example : Storable exCol := by
  refine ⟨by decide, by intro h; cases h⟩
example : Storable ⟨[110], 4, none, [], [.null 4]⟩ := ⟨by decide, fun _ => ⟨_, _, rfl, rfl⟩⟩
example : ¬ ∃ t, serColumn ⟨[120], 1, none, [.unknown], [.u8 [1]]⟩ = .ok t := by
  intro ⟨t, h⟩; simp [serColumn, serOp, bind, Except.bind] at h
example : WalWf ⟨3, [([116], ⟨2, [([97], .sparse [(1, 5)]), ([98], .mixed [.int 1, .null])]⟩)]⟩ := by
  refine ⟨by unfold keysNodup; decide, ?_⟩
  intro e he; simp at he; subst he; unfold keysNodup; decide
example : MetaWf ⟨5, 3, [⟨0, [116], 0, 10, [⟨8, [97], [97], true⟩], [([97], 0)]⟩, ⟨1, [116], 10, 5, [], []⟩]⟩ := by
  unfold MetaWf; decide

end LM.C14
