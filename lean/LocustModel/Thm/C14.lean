import LocustModel.Disk.Envelope
import LocustModel.Disk.Segment
import LocustModel.Lemmas.C14Envelope
import LocustModel.Lemmas.C14Segment
import LocustModel.Disk.SchemaSpec
/-
  C14 — stored files read back as written or are rejected.
  Property theorems only.  Quantification: ALL payloads / files (byte lists of any length below 2^64 - 48), ALL hash
  functions `H` with 32-byte digests (collision freedom is a hypothesis only in `C14_payload_change_rejected`),
  ALL columns (any name, codec op list, data sections), ALL log segments and catalogues.
-/
namespace LM.C14
open LM LM.Envelope LM.Segment LM.Routing LM.Gen.SegmentTables LM.Gen

/-! ### envelope -/

/-- ROUND TRIP: what `store` wrote, `load` returns (payload length representable in the 8-byte length field,
    digest of 32 bytes). -/
theorem C14_unwrap_wrap (H : List UInt8 → List UInt8) (hLen : ∀ x, (H x).length = 32) (d : List UInt8)
    (hd : d.length < 2 ^ 64) : unwrap H (wrap H d) = .ok d := by
  have hl : (wrap H d).length = 48 + d.length := wrap_length H hLen d
  have h8 : (wrap H d).take 8 = be64 0 := by
    have : wrap H d = be64 0 ++ (be64 d.length ++ H d ++ d) := by simp [wrap]
    rw [this, List.take_left' (be64_length 0)]
  have h16 : ((wrap H d).drop 8).take 8 = be64 d.length := wrap_len_field H d
  have h48 : (wrap H d).drop 48 = d := by
    have : wrap H d = (be64 0 ++ be64 d.length ++ H d) ++ d := by simp [wrap]
    rw [this, List.drop_left' (by simp [be64_length, hLen])]
  have h32 : ((wrap H d).drop 16).take 32 = H d := wrap_digest_field H hLen d
  unfold unwrap
  rw [hl, h8, h16, h48, h32, fromBe_be64 0 (by omega), fromBe_be64 d.length hd]
  have : ¬ (48 + d.length < 48) := by omega
  simp [this]

/-- What an accepted file looks like, read off `load` directly. -/
theorem C14_unwrap_ok_shape (H : List UInt8 → List UInt8) (b d : List UInt8) (h : unwrap H b = .ok d) :
    d = b.drop 48 ∧ 48 ≤ b.length ∧ fromBe (b.take 8) = 0 ∧ b.length = 48 + fromBe ((b.drop 8).take 8) ∧
    (b.drop 16).take 32 = H (b.drop 48) := by
  unfold unwrap at h
  split at h
  · simp at h
  · split at h
    · simp at h
    · simp only [] at h
      split at h
      · simp at h
      · split at h
        · simp at h
        · rename_i h1 h2 h3 h4
          simp only [Loaded.ok.injEq] at h
          exact ⟨h.symm, by omega, by simpa using h2, by omega, by simpa using h4⟩

/-- ONLY WHAT WAS WRITTEN IS ACCEPTED: if `load` returns a payload, the file is byte for byte the envelope of that
    payload.  Hence a file is never decoded into data other than what its bytes spell — for EVERY byte string,
    whoever produced it. -/
theorem C14_unwrap_only_wrap (H : List UInt8 → List UInt8) (b d : List UInt8) (h : unwrap H b = .ok d) :
    b = wrap H d := by
  obtain ⟨hd, hge, hv, hlen, hck⟩ := C14_unwrap_ok_shape H b d h
  have e1 : b = b.take 8 ++ b.drop 8 := (List.take_append_drop 8 b).symm
  have e2 : b.drop 8 = (b.drop 8).take 8 ++ b.drop 16 := by
    have := (List.take_append_drop 8 (b.drop 8)).symm
    simpa [List.drop_drop] using this
  have e3 : b.drop 16 = (b.drop 16).take 32 ++ b.drop 48 := by
    have := (List.take_append_drop 32 (b.drop 16)).symm
    simpa [List.drop_drop] using this
  have t8 : (b.take 8).length = 8 := by simp; omega
  have t16 : ((b.drop 8).take 8).length = 8 := by simp; omega
  have hdl : d.length = fromBe ((b.drop 8).take 8) := by rw [hd]; simp; omega
  have f1 : b.take 8 = be64 0 := by rw [← hv, be64_fromBe _ t8]
  have f2 : (b.drop 8).take 8 = be64 d.length := by rw [hdl, be64_fromBe _ t16]
  unfold wrap
  conv => lhs; rw [e1, e2, e3, hck, f1, f2, ← hd]
  simp

/-- `load` never faults: every byte string is either rejected with one of the four errors or accepted.
    (The overflow panic of the old length check is gone; this is the totality statement for the envelope.) -/
theorem C14_unwrap_total (H : List UInt8 → List UInt8) (b : List UInt8) :
    (∃ e, unwrap H b = .err e) ∨ unwrap H b = .ok (b.drop 48) := by
  unfold unwrap
  split
  · exact .inl ⟨_, rfl⟩
  · split
    · exact .inl ⟨_, rfl⟩
    · simp only []
      split
      · exact .inl ⟨_, rfl⟩
      · split
        · exact .inl ⟨_, rfl⟩
        · exact .inr rfl

/-- TRUNCATION: every proper prefix of a stored file (any length 0 ≤ n < size) is rejected. -/
theorem C14_truncation_rejected (H : List UInt8 → List UInt8) (hLen : ∀ x, (H x).length = 32) (d : List UInt8)
    (hd : d.length < 2 ^ 64) (n : Nat) (hn : n < (wrap H d).length) (d' : List UInt8) :
    unwrap H ((wrap H d).take n) ≠ .ok d' := by
  intro h
  obtain ⟨_, hge, _, hlen, _⟩ := C14_unwrap_ok_shape H _ _ h
  have hl := wrap_length H hLen d
  have hn' : ((wrap H d).take n).length = n := by simp; omega
  rw [hn'] at hge hlen
  have hfield : (((wrap H d).take n).drop 8).take 8 = be64 d.length := by
    rw [← wrap_len_field H d, List.drop_take, List.take_take]
    congr 1; omega
  rw [hfield, fromBe_be64 _ hd] at hlen
  omega

/-- EXTENSION: every file with bytes appended is rejected. -/
theorem C14_extension_rejected (H : List UInt8 → List UInt8) (hLen : ∀ x, (H x).length = 32) (d : List UInt8)
    (hd : d.length < 2 ^ 64) (s : List UInt8) (hs : s ≠ []) (d' : List UInt8) :
    unwrap H (wrap H d ++ s) ≠ .ok d' := by
  intro h
  obtain ⟨_, _, _, hlen, _⟩ := C14_unwrap_ok_shape H _ _ h
  have hl := wrap_length H hLen d
  have hfield : ((wrap H d ++ s).drop 8).take 8 = be64 d.length := by
    rw [← wrap_len_field H d, List.drop_append_of_le_length (by omega), List.take_append_of_le_length (by simp; omega)]
  rw [hfield, fromBe_be64 _ hd, List.length_append, hl] at hlen
  have : s.length ≠ 0 := fun h0 => hs (List.eq_nil_of_length_eq_zero h0)
  omega

/-- HEADER CHANGES (version, length, digest): any file that keeps the payload but differs from the stored file is
    rejected, whatever `H` is. -/
theorem C14_header_change_rejected (H : List UInt8 → List UInt8) (d b : List UInt8)
    (hpay : b.drop 48 = d) (hne : b ≠ wrap H d) (d' : List UInt8) : unwrap H b ≠ .ok d' := by
  intro h
  have hb := C14_unwrap_only_wrap H b d' h
  obtain ⟨hd', _⟩ := C14_unwrap_ok_shape H _ _ h
  rw [hpay] at hd'
  subst hd'
  exact hne hb

/-- PAYLOAD CHANGES: a file that keeps the 48 header bytes of a stored file and is accepted carries a payload with
    the same digest as the stored one. -/
theorem C14_payload_change_needs_collision (H : List UInt8 → List UInt8) (hLen : ∀ x, (H x).length = 32)
    (d b d' : List UInt8) (hhdr : b.take 48 = (wrap H d).take 48) (h : unwrap H b = .ok d') : H d' = H d := by
  have hb := C14_unwrap_only_wrap H b d' h
  have e1 : (b.drop 16).take 32 = H d' := by rw [hb]; exact wrap_digest_field H hLen d'
  have e2 : (b.drop 16).take 32 = ((wrap H d).drop 16).take 32 := by
    have h1 : (b.take 48).drop 16 = (b.drop 16).take 32 := by rw [List.drop_take]
    have h2 : ((wrap H d).take 48).drop 16 = ((wrap H d).drop 16).take 32 := by rw [List.drop_take]
    rw [← h1, ← h2, hhdr]
  rw [← e1, e2, wrap_digest_field H hLen d]

/-- … hence, if nothing else has the digest of the stored payload, every payload change is rejected. -/
theorem C14_payload_change_rejected (H : List UInt8 → List UInt8) (hLen : ∀ x, (H x).length = 32)
    (d b : List UInt8) (hcoll : ∀ x, H x = H d → x = d)
    (hhdr : b.take 48 = (wrap H d).take 48) (hne : b ≠ wrap H d) (d' : List UInt8) : unwrap H b ≠ .ok d' := by
  intro h
  have := hcoll d' (C14_payload_change_needs_collision H hLen d b d' hhdr h)
  subst this
  exact hne (C14_unwrap_only_wrap H b d' h)

/-- BIT FLIPS IN THE HEADER: each of the 384 single-bit flips of version, length or digest of a stored file is
    rejected outright — for every payload and every hash function, no assumption. -/
theorem C14_bitflip_header_rejected (H : List UInt8 → List UInt8) (hLen : ∀ x, (H x).length = 32) (d : List UInt8)
    (i : Nat) (hi : i < 384) (d' : List UInt8) : unwrap H (flipBit (wrap H d) i) ≠ .ok d' := by
  have hl := wrap_length H hLen d
  have h48 : (wrap H d).drop 48 = d := by
    have : wrap H d = (be64 0 ++ be64 d.length ++ H d) ++ d := by simp [wrap]
    rw [this, List.drop_left' (by simp [be64_length, hLen])]
  exact C14_header_change_rejected H d _ (by rw [flipBit_drop48 _ _ hi, h48]) (flipBit_ne _ _ (by omega)) d'

/-- BIT FLIPS IN THE PAYLOAD: every single-bit flip behind the header is rejected unless the flipped payload has the
    digest of the stored one (explicit no-collision hypothesis for the stored payload). -/
theorem C14_bitflip_payload_rejected (H : List UInt8 → List UInt8) (hLen : ∀ x, (H x).length = 32) (d : List UInt8)
    (hcoll : ∀ x, H x = H d → x = d) (i : Nat) (hlo : 384 ≤ i) (hi : i < 8 * (wrap H d).length) (d' : List UInt8) :
    unwrap H (flipBit (wrap H d) i) ≠ .ok d' :=
  C14_payload_change_rejected H hLen d _ hcoll (flipBit_take48 _ _ hlo) (flipBit_ne _ _ hi) d'

/-- EVERY SINGLE-BIT FLIP of a stored file, at every position, is rejected (header bits unconditionally, payload
    bits because nothing else has the stored payload's digest). -/
theorem C14_bitflip_rejected (H : List UInt8 → List UInt8) (hLen : ∀ x, (H x).length = 32) (d : List UInt8)
    (hcoll : ∀ x, H x = H d → x = d) (i : Nat) (hi : i < 8 * (wrap H d).length) (d' : List UInt8) :
    unwrap H (flipBit (wrap H d) i) ≠ .ok d' := by
  by_cases h : i < 384
  · exact C14_bitflip_header_rejected H hLen d i h d'
  · exact C14_bitflip_payload_rejected H hLen d hcoll i (by omega) hi d'


/-! ### tables translated from partition_segment.rs (break when two arms are swapped in the Rust source) -/

/-- `deserialize_type ∘ encoding_type_to_capnp = id` on every type the writer accepts. -/
theorem C14_enc_table_roundtrip (t : Enc) (c : CapEnc) (h : encodingTypeToCapnp t = some c) : deserializeType c = t :=
  enc_roundtrip t c h

/-- All eight capnp enumerants are produced by the writer (the reader's table has no unreachable row). -/
theorem C14_enc_table_onto (c : CapEnc) : ∃ t, encodingTypeToCapnp t = some c := by
  cases c
  · exact ⟨.U8, rfl⟩
  · exact ⟨.U16, rfl⟩
  · exact ⟨.U32, rfl⟩
  · exact ⟨.U64, rfl⟩
  · exact ⟨.I64, rfl⟩
  · exact ⟨.Null, rfl⟩
  · exact ⟨.F64, rfl⟩
  · exact ⟨.Bitvec, rfl⟩

/-- `CodecOp` variant → union member → variant is the identity (every variant but `Unknown` is writable). -/
theorem C14_op_tag_roundtrip (t : OpTag) : (t = .Unknown ∧ opTagToCapnp t = none) ∨
    ∃ c, opTagToCapnp t = some c ∧ capnpToOpTag c = t := by
  cases t <;> simp [opTagToCapnp, capnpToOpTag]

/-- `DataSection` variant → union member → variant is the identity. -/
theorem C14_section_tag_roundtrip (t : SecTag) : capnpToSecTag (secTagToCapnp t) = t := by
  cases t <;> rfl

/-- The hand-written arms of the model are the arms of the Rust source: `serOp` writes each variant to the union
    member the translated `serialize` table says, `deserOp` reads each member into the variant the translated
    `deserialize` table says; likewise for data sections. -/
theorem C14_model_arms_match_source :
    (∀ op c, serOp op = .ok c → opTagToCapnp op.tag = some c.tag) ∧
    (∀ op, (serOp op).isOk = false → op.tag = .Unknown ∨ ∃ t, encodingTypeToCapnp t = none) ∧
    (∀ c, (deserOp c).tag = capnpToOpTag c.tag) ∧
    (∀ s, (serSection s).tag = secTagToCapnp s.tag) ∧
    (∀ c, (deserSection c).tag = capnpToSecTag c.tag) := by
  refine ⟨?_, ?_, ?_, ?_, ?_⟩
  · intro op c h
    have hd := op_roundtrip op c h
    subst hd
    cases c <;> rfl
  · intro op _
    cases op with
    | unknown => left; rfl
    | _ => right; exact ⟨.Str, rfl⟩
  · intro c; cases c <;> rfl
  · intro s; cases s <;> rfl
  · intro c; cases c <;> rfl

/-! ### log-segment tables translated from event_buffer.rs, field copies, schemas -/

/-- `ColumnData` variant → union member → variant is the identity, every union member is produced by some variant, and
    the same for the four `AnyVal` kinds inside mixed columns (which moreover keep their meaning: Int↔i64, Float↔f64,
    Str↔string, Null↔null). -/
theorem C14_wal_tag_roundtrip :
    (∀ t, WalTables.capnpToColData (WalTables.colDataToCapnp t) = t) ∧
    (∀ c, WalTables.colDataToCapnp (WalTables.capnpToColData c) = c) ∧
    (∀ a, WalTables.capnpToAnyVal (WalTables.anyValToCapnp a) = a) ∧
    (∀ c, WalTables.anyValToCapnp (WalTables.capnpToAnyVal c) = c) ∧
    WalTables.anyValToCapnp .Int = .I64 ∧ WalTables.anyValToCapnp .Float = .F64 ∧
    WalTables.anyValToCapnp .Str = .String ∧ WalTables.anyValToCapnp .Null = .Null := by
  refine ⟨?_, ?_, ?_, ?_, rfl, rfl, rfl, rfl⟩
  · intro t; cases t <;> rfl
  · intro c; cases c <;> rfl
  · intro a; cases a <;> rfl
  · intro c; cases c <;> rfl

/-- The hand-written `serColData` / `deserColData` arms are the arms of the Rust source. -/
theorem C14_wal_arms_match_source :
    (∀ d, (serColData d).tag = WalTables.colDataToCapnp d.tag) ∧
    (∀ c, (deserColData c).tag = WalTables.capnpToColData c.tag) := by
  refine ⟨?_, ?_⟩
  · intro d; cases d <;> rfl
  · intro c; cases c <;> rfl

/-- The three schema files declare exactly the structs, unions, groups and enumerants that the message-tree types of the
    model have (a member added to, removed from or renamed in a schema breaks this). -/
theorem C14_schema_matches_model : schemaMatchesModel = true := by decide

/-- No field is copied in one direction only: for every union member and every struct, what `serialize` sets and what
    `deserialize` gets are the fields of the model's constructor (dropping a `set_is_fp32` or reading `get_len` twice
    instead of `get_offset` breaks this). -/
theorem C14_fields_copied_both_ways : fieldsCopiedBothWays = true := by decide

/-- The catalogue model mirrors what the source does with the cursor, the explicit last column, the `loaded` flag and
    the routing index. -/
theorem C14_meta_source_facts : metaSourceFacts = true := by decide

/-! ### partition segments -/

/-- Every codec op that the writer accepts is read back identically. -/
theorem C14_op_roundtrip (op : CodecOp) (c : CapOp) (h : serOp op = .ok c) : deserOp c = op := op_roundtrip op c h

/-- Every data section kind is read back identically (element for element; floats as bit patterns). -/
theorem C14_section_roundtrip (s : DataSection) : deserSection (serSection s) = s := section_roundtrip s

/-- COLUMN ROUND TRIP: for every storable column — any name, length, range, any list of codec ops without `Unknown`
    over storable encodings, any list of data sections of every kind — `deserialize (serialize c) = c`. -/
theorem C14_column_roundtrip (c : Column) (hs : Storable c) :
    ∃ t, serColumn c = .ok t ∧ deserColumn t = .ok c := by
  obtain ⟨hops, hnew⟩ := hs
  obtain ⟨ops', hser, hback⟩ := mapM_ok_of_all serOp deserOp c.codec hops op_roundtrip
  refine ⟨{ name := c.name, len := c.len, range := serRange c.range, codec := ops', data := c.data.map serSection },
    by simp [serColumn, hser, bind, Except.bind, pure, Except.pure], ?_⟩
  have hdata' : (c.data.map serSection).map deserSection = c.data := by
    simp [List.map_map, Function.comp_def, section_roundtrip]
  have hrange : deserRange (serRange c.range) = c.range := by
    cases hr : c.range with
    | none => rfl
    | some p => rfl
  have hcol : rawColumn { name := c.name, len := c.len, range := serRange c.range, codec := ops',
                          data := c.data.map serSection } = c := by
    simp only [rawColumn]
    rw [hback, hdata', hrange]
  unfold deserColumn
  rw [hcol, hnew]

/-- SEGMENT ROUND TRIP: a partition file with any number of storable columns decodes to exactly those columns. -/
theorem C14_segment_roundtrip (cols : List Column) (hs : ∀ c ∈ cols, Storable c) :
    ∃ t, serSegment cols = .ok t ∧ deserSegment t = .ok cols := by
  induction cols with
  | nil => exact ⟨[], rfl, rfl⟩
  | cons c cs ih =>
    obtain ⟨ts, h1, h2⟩ := ih (fun x hx => hs x (List.mem_cons_of_mem _ hx))
    obtain ⟨t, h3, h4⟩ := C14_column_roundtrip c (hs c (by simp))
    refine ⟨t :: ts, ?_, ?_⟩
    · unfold serSegment at h1 ⊢; rw [List.mapM_cons, h3, h1]; rfl
    · unfold deserSegment at h2 ⊢; rw [List.mapM_cons, h4, h2]; rfl

/-- The writer panics exactly on the columns excluded above (an `Unknown` op or a non-storable encoding in an op). -/
theorem C14_serialize_fails_only_on_unstorable (c : Column) (h : ∀ op ∈ c.codec, (serOp op).isOk = true) :
    ∃ t, serColumn c = .ok t := by
  obtain ⟨ops', hser, _⟩ := mapM_ok_of_all serOp deserOp c.codec h op_roundtrip
  exact ⟨_, by simp [serColumn, hser, bind, Except.bind, pure, Except.pure]; rfl⟩

/-- DESERIALISATION NEVER ALTERS A FIELD: whatever message tree is read (not only images of the writer), a column that
    comes out carries exactly the name, length, range, ops and sections the tree spells. -/
theorem C14_deser_column_faithful (t : CapColumn) (c : Column) (h : deserColumn t = .ok c) : c = rawColumn t :=
  columnNew_ok_eq _ _ h

/-- WHICH TREES FAULT: reading a column panics exactly when `Column::new` cannot type the codec — with an empty codec:
    no data section, or a first section without a basic type; otherwise: `output_type` fails (empty section list, pop
    from an empty stack, `PushDataSection` past the sections, `nullable()` / `cast_to_basic()` on a type that has
    none).  On every other tree it succeeds; log segments and catalogues (`deserWal`, `deserMeta`) have no fault
    outcome at all (they are total functions). -/
theorem C14_deser_column_faults_exactly (t : CapColumn) :
    (∃ f, deserColumn t = .error f) ↔
      (((rawColumn t).codec = [] ∧ ∀ d rest, (rawColumn t).data = d :: rest → castToBasicOk d.encodingType = false) ∨
       ((rawColumn t).codec ≠ [] ∧ ∃ f, outputType (rawColumn t).codec ((rawColumn t).data.map (·.encodingType)) = .error f)) := by
  unfold deserColumn columnNew
  cases hc : (rawColumn t).codec with
  | nil =>
    simp only [List.isEmpty_nil, if_true, true_and, ne_eq, not_true_eq_false, false_and, or_false]
    cases hd : (rawColumn t).data with
    | nil => simp
    | cons d rest =>
      cases hb : castToBasicOk d.encodingType <;> simp [hb]
  | cons op ops =>
    simp only [List.isEmpty_cons, Bool.false_eq_true, if_false, reduceCtorEq, false_and, false_or, ne_eq, not_false_eq_true, true_and]
    cases ho : outputType (op :: ops) ((rawColumn t).data.map (·.encodingType)) with
    | error f => simp [bind, Except.bind]
    | ok e => simp [bind, Except.bind, pure, Except.pure]

/-! ### log segments -/

/-- Every column-data kind of the event buffer (dense / sparse floats and ints, strings, mixed, empty) is read back
    identically; the sparse forms are `unzip`ped on write and `zip`ped on read. -/
theorem C14_coldata_roundtrip (d : ColumnData) : deserColData (serColData d) = d := colData_roundtrip d

/-- WAL ROUND TRIP: for every log segment whose hash maps have distinct keys (any id, any number of tables and
    columns, in any iteration order), `deserialize (serialize w) = w`. -/
theorem C14_wal_roundtrip (w : WalSegment) (hw : WalWf w) : deserWal (serWal w) = w := by
  obtain ⟨hk, hcols⟩ := hw
  have htab : ∀ e ∈ w.tables, deserTable (serTable e.1 e.2) = e := by
    intro e he
    obtain ⟨n, t⟩ := e
    have hc := hcols (n, t) he
    simp only [deserTable, serTable, List.map_map]
    have : (t.columns.map ((fun x => (x.1, deserColData x.2)) ∘ fun x => (x.1, serColData x.2))) = t.columns := by
      have : ((fun x : Name × CapColData => (x.1, deserColData x.2)) ∘ fun x : Name × ColumnData => (x.1, serColData x.2)) = id := by
        funext x; simp [colData_roundtrip]
      rw [this]; simp
    rw [this, mapOfList_id _ hc]
  unfold deserWal serWal
  simp only [List.map_map]
  have hmap : w.tables.map (deserTable ∘ fun x => serTable x.1 x.2) = w.tables := by
    have : ∀ (l : List (Name × TableBuffer)), (∀ e ∈ l, deserTable (serTable e.1 e.2) = e) →
        l.map (deserTable ∘ fun x => serTable x.1 x.2) = l := by
      intro l hl
      induction l with
      | nil => rfl
      | cons x xs ih =>
        simp only [List.map_cons, Function.comp]
        rw [hl x (by simp), ih (fun e he => hl e (List.mem_cons_of_mem _ he))]
    exact this _ htab
  rw [hmap, mapOfList_id _ hk]

/-- EVENT BUFFER WIRE ROUND TRIP (the bare `TableSegmentList` message of `EventBuffer::serialize` / `deserialize`, used
    by the logging client and by `WalSegment`): every table set with distinct names, with columns of all seven
    representations, is read back identically. -/
theorem C14_eventbuffer_roundtrip (tables : List (Name × TableBuffer))
    (hk : keysNodup tables) (hc : ∀ e ∈ tables, keysNodup e.2.columns) :
    deserEventBuffer (serEventBuffer tables) = tables := by
  have h := C14_wal_roundtrip ⟨0, tables⟩ ⟨hk, hc⟩
  have : deserEventBuffer (serEventBuffer tables) = (deserWal (serWal ⟨0, tables⟩)).tables := rfl
  rw [this, h]

/-- The other direction, per column representation: every well-formed wire column (sparse forms with as many indices
    as values) is the image of what it decodes to — reading loses nothing of such a message. -/
theorem C14_coldata_wire_roundtrip (c : CapColData) (hb : c.Balanced) : serColData (deserColData c) = c := by
  cases c with
  | sparseF64 is vs =>
    simp only [CapColData.Balanced] at hb
    simp only [deserColData, serColData, CapColData.sparseF64.injEq]
    exact ⟨List.map_fst_zip (by omega), List.map_snd_zip (by omega)⟩
  | sparseI64 is vs =>
    simp only [CapColData.Balanced] at hb
    simp only [deserColData, serColData, CapColData.sparseI64.injEq]
    exact ⟨List.map_fst_zip (by omega), List.map_snd_zip (by omega)⟩
  | _ => rfl

/-! ### catalogue -/

/-- CATALOGUE ROUND TRIP: for every catalogue (any two cursor values, 0..k tables, any partitions with any
    sub-partitions, distinct (table, id) pairs), `deserialize (serialize m) = normalise m`: the content — ids,
    table names, offsets, lengths, keys, sizes, last columns — is preserved exactly; the cursor is stored as
    `earliest_unflushed_wal_id`, the `loaded` flags are reset and the routing index is rebuilt. -/
theorem C14_meta_roundtrip (m : MetaStore) (hm : MetaWf m) : deserMeta (serMeta m) = normaliseMeta m := by
  unfold deserMeta serMeta normaliseMeta
  simp only [List.map_map]
  have hfun : (deserPart ∘ serPart) = normalisePart := by
    funext p
    simp only [Function.comp, deserPart, serPart, normalisePart, List.map_map]
    rfl
  rw [hfun]
  have hkeys : (m.partitions.map normalisePart).map (fun q => (q.tablename, q.id)) =
      m.partitions.map (fun q => (q.tablename, q.id)) := by
    simp [List.map_map, Function.comp_def, normalisePart]
  have := foldl_partInsert [] (m.partitions.map normalisePart) (by rw [List.nil_append, hkeys]; exact hm)
  rw [this]; simp

/-- The routing index depends only on the `last_column`s, so resetting `loaded` flags does not change it: a catalogue
    whose index was built by the flush / compaction path (`buildByLast`) routes identically after a round trip. -/
theorem C14_meta_index_stable (subs : List SubpartitionMetadata) :
    buildByLast (subs.map resetLoaded) = buildByLast subs := by
  unfold buildByLast
  have : ∀ (l : List SubpartitionMetadata) (n : Nat) (acc : List (Name × Nat)),
      ((l.map resetLoaded).zipIdx n).foldl (fun m p => btInsert m p.1.lastColumn p.2) acc =
      (l.zipIdx n).foldl (fun m p => btInsert m p.1.lastColumn p.2) acc := by
    intro l
    induction l with
    | nil => intros; rfl
    | cons s rest ih => intro n acc; simp only [List.map_cons, List.zipIdx_cons, List.foldl_cons]; exact ih _ _
  exact this subs 0 []

/-- `normaliseMeta` is a projection: what a round trip does to a catalogue, a second round trip does not do again. -/
theorem C14_meta_normalise_idempotent (m : MetaStore) : normaliseMeta (normaliseMeta m) = normaliseMeta m := by
  have hr : ∀ l : List SubpartitionMetadata, (l.map resetLoaded).map resetLoaded = l.map resetLoaded := by
    intro l; simp [List.map_map, Function.comp_def, resetLoaded]
  have hp : ∀ p, normalisePart (normalisePart p) = normalisePart p := by
    intro p; simp only [normalisePart, hr]
  simp only [normaliseMeta, List.map_map, Function.comp_def, hp]

/-- READING TWICE CHANGES NOTHING: storing what was read and reading it again yields the same catalogue. -/
theorem C14_meta_reread_stable (m : MetaStore) (hm : MetaWf m) :
    deserMeta (serMeta (deserMeta (serMeta m))) = deserMeta (serMeta m) := by
  have hwf : MetaWf (normaliseMeta m) := by
    unfold MetaWf at hm ⊢
    have : (normaliseMeta m).partitions.map (fun p => (p.tablename, p.id)) = m.partitions.map (fun p => (p.tablename, p.id)) := by
      simp [normaliseMeta, List.map_map, Function.comp_def, normalisePart]
    rw [this]; exact hm
  rw [C14_meta_roundtrip m hm, C14_meta_roundtrip _ hwf, C14_meta_normalise_idempotent]

/-- The content of a catalogue survives the round trip field by field: same partitions in the same order with the same
    id, table, offset, length, and per sub-partition the same size, key and last column. -/
theorem C14_meta_content_preserved (m : MetaStore) (hm : MetaWf m) :
    (deserMeta (serMeta m)).earliestUnflushedWalId = m.earliestUnflushedWalId ∧
    (deserMeta (serMeta m)).partitions.map (fun p => (p.id, p.tablename, p.offset, p.len,
        p.subpartitions.map fun s => (s.sizeBytes, s.key, s.lastColumn))) =
      m.partitions.map (fun p => (p.id, p.tablename, p.offset, p.len,
        p.subpartitions.map fun s => (s.sizeBytes, s.key, s.lastColumn))) := by
  rw [C14_meta_roundtrip m hm]
  refine ⟨rfl, ?_⟩
  simp [normaliseMeta, normalisePart, List.map_map, Function.comp_def, resetLoaded]

/-! ### non-vacuity -/

def exH : List UInt8 → List UInt8 := fun d => List.replicate 31 0 ++ [UInt8.ofNat d.length]
example : ∀ x, (exH x).length = 32 := by intro x; simp [exH]
example : unwrap exH (wrap exH [1, 2, 3]) = .ok [1, 2, 3] := by decide
example : unwrap exH ((wrap exH [1, 2, 3]).take 50) = .err .length := by decide
example : unwrap exH (wrap exH [1, 2, 3] ++ [0]) = .err .length := by decide
example : unwrap exH (be64 1 ++ (wrap exH [1, 2, 3]).drop 8) = .err .version := by decide
example : unwrap exH (flipBit (wrap exH [1, 2, 3]) 7) = .err .version := by decide
example : unwrap exH (flipBit (wrap exH [1, 2, 3]) 127) = .err .length := by decide
example : unwrap exH (flipBit (wrap exH [1, 2, 3]) 383) = .err .checksum := by decide
-- a payload flip under a hash that ignores content IS accepted: the no-collision hypothesis cannot be dropped
example : unwrap exH (flipBit (wrap exH [1, 2, 3]) 384) = .ok [129, 2, 3] := by decide
-- the old length check `48 + len` overflowed on this file; it is now an ordinary error
example : unwrap exH (be64 0 ++ be64 (2 ^ 64 - 48) ++ exH []) = .err .length := by decide
def exCol : Column := ⟨[99], 3, some (-5, 250), [.pushDataSection 1, .nullable, .add .U8 (-5)], [.u8 [0, 255, 7], .bitvec [5]]⟩
example : Storable exCol := ⟨by decide, rfl⟩
example : Storable ⟨[110], 4, none, [], [.null 4]⟩ := ⟨by decide, rfl⟩
example : ¬ ∃ t, serColumn ⟨[120], 1, none, [.unknown], [.u8 [1]]⟩ = .ok t := by
  intro ⟨t, h⟩; simp [serColumn, serOp, bind, Except.bind] at h
example : WalWf ⟨3, [([116], ⟨2, [([97], .sparse [(1, 5)]), ([98], .mixed [.int 1, .null])]⟩)]⟩ := by
  refine ⟨by unfold keysNodup; decide, ?_⟩
  intro e he; simp at he; subst he; unfold keysNodup; decide
example : MetaWf ⟨5, 3, [⟨0, [116], 0, 10, [⟨8, [97], [97], true⟩], [([97], 0)]⟩, ⟨1, [116], 10, 5, [], []⟩]⟩ := by
  unfold MetaWf; decide

end LM.C14
