import LocustModel.Lemmas.C16Ints
import LocustModel.Lemmas.C16EventBuffer
import LocustModel.Lemmas.C16Xor
/-
  C16 — client/server encodings are lossless.  Property theorems only.

  Part 1 (this section): integer response columns.  `roundtrip xs` is
  `Column::Int(xs).serialize_builder` followed by `Column::deserialize_reader` on the model
  (`LocustModel/Wire/ApiInts.lean`), dev-profile arithmetic.  Sequences range over all lists of i64
  of any length.
-/
namespace LM.C16
open LM LM.Wire.ApiInts

/-! ## Integer response codec -/

theorem C16_ints_width_in_i64 (w : Width) : I64_MIN ≤ w.lo ∧ w.hi ≤ I64_MAX := by
  cases w <;> simp [Width.lo, Width.hi, I64_MIN, I64_MAX]

/-- Delta layouts: whenever all first differences fit the narrow type `w` (which is what the ladder tests
    through min/max), `delta_encode::<w>` does not panic and the decoder returns the input. -/
theorem C16_ints_delta_layout (w : Width) (a : Int) (rest : List Int) (hall : AllI64 (a :: rest))
    (hb : ∀ d ∈ deltasFrom a rest, w.lo ≤ d ∧ d ≤ w.hi) :
    ∃ l, mkDelta w (a :: rest) = .ok l ∧ decode l = .ok (a :: rest) := by
  obtain ⟨hlo, hhi⟩ := C16_ints_width_in_i64 w
  obtain ⟨e1, e2⟩ := deltaLoop_rt w.lo w.hi hlo hhi rest a (fun x hx => hall x (by simp [hx])) hb
  exact ⟨.delta w a (deltasFrom a rest), by simp [mkDelta, deltaEncode, e1], by simp [decode, e2]⟩

/-- Double-delta layouts: whenever all second differences fit `w`, `double_delta_encode::<w>` does not panic
    and the decoder returns the input — also when first differences exceed i64 (both sides keep them
    modulo 2^64). -/
theorem C16_ints_ddelta_layout (w : Width) (a b : Int) (rest : List Int) (hall : AllI64 (a :: b :: rest))
    (hb : ∀ dd ∈ deltasFrom (b - a) (deltasFrom b rest), w.lo ≤ dd ∧ dd ≤ w.hi) :
    ∃ l, mkDDelta w (a :: b :: rest) = .ok l ∧ decode l = .ok (a :: b :: rest) := by
  obtain ⟨hlo, hhi⟩ := C16_ints_width_in_i64 w
  obtain ⟨e1, e2⟩ := ddLoop_rt w.lo w.hi hlo hhi rest b (b - a) (fun x hx => hall x (by simp [hx])) hb
  exact ⟨.ddelta w a b (deltasFrom (b - a) (deltasFrom b rest)),
    by simp [mkDDelta, ddEncode, e1], by simp [decode, e2]⟩

/-- Range layout: every i64 sequence with constant difference `s` decodes to itself, whatever the size of
    the products `i * s` the decoder forms. -/
theorem C16_ints_range_layout (a s : Int) (rest : List Int) (hall : AllI64 (a :: rest))
    (hc : ∀ d ∈ deltasFrom a rest, d = s) :
    decode (.range a (a :: rest).length s) = .ok (a :: rest) := by
  have ha : inI64 a := hall a (by simp)
  have hr := range_rt a s rest a 0 (by simp) hc (fun x hx => hall x (by simp [hx]))
  have h0 : wrap64 (a + wrap64 (wrap64 ((0 : Nat) : Int) * s)) = a := by
    have := wrap_range_elem a s 0 (by simpa using ha)
    simpa using this
  simp only [decode, List.length_cons, rangeDecodeFrom, h0]
  simp [hr]

/-- The i128 statistics of `determine_delta_compressability` cannot overflow on i64 input: first differences
    have magnitude < 2^64, second differences < 2^65 (so modelling them as exact integers is faithful). -/
theorem C16_ints_stats_in_i128 (a b : Int) (rest : List Int) (hall : AllI64 (a :: b :: rest)) :
    (∀ d ∈ deltasFrom a (b :: rest), I128_MIN < d ∧ d < I128_MAX) ∧
    (∀ dd ∈ deltasFrom (b - a) (deltasFrom b rest), I128_MIN < dd ∧ dd < I128_MAX) := by
  have ha : inI64 a := hall a (by simp)
  have h1 := deltas_in_i128 (b :: rest) a ha (fun x hx => hall x (by simp [hx]))
  have h2 := ddeltas_in_i128 (deltasFrom b rest) (b - a) (h1 _ (by simp [deltasFrom]))
    (fun d hd => h1 d (by simp [deltasFrom, hd]))
  unfold I128_MIN I128_MAX
  exact ⟨fun d hd => by have := h1 d hd; omega, fun d hd => by have := h2 d hd; omega⟩

/-- **`ints_layout_roundtrip`** — the integer part of C16 at full strength: every i64 column of any length
    survives `serialize_builder` → `deserialize_reader` unchanged, whichever of the eight layouts the ladder
    picks; neither side panics (dev-profile arithmetic).  This covers sequences whose adjacent differences
    overflow i64 and arithmetic progressions whose `i * step` overflows (the two former findings). -/
theorem C16_ints_layout_roundtrip (xs : List Int) (hall : AllI64 xs) : roundtrip xs = .ok xs := by
  match xs, hall with
  | [], _ => simp [roundtrip, encode, determineDelta, ladder, I128_MIN, I128_MAX, I64_MAX, Width.lo, decode]
  | [a], _ => simp [roundtrip, encode, determineDelta, ladder, I128_MIN, I128_MAX, I64_MAX, Width.lo, decode]
  | a :: b :: rest, hall =>
    have hspec := statsLoop_spec rest b (b - a)
      { minDelta := b - a, maxDelta := b - a, minDD := I128_MAX, maxDD := I128_MIN }
    have henc : encode (a :: b :: rest) = ladder (statsLoop rest b (b - a)
        { minDelta := b - a, maxDelta := b - a, minDD := I128_MAX, maxDD := I128_MIN }) (a :: b :: rest) := by
      simp [encode, determineDelta]
    revert hspec henc
    generalize statsLoop rest b (b - a)
      { minDelta := b - a, maxDelta := b - a, minDD := I128_MAX, maxDD := I128_MIN } = st
    intro hspec henc
    obtain ⟨m1, m2, _, _, hb1, hb2⟩ := hspec
    simp only at m1 m2
    -- bounds for all first differences including the first one
    have hall1 : ∀ d ∈ deltasFrom a (b :: rest), st.minDelta ≤ d ∧ d ≤ st.maxDelta := by
      intro d hd
      rcases mem_deltasFrom_cons.mp hd with rfl | hr
      · omega
      · exact hb1 d hr
    suffices hl : ∃ l, ladder st (a :: b :: rest) = .ok l ∧ decode l = .ok (a :: b :: rest) by
      obtain ⟨l, e1, e2⟩ := hl
      simp [roundtrip, henc, e1, e2]
    have hD : ∀ w : Width, st.minDelta ≥ w.lo ∧ st.maxDelta ≤ w.hi →
        ∃ l, mkDelta w (a :: b :: rest) = .ok l ∧ decode l = .ok (a :: b :: rest) := fun w hw =>
      C16_ints_delta_layout w a (b :: rest) hall (fun d hd => by have := hall1 d hd; omega)
    have hDD : ∀ w : Width, st.minDD ≥ w.lo ∧ st.maxDD ≤ w.hi →
        ∃ l, mkDDelta w (a :: b :: rest) = .ok l ∧ decode l = .ok (a :: b :: rest) := fun w hw =>
      C16_ints_ddelta_layout w a b rest hall (fun d hd => by have := hb2 d hd; omega)
    unfold ladder
    split
    · -- Range
      rename_i hr
      have hc : ∀ d ∈ deltasFrom a (b :: rest), d = st.minDelta := by
        intro d hd; have := hall1 d hd; omega
      exact ⟨_, rfl, C16_ints_range_layout a st.minDelta (b :: rest) hall hc⟩
    · split
      · rename_i hw; exact hD .w8 hw
      · split
        · rename_i hw; exact hDD .w8 hw
        · split
          · rename_i hw; exact hD .w16 hw
          · split
            · rename_i hw; exact hDD .w16 hw
            · split
              · rename_i hw; exact hD .w32 hw
              · split
                · rename_i hw; exact hDD .w32 hw
                · exact ⟨_, rfl, rfl⟩

/-- Non-vacuity, and the witnesses of the two former findings on the model of the fixed code:
    an ordinary sequence takes the double-delta-i8 branch; `[MIN, MAX, 0]` (adjacent difference 2^64-1) is sent
    plain; `[MIN, 0, MAX]` (first differences 2^63, 2^63-1; second difference -1) takes the double-delta-i8
    branch with wrapped first differences; `[MIN, -1, MAX-1]` is Range(MIN, 3, MAX) and decodes exactly. -/
example : AllI64 [5, 1000005, 2000004, 3000009] ∧
    encode [5, 1000005, 2000004, 3000009] = .ok (.ddelta .w8 5 1000005 [-1, 6]) := by
  refine ⟨?_, by rfl⟩
  intro x hx; simp at hx; rcases hx with rfl | rfl | rfl | rfl <;> decide

example : roundtrip [-9223372036854775808, 9223372036854775807, 0]
    = .ok [-9223372036854775808, 9223372036854775807, 0] := by rfl
example : encode [-9223372036854775808, 0, 9223372036854775807]
    = .ok (.ddelta .w8 (-9223372036854775808) 0 [-1]) ∧
    decode (.ddelta .w8 (-9223372036854775808) 0 [-1]) = .ok [-9223372036854775808, 0, 9223372036854775807] :=
  ⟨by rfl, by rfl⟩
example : encode [-9223372036854775808, -1, 9223372036854775806]
    = .ok (.range (-9223372036854775808) 3 9223372036854775807) ∧
    decode (.range (-9223372036854775808) 3 9223372036854775807)
      = .ok [-9223372036854775808, -1, 9223372036854775806] := ⟨by rfl, by rfl⟩

/-! ## Ingestion message (event buffer) -/
section EventBuffer
open LM.Wire.EventBuffer

/-- One column of the row API: if the values the rows supply for it are in the supported domain (all
    strings, or no string at all — NULL / absent allowed), every `push` succeeds, the server-side
    `from_column_data` succeeds on the transmitted data and row count, and the server's cells are the
    specified ones: what each row supplied, NULL where it supplied nothing, integers shown as floats iff
    the column ever received a float. -/
theorem C16_eventbuffer_column (vs : List Val) (h : Supported vs) :
    ∃ d ic, pushAll .empty 0 vs = .ok d ∧ fromColumnData d vs.length = .ok ic ∧ ic.cells = specCells vs :=
  column_cells vs h

/-- Whole table through `push_row_and_timestamp` (clock values are inputs), the wire (identity) and
    `from_column_data`: for rows with distinct column names whose columns are all in the supported domain,
    no push panics, the row count is the number of rows, the set of transmitted columns is exactly the
    set of mentioned names (incl. the implicit `timestamp`), and every column shows the specified cells. -/
theorem C16_eventbuffer_cells (rows : List (List (String × Val) × Nat))
    (hnd : ∀ rc ∈ rows, (rc.1.map (·.1)).Nodup) (hs : ∀ c, Supported (colVals c rows)) :
    ∃ t, pushRows Table.new rows = .ok t ∧ t.len = rows.length ∧
      ∀ c, (∃ ic, fromColumnData (getCol t.cols c) t.len = .ok ic ∧ ic.cells = specCells (colVals c rows)) ∧
        ((t.cols.lookup c).isSome = rows.any fun rc => (effRow rc.1 rc.2).any (fun e => e.1 == c)) := by
  have hcol := fun c => C16_eventbuffer_column (colVals c rows) (hs c)
  obtain ⟨t, e, l, p, k⟩ := pushRows_spec rows Table.new hnd
    (fun c => let ⟨d, _, h, _⟩ := hcol c; ⟨d, by simpa [getCol, Table.new] using h⟩)
  refine ⟨t, e, by simpa [Table.new] using l, fun c => ⟨?_, by simpa [Table.new] using k c⟩⟩
  obtain ⟨d, ic, h1, h2, h3⟩ := hcol c
  have hp := p c
  simp only [getCol, Table.new, List.lookup_nil, Option.getD_none] at hp
  rw [h1] at hp
  cases hp
  have hl : t.len = (colVals c rows).length := by simp [colVals, l, Table.new]
  exact ⟨ic, by rw [hl]; exact h2, h3⟩

/-- Non-vacuity: a table with an int column that has a hole and is later promoted to float, a dense string
    column and the implicit timestamp satisfies the hypotheses. -/
example :
    let rows : List (List (String × Val) × Nat) :=
      [([("a", .int 9007199254740993), ("s", .str "x61")], 7), ([("s", .str "x62")], 8),
       ([("a", .float 4607182418800017408), ("s", .str "x63")], 9)]
    (∀ rc ∈ rows, (rc.1.map (·.1)).Nodup) ∧
    (∀ c ∈ ["a", "s", "timestamp"], Supported (colVals c rows)) ∧
    specCells (colVals "a" rows) = [.float 4845873199050653696, .null, .float 4607182418800017408] := by
  refine ⟨by decide, by decide, by decide⟩

/-- Wire schema: every well-formed column representation (Empty, dense or short dense, sparse, string,
    mixed) decodes on the server to exactly the cells the client put into the message, with NULL padding
    up to the transmitted row count. -/
theorem C16_wire_cells (rows : Nat) (d : ColumnData) (cs : List Val) (h : wireCells rows d = some cs) :
    ∃ ic, fromColumnData d rows = .ok ic ∧ ic.cells = cs := wire_cells h

example : wireCells 4 (.i64 [5, 6]) = some [.int 5, .int 6, .null, .null] := by decide

/-- Outside the supported domain the model panics like the code: a string column with a missing row. -/
theorem C16_eventbuffer_sparse_string_asserts :
    pushAll .empty 0 [.null, .str "x61"] = .error .assert ∧
    (∃ d, pushAll .empty 0 [.str "x61", .null] = .ok d ∧ fromColumnData d 2 = .error .assert) := by
  exact ⟨by rfl, ⟨.str ["x61"], by rfl, by rfl⟩⟩

/-- CLIENT SIDE.  `LoggingClient::log` over any sequence of events for any number of tables, the request body
    `create_request_data` builds from the buffer, `/insert_bin`'s decode (wire = identity) and
    `from_column_data`: for events whose rows have distinct column names and whose columns are in the supported
    domain, no `log` call panics; the request contains exactly the tables that were logged to; each table
    carries the number of rows logged for it, exactly the columns its rows mention (plus the implicit
    `timestamp`), and every column shows the specified cells (`C16_eventbuffer_cells` per table — tables do
    not interfere). -/
theorem C16_client_message (evs : List Event)
    (hnd : ∀ e ∈ evs, (e.2.1.map (·.1)).Nodup)
    (hs : ∀ u c, Supported (colVals c (rowsOf u evs))) :
    ∃ b, logAll [] evs = .ok b ∧ ∀ u,
      (b.lookup u).isSome = evs.any (fun e => e.1 == u) ∧
      (getTable b u).len = (rowsOf u evs).length ∧
      ∀ c, (∃ ic, fromColumnData (getCol (getTable b u).cols c) (getTable b u).len = .ok ic ∧
              ic.cells = specCells (colVals c (rowsOf u evs))) ∧
        (((getTable b u).cols.lookup c).isSome =
          (rowsOf u evs).any fun rc => (effRow rc.1 rc.2).any (fun e => e.1 == c)) := by
  have hrows : ∀ u, ∀ rc ∈ rowsOf u evs, (rc.1.map (·.1)).Nodup := by
    intro u rc hrc
    simp only [rowsOf, List.mem_map, List.mem_filter] at hrc
    obtain ⟨e, ⟨he, _⟩, rfl⟩ := hrc
    exact hnd e he
  have htab := fun u => C16_eventbuffer_cells (rowsOf u evs) (hrows u) (hs u)
  obtain ⟨b, e, p, k⟩ := logAll_spec evs []
    (fun u => let ⟨t, ht, _⟩ := htab u; ⟨t, by simpa [getTable] using ht⟩)
  refine ⟨b, e, fun u => ?_⟩
  obtain ⟨t, ht, hl, hc⟩ := htab u
  have hp := p u
  simp only [getTable, List.lookup_nil, Option.getD_none] at hp
  rw [ht] at hp
  have hbt : getTable b u = t := by
    cases hp; rfl
  refine ⟨by simpa using k u, by rw [hbt]; exact hl, fun c => ?_⟩
  rw [hbt]; exact hc c

/-- Non-vacuity: two tables logged alternately, one with a sparse int column promoted to float. -/
example :
    let evs : List Event :=
      [("t", [("a", .int 1)], 7), ("u", [("s", .str "x61")], 8), ("t", [], 9), ("t", [("a", .float 0)], 10)]
    (∀ e ∈ evs, (e.2.1.map (·.1)).Nodup) ∧
    (∀ u ∈ ["t", "u"], ∀ c ∈ ["a", "s", "timestamp"], Supported (colVals c (rowsOf u evs))) ∧
    (rowsOf "t" evs).length = 3 := by
  refine ⟨by decide, by decide, by decide⟩

/-- CLIENT SESSION.  `log` calls interleaved with worker ticks (whose POST succeeds): the requests sent are exactly
    one per non-empty batch of events between two ticks, each built from an empty buffer
    (`buffer.tables.clear()`), and the last batch stays in the buffer — no event is lost, duplicated or moved
    across a flush boundary.  With `C16_client_message` every request decodes to its batch. -/
theorem C16_client_session (steps : List Step) : session [] steps = sessionSpec (batches [] steps) :=
  session_spec steps [] [] rfl

example : batches [] [.log ("t", [], 1), .tick, .tick, .log ("u", [], 2)] = [[("t", [], 1)], [], [("u", [], 2)]] := by
  rfl

end EventBuffer

/-! ## XOR float stream -/
section Xor
open LM.Wire.XorFloat

/-- (a) Bit-stream law of the `bitbuffer` contract used by both sides: reading `n` bits back from
    `write_int(v, n)` followed by anything yields `v mod 2^n` and leaves the rest. -/
theorem C16_xor_bitstream (n v : Nat) (rest : List Bool) :
    readInt n (writeInt v n ++ rest) = some (v % 2 ^ n, rest) := readInt_writeInt n v rest

/-- (a') Bytes: the reader sees exactly the written bits, followed by the zero padding of the last byte. -/
theorem C16_xor_bytes (bs : List Bool) : ∃ pad, unpackBits (packBits bs) = bs ++ pad :=
  unpack_pack _ bs (Nat.le_refl _)

/-- (b) One value: from related encoder/decoder states the encoder does not fault and the decoder consumes
    exactly the bits written (whatever follows), lands in a related state and returns a value that agrees
    with the input under the mask — for each of the three control-bit cases (`0`, `10`, `11`). -/
theorem C16_xor_step (maxRegret mask : Nat) (hmr : maxRegret + 63 ≤ U32) (hmask : mask < U64)
    (st : EncSt) (dst : DecSt) (hR : Rel maxRegret mask st dst) (f : Nat) (hf : f < U64) :
    ∃ bits st' dst', encStep maxRegret mask st f = .ok (bits, st') ∧
      (∀ rest, decStep dst (bits ++ rest) = .ok (dst'.last, dst', rest)) ∧
      Rel maxRegret mask st' dst' ∧ dst'.last &&& mask = f &&& mask :=
  step_ok maxRegret mask hmr hmask st dst hR f hf

/-- Float columns are bit-exact through XOR compression: for every list of 64-bit patterns (NaN payloads,
    infinities, subnormals are patterns like any other), every `max_regret` up to `2^32 - 63` (the u32
    regret counter cannot overflow; the server uses 100), `decode (encode xs regret None) = Ok(xs)` on the
    byte level, and `encode` does not panic.  `xs.length < 2^64` is the `usize → u64` header. -/
theorem C16_xor_roundtrip (xs : List Nat) (hxs : ∀ x ∈ xs, x < U64) (hlen : xs.length < U64)
    (regret : Nat) (hr : regret + 63 ≤ U32) :
    ∃ bytes, encode xs regret none = .ok bytes ∧ decode bytes = .ok xs := by
  obtain ⟨bytes, ys, e, d, hk⟩ := encode_decode xs hxs hlen regret hr none rfl
  have : ys = xs := keeps_allOnes_eq hxs hk
  exact ⟨bytes, e, this ▸ d⟩

/-- With a reduced mantissa `m ≤ 52` every decoded value keeps sign, exponent and the `m` leading mantissa
    bits of the value that was encoded: all bit positions `52 - m … 63` agree. -/
theorem C16_xor_mantissa (m : Nat) (hm : m ≤ 52) (xs : List Nat) (hxs : ∀ x ∈ xs, x < U64)
    (hlen : xs.length < U64) (regret : Nat) (hr : regret + 63 ≤ U32) :
    ∃ bytes ys, encode xs regret (some m) = .ok bytes ∧ decode bytes = .ok ys ∧
      Pointwise (fun y x => y < U64 ∧ ∀ j, 52 - m ≤ j → j < 64 → y.testBit j = x.testBit j) ys xs := by
  have hmt : mantissaTooLarge (some m) = false := by simp [mantissaTooLarge]; omega
  obtain ⟨bytes, ys, e, d, hk⟩ := encode_decode xs hxs hlen regret hr (some m) hmt
  refine ⟨bytes, ys, e, d, ?_⟩
  clear e d hxs hlen
  induction hk with
  | nil => exact Pointwise.nil
  | cons h _ ih => exact Pointwise.cons ⟨h.2, fun j h1 h2 => keeps_testBit hm h j h1 h2⟩ ih

/-- The same guarantee in mask form (`u64::MAX - ((1 << (52 - m)) - 1)`), for `None` and `Some(m ≤ 52)`. -/
theorem C16_xor_masked (xs : List Nat) (hxs : ∀ x ∈ xs, x < U64) (hlen : xs.length < U64)
    (regret : Nat) (hr : regret + 63 ≤ U32) (m : Option Nat) (hm : mantissaTooLarge m = false) :
    ∃ bytes ys, encode xs regret m = .ok bytes ∧ decode bytes = .ok ys ∧ Pointwise (Keeps (maskOf m)) ys xs :=
  encode_decode xs hxs hlen regret hr m hm

/-- Non-vacuity: the hypotheses hold for a sequence with a NaN payload, an infinity, a subnormal, a sign
    flip and a repeat, with the server's `max_regret = 100` and every mantissa setting. -/
example : (∀ x ∈ [0x7ff8000000000001, 0x7ff0000000000000, 1, 0x8000000000000001, 0x8000000000000001], x < U64) ∧
    [0x7ff8000000000001, 0x7ff0000000000000, 1, 0x8000000000000001, 0x8000000000000001].length < U64 ∧
    100 + 63 ≤ U32 ∧ (∀ m, m ≤ 52 → mantissaTooLarge (some m) = false) := by
  refine ⟨by decide, by decide, by decide, ?_⟩
  intro m hm; simp [mantissaTooLarge]; omega

/-- The documented assert: a mantissa setting above 52 panics on any non-empty input. -/
theorem C16_xor_mantissa_assert (m : Nat) (hm : 52 < m) (x : Nat) (xs : List Nat) (regret : Nat) :
    encode (x :: xs) regret (some m) = .error .assert := by
  simp [LM.Wire.XorFloat.encode, encodeBits, mantissaTooLarge, hm]

end Xor

end LM.C16
