import LocustModel.Lemmas.C16Ints
import LocustModel.Lemmas.C16EventBuffer
import LocustModel.Lemmas.C16Xor
/-
  C16 — client/server encodings are lossless.  Property theorems only.

  Part 1 (this section): integer response columns.  `roundtrip xs` is
  `Column::Int(xs).serialize_builder` followed by `Column::deserialize_reader` on the model
  (`LocustModel/Wire/ApiInts.lean`), dev-profile arithmetic.  Sequences range over all lists of i64
  of any length.
-/
namespace LM.C16
open LM LM.Wire.ApiInts

/-! ## Integer response codec -/

/-- Full-strength statement of the integer part of C16: every i64 column survives
    serialize → deserialize unchanged (in particular neither side panics). -/
def C16_ints_statement : Prop := ∀ xs : List Int, AllI64 xs → roundtrip xs = .ok xs

theorem C16_ints_width_in_i64 (w : Width) : I64_MIN ≤ w.lo ∧ w.hi ≤ I64_MAX := by
  cases w <;> simp [Width.lo, Width.hi, I64_MIN, I64_MAX]

/-- Delta layouts: whenever all first differences fit the narrow type `w` (which is what the ladder tests
    through min/max), `delta_encode::<w>` does not panic and the decoder returns the input. -/
theorem C16_ints_delta_layout (w : Width) (a : Int) (rest : List Int) (hall : AllI64 (a :: rest))
    (hb : ∀ d ∈ deltasFrom a rest, w.lo ≤ d ∧ d ≤ w.hi) :
    ∃ l, mkDelta w (a :: rest) = .ok l ∧ decode l = .ok (a :: rest) := by
  obtain ⟨hlo, hhi⟩ := C16_ints_width_in_i64 w
  obtain ⟨e1, e2⟩ := deltaLoop_rt w.lo w.hi hlo hhi rest a (fun x hx => hall x (by simp [hx])) hb
  exact ⟨.delta w a (deltasFrom a rest), by simp [mkDelta, deltaEncode, e1], by simp [decode, e2]⟩

/-- Double-delta layouts: whenever all second differences fit `w` (and the first differences fit i64),
    `double_delta_encode::<w>` does not panic and the decoder returns the input. -/
theorem C16_ints_ddelta_layout (w : Width) (a b : Int) (rest : List Int) (hall : AllI64 (a :: b :: rest))
    (hd0 : inI64 (b - a)) (hds : ∀ d ∈ deltasFrom b rest, inI64 d)
    (hb : ∀ dd ∈ deltasFrom (b - a) (deltasFrom b rest), w.lo ≤ dd ∧ dd ≤ w.hi) :
    ∃ l, mkDDelta w (a :: b :: rest) = .ok l ∧ decode l = .ok (a :: b :: rest) := by
  obtain ⟨hlo, hhi⟩ := C16_ints_width_in_i64 w
  obtain ⟨e1, e2⟩ := ddLoop_rt w.lo w.hi hlo hhi rest b (b - a)
    (fun x hx => hall x (by simp [hx])) hds hb
  exact ⟨.ddelta w a b (deltasFrom (b - a) (deltasFrom b rest)),
    by simp [mkDDelta, ddEncode, subI64, hd0, e1], by simp [decode, subI64, hd0, e2]⟩

/-- Range layout: a sequence with constant difference `s` decodes to itself provided `(len-1)·s` fits i64
    (the decoder multiplies before it adds). -/
theorem C16_ints_range_layout (a s : Int) (rest : List Int) (hall : AllI64 (a :: rest))
    (hc : ∀ d ∈ deltasFrom a rest, d = s) (hm : inI64 ((rest.length : Int) * s)) :
    decode (.range a (a :: rest).length s) = .ok (a :: rest) := by
  have ha : inI64 a := hall a (by simp)
  have h0 : inI64 (0 : Int) := by decide
  have hr := range_rt a s rest a 0 (by simp) hc (fun x hx => hall x (by simp [hx]))
    (fun j hj => mul_inI64_of_le (by omega) hm)
  simp only [decode, List.length_cons, rangeDecodeFrom, mulI64]
  simp [h0, addI64, ha, hr]

/-- Integer columns round-trip through whichever of the eight layouts the ladder picks, for every i64
    sequence outside the two open findings (an adjacent difference overflowing i64 —
    `api-delta-i64-overflow`; a constant-step sequence whose `(len-1)·step` overflows —
    `api-range-decode-mul-overflow`). -/
theorem C16_ints_roundtrip_partial (xs : List Int) (hall : AllI64 xs)
    (h1 : diffOverflows xs = false) (h2 : rangeMulOverflows xs = false) :
    roundtrip xs = .ok xs := by
  match xs, hall, h1, h2 with
  | [], _, _, _ => simp [roundtrip, encode, determineDelta, ladder, I128_MIN, I128_MAX, I64_MAX, Width.lo, decode]
  | [a], _, _, _ => simp [roundtrip, encode, determineDelta, ladder, I128_MIN, I128_MAX, I64_MAX, Width.lo, decode]
  | a :: b :: rest, hall, h1, h2 =>
    have hdel := deltas_all_inI64_of_not_overflows h1
    simp only [deltas] at hdel
    have hd0 : inI64 (b - a) := hdel _ (by simp [deltasFrom])
    have hds : ∀ d ∈ deltasFrom b rest, inI64 d := fun d hd => hdel d (by simp [deltasFrom, hd])
    obtain ⟨st, hst, m1, m2, _, _, hb1, hb2⟩ := statsLoop_spec rest b (b - a)
      { minDelta := b - a, maxDelta := b - a, minDD := I128_MAX, maxDD := I128_MIN } hds
    simp only at m1 m2
    -- bounds for all first differences including the first one
    have hall1 : ∀ d ∈ deltasFrom a (b :: rest), st.minDelta ≤ d ∧ d ≤ st.maxDelta := by
      intro d hd
      rcases mem_deltasFrom_cons.mp hd with rfl | hr
      · omega
      · exact hb1 d hr
    have henc : encode (a :: b :: rest) = ladder st (a :: b :: rest) := by
      simp [encode, determineDelta, subI64, hd0, hst]
    suffices hl : ∃ l, ladder st (a :: b :: rest) = .ok l ∧ decode l = .ok (a :: b :: rest) by
      obtain ⟨l, e1, e2⟩ := hl
      simp [roundtrip, henc, e1, e2]
    have hD : ∀ w : Width, st.minDelta ≥ w.lo ∧ st.maxDelta ≤ w.hi →
        ∃ l, mkDelta w (a :: b :: rest) = .ok l ∧ decode l = .ok (a :: b :: rest) := fun w hw =>
      C16_ints_delta_layout w a (b :: rest) hall (fun d hd => by have := hall1 d hd; omega)
    have hDD : ∀ w : Width, st.minDD ≥ w.lo ∧ st.maxDD ≤ w.hi →
        ∃ l, mkDDelta w (a :: b :: rest) = .ok l ∧ decode l = .ok (a :: b :: rest) := fun w hw =>
      C16_ints_ddelta_layout w a b rest hall hd0 hds (fun d hd => by have := hb2 d hd; omega)
    unfold ladder
    split
    · -- Range
      rename_i hr
      have hc : ∀ d ∈ deltasFrom a (b :: rest), d = st.minDelta := by
        intro d hd; have := hall1 d hd; omega
      have hs : b - a = st.minDelta := hc _ (by simp [deltasFrom])
      have hm : inI64 (((b :: rest).length : Int) * st.minDelta) := by
        have hallEq : (deltasFrom b rest).all (· == (b - a)) = true := by
          simp only [List.all_eq_true, beq_iff_eq]
          intro d hd; rw [hs]; exact hc d (by simp [deltasFrom, hd])
        simp only [rangeMulOverflows, deltas, deltasFrom, hallEq, Bool.true_and, List.length_cons] at h2
        simp only [hd0, decide_true, Bool.true_and, Bool.not_eq_false', decide_eq_true_eq] at h2
        rw [← hs]
        have e : ((rest.length + 1 + 1 : Nat) : Int) - 1 = ((rest.length + 1 : Nat) : Int) := by omega
        rw [e] at h2
        simpa using h2
      exact ⟨_, rfl, C16_ints_range_layout a st.minDelta (b :: rest) hall hc hm⟩
    · split
      · rename_i hw; exact hD .w8 hw
      · split
        · rename_i hw; exact hDD .w8 hw
        · split
          · rename_i hw; exact hD .w16 hw
          · split
            · rename_i hw; exact hDD .w16 hw
            · split
              · rename_i hw; exact hD .w32 hw
              · split
                · rename_i hw; exact hDD .w32 hw
                · exact ⟨_, rfl, rfl⟩

/-- Non-vacuity: the hypotheses hold for an ordinary sequence that takes the double-delta-i8 branch
    (and the conclusion computes). -/
example : AllI64 [5, 1000005, 2000004, 3000009] ∧ diffOverflows [5, 1000005, 2000004, 3000009] = false ∧
    rangeMulOverflows [5, 1000005, 2000004, 3000009] = false ∧
    encode [5, 1000005, 2000004, 3000009] = .ok (.ddelta .w8 5 1000005 [-1, 6]) := by
  refine ⟨?_, by decide, by decide, by rfl⟩
  intro x hx; simp at hx; rcases hx with rfl | rfl | rfl | rfl <;> decide

/-- The first exclusion is exact: whenever an adjacent difference overflows i64 the serializer panics. -/
theorem C16_ints_delta_overflow_faults (xs : List Int) (h : diffOverflows xs = true) :
    encode xs = .error .overflow := by
  match xs, h with
  | [], h => simp [diffOverflows, deltas] at h
  | [a], h => simp [diffOverflows, deltas, deltasFrom] at h
  | a :: b :: rest, h =>
    simp only [diffOverflows, deltas, List.any_eq_true, Bool.not_eq_true', decide_eq_false_iff_not] at h
    obtain ⟨d, hm, hn⟩ := h
    by_cases hd0 : inI64 (b - a)
    · rcases mem_deltasFrom_cons.mp hm with rfl | hr
      · exact absurd hd0 hn
      · simp [encode, determineDelta, subI64, hd0, statsLoop_fault rest b _ _ ⟨d, hr, hn⟩]
    · simp [encode, determineDelta, subI64, hd0]

/-- The full statement is refuted on the model by the witnesses of the two open findings
    (the same inputs panic in the real code; they head the harness corpus). -/
theorem C16_ints_refuted : ¬ C16_ints_statement := by
  intro h
  have := h [-9223372036854775808, 9223372036854775807, 0]
    (by intro x hx; simp at hx; rcases hx with rfl | rfl | rfl <;> decide)
  exact absurd this (by simp [roundtrip, encode, determineDelta, subI64, inI64, I64_MIN, I64_MAX])

theorem C16_ints_range_refuted :
    AllI64 [-9223372036854775808, -1, 9223372036854775806] ∧
    encode [-9223372036854775808, -1, 9223372036854775806]
      = .ok (.range (-9223372036854775808) 3 9223372036854775807) ∧
    decode (.range (-9223372036854775808) 3 9223372036854775807) = .error .overflow := by
  refine ⟨?_, by rfl, by rfl⟩
  intro x hx; simp at hx; rcases hx with rfl | rfl | rfl <;> decide

/-! ## Ingestion message (event buffer) -/
section EventBuffer
open LM.Wire.EventBuffer

/-- One column of the row API: if the values the rows supply for it are in the supported domain (all
    strings, or no string at all — NULL / absent allowed), every `push` succeeds, the server-side
    `from_column_data` succeeds on the transmitted data and row count, and the server's cells are the
    specified ones: what each row supplied, NULL where it supplied nothing, integers shown as floats iff
    the column ever received a float. -/
theorem C16_eventbuffer_column (vs : List Val) (h : Supported vs) :
    ∃ d ic, pushAll .empty 0 vs = .ok d ∧ fromColumnData d vs.length = .ok ic ∧ ic.cells = specCells vs :=
  column_cells vs h

/-- Whole table through `push_row_and_timestamp` (clock values are inputs), the wire (identity) and
    `from_column_data`: for rows with distinct column names whose columns are all in the supported domain,
    no push panics, the row count is the number of rows, the set of transmitted columns is exactly the
    set of mentioned names (incl. the implicit `timestamp`), and every column shows the specified cells. -/
theorem C16_eventbuffer_cells (rows : List (List (String × Val) × Nat))
    (hnd : ∀ rc ∈ rows, (rc.1.map (·.1)).Nodup) (hs : ∀ c, Supported (colVals c rows)) :
    ∃ t, pushRows Table.new rows = .ok t ∧ t.len = rows.length ∧
      ∀ c, (∃ ic, fromColumnData (getCol t.cols c) t.len = .ok ic ∧ ic.cells = specCells (colVals c rows)) ∧
        ((t.cols.lookup c).isSome = rows.any fun rc => (effRow rc.1 rc.2).any (fun e => e.1 == c)) := by
  have hcol := fun c => C16_eventbuffer_column (colVals c rows) (hs c)
  obtain ⟨t, e, l, p, k⟩ := pushRows_spec rows Table.new hnd
    (fun c => let ⟨d, _, h, _⟩ := hcol c; ⟨d, by simpa [getCol, Table.new] using h⟩)
  refine ⟨t, e, by simpa [Table.new] using l, fun c => ⟨?_, by simpa [Table.new] using k c⟩⟩
  obtain ⟨d, ic, h1, h2, h3⟩ := hcol c
  have hp := p c
  simp only [getCol, Table.new, List.lookup_nil, Option.getD_none] at hp
  rw [h1] at hp
  cases hp
  have hl : t.len = (colVals c rows).length := by simp [colVals, l, Table.new]
  exact ⟨ic, by rw [hl]; exact h2, h3⟩

/-- Non-vacuity: a table with an int column that has a hole and is later promoted to float, a dense string
    column and the implicit timestamp satisfies the hypotheses. -/
example :
    let rows : List (List (String × Val) × Nat) :=
      [([("a", .int 9007199254740993), ("s", .str "x61")], 7), ([("s", .str "x62")], 8),
       ([("a", .float 4607182418800017408), ("s", .str "x63")], 9)]
    (∀ rc ∈ rows, (rc.1.map (·.1)).Nodup) ∧
    (∀ c ∈ ["a", "s", "timestamp"], Supported (colVals c rows)) ∧
    specCells (colVals "a" rows) = [.float 4845873199050653696, .null, .float 4607182418800017408] := by
  refine ⟨by decide, by decide, by decide⟩

/-- Wire schema: every well-formed column representation (Empty, dense or short dense, sparse, string,
    mixed) decodes on the server to exactly the cells the client put into the message, with NULL padding
    up to the transmitted row count. -/
theorem C16_wire_cells (rows : Nat) (d : ColumnData) (cs : List Val) (h : wireCells rows d = some cs) :
    ∃ ic, fromColumnData d rows = .ok ic ∧ ic.cells = cs := wire_cells h

example : wireCells 4 (.i64 [5, 6]) = some [.int 5, .int 6, .null, .null] := by decide

/-- Outside the supported domain the model panics like the code: a string column with a missing row. -/
theorem C16_eventbuffer_sparse_string_asserts :
    pushAll .empty 0 [.null, .str "x61"] = .error .assert ∧
    (∃ d, pushAll .empty 0 [.str "x61", .null] = .ok d ∧ fromColumnData d 2 = .error .assert) := by
  exact ⟨by rfl, ⟨.str ["x61"], by rfl, by rfl⟩⟩

end EventBuffer

/-! ## XOR float stream -/
section Xor
open LM.Wire.XorFloat

/-- (a) Bit-stream law of the `bitbuffer` contract used by both sides: reading `n` bits back from
    `write_int(v, n)` followed by anything yields `v mod 2^n` and leaves the rest. -/
theorem C16_xor_bitstream (n v : Nat) (rest : List Bool) :
    readInt n (writeInt v n ++ rest) = some (v % 2 ^ n, rest) := readInt_writeInt n v rest

/-- (a') Bytes: the reader sees exactly the written bits, followed by the zero padding of the last byte. -/
theorem C16_xor_bytes (bs : List Bool) : ∃ pad, unpackBits (packBits bs) = bs ++ pad :=
  unpack_pack _ bs (Nat.le_refl _)

/-- (b) One value: from related encoder/decoder states the encoder does not fault and the decoder consumes
    exactly the bits written (whatever follows), lands in a related state and returns a value that agrees
    with the input under the mask — for each of the three control-bit cases (`0`, `10`, `11`). -/
theorem C16_xor_step (maxRegret mask : Nat) (hmr : maxRegret + 63 ≤ U32) (hmask : mask < U64)
    (st : EncSt) (dst : DecSt) (hR : Rel maxRegret mask st dst) (f : Nat) (hf : f < U64) :
    ∃ bits st' dst', encStep maxRegret mask st f = .ok (bits, st') ∧
      (∀ rest, decStep dst (bits ++ rest) = .ok (dst'.last, dst', rest)) ∧
      Rel maxRegret mask st' dst' ∧ dst'.last &&& mask = f &&& mask :=
  step_ok maxRegret mask hmr hmask st dst hR f hf

/-- Float columns are bit-exact through XOR compression: for every list of 64-bit patterns (NaN payloads,
    infinities, subnormals are patterns like any other), every `max_regret` up to `2^32 - 63` (the u32
    regret counter cannot overflow; the server uses 100), `decode (encode xs regret None) = Ok(xs)` on the
    byte level, and `encode` does not panic.  `xs.length < 2^64` is the `usize → u64` header. -/
theorem C16_xor_roundtrip (xs : List Nat) (hxs : ∀ x ∈ xs, x < U64) (hlen : xs.length < U64)
    (regret : Nat) (hr : regret + 63 ≤ U32) :
    ∃ bytes, encode xs regret none = .ok bytes ∧ decode bytes = .ok xs := by
  obtain ⟨bytes, ys, e, d, hk⟩ := encode_decode xs hxs hlen regret hr none rfl
  have : ys = xs := keeps_allOnes_eq hxs hk
  exact ⟨bytes, e, this ▸ d⟩

/-- With a reduced mantissa `m ≤ 52` every decoded value keeps sign, exponent and the `m` leading mantissa
    bits of the value that was encoded: all bit positions `52 - m … 63` agree. -/
theorem C16_xor_mantissa (m : Nat) (hm : m ≤ 52) (xs : List Nat) (hxs : ∀ x ∈ xs, x < U64)
    (hlen : xs.length < U64) (regret : Nat) (hr : regret + 63 ≤ U32) :
    ∃ bytes ys, encode xs regret (some m) = .ok bytes ∧ decode bytes = .ok ys ∧
      Pointwise (fun y x => y < U64 ∧ ∀ j, 52 - m ≤ j → j < 64 → y.testBit j = x.testBit j) ys xs := by
  have hmt : mantissaTooLarge (some m) = false := by simp [mantissaTooLarge]; omega
  obtain ⟨bytes, ys, e, d, hk⟩ := encode_decode xs hxs hlen regret hr (some m) hmt
  refine ⟨bytes, ys, e, d, ?_⟩
  clear e d hxs hlen
  induction hk with
  | nil => exact Pointwise.nil
  | cons h _ ih => exact Pointwise.cons ⟨h.2, fun j h1 h2 => keeps_testBit hm h j h1 h2⟩ ih

/-- The same guarantee in mask form (`u64::MAX - ((1 << (52 - m)) - 1)`), for `None` and `Some(m ≤ 52)`. -/
theorem C16_xor_masked (xs : List Nat) (hxs : ∀ x ∈ xs, x < U64) (hlen : xs.length < U64)
    (regret : Nat) (hr : regret + 63 ≤ U32) (m : Option Nat) (hm : mantissaTooLarge m = false) :
    ∃ bytes ys, encode xs regret m = .ok bytes ∧ decode bytes = .ok ys ∧ Pointwise (Keeps (maskOf m)) ys xs :=
  encode_decode xs hxs hlen regret hr m hm

/-- Non-vacuity: the hypotheses hold for a sequence with a NaN payload, an infinity, a subnormal, a sign
    flip and a repeat, with the server's `max_regret = 100` and every mantissa setting. -/
example : (∀ x ∈ [0x7ff8000000000001, 0x7ff0000000000000, 1, 0x8000000000000001, 0x8000000000000001], x < U64) ∧
    [0x7ff8000000000001, 0x7ff0000000000000, 1, 0x8000000000000001, 0x8000000000000001].length < U64 ∧
    100 + 63 ≤ U32 ∧ (∀ m, m ≤ 52 → mantissaTooLarge (some m) = false) := by
  refine ⟨by decide, by decide, by decide, ?_⟩
  intro m hm; simp [mantissaTooLarge]; omega

/-- The documented assert: a mantissa setting above 52 panics on any non-empty input. -/
theorem C16_xor_mantissa_assert (m : Nat) (hm : 52 < m) (x : Nat) (xs : List Nat) (regret : Nat) :
    encode (x :: xs) regret (some m) = .error .assert := by
  simp [LM.Wire.XorFloat.encode, encodeBits, mantissaTooLarge, hm]

end Xor

end LM.C16
