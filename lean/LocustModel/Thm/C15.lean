import LocustModel.Disk.Routing
import LocustModel.Lemmas.C15Order
import LocustModel.Lemmas.C15Route
import LocustModel.Lemmas.C15Names
import LocustModel.Lemmas.C15Store
import LocustModel.Lemmas.C15Read
/-
  C15 — each column is found in the file it was written to, under any name.
  Property theorems only.  Quantification: ALL lists of columns (any names — lists of arbitrary scalar values —, any
  reported sizes, any payload type), ALL size limits `max`, ALL partition ids, ALL table names; SHA-256∘UTF-8 is an
  arbitrary function `Hn` (collision freedom appears only as an explicit hypothesis where needed), the Unicode class
  used by `is_filesystem_safe` on non-ASCII characters is an arbitrary predicate `U`.
  The only structural hypothesis is `(names cols).Nodup`: the columns of a partition are the values of a
  `HashMap<String, _>` keyed by name.
-/
namespace LM.C15
open LM.Routing

/-- Every column is put into exactly one file: the groups, concatenated, are a permutation of the columns. -/
theorem C15_groups_partition {α} (Hn : Name → List UInt8) (U : Nat → Bool) (max : Nat) (cols : List (Col α)) :
    ((subpartition Hn U max cols).2.flatten).Perm cols := by
  have : (subpartition Hn U max cols).2 = (groupGo max (sortCols cols) [] 0).map (·.1) := rfl
  rw [this, groupGo_flatten]
  simpa using sortCols_perm cols

/-- No file is empty when the partition has a column, in particular `column_names.last().unwrap()` cannot panic. -/
theorem C15_groups_nonempty {α} (Hn : Name → List UInt8) (U : Nat → Bool) (max : Nat) (cols : List (Col α))
    (h : cols ≠ []) : ∀ g ∈ (subpartition Hn U max cols).2, g ≠ [] := by
  have hs : sortCols cols ≠ [] := by
    intro hnil
    have := (sortCols_perm cols).length_eq
    rw [hnil] at this
    exact h (List.eq_nil_of_length_eq_zero this.symm)
  intro g hg
  have : (subpartition Hn U max cols).2 = (groupGo max (sortCols cols) [] 0).map (·.1) := rfl
  rw [this, List.mem_map] at hg
  obtain ⟨p, hp, rfl⟩ := hg
  exact groupGo_top_nonempty max _ hs p hp

/-- A file holds more than `max` bytes only if it holds a single column (greedy packing honours the limit). -/
theorem C15_groups_respect_limit {α} (max : Nat) (cols : List (Col α)) :
    ∀ g ∈ groupGo max (sortCols cols) [] 0,
      g.2 = (g.1.map (·.size)).sum ∧ (g.2 ≤ max ∨ g.1.length ≤ 1) :=
  groupGo_sizes max (sortCols cols) [] 0 rfl (Or.inr (by simp))

/-- The catalogue's `last_column`s increase strictly, hence the BTreeMap built from them has one entry per file. -/
theorem C15_last_columns_strict {α} (Hn : Name → List UInt8) (U : Nat → Bool) (max : Nat) (cols : List (Col α))
    (hnd : (names cols).Nodup) :
    (((subpartition Hn U max cols).1).map (·.lastColumn)).Pairwise (fun a b => nameLt a b = true) := by
  by_cases h : ∃ g, groupGo max (sortCols cols) [] 0 = [g]
  · obtain ⟨g, hg⟩ := h
    rw [subpartition_single Hn U max cols g hg]; simp
  · have h' : ∀ g, groupGo max (sortCols cols) [] 0 ≠ [g] := fun g hg => h ⟨g, hg⟩
    rw [subpartition_multi Hn U max cols h']
    apply lasts_strict
    · exact groupGo_top_nonempty max _ (multi_cols_ne_nil max cols h')
    · rw [groupGo_flatten]; simpa using sortCols_strict cols hnd

/-- ROUTE CORRECT.  For every file (metadata entry `p.1`, column group `p.2`) of the partition and every column `c`
    stored in it, the catalogue routes the name of `c` to the key of exactly that file — for all name sets and all
    size assignments. -/
theorem C15_route_correct {α} (Hn : Name → List UInt8) (U : Nat → Bool) (max : Nat) (cols : List (Col α))
    (hnd : (names cols).Nodup) :
    ∀ p ∈ (subpartition Hn U max cols).1.zip (subpartition Hn U max cols).2,
      ∀ c ∈ p.2, route (subpartition Hn U max cols).1 c.name = some p.1.key := by
  have hstrict := C15_last_columns_strict Hn U max cols hnd
  intro p hp c hc
  rw [route_eq_routeSpec _ _ hstrict]
  by_cases h : ∃ g, groupGo max (sortCols cols) [] 0 = [g]
  · obtain ⟨g, hg⟩ := h
    rw [subpartition_single Hn U max cols g hg] at hp ⊢
    simp only [List.zip_cons_cons, List.zip_nil_right, List.mem_singleton] at hp
    subst hp
    have hmem : c ∈ sortCols cols := by
      have := groupGo_flatten max (sortCols cols) [] 0
      rw [hg] at this
      simp at this
      rw [← this]; exact hc
    simp [routeSpec, lastAll_ge (sortCols cols) c hmem]
  · have h' : ∀ g, groupGo max (sortCols cols) [] 0 ≠ [g] := fun g hg => h ⟨g, hg⟩
    rw [subpartition_multi Hn U max cols h'] at hp ⊢
    simp only [List.zip_map, List.mem_map] at hp
    obtain ⟨⟨g1, g2⟩, hg, rfl⟩ := hp
    have hgg : g1 = g2 := by
      have := List.of_mem_zip hg
      have hz : ∀ (l : List (List (Col α) × Nat)) (a b), (a, b) ∈ l.zip l → a = b := by
        intro l
        induction l with
        | nil => simp
        | cons x xs ih =>
          intro a b hab
          simp only [List.zip_cons_cons, List.mem_cons, Prod.mk.injEq] at hab
          rcases hab with ⟨rfl, rfl⟩ | hab
          · rfl
          · exact ih a b hab
      exact hz _ _ _ hg
    subst hgg
    have hg1 : g1 ∈ groupGo max (sortCols cols) [] 0 := (List.of_mem_zip hg).1
    exact routeSpec_groups Hn U _ (groupGo_top_nonempty max _ (multi_cols_ne_nil max cols h'))
      (by rw [groupGo_flatten]; simpa using sortCols_strict cols hnd) g1 hg1 c hc

/-- What the key derivation needs from SHA-256 for the keys of one partition to be distinct:
    no collision among the unsafe names, and no safe name that spells the hex digest of an unsafe one. -/
def KeysHyp (Hn : Name → List UInt8) (U : Nat → Bool) (ns : List Name) : Prop :=
  (∀ a ∈ ns, ∀ b ∈ ns, isFilesystemSafe U a = false → isFilesystemSafe U b = false → Hn a = Hn b → a = b) ∧
  (∀ a ∈ ns, ∀ b ∈ ns, isFilesystemSafe U a = true → isFilesystemSafe U b = false → a ≠ hexName (Hn b))

theorem C15_keyOf_inj (Hn : Name → List UInt8) (U : Nat → Bool) (ns : List Name) (hk : KeysHyp Hn U ns)
    (a b : Name) (ha : a ∈ ns) (hb : b ∈ ns) (h : keyOf Hn U a = keyOf Hn U b) : a = b := by
  unfold keyOf at h
  cases hsa : isFilesystemSafe U a <;> cases hsb : isFilesystemSafe U b <;> simp only [hsa, hsb] at h
  · exact hk.1 a ha b hb hsa hsb (hexName_inj _ _ h)
  · exact absurd h.symm (hk.2 b hb a ha hsb hsa)
  · exact absurd h (hk.2 a ha b hb hsa hsb)
  · simpa using h

/-- KEYS DISTINCT (hence FILE NAMES DISTINCT) within a partition, modulo the explicit SHA-256 hypothesis. -/
theorem C15_keys_distinct {α} (Hn : Name → List UInt8) (U : Nat → Bool) (max : Nat) (cols : List (Col α))
    (hnd : (names cols).Nodup) (hk : KeysHyp Hn U (names cols)) :
    (((subpartition Hn U max cols).1).map (·.key)).Nodup := by
  by_cases h : ∃ g, groupGo max (sortCols cols) [] 0 = [g]
  · obtain ⟨g, hg⟩ := h
    rw [subpartition_single Hn U max cols g hg]; simp
  · have h' : ∀ g, groupGo max (sortCols cols) [] 0 ≠ [g] := fun g hg => h ⟨g, hg⟩
    have hstrict := C15_last_columns_strict Hn U max cols hnd
    rw [subpartition_multi Hn U max cols h'] at hstrict ⊢
    -- every last_column is the name of a column
    have hmem : ∀ m ∈ (groupGo max (sortCols cols) [] 0).map (mkMeta Hn U),
        m.lastColumn ∈ names cols ∧ m.key = keyOf Hn U m.lastColumn := by
      intro m hm
      rw [List.mem_map] at hm
      obtain ⟨g, hg, rfl⟩ := hm
      refine ⟨?_, rfl⟩
      have hne := groupGo_top_nonempty max _ (multi_cols_ne_nil max cols h') g hg
      rw [mkMeta_last]
      cases hl : (g.1.map (·.name)).getLast? with
      | none => simp at hl; exact absurd hl hne
      | some l =>
        have := List.mem_of_getLast? hl
        rw [List.mem_map] at this
        obtain ⟨c, hc, rfl⟩ := this
        simp only [Option.getD_some, names]
        exact List.mem_map_of_mem (mem_groups_mem_cols max cols g hg c hc)
    rw [List.nodup_iff_pairwise_ne]
    rw [List.pairwise_map] at hstrict ⊢
    refine (List.Pairwise.and_mem.1 hstrict).imp ?_
    intro m1 m2 ⟨h1, h2, hlt⟩ heq
    obtain ⟨hm1, hk1⟩ := hmem m1 h1
    obtain ⟨hm2, hk2⟩ := hmem m2 h2
    rw [hk1, hk2] at heq
    have := C15_keyOf_inj Hn U _ hk _ _ hm1 hm2 heq
    rw [this, nameLt_irrefl] at hlt
    exact absurd hlt (by simp)

/-- File names are injective in (partition id, key): two files of a table coincide only if they belong to the same
    partition and carry the same key. -/
theorem C15_filenames_distinct (id id' : Nat) (k k' : Name)
    (h : partitionFilename id k = partitionFilename id' k') : id = id' ∧ k = k' :=
  partitionFilename_inj id id' k k' h

/-- READ BACK.  After the partition's files were written (into any pre-existing directory content `fs`), loading any
    of its columns by name yields exactly that column (name, size, payload), provided the keys are distinct
    (`C15_keys_distinct`). -/
theorem C15_read_back {α} (Hn : Name → List UInt8) (U : Nat → Bool) (max : Nat) (cols : List (Col α)) (id : Nat)
    (fs : Files α) (hnd : (names cols).Nodup)
    (hkeys : (((subpartition Hn U max cols).1).map (·.key)).Nodup) :
    ∀ c ∈ cols,
      loadColumn (writeSubpartitions fs id (subpartition Hn U max cols).1 (subpartition Hn U max cols).2) id
        (subpartition Hn U max cols).1 c.name = some c := by
  intro c hc
  -- c sits in some group
  have hperm := C15_groups_partition Hn U max cols
  have hcf : c ∈ (subpartition Hn U max cols).2.flatten := hperm.mem_iff.2 hc
  rw [List.mem_flatten] at hcf
  obtain ⟨g, hg, hcg⟩ := hcf
  -- the group is paired with a metadata entry (both lists are images of the same list of groups)
  have hlen : (subpartition Hn U max cols).1.length = (subpartition Hn U max cols).2.length := by
    by_cases h : ∃ g, groupGo max (sortCols cols) [] 0 = [g]
    · obtain ⟨g, hg⟩ := h
      rw [subpartition_single Hn U max cols g hg]; simp
    · rw [subpartition_multi Hn U max cols (fun g hg => h ⟨g, hg⟩)]; simp
  obtain ⟨i, hi, hgi⟩ := List.getElem_of_mem hg
  have hi' : i < (subpartition Hn U max cols).1.length := by omega
  have hp : ((subpartition Hn U max cols).1[i], g) ∈
      (subpartition Hn U max cols).1.zip (subpartition Hn U max cols).2 := by
    rw [List.mem_iff_getElem]
    refine ⟨i, by simp [List.length_zip]; omega, ?_⟩
    simp [List.getElem_zip, hgi]
  have hroute := C15_route_correct Hn U max cols hnd _ hp c hcg
  have hload := load_write_same fs id _ _ hkeys _ hp
  unfold loadColumn
  simp only [hroute, hload]
  -- names inside a group are pairwise distinct
  apply find_by_name g c hcg
  have hsub : g.Sublist (subpartition Hn U max cols).2.flatten := List.sublist_flatten_of_mem hg
  have hpw : ((subpartition Hn U max cols).2.flatten).Pairwise (fun a b => a.name ≠ b.name) := by
    have : (names ((subpartition Hn U max cols).2.flatten)).Nodup := by
      unfold names at hnd ⊢
      exact ((hperm.map (fun c : Col α => c.name)).nodup_iff).2 hnd
    unfold names at this
    rwa [List.nodup_iff_pairwise_ne, List.pairwise_map] at this
  exact hpw.sublist hsub

/-- LAYOUT.  The files written for a partition satisfy everything the read side relies on: every column sits in the
    file its name is routed to (same index for the key, the `loaded` flag and the file), every routed index has a
    catalogue entry and a file, and a file holds only columns of the partition, each name once. -/
theorem C15_layout {α} (Hn : Name → List UInt8) (U : Nat → Bool) (max : Nat) (cols : List (Col α)) (id : Nat)
    (hnd : (names cols).Nodup) (hkeys : (((subpartition Hn U max cols).1).map (·.key)).Nodup) :
    Layout (writeSubpartitions [] id (subpartition Hn U max cols).1 (subpartition Hn U max cols).2) id
      (subpartition Hn U max cols).1 cols := by
  have hstrict := C15_last_columns_strict Hn U max cols hnd
  have hperm := C15_groups_partition Hn U max cols
  have hlen : (subpartition Hn U max cols).1.length = (subpartition Hn U max cols).2.length := by
    by_cases h : ∃ g, groupGo max (sortCols cols) [] 0 = [g]
    · obtain ⟨g, hg⟩ := h
      rw [subpartition_single Hn U max cols g hg]; simp
    · rw [subpartition_multi Hn U max cols (fun g hg => h ⟨g, hg⟩)]; simp
  generalize hM : (subpartition Hn U max cols).1 = metas at *
  generalize hG : (subpartition Hn U max cols).2 = groups at *
  -- the pair (metas[i], groups[i]) is in the zip, hence its file holds groups[i]
  have hpair : ∀ i (hi : i < metas.length), ∃ g, groups[i]? = some g ∧
      load (writeSubpartitions [] id metas groups) (partitionFilename id metas[i].key) = some g := by
    intro i hi
    have hi' : i < groups.length := by omega
    refine ⟨groups[i], by simp [hi'], ?_⟩
    have hp : (metas[i], groups[i]) ∈ metas.zip groups := by
      rw [List.mem_iff_getElem]
      exact ⟨i, by simp [List.length_zip]; omega, by simp [List.getElem_zip]⟩
    exact load_write_same [] id metas groups hkeys _ hp
  have hsub : ∀ g ∈ groups, (∀ c ∈ g, c ∈ cols) ∧ (g.map (·.name)).Nodup := by
    intro g hg
    constructor
    · intro c hc
      exact hperm.mem_iff.1 (List.mem_flatten.2 ⟨g, hg, hc⟩)
    · have hfl : (groups.flatten.map (·.name)).Nodup := by
        unfold names at hnd
        exact ((hperm.map (fun c : Col α => c.name)).nodup_iff).2 hnd
      exact (List.Sublist.map _ (List.sublist_flatten_of_mem hg)).nodup hfl
  refine ⟨hnd, ?_, ?_, ?_⟩
  · -- present
    intro c hc
    have hcf : c ∈ groups.flatten := hperm.mem_iff.2 hc
    rw [List.mem_flatten] at hcf
    obtain ⟨g, hg, hcg⟩ := hcf
    obtain ⟨j, hj, hgj⟩ := List.getElem_of_mem hg
    have hj' : j < metas.length := by omega
    have hp : (metas[j], g) ∈ metas.zip groups := by
      rw [List.mem_iff_getElem]
      exact ⟨j, by simp [List.length_zip]; omega, by simp [List.getElem_zip, hgj]⟩
    have hroute : route metas c.name = some metas[j].key := by
      have := C15_route_correct Hn U max cols hnd
      rw [hM, hG] at this
      exact this _ hp c hcg
    rw [route_eq_bind_routeIdx] at hroute
    cases hr : routeIdx metas c.name with
    | none => rw [hr] at hroute; simp at hroute
    | some i =>
      rw [hr] at hroute
      simp only [Option.bind_some] at hroute
      have hi : i < metas.length := routeIdx_lt metas c.name i hstrict hr
      have hmi : metas[i]? = some metas[i] := by simp [hi]
      rw [hmi] at hroute
      simp only [Option.map_some, Option.some.injEq] at hroute
      -- equal keys at indices i and j: the indices coincide
      have hij : i = j := by
        have h1 : (metas.map (·.key))[i]? = (metas.map (·.key))[j]? := by
          simp [hi, hj', hroute]
        exact (List.getElem?_inj (by simpa using hi) hkeys).1 h1
      subst hij
      obtain ⟨g', hg', hl'⟩ := hpair i hi
      have : g' = g := by
        have : groups[i]? = some g := by simp [hj, hgj]
        rw [this] at hg'; exact (Option.some.inj hg').symm
      subst this
      exact ⟨i, metas[i], g', rfl, hmi, hl', hcg⟩
  · -- routed
    intro name i hr
    have hi : i < metas.length := routeIdx_lt metas name i hstrict hr
    obtain ⟨g, _, hl⟩ := hpair i hi
    exact ⟨metas[i], g, by simp [hi], hl⟩
  · -- sound
    intro i m g hm hl
    rcases load_write_content [] id metas groups _ g hl with hmem | hload
    · exact hsub g hmem
    · simp [load] at hload

/-- READS ARE STABLE.  On a freshly reopened partition, ANY sequence of column reads (present or absent names, in
    any order, repeated) and evictions answers every read with exactly the column stored under that name, or with
    "absent" when the partition has none — whatever was loaded, marked empty or evicted before.  This is the stateful
    part of the property: `Partition::get_cols` creates an `empty` handle without touching the disk when the file
    the name routes to was already loaded (or when no file can contain it), `get_or_load` marks a handle empty when
    the loaded file lacks the name, and neither shortcut ever hides a stored column or serves a neighbour. -/
theorem C15_reads_stable {α} (Hn : Name → List UInt8) (U : Nat → Bool) (max : Nat) (cols : List (Col α)) (id : Nat)
    (hnd : (names cols).Nodup) (hkeys : (((subpartition Hn U max cols).1).map (·.key)).Nodup) (ops : List ROp) :
    ∃ fin, runOps (writeSubpartitions [] id (subpartition Hn U max cols).1 (subpartition Hn U max cols).2) id
        (subpartition Hn U max cols).1 RState.init ops = .ok (specOps cols ops, fin) := by
  obtain ⟨fin, h, _⟩ := runOps_spec (C15_layout Hn U max cols id hnd hkeys) ops RState.init (inv_init _ _ _ _)
  exact ⟨fin, h⟩

/-- ABSENT IS ABSENT.  A name the partition does not contain never resolves to a column: routing may select a file
    (the one whose `last_column` is the next larger name) or none, but no file of the partition contains the name.
    Needs no hypothesis on keys or hashes.  (`fs` = [] : a fresh partition id has no older files.) -/
theorem C15_absent_is_absent {α} (Hn : Name → List UInt8) (U : Nat → Bool) (max : Nat) (cols : List (Col α))
    (id : Nat) (name : Name) (habs : name ∉ names cols) :
    loadColumn (writeSubpartitions [] id (subpartition Hn U max cols).1 (subpartition Hn U max cols).2) id
        (subpartition Hn U max cols).1 name = none := by
  unfold loadColumn
  split
  · rfl
  · split
    · rfl
    · rename_i key _ d hd
      rcases load_write_content _ _ _ _ _ _ hd with hmem | hload
      · apply find_by_name_none
        intro c hc heq
        apply habs
        have : c ∈ (subpartition Hn U max cols).2.flatten := List.mem_flatten.2 ⟨d, hmem, hc⟩
        have hc' : c ∈ cols := (C15_groups_partition Hn U max cols).mem_iff.1 this
        rw [← heq]; exact List.mem_map_of_mem hc'
      · simp [load] at hload

/-- A name that sorts after every stored column has no route at all (`lower_bound … peek_next() = None`), which is
    what makes `subpartition_has_been_loaded` answer `true` and `Partition::get_cols` create an empty handle. -/
theorem C15_after_last_no_route {α} (Hn : Name → List UInt8) (U : Nat → Bool) (max : Nat) (cols : List (Col α))
    (hnd : (names cols).Nodup) (name : Name) (hcols : cols ≠ [])
    (hgt : ∀ c ∈ cols, nameLt c.name name = true) :
    route (subpartition Hn U max cols).1 name = none := by
  rw [route_eq_routeSpec _ _ (C15_last_columns_strict Hn U max cols hnd)]
  unfold routeSpec
  have : (subpartition Hn U max cols).1.find? (fun s => nameLe name s.lastColumn) = none := by
    rw [List.find?_eq_none]
    intro m hm
    -- every last_column is a column name
    have hlast : m.lastColumn ∈ names cols := by
      by_cases h : ∃ g, groupGo max (sortCols cols) [] 0 = [g]
      · obtain ⟨g, hg⟩ := h
        rw [subpartition_single Hn U max cols g hg] at hm
        simp at hm; subst hm
        simp only
        rcases lastAll_mem (sortCols cols) [] with h0 | h1
        · -- lastAll = "" would make every name ≤ "", i.e. = "": then "" is a column name
          obtain ⟨c, cs, hcs⟩ := List.exists_cons_of_ne_nil hcols
          have hc : c ∈ cols := by rw [hcs]; simp
          have := lastAll_ge (sortCols cols) c ((mem_sortCols cols c).2 hc)
          unfold lastAll at this
          rw [h0] at this
          have hnil : c.name = [] := by
            cases hn : c.name with
            | nil => rfl
            | cons x xs => rw [hn] at this; simp [nameLe] at this
          unfold lastAll; rw [h0, ← hnil]; exact List.mem_map_of_mem hc
        · have : names (sortCols cols) = (sortCols cols).map (·.name) := rfl
          unfold lastAll
          rw [this, List.mem_map] at h1
          obtain ⟨c, hc, hce⟩ := h1
          rw [← hce]; exact List.mem_map_of_mem ((mem_sortCols cols c).1 hc)
      · have h' : ∀ g, groupGo max (sortCols cols) [] 0 ≠ [g] := fun g hg => h ⟨g, hg⟩
        rw [subpartition_multi Hn U max cols h'] at hm
        simp only [List.mem_map] at hm
        obtain ⟨g, hg, rfl⟩ := hm
        have hne := groupGo_top_nonempty max _ (multi_cols_ne_nil max cols h') g hg
        rw [mkMeta_last]
        cases hl : (g.1.map (·.name)).getLast? with
        | none => simp at hl; exact absurd hl hne
        | some l =>
          have := List.mem_of_getLast? hl
          rw [List.mem_map] at this
          obtain ⟨c, hc, rfl⟩ := this
          simp only [Option.getD_some, names]
          exact List.mem_map_of_mem (mem_groups_mem_cols max cols g hg c hc)
    unfold names at hlast
    rw [List.mem_map] at hlast
    obtain ⟨c, hc, hce⟩ := hlast
    have := not_le_of_lt (hgt c hc)
    rw [hce] at this
    simp [this]
  rw [this]; rfl

/-! ### table directories -/

/-- SANITIZE SAFE.  The directory name of any table consists of `[a-z0-9_.-]` only (so it contains no `/`, no NUL and
    is pure ASCII), is at most 255 bytes long, never starts with `.` (so it is neither `.` nor `..` nor hidden), and
    starts with `-` only in the `-<clean>-<sha256>` form; it is never empty. -/
theorem C15_sanitize_safe (Hn : Name → List UInt8) (hLen : ∀ x, (Hn x).length = 32) (t : Name) :
    (∀ c ∈ sanitize Hn t, allowed c) ∧
    (sanitize Hn t).length ≤ 255 ∧ byteLen (sanitize Hn t) = (sanitize Hn t).length ∧
    (sanitize Hn t).head? ≠ some 46 ∧
    ((sanitize Hn t).head? = some 45 → sanitize Hn t = [45] ++ cleanName t ++ [45] ++ hexName (Hn t)) ∧
    sanitize Hn t ≠ [] := by
  have hall : ∀ c ∈ sanitize Hn t, allowed c := by
    intro c hc
    unfold sanitize at hc
    simp only [] at hc
    split at hc
    · simp only [List.mem_append, List.mem_singleton] at hc
      rcases hc with ((rfl | hc) | rfl) | hc
      · unfold allowed; omega
      · exact cleanName_allowed t c hc
      · unfold allowed; omega
      · exact isHex_allowed (hexName_isHex _ c hc)
    · exact cleanName_allowed t c hc
  refine ⟨hall, ?_, byteLen_allowed _ hall, ?_, ?_, ?_⟩
  · unfold sanitize
    simp only []
    have := cleanName_length t
    split
    · simp [hexName_length, hLen]; omega
    · omega
  · unfold sanitize
    simp only []
    split
    · simp
    · intro h; exact (cleanName_head t 46 h).2 rfl
  · unfold sanitize
    simp only []
    split
    · intro _; rfl
    · intro h; exact absurd rfl (cleanName_head t 45 h).1
  · unfold sanitize
    simp only []
    split
    · simp
    · rename_i h; intro h2; exact h (Or.inr h2)

/-- Corollary in path terms: no `/` (47) and no NUL in a table directory name. -/
theorem C15_sanitize_no_separator (Hn : Name → List UInt8) (hLen : ∀ x, (Hn x).length = 32) (t : Name) :
    47 ∉ sanitize Hn t ∧ 0 ∉ sanitize Hn t := by
  have h := (C15_sanitize_safe Hn hLen t).1
  constructor
  · intro hm; have := h 47 hm; unfold allowed at this; omega
  · intro hm; have := h 0 hm; unfold allowed at this; omega

/-- SANITIZE INJECTIVE modulo SHA-256 collisions: two table names share a directory only if they are equal or their
    digests collide. -/
theorem C15_sanitize_injective (Hn : Name → List UInt8) (hLen : ∀ x, (Hn x).length = 32) (a b : Name)
    (hcoll : Hn a = Hn b → a = b) (h : sanitize Hn a = sanitize Hn b) : a = b := by
  unfold sanitize at h
  simp only [] at h
  split at h <;> split at h
  · -- both in hash form: the 64 trailing hex digits coincide
    rename_i ha hb
    have hl : (hexName (Hn a)).length = (hexName (Hn b)).length := by simp [hexName_length, hLen]
    have := (List.append_inj' h hl).2
    exact hcoll (hexName_inj _ _ this)
  · -- hash form starts with '-', a clean unchanged name never does
    rename_i ha hb
    have : (cleanName b).head? = some 45 := by rw [← h]; simp
    exact absurd rfl (cleanName_head b 45 this).1
  · rename_i ha hb
    have : (cleanName a).head? = some 45 := by rw [h]; simp
    exact absurd rfl (cleanName_head a 45 this).1
  · rename_i ha hb
    have ha' : cleanName a = a := by
      cases hd : decide (cleanName a = a) with
      | true => exact of_decide_eq_true hd
      | false => exact absurd (Or.inl (of_decide_eq_false hd)) ha
    have hb' : cleanName b = b := by
      cases hd : decide (cleanName b = b) with
      | true => exact of_decide_eq_true hd
      | false => exact absurd (Or.inl (of_decide_eq_false hd)) hb
    rw [← ha', ← hb', h]

/-- Keys never contain a path separator or NUL and are at most `max(bound of is_filesystem_safe, 64)` bytes long (a
    safe name is at most `fsSafeMaxBytes` bytes — the literal comes from the Rust source —, a digest is 64 hex digits).
    `U`: what the Unicode class does on non-ASCII scalars is irrelevant here because `/` and NUL are ASCII. -/
theorem C15_key_safe {α} (Hn : Name → List UInt8) (U : Nat → Bool) (hLen : ∀ x, (Hn x).length = 32) (max : Nat)
    (cols : List (Col α)) :
    ∀ m ∈ (subpartition Hn U max cols).1, 47 ∉ m.key ∧ 0 ∉ m.key ∧
      byteLen m.key ≤ Nat.max LM.Gen.RoutingConsts.fsSafeMaxBytes 64 := by
  have hkey : ∀ last, 47 ∉ keyOf Hn U last ∧ 0 ∉ keyOf Hn U last ∧
      byteLen (keyOf Hn U last) ≤ Nat.max LM.Gen.RoutingConsts.fsSafeMaxBytes 64 := by
    intro last
    unfold keyOf
    split
    · rename_i hs
      unfold isFilesystemSafe at hs
      simp only [Bool.and_eq_true, decide_eq_true_eq, List.all_eq_true] at hs
      refine ⟨?_, ?_, Nat.le_trans hs.1 (Nat.le_max_left _ _)⟩
      · intro hm; have := hs.2 47 hm; simp [safeChar] at this
      · intro hm; have := hs.2 0 hm; simp [safeChar] at this
    · have hh := hexName_isHex (Hn last)
      refine ⟨?_, ?_, ?_⟩
      · intro hm; have := hh 47 hm; unfold isHex at this; omega
      · intro hm; have := hh 0 hm; unfold isHex at this; omega
      · rw [byteLen_allowed _ (fun x hx => isHex_allowed (hh x hx)), hexName_length, hLen]
        exact Nat.le_max_right _ _
  intro m hm
  by_cases h : ∃ g, groupGo max (sortCols cols) [] 0 = [g]
  · obtain ⟨g, hg⟩ := h
    rw [subpartition_single Hn U max cols g hg] at hm
    simp at hm; subst hm
    refine ⟨by simp [allKey], by simp [allKey], ?_⟩
    have : byteLen allKey = 3 := by simp [allKey, byteLen, utf8Len]
    rw [this]
    exact Nat.le_trans (by decide : 3 ≤ 64) (Nat.le_max_right _ _)
  · rw [subpartition_multi Hn U max cols (fun g hg => h ⟨g, hg⟩)] at hm
    simp only [List.mem_map] at hm
    obtain ⟨g, _, rfl⟩ := hm
    exact hkey _

/-- FILE NAMES FIT.  Every partition file name `{:05}_{key}.part` of any partition id below 2^64 is a single path
    component of at most 255 bytes (20 digits + `_` + key + `.part`).  Depends on the bound of `is_filesystem_safe`
    as extracted from the source: raising it beyond 229 breaks this theorem. -/
theorem C15_filename_fits {α} (Hn : Name → List UInt8) (U : Nat → Bool) (hLen : ∀ x, (Hn x).length = 32) (max : Nat)
    (cols : List (Col α)) (id : Nat) (hid : id < 2 ^ 64) :
    ∀ m ∈ (subpartition Hn U max cols).1,
      byteLen (partitionFilename id m.key) ≤ 255 ∧ 47 ∉ partitionFilename id m.key := by
  intro m hm
  obtain ⟨h47, _, hlen⟩ := C15_key_safe Hn U hLen max cols m hm
  have hdig := pad5_isDigit _ (decDigits_isDigit id)
  have hdl : (decDigits id).length ≤ 20 :=
    decDigits_length_le 19 id (Nat.lt_of_lt_of_le hid (by decide))
  have hpl := pad5_length_le (decDigits id)
  have hk : Nat.max LM.Gen.RoutingConsts.fsSafeMaxBytes 64 = 64 := by decide
  rw [hk] at hlen
  constructor
  · unfold partitionFilename
    rw [byteLen_append, byteLen_append, byteLen_append, byteLen_digits _ hdig]
    have h1 : byteLen [95] = 1 := by simp [byteLen, utf8Len]
    have h2 : byteLen partSuffix = 5 := by simp [partSuffix, byteLen, utf8Len]
    rw [h1, h2]; omega
  · unfold partitionFilename
    intro hmem
    simp only [List.mem_append, List.mem_singleton] at hmem
    rcases hmem with ((hd | h95) | hkey) | hs
    · have := hdig 47 hd; unfold isDigit at this; omega
    · omega
    · exact h47 hkey
    · simp [partSuffix] at hs

/-- SOURCE CONSTANTS.  The textual facts extracted from the Rust source (comparison operators, character predicates,
    trimmed characters, hash-form condition and format, file-name format, whitespace removed) are the ones the
    hand-written model mirrors: `≤` in `is_filesystem_safe`, `safeChar`, `to_lowercase`, `lowerRetain`'s retained set,
    `trimStart`'s `-`/`.`, `>` in the truncation, `sanitize`'s `name != table_name || name.is_empty()` and
    `-<name>-<hex digest>`, `partitionFilename`'s `{:05}_{}.part`.  (The numeric literals 64 / 189 / 189 are used by the
    model itself, see `Disk/Routing.lean`.)  A source edit that changes any of them fails this obligation. -/
theorem C15_source_constants :
    LM.Gen.RoutingConsts.fsSafeCmp = "<=" ∧
    LM.Gen.RoutingConsts.fsSafeCharPred = "(c.is_alphanumeric()&&c.is_lowercase())||c=='_'" ∧
    LM.Gen.RoutingConsts.tableNameLowercased = true ∧
    LM.Gen.RoutingConsts.tableNameRetain = "c.is_ascii_alphanumeric()||c=='_'||c=='-'||c=='.'" ∧
    LM.Gen.RoutingConsts.tableNameTrim = [45, 46] ∧
    LM.Gen.RoutingConsts.tableNameTruncCmp = ">" ∧
    LM.Gen.RoutingConsts.tableNameHashCond = "name!=table_name||name.is_empty()" ∧
    LM.Gen.RoutingConsts.tableNameHashFormat = "-{}-{:x}" ∧
    LM.Gen.RoutingConsts.partitionFilenameFormat = "{:05}_{}.part" := by decide

/-- The directory name is never empty — full strength since fix b1e0b04 (before it, `sanitize_table_name("")` was `""`
    and the files of the empty-named table were written directly into `tables/`; finding C15-empty-table-name). -/
theorem C15_dir_nonempty (Hn : Name → List UInt8) (hLen : ∀ x, (Hn x).length = 32) (t : Name) :
    sanitize Hn t ≠ [] :=
  (C15_sanitize_safe Hn hLen t).2.2.2.2.2

/-- A table directory can never coincide with a partition file of another table's directory listing level:
    directory names contain no `/`, so `dir/file` paths of different tables differ already in their first component
    (`C15_sanitize_injective`), and a directory name is never empty (`C15_dir_nonempty`). -/
theorem C15_paths_distinct (Hn : Name → List UInt8) (hLen : ∀ x, (Hn x).length = 32) (a b : Name) (f g : Name)
    (hcoll : Hn a = Hn b → a = b) (hf : 47 ∉ f) (hg : 47 ∉ g)
    (h : sanitize Hn a ++ [47] ++ f = sanitize Hn b ++ [47] ++ g) : a = b ∧ f = g := by
  have ha := (C15_sanitize_no_separator Hn hLen a).1
  have hb := (C15_sanitize_no_separator Hn hLen b).1
  -- split both sides at the first '/'
  have key : ∀ (x y r r' : Name), 47 ∉ x → 47 ∉ y → x ++ 47 :: r = y ++ 47 :: r' → x = y ∧ r = r' := by
    intro x
    induction x with
    | nil =>
      intro y r r' _ hy hxy
      cases y with
      | nil => simpa using hxy
      | cons c cs => simp at hxy; exact absurd (by rw [← hxy.1]; simp) hy
    | cons c cs ih =>
      intro y r r' hx hy hxy
      cases y with
      | nil => simp at hxy; exact absurd (by rw [hxy.1]; simp) hx
      | cons c' cs' =>
        simp only [List.cons_append, List.cons.injEq] at hxy
        obtain ⟨e1, e2⟩ := ih cs' r r' (fun h => hx (List.mem_cons_of_mem _ h)) (fun h => hy (List.mem_cons_of_mem _ h)) hxy.2
        exact ⟨by rw [hxy.1, e1], e2⟩
  have h' : sanitize Hn a ++ 47 :: f = sanitize Hn b ++ 47 :: g := by simpa using h
  obtain ⟨e1, e2⟩ := key _ _ _ _ ha hb h'
  exact ⟨C15_sanitize_injective Hn hLen a b hcoll e1, e2⟩

/-! ### non-vacuity -/

def exCols : List (Col Unit) := [⟨[98], 10, ()⟩, ⟨[65, 49], 10, ()⟩, ⟨[100], 10, ()⟩]
def exH : Name → List UInt8 := fun n => List.replicate 31 0 ++ [UInt8.ofNat n.length]

-- the hypotheses of the main theorems hold for a concrete, non-trivial partition (one unsafe name "A1")
example : (names exCols).Nodup := by decide
example : KeysHyp exH (fun _ => false) (names exCols) := by unfold KeysHyp; decide
example := C15_route_correct exH (fun _ => false) 15 exCols (by decide)
example := C15_keys_distinct exH (fun _ => false) 15 exCols (by decide) (by unfold KeysHyp; decide)
-- read "c" (absent, routes to the file of "d", loads it), then "d" (now resident), evict it, read "d" again, read "zz" (no route)
example := C15_reads_stable exH (fun _ => false) 15 exCols 3 (by decide)
  (C15_keys_distinct exH (fun _ => false) 15 exCols (by decide) (by unfold KeysHyp; decide))
  [.get [99], .get [100], .evict [100], .get [100], .evictAll, .get [122, 122]]
-- grouping of an already sorted list under a 15-byte limit: one file per 10-byte column
example : (groupGo 15 [(⟨[65, 49], 10, ()⟩ : Col Unit), ⟨[98], 10, ()⟩, ⟨[100], 10, ()⟩] [] 0).map (·.2) = [10, 10, 10] := by
  decide
-- routing over the index: "c" goes to the file whose last column is "d"; "e" has no file
example : route [⟨[98], 10, [98]⟩, ⟨[100], 10, [100]⟩] [99] = some [100] := by decide
example : route [⟨[98], 10, [98]⟩, ⟨[100], 10, [100]⟩] [101] = none := by decide
-- "../A" is rewritten
example : sanitize (fun _ => List.replicate 32 0) [46, 46, 47, 65] ≠ [46, 46, 47, 65] := by decide
example : ∀ x, (exH x).length = 32 := by intro x; simp [exH]

end LM.C15
