import LocustModel.Query.Sql
import LocustModel.Query.Filter
import LocustModel.Lemmas.C03Order
import LocustModel.Lemmas.C03Cmp
import LocustModel.Lemmas.C03Where
import LocustModel.Lemmas.C03Example
import LocustModel.Gen.Registry
/-
  C03 — WHERE keeps exactly the rows for which the predicate is true.  (property theorems)

  `LM.Filter` is the implementation model (mirror of compile_expr / codec.rs / the comparison, boolean, null-map and
  filter operators), `LM.Sql` the specification (Kleene evaluator).  See docs/C03.md for the map Rust fn → Lean def.
-/
namespace LM.C03
open LM LM.Sql LM.Filter LM.C03L LM.C03W

/-! ### The specification itself -/

/-- Characterisation of the specification's filter: whenever it yields a result, that result is
    exactly the rows for which the predicate is true, in table order, for tables of any length. -/
theorem C03_spec_filter_exact (i2f : Int → Nat) (p : Option Expr) (rows kept : List Row)
    (h : filterRows i2f p rows = .ok kept) :
    kept = rows.filter (fun r => match keep i2f p r with | .ok b => b | _ => false) := by
  induction rows generalizing kept with
  | nil => simp [filterRows] at h; simp [h]
  | cons r rs ih =>
    simp only [filterRows] at h
    split at h
    · rename_i b t hk ht
      simp at h
      have := ih t ht
      simp only [List.filter, hk]
      cases b <;> simp_all
    · simp at h
    · simp at h
    · simp at h

/-- NULL is not true: a row on which the predicate is unknown is dropped (never an error). -/
theorem C03_null_not_true (i2f : Int → Nat) (e : Expr) (r : Row) (h : eval i2f e r = .val .null) :
    keep i2f (some e) r = .ok false := by
  simp [keep, h]

example : filterRows (fun _ => 0) (some (.cmp .lt (.col 0) (.lit (.int 5))))
    [[.int 1], [.null], [.int 9]] = .ok [[.int 1]] := by
  simp [filterRows, keep, eval, bind2, evalCmp, boolVal, cmpInt]

/-! ### Comparisons on encoded data -/

/-- The registry's lowering (GT = less_than(rhs, lhs), GTE = less_than_equals(rhs, lhs)) implements all six operators.
    `cmpVia op a b` = what the executor computes for `a op b` after that lowering. -/
theorem C03_lower_int (op : CmpOp) (a b : Int) : cmpVia op a b = cmpInt op a b := lower_int op a b

/-- Offset-encoded integer columns (`Add(t, o)`, stored value `e = v - o`, `t` ∈ u8/u16/u32 so `e` lies strictly
    inside i64): for EVERY constant `c` — inside, at the edges of, outside the column's range, or so far away that
    `c - o` is not an i64 — `encode_int` does not fault, and comparing the stored value with the encoded constant
    gives the same answer as comparing the decoded value with the constant, for all six operators and both
    operand orders. -/
theorem C03_enc_cmp_int (op : CmpOp) (t : ET) (o v c : Int)
    (hv : I64_MIN < v - o ∧ v - o < I64_MAX) :
    encodeInt [.add t o] c = .ok (satI64 (c - o))
    ∧ cmpVia op (v - o) (satI64 (c - o)) = cmpInt op v c
    ∧ cmpVia op (satI64 (c - o)) (v - o) = cmpInt op c v := enc_cmp_int op t o v c hv

example : cmpVia .lt ((3 : Int) - (-5)) (satI64 (9223372036854775807 - (-5))) = cmpInt .lt 3 9223372036854775807 :=
  (C03_enc_cmp_int .lt .u8 (-5) 3 9223372036854775807 (by unfold I64_MIN I64_MAX; omega)).2.1

/-- Cast-encoded integer columns (`ToI64(t)`): the constant is used as is. -/
theorem C03_enc_cmp_int_cast (t : ET) (c : Int) : encodeInt [.toI64 t] c = .ok c := rfl

/-- The stored values of a narrow (u8/u16/u32) offset column satisfy the hypothesis of `C03_enc_cmp_int`. -/
theorem C03_narrow_inside_i64 (e : Int) (h : inU 8 e ∨ inU 16 e ∨ inU 32 e) : I64_MIN < e ∧ e < I64_MAX :=
  narrow_inside_i64 e h

/-- Dictionary-encoded string columns (sorted dictionary `d`, stored value = position of the string): for every
    constant `c` — an entry of the dictionary, or absent and lying before the first / between two / after the last
    entry — comparing the stored index with `InverseDictLookup(c, rounding(op, side))` gives the same answer as
    comparing the strings, for all six operators and both operand orders. -/
theorem C03_enc_cmp_str (op : CmpOp) (d : List Bytes) (hs : SortedDict d) (s c : Bytes) (hm : s ∈ d) :
    cmpVia op (dictIndex d (.str s)) (inverseDictLookup d (dictConstRounding op false) c) = cmpBytes op s c
    ∧ cmpVia op (inverseDictLookup d (dictConstRounding op true) c) (dictIndex d (.str s)) = cmpBytes op c s :=
  enc_cmp_str op d hs s c hm

example : cmpVia .lt (dictIndex [[98], [100], [102]] (.str [98]))
    (inverseDictLookup [[98], [100], [102]] (dictConstRounding .lt false) [99]) = cmpBytes .lt [98] [99] :=
  (C03_enc_cmp_str .lt [[98], [100], [102]] (by simp [SortedDict, bytesLt]) [98] [99] (by simp)).1

/-! ### NULL handling of comparisons -/

/-- The null map of a comparison result: NULL exactly where an operand is NULL (CombineNullMaps = bitwise and of the
    presence maps; PropagateNullability when only one side is nullable; none when neither is). -/
theorem C03_null_cmp (op : CmpOp) (a b : Data) (lp rp : Option (List Bool)) (poison : Bool) :
    (cmpExec op a b lp rp poison).present = combinePresent lp rp
    ∧ (∀ p q : List Bool, combinePresent (some p) (some q) = some (List.zipWith (· && ·) p q))
    ∧ (∀ p : List Bool, combinePresent (some p) none = some p ∧ combinePresent none (some p) = some p) := by
  refine ⟨?_, fun _ _ => rfl, fun _ => ⟨rfl, rfl⟩⟩
  unfold cmpExec; split <;> rfl

/-- Filter / NullableFilter keep exactly the rows whose filter cell is TRUE (`cellsTrue`: present and non-zero): a NULL
    cell (present = false) never keeps its row, whatever the data byte under it is.  All lengths.
    (`idxTrue bs k` = positions of `true` in `bs`, numbered from `k`.) -/
theorem C03_filter_apply (bits : List Bool) (present : Option (List Bool)) (k : Nat) :
    keptIdx bits present k = idxTrue (cellsTrue bits present) k := filter_apply bits present k

/-- Projecting the kept positions yields exactly the rows the row-level predicate keeps, in table order. -/
theorem C03_filter_rows (rows : List Row) (keep : Row → Bool) (k : Nat) (pre : List Row) (hk : pre.length = k) :
    (idxTrue (rows.map keep) k).map (fun i => (pre ++ rows).getD i []) = rows.filter keep := by
  induction rows generalizing k pre with
  | nil => rfl
  | cons r rs ih =>
    simp only [List.map_cons, idxTrue, List.filter_cons]
    have hstep := ih (k + 1) (pre ++ [r]) (by simp [hk])
    simp only [List.append_assoc, List.singleton_append] at hstep
    by_cases hr : keep r = true
    · simp only [hr, if_true, List.map_cons, hstep]
      congr 1
      subst hk
      simp
    · have hr' : keep r = false := by simpa using hr
      simp only [hr', Bool.false_eq_true, if_false]
      exact hstep

example : keptIdx [true, true, false, true] (some [true, false, true, true]) 0 = [0, 3] := by decide

/-! ### AND / OR -/

/-- One cell of a (possibly nullable) boolean buffer: (data bit, known). `none` = NULL. -/
def cellOf (x : Bool × Bool) : Option Bool := if x.2 then some x.1 else none

def cellVal : Option Bool → Val
  | none => .null
  | some b => .int (if b then 1 else 0)

/-- The engine's AND / OR on one row (`boolNode`): the data bytes are and-ed / or-ed, the result is known
    according to `KleeneNullMap` (kleene_null_map.rs). -/
def engineCell (isOr : Bool) (x y : Bool × Bool) : Bool × Bool :=
  (if isOr then x.1 || y.1 else x.1 && y.1, kleeneKnown isOr x.2 x.1 y.2 y.1)

/-- `boolNode` computes `engineCell` cell by cell (both operands boolean buffers). -/
theorem C03_and_or_model (isOr : Bool) (l r : Out) (hl : l.ty.decoded = .boolean) (hr : r.ty.decoded = .boolean) :
    ∃ out, boolNode isOr l r = .ok out
      ∧ out.data = .bits (if isOr then orBits (bitsOf l.data) (bitsOf r.data) else andBits (bitsOf l.data) (bitsOf r.data))
      ∧ out.present = (if l.present.isSome || r.present.isSome
          then some (kleenePresent isOr (bitsOf l.data) l.present (bitsOf r.data) r.present) else none)
      ∧ out.ty.decoded = .boolean := by
  simp [boolNode, hl, hr, boolTy]

/-- AND, OR combine as usual: for ALL operand cells — TRUE, FALSE, NULL, and whatever data byte lies under a NULL —
    the engine's AND / OR cell is exactly the Kleene AND / OR of the operand cells
    (`TRUE OR NULL = TRUE`, `FALSE AND NULL = FALSE`, otherwise NULL if an operand is NULL). -/
theorem C03_and_or (x y : Bool × Bool) :
    evalAnd (cellVal (cellOf x)) (cellVal (cellOf y)) = .val (cellVal (cellOf (engineCell false x y)))
    ∧ evalOr (cellVal (cellOf x)) (cellVal (cellOf y)) = .val (cellVal (cellOf (engineCell true x y))) := by
  obtain ⟨a, ka⟩ := x
  obtain ⟨b, kb⟩ := y
  cases a <;> cases ka <;> cases b <;> cases kb <;> exact ⟨rfl, rfl⟩

/-- `NULL OR x` with a Null-typed operand (column absent from the partition): TRUE where x is TRUE, NULL elsewhere. -/
theorem C03_or_null_operand (x : Bool × Bool) :
    evalOr .null (cellVal (cellOf x)) = .val (cellVal (cellOf (x.1, kleeneKnown true x.2 x.1 false false)))
    ∧ evalOr (cellVal (cellOf x)) .null = .val (cellVal (cellOf (x.1, kleeneKnown true x.2 x.1 false false))) := by
  obtain ⟨a, ka⟩ := x
  cases a <;> cases ka <;> exact ⟨rfl, rfl⟩

example : cellOf (engineCell true (true, false) (true, true)) = some true   -- NULL (garbage data 1) OR TRUE = TRUE
    ∧ cellOf (engineCell true (true, false) (false, true)) = none           -- NULL (garbage data 1) OR FALSE = NULL
    ∧ cellOf (engineCell false (true, false) (false, true)) = some false := by  -- NULL AND FALSE = FALSE
  decide

/-! ### The assembled theorem -/

/-- WHERE keeps exactly the rows for which the predicate is true.
    For every partition (column images of any of the modelled encodings: plain / cast / offset-encoded integers,
    plain / dictionary-encoded strings, nullable or not, or absent), every table length and every predicate `e` of the
    supported fragment `Frag` — comparisons (all six operators, either operand order) of a column with ANY constant of
    its type, int/int and string/string column pairs, IS [NOT] NULL, and AND / OR / NOT trees of any depth — whenever
    the engine model answers with rows (`implFilter … = ok idx`; error values delimit the fragment, e.g. NOT of a
    nullable operand), these are exactly the positions of the rows the Kleene specification keeps, in table order.
    Proof: induction on the predicate with the invariant `C03W.Inv` (cell-exact for non-nullable buffers, TRUE-exact for
    nullable ones), using `C03_enc_cmp_int`, `C03_enc_cmp_str`, `C03_null_cmp`, `C03_and_or`, `C03_filter_apply`. -/
theorem C03_where (fp : FP) (part : Part) (rows : List Row) (hlen : part.len = rows.length) (e : Expr)
    (hf : Frag fp part rows e) (idx : List Nat) (h : implFilter fp part e = .ok idx) :
    ∃ keep : Row → Bool, idx = idxTrue (rows.map keep) 0
      ∧ filterRows fp.i2f (some e) rows = .ok (rows.filter keep) :=
  where_of_frag fp part rows hlen e hf idx h


/-- Constant predicates (`WHERE 0`, `WHERE 1`, …; a query without WHERE clause has the filter `1`): the integer constant
    0 keeps no row, every other integer keeps all rows — in the engine model (`where_filter`) and in the specification. -/
theorem C03_where_const (fp : FP) (part : Part) (rows : List Row) (c : Int) :
    implFilter fp part (.lit (.int c)) = .ok (if c = 0 then [] else List.range part.len)
    ∧ filterRows fp.i2f (some (.lit (.int c))) rows = .ok (if c = 0 then [] else rows) := by
  constructor
  · by_cases hc : c = 0 <;> simp [implFilter, compile, whereFilter, scalarTy, hc]
  · induction rows with
    | nil => by_cases hc : c = 0 <;> simp [filterRows, hc]
    | cons r rs ih =>
      by_cases hc : c = 0
      · subst hc; simp at ih; simp [filterRows, keep, eval, ih]
      · simp [hc] at ih; simp [filterRows, keep, eval, ih, hc]

example : implFilter Ex.fp Ex.part (.lit (.int 0)) = .ok [] ∧ implFilter Ex.fp Ex.part (.lit (.int 1)) = .ok [0, 1, 2] :=
  ⟨(C03_where_const Ex.fp Ex.part Ex.rows 0).1, (C03_where_const Ex.fp Ex.part Ex.rows 1).1⟩

/-- The hypotheses of `C03_where` are satisfiable, and its conclusion is the expected one on the example:
    rows 0 and 2 are kept (row 1 has `c1` NULL), by the engine model and by the specification. -/
example : ∃ keep : Row → Bool, [0, 2] = idxTrue (Ex.rows.map keep) 0
    ∧ filterRows Ex.fp.i2f (some Ex.pred) Ex.rows = .ok (Ex.rows.filter keep) :=
  C03_where Ex.fp Ex.part Ex.rows rfl Ex.pred Ex.frag [0, 2] Ex.impl

/-- Regression witness of the former finding C03-and-or-null (DESIGN §8 #2): on the example partition (c1 = 3, NULL, 100)
    `c1 < 10 OR id > 0` keeps all three rows — row 1 has `NULL OR TRUE = TRUE` — in the engine model and in the
    specification (before fix of the AND/OR null maps the model, like the real code, kept rows 0 and 2 only). -/
theorem C03_or_null_witness :
    implFilter Ex.fp Ex.part (.or (.cmp .lt (.col 1) (.lit (.int 10))) (.cmp .gt (.col 0) (.lit (.int 0)))) = .ok [0, 1, 2]
    ∧ filterRows Ex.fp.i2f (some (.or (.cmp .lt (.col 1) (.lit (.int 10))) (.cmp .gt (.col 0) (.lit (.int 0))))) Ex.rows
        = .ok Ex.rows := by
  constructor
  · simp only [implFilter, compile, Ex.ref0, Ex.ref1]
    rfl
  · rfl

/-! ### Panics -/

/-- A predicate of the fragment never makes the engine model panic: `encode_int` (saturating), `encode_str`,
    `int_to_float_cast(..).unwrap()`, the comparison / boolean / null-map / filter operators and `where_filter` yield a
    result or an error value, for every partition and table length. -/
theorem C03_no_panic (fp : FP) (part : Part) (rows : List Row) (hlen : part.len = rows.length) (e : Expr)
    (hf : Frag fp part rows e) : implFilter fp part e ≠ .error .panic :=
  frag_no_panic fp part rows hlen e hf

/-- Regression witness of the former finding C03-shared-str-const-panic (executor stage partitioner, fixed by 186ef0c):
    `c2 = 'a' AND c1 <> 'a'` with `c1` dictionary-coded and `c2` packed is inside the fragment and answers with (no)
    rows, as the specification demands; the same query heads the harness corpus (`corpus:shared-literal`), where the real
    code used to answer Canceled. -/
theorem C03_shared_literal_witness :
    Frag Ex2.fp Ex2.part Ex2.rows Ex2.pred ∧ implFilter Ex2.fp Ex2.part Ex2.pred = .ok []
    ∧ filterRows Ex2.fp.i2f (some Ex2.pred) Ex2.rows = .ok [] :=
  ⟨Ex2.frag, Ex2.impl, rfl⟩

/-! ### Translation tie: the hand-written registry equals the table extracted from query_plan.rs on this run -/

namespace RegTie
open LM.Gen.Registry (Entry Factory Func entries)

def funcOf : CmpOp → Func
  | .lt => .lT | .le => .lTE | .gt => .gT | .ge => .gTE | .eq => .equals | .ne => .notEquals

def btOf : LM.Gen.Registry.BT → Option Filter.BT
  | .integer => some .integer | .float => some .float | .string => some .string | .null => some .null
  | .boolean => some .boolean | .other => none

/-- Name of the executor operator and the source text of the factory bodies the model's `lower` / `castOperands` assume. -/
def opName : XOp → String
  | .lt => "less_than" | .le => "less_than_equals" | .eq => "equals" | .ne => "not_equals"

def callText (op : CmpOp) : String :=
  if (lower op).2 then s!"qp.{opName (lower op).1}(rhs, lhs)" else s!"qp.{opName (lower op).1}(lhs, rhs)"

/-- The factory the model assumes for a declaration of comparison function `op`. -/
def factoryOk (op : CmpOp) (d : Decl) (f : Factory) : Bool :=
  match d with
  | .same _ => if (lower op).2 then f == .other (callText op) else f == .call (opName (lower op).1)
  | .floatInt => f == .other ("let rhs = int_to_float_cast(qp, rhs).unwrap(); " ++ callText op)
  | .intFloat => f == .other ("let lhs = int_to_float_cast(qp, lhs).unwrap(); " ++ callText op)
  | .fwdLeft => f == .forwardLeft
  | .fwdRight => f == .forwardRight

/-- Does the extracted entry list agree, entry by entry (signature, encoding_invariance, factory), with the model's? -/
def entriesAgree (op : CmpOp) : List Entry → List ((Filter.BT × Filter.BT) × Decl) → Bool
  | [], [] => true
  | e :: es, ((l, r), d) :: ms =>
      (match e.sigs with
        | [(a, b)] => btOf a == some l && btOf b == some r
        | _ => false)
      && e.encodingInvariance == d.invariant && factoryOk op d e.factory && entriesAgree op es ms
  | _, _ => false
end RegTie

/-- FUNCTION2_REGISTRY as extracted from the Rust source by tools/extract.py on this run (Gen/Registry.lean) is, for
    each of the six comparison functions, exactly the table the model uses: same entries in the same order (first match
    wins), same signatures, same encoding_invariance flags, and factories that call the operator the model's `lower`
    assumes with the operand order it assumes (GT / GTE swapped), casting the integer side for the mixed signatures,
    forwarding the NULL side for the NULL signatures. -/
theorem C03_registry_translated (op : CmpOp) :
    RegTie.entriesAgree op (LM.Gen.Registry.entries (RegTie.funcOf op)) (registry op) = true := by
  cases op <;> decide

end LM.C03
