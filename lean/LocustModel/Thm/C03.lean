import LocustModel.Query.Sql
/-
  C03 — WHERE keeps exactly the rows for which the predicate is true.  (property theorems)
-/
namespace LM.C03
open LM LM.Sql

/-- Characterisation of the specification's filter: whenever it yields a result, that result is
    exactly the rows for which the predicate is true, in table order, for tables of any length. -/
theorem C03_spec_filter_exact (i2f : Int → Nat) (p : Option Expr) (rows kept : List Row)
    (h : filterRows i2f p rows = .ok kept) :
    kept = rows.filter (fun r => match keep i2f p r with | .ok b => b | _ => false) := by
  induction rows generalizing kept with
  | nil => simp [filterRows] at h; simp [h]
  | cons r rs ih =>
    simp only [filterRows] at h
    split at h
    · rename_i b t hk ht
      simp at h
      have := ih t ht
      simp only [List.filter, hk]
      cases b <;> simp_all
    · simp at h
    · simp at h
    · simp at h

/-- NULL is not true: a row on which the predicate is unknown is dropped (never an error). -/
theorem C03_null_not_true (i2f : Int → Nat) (e : Expr) (r : Row) (h : eval i2f e r = .val .null) :
    keep i2f (some e) r = .ok false := by
  simp [keep, h]

/-- Kleene laws the specification's connectives satisfy (the "combine as usual" of the property). -/
theorem C03_or_true_absorbs (v : Val) (hv : v = .null ∨ ∃ i, v = .int i) :
    evalOr (.int 1) v = boolVal true ∧ evalOr v (.int 1) = boolVal true := by
  rcases hv with h | ⟨i, h⟩ <;> subst h <;> simp [evalOr, boolVal]

theorem C03_and_false_absorbs (v : Val) (hv : v = .null ∨ ∃ i, v = .int i) :
    evalAnd (.int 0) v = boolVal false ∧ evalAnd v (.int 0) = boolVal false := by
  rcases hv with h | ⟨i, h⟩
  · subst h; exact ⟨rfl, rfl⟩
  · subst h
    refine ⟨rfl, ?_⟩
    by_cases hi : i = 0
    · subst hi; rfl
    · unfold evalAnd; split <;> simp_all

example : filterRows (fun _ => 0) (some (.cmp .lt (.col 0) (.lit (.int 5))))
    [[.int 1], [.null], [.int 9]] = .ok [[.int 1]] := by
  simp [filterRows, keep, eval, bind2, evalCmp, boolVal, cmpInt]

end LM.C03
