/-
  Primitive definitions shared by all models: machine-integer ranges, Rust integer
  semantics in the dev/test profile (overflow-checks on), fault kinds.
  Import-free (core only) so that the line-protocol drivers link as `lean_exe`.
-/
namespace LM

def I64_MIN : Int := -9223372036854775808
def I64_MAX : Int :=  9223372036854775807
def U64_MAX : Nat := 18446744073709551615

/-- `x` is representable as a Rust `i64`. -/
def inI64 (x : Int) : Prop := I64_MIN ≤ x ∧ x ≤ I64_MAX
instance (x : Int) : Decidable (inI64 x) := by unfold inI64; exact inferInstance

/-- `x` is representable as an unsigned `bits`-bit integer. -/
def inU (bits : Nat) (x : Int) : Prop := 0 ≤ x ∧ x < 2 ^ bits
instance (bits : Nat) (x : Int) : Decidable (inU bits x) := by unfold inU; exact inferInstance

/-- Two's-complement wrap to 64 bits (Rust `wrapping_*`, and `overflowing_*`.0). -/
def wrap64 (x : Int) : Int := (x + 9223372036854775808) % 18446744073709551616 - 9223372036854775808

theorem wrap64_id {x : Int} (h : inI64 x) : wrap64 x = x := by
  unfold inI64 I64_MIN I64_MAX at h; unfold wrap64; omega

theorem wrap64_inI64 (x : Int) : inI64 (wrap64 x) := by
  unfold inI64 I64_MIN I64_MAX wrap64; omega

/-- Panic kinds of the dev profile that the models distinguish. -/
inductive Fault where
  | overflow      -- "attempt to add/subtract/multiply with overflow", "remainder with overflow"
  | index         -- index out of bounds / slice out of range
  | unwrap        -- unwrap()/expect() on None/Err
  | unreachable   -- unreachable!/unimplemented!/panic! in a match arm
  | todo
  | assert
  deriving DecidableEq, Repr, Inhabited

def Fault.toString : Fault → String
  | .overflow => "overflow" | .index => "index" | .unwrap => "unwrap"
  | .unreachable => "unreachable" | .todo => "todo" | .assert => "assert"
instance : ToString Fault := ⟨Fault.toString⟩

/-- Rust `a + b` on i64 in the dev profile. -/
def addI64 (a b : Int) : Except Fault Int :=
  if inI64 (a + b) then .ok (a + b) else .error .overflow
/-- Rust `a - b` on i64 in the dev profile. -/
def subI64 (a b : Int) : Except Fault Int :=
  if inI64 (a - b) then .ok (a - b) else .error .overflow
/-- Rust `a * b` on i64 in the dev profile. -/
def mulI64 (a b : Int) : Except Fault Int :=
  if inI64 (a * b) then .ok (a * b) else .error .overflow

/-- Rust `overflowing_add`. -/
def ovfAdd (a b : Int) : Int × Bool := (wrap64 (a + b), !decide (inI64 (a + b)))
def ovfSub (a b : Int) : Int × Bool := (wrap64 (a - b), !decide (inI64 (a - b)))
def ovfMul (a b : Int) : Int × Bool := (wrap64 (a * b), !decide (inI64 (a * b)))

/-- Rust `checked_add` on i64. -/
def chkAdd (a b : Int) : Option Int := if inI64 (a + b) then some (a + b) else none

end LM
