import LocustModel.Proto
import LocustModel.Query.QueryTask
/-
  Line protocol of the C12 driver: the mirrored syntax tree comes in as prefix tokens, the `Query` and
  its normal form go out in the same canonical text the harness prints for the real structures.

  Syntax tree tokens (strings are `x<hex of utf-8>`):
    expr   := B <op> expr expr | U <op> expr | N <hextext> <f64bits|_> | S <hex> | NULL | LO | I <hex>
            | P expr | F0 <hexUPPERNAME> | F1 <name> expr | F2 <name> expr expr | FN <name>
            | ISN expr | INN expr | LK <neg01> <esc01> expr expr | FL expr | O
    op     := and + - * / % > >= < <= = <> or other      (binary)   |   not neg other   (unary)
    item   := IU expr <hexdisplay> | IA expr <hexalias> | IW | IO
    twj    := T <hexdisplay> <joins> | TO <joins>
    parsed := PERR | OERR | ST <n> stmt*
    stmt   := SO | SQ body order limit
    body   := BO | BS <distinct01> <n> item* <n> twj* <sel: - | W expr> <GA | GE n m> <having01>
    order  := OBN | OBA | OBE <n> (expr <asc: _|0|1>)*
    limit  := LN | LL <-|L expr> <-|O expr> | LC expr expr        (LC: `LIMIT <offset>, <limit>`)
-/
namespace LM.NormProto
open LM LM.Proto LM.Norm

def hexToString (t : String) : Option String := do
  let bs ← parseHexBytes? t
  String.fromUTF8? (ByteArray.mk bs.toArray)

def stringToHex (s : String) : String := showHexBytes s.toUTF8.toList

abbrev P (α : Type) := List String → Option (α × List String)

def pTok : P String
  | t :: ts => some (t, ts)
  | [] => none

def pStr : P String := fun ts => do
  let (t, ts) ← pTok ts
  let s ← hexToString t
  pure (s, ts)

def pNat : P Nat := fun ts => do
  let (t, ts) ← pTok ts
  let n ← t.toNat?
  pure (n, ts)

def pBool : P Bool := fun ts => do
  let (t, ts) ← pTok ts
  if t = "1" then pure (true, ts) else if t = "0" then pure (false, ts) else none

def binOp? (t : String) : Option BinOp :=
  if t = "and" then some .and else if t = "+" then some .plus else if t = "-" then some .minus
  else if t = "*" then some .multiply else if t = "/" then some .divide else if t = "%" then some .modulo
  else if t = ">" then some .gt else if t = ">=" then some .gtEq else if t = "<" then some .lt
  else if t = "<=" then some .ltEq else if t = "=" then some .eq else if t = "<>" then some .notEq
  else if t = "or" then some .or else if t = "other" then some .other else none

def unOp? (t : String) : Option UnOp :=
  if t = "not" then some .not else if t = "neg" then some .minus else if t = "other" then some .other else none

def parseHexNat (s : String) : Option Nat :=
  s.toList.foldlM (fun acc c => (hexDigit? c).map (acc * 16 + ·)) 0

def pExpr : Nat → P AExpr
  | 0, _ => none
  | fuel + 1, ts => do
    let (t, ts) ← pTok ts
    if t = "B" then
      let (o, ts) ← pTok ts
      let op ← binOp? o
      let (l, ts) ← pExpr fuel ts
      let (r, ts) ← pExpr fuel ts
      pure (.binary op l r, ts)
    else if t = "U" then
      let (o, ts) ← pTok ts
      let op ← unOp? o
      let (e, ts) ← pExpr fuel ts
      pure (.unary op e, ts)
    else if t = "N" then
      let (text, ts) ← pStr ts
      let (f, ts) ← pTok ts
      let f64 ← (if f = "_" then some none else (parseHexNat f).map some)
      pure (.value (.number text f64), ts)
    else if t = "S" then
      let (s, ts) ← pStr ts
      pure (.value (.sqString s), ts)
    else if t = "NULL" then pure (.value .null, ts)
    else if t = "LO" then pure (.value .other, ts)
    else if t = "I" then
      let (s, ts) ← pStr ts
      pure (.ident s, ts)
    else if t = "P" then
      let (e, ts) ← pExpr fuel ts
      pure (.nested e, ts)
    else if t = "F0" then
      let (n, ts) ← pStr ts
      pure (.func0 n, ts)
    else if t = "F1" then
      let (n, ts) ← pStr ts
      let (a, ts) ← pExpr fuel ts
      pure (.func1 n a, ts)
    else if t = "F2" then
      let (n, ts) ← pStr ts
      let (a, ts) ← pExpr fuel ts
      let (b, ts) ← pExpr fuel ts
      pure (.func2 n a b, ts)
    else if t = "FN" then
      let (n, ts) ← pStr ts
      pure (.funcN n, ts)
    else if t = "ISN" then
      let (e, ts) ← pExpr fuel ts
      pure (.isNull e, ts)
    else if t = "INN" then
      let (e, ts) ← pExpr fuel ts
      pure (.isNotNull e, ts)
    else if t = "LK" then
      let (neg, ts) ← pBool ts
      let (esc, ts) ← pBool ts
      let (e, ts) ← pExpr fuel ts
      let (p, ts) ← pExpr fuel ts
      pure (.like neg e p esc, ts)
    else if t = "FL" then
      let (e, ts) ← pExpr fuel ts
      pure (.floor e, ts)
    else if t = "O" then pure (.other, ts)
    else none

/-- `n` repetitions of a parser. -/
def pMany {α : Type} (p : P α) : Nat → P (List α)
  | 0, ts => some ([], ts)
  | n + 1, ts => do
    let (a, ts) ← p ts
    let (as, ts) ← pMany p n ts
    pure (a :: as, ts)

def pItem (fuel : Nat) : P SelItem := fun ts => do
  let (t, ts) ← pTok ts
  if t = "IU" then
    let (e, ts) ← pExpr fuel ts
    let (d, ts) ← pStr ts
    pure (.unnamed e d, ts)
  else if t = "IA" then
    let (e, ts) ← pExpr fuel ts
    let (d, ts) ← pStr ts
    pure (.aliased e d, ts)
  else if t = "IW" then pure (.wildcard, ts)
  else if t = "IO" then pure (.other, ts)
  else none

def pTwj : P TableWithJoins := fun ts => do
  let (t, ts) ← pTok ts
  if t = "T" then
    let (d, ts) ← pStr ts
    let (j, ts) ← pNat ts
    pure ({ relation := .table d, joins := j }, ts)
  else if t = "TO" then
    let (j, ts) ← pNat ts
    pure ({ relation := .other, joins := j }, ts)
  else none

def pOptExpr (tag : String) (fuel : Nat) : P (Option AExpr) := fun ts => do
  let (t, ts) ← pTok ts
  if t = "-" then pure (none, ts)
  else if t = tag then
    let (e, ts) ← pExpr fuel ts
    pure (some e, ts)
  else none

def pBody (fuel : Nat) : P SetExpr := fun ts => do
  let (t, ts) ← pTok ts
  if t = "BO" then pure (.other, ts)
  else if t = "BS" then
    let (distinct, ts) ← pBool ts
    let (n, ts) ← pNat ts
    let (items, ts) ← pMany (pItem fuel) n ts
    let (m, ts) ← pNat ts
    let (from_, ts) ← pMany pTwj m ts
    let (sel, ts) ← pOptExpr "W" fuel ts
    let (g, ts) ← pTok ts
    let (groupBy, ts) ← (if g = "GA" then some (GroupBy.all, ts) else if g = "GE" then do
        let (a, ts) ← pNat ts
        let (b, ts) ← pNat ts
        pure (GroupBy.exprs a b, ts) else none)
    let (having, ts) ← pBool ts
    pure (.select { distinct := distinct, projection := items, from_ := from_, selection := sel,
                    groupBy := groupBy, having := having }, ts)
  else none

def pOrderItem (fuel : Nat) : P (AExpr × Option Bool) := fun ts => do
  let (e, ts) ← pExpr fuel ts
  let (a, ts) ← pTok ts
  let asc ← (if a = "_" then some none else if a = "1" then some (some true) else if a = "0" then some (some false) else none)
  pure ((e, asc), ts)

def pOrder (fuel : Nat) : P AOrderBy := fun ts => do
  let (t, ts) ← pTok ts
  if t = "OBN" then pure (.none, ts)
  else if t = "OBA" then pure (.all, ts)
  else if t = "OBE" then
    let (n, ts) ← pNat ts
    let (es, ts) ← pMany (pOrderItem fuel) n ts
    pure (.exprs es, ts)
  else none

def pLimit (fuel : Nat) : P ALimit := fun ts => do
  let (t, ts) ← pTok ts
  if t = "LN" then pure (.none, ts)
  else if t = "LL" then
    let (l, ts) ← pOptExpr "L" fuel ts
    let (o, ts) ← pOptExpr "O" fuel ts
    pure (.limitOffset l o, ts)
  else if t = "LC" then
    let (o, ts) ← pExpr fuel ts
    let (l, ts) ← pExpr fuel ts
    pure (.offsetCommaLimit o l, ts)
  else none

def pStmt (fuel : Nat) : P Statement := fun ts => do
  let (t, ts) ← pTok ts
  if t = "SO" then pure (.other, ts)
  else if t = "SQ" then
    let (body, ts) ← pBody fuel ts
    let (order, ts) ← pOrder fuel ts
    let (limit, ts) ← pLimit fuel ts
    pure (.query { body := body, orderBy := order, limit := limit }, ts)
  else none

def pParsed : P Parsed := fun ts => do
  let fuel := ts.length + 1
  let (t, ts) ← pTok ts
  if t = "PERR" then pure (.parserError, ts)
  else if t = "OERR" then pure (.otherError, ts)
  else if t = "ST" then
    let (n, ts) ← pNat ts
    let (ss, ts) ← pMany (pStmt fuel) n ts
    pure (.stmts ss, ts)
  else none

/-! ### Printing -/

def showHex16 (n : Nat) : String :=
  let rec go (k : Nat) (n : Nat) (acc : List Char) : List Char :=
    match k with
    | 0 => acc
    | k + 1 => go k (n / 16) (hexChar (n % 16) :: acc)
  String.ofList (go 16 n [])

def showF1 : F1 → String
  | .negate => "Negate" | .toYear => "ToYear" | .not => "Not" | .isNull => "IsNull"
  | .isNotNull => "IsNotNull" | .length => "Length" | .floor => "Floor"

def showF2 : F2 → String
  | .eq => "Equals" | .ne => "NotEquals" | .lt => "LT" | .le => "LTE" | .gt => "GT" | .ge => "GTE"
  | .and => "And" | .or => "Or" | .add => "Add" | .sub => "Subtract" | .mul => "Multiply"
  | .div => "Divide" | .mod => "Modulo" | .regex => "RegexMatch" | .like => "Like" | .notLike => "NotLike"

def showAgg : Agg → String
  | .sum => "SumI64" | .count => "Count" | .max => "MaxI64" | .min => "MinI64"

def showExpr : Expr → String
  | .col n => "c " ++ stringToHex n
  | .const (.int i) => "ki " ++ toString i
  | .const (.float b) => "kf " ++ showHex16 b
  | .const (.str s) => "ks " ++ stringToHex s
  | .const .null => "kn"
  | .f1 t e => "f1 " ++ showF1 t ++ " " ++ showExpr e
  | .f2 t a b => "f2 " ++ showF2 t ++ " " ++ showExpr a ++ " " ++ showExpr b
  | .agg a e => "ag " ++ showAgg a ++ " " ++ showExpr e

def showColumnInfo (ci : ColumnInfo) : String := stringToHex ci.name ++ " " ++ showExpr ci.expr

def showOrderBy (obs : List (Expr × Bool)) : String :=
  toString obs.length ++ String.join (obs.map fun ob => " " ++ showExpr ob.1 ++ " " ++ (if ob.2 then "1" else "0"))

def showQuery (q : Query) : String :=
  "Q " ++ toString q.select.length ++ String.join (q.select.map fun ci => " " ++ showColumnInfo ci)
    ++ " " ++ stringToHex q.table ++ " " ++ showExpr q.filter ++ " " ++ showOrderBy q.orderBy
    ++ " " ++ toString q.limit.limit ++ " " ++ toString q.limit.offset

def showNF (nf : NormalFormQuery) : String :=
  toString nf.projection.length ++ String.join (nf.projection.map fun ci => " " ++ showColumnInfo ci)
    ++ " " ++ toString nf.aggregate.length
    ++ String.join (nf.aggregate.map fun a => " " ++ showAgg a.1 ++ " " ++ showColumnInfo a.2)
    ++ " " ++ showExpr nf.filter ++ " " ++ showOrderBy nf.orderBy
    ++ " " ++ toString nf.limit.limit ++ " " ++ toString nf.limit.offset

def showRC : ResultColumn → String
  | .proj i => "P" ++ toString i
  | .agg i => "A" ++ toString i

def showNormalized (n : Normalized) : String :=
  "N main " ++ showNF n.main ++ " final " ++ (match n.final with | some f => showNF f | none => "-")
    ++ " src " ++ showList showRC n.sources

def showRes {α : Type} (f : α → String) : Res α → String
  | .ok a => f a
  | .err e => "err:" ++ toString e
  | .fault x => "fault:" ++ toString x

end LM.NormProto
