import LocustModel.Query.GroupSpec
import LocustModel.Query.GroupMerge
import LocustModel.Query.Group
/-
  C04 — implementation model of a whole grouped query `SELECT g.., agg.. FROM t [WHERE ..]` over a table
  that is physically split into partitions (src/engine/planning/query.rs `run_aggregate`,
  src/engine/execution/query_task.rs `combine_results` / `push_result`, batch_merging.rs `combine`).

  Per partition: the groups of the partition's filtered rows with their partial aggregates, in the ENGINE's
  order and in the engine's in-band NULL representation:
    * integer grouping columns only (plain codecs ToI64 / Add / identity, optionally Nullable); the raw key is
      `value - codec offset + planner offset`, NULL ↦ 0 when the planner knows the range (`fuse_int_nulls`), so
      the NULL group comes FIRST; when the shifted range leaves i64 the key is the fused value itself and NULL
      (= i64::MAX) comes last.  Array aggregation (`max < 2^16`) and hash grouping + re-sort both end up ascending in
      the raw key; several columns are bit-packed with the first select item most significant.
    * partial aggregates: COUNT(1) / COUNT over a non-nullable column count rows; over a nullable column only
      present inputs are accumulated and a group without any is NULL; integer SUM is `overflowing_add` in row
      order with the error raised at the end; MIN / MAX start from their units; float SUM is exact here
      (the driver only predicts exactly summable data).
  Across partitions: merge_deduplicate(_partitioned) / merge_drop / merge_aggregate (Query/Merge.lean,
  Query/GroupMerge.lean) along a merge tree; which tree is taken depends on HashMap iteration order and
  thread timing, so the model yields the outcome of EVERY bracketing.  Final pass: AVG = SUM / COUNT by
  `checked_divide` on the in-band values; i64::MAX is shown as NULL.

  Anything outside this (string / float grouping columns, delta / lz4 / pco / dictionary codecs on grouping
  columns, aggregate inputs absent from a partition, absent grouping columns on the value-rows path, value-rows fallback)
  is not predicted (`unknown`); a grouping column absent from a partition IS predicted for a single integer / string
  grouping column and among several integer grouping columns (see `partitionResult`).
-/
namespace LM.GroupApi
open LM LM.Sql LM.GroupSpec LM.GroupMerge LM.Group LM.Merge

/-- What the planner sees of one column in one partition. -/
structure ColMeta where
  present : Bool
  enc : String
  range : Option (Int × Int)
  ops : List String
  nullable : Bool
  deriving Repr, Inhabited

def ColMeta.absent : ColMeta := ⟨false, "", none, [], false⟩

inductive Out where
  | rows (rs : List Row)
  | overflow
  | fault
  | unknown
  deriving Repr, Inhabited

/-- The encoding range of an integer grouping column as `encoding_range` derives it from the compiled plan
    (outer `none`: a codec the model does not predict).  After dropping the null-map ops and a leading LZ4 / pco
    decompression (ranges pass through them) the codec is
      []  | [ToI64 t] | [Add t o]            grouped on the stored values: the column's range
      [Delta t]                              decoded before grouping (not element-wise decodable): the column's range
      [Add t o, Delta i64]                   decoded before grouping: the column's range shifted by `o`. -/
def effRange (m : ColMeta) : Option (Option (Int × Int)) :=
  let ops := m.ops.filter fun op => op ≠ "PushDataSection(1)" ∧ op ≠ "Nullable"
  let ops := match ops with
    | op :: rest => if op.startsWith "LZ4(" ∨ op.startsWith "Pco(" then rest else ops
    | [] => []
  let addOffset (op : String) : Option Int :=
    match ((op.drop 4).toString.dropEnd 1).toString.splitOn "," with
    | [_, o] => o.toInt?
    | _ => none
  if m.ops.any (fun op => op.startsWith "DictLookup(") then
    -- dictionary-encoded strings are grouped on the dictionary indices; a compressed index section wider than u8
    -- would additionally be truncated on decode (`groupby-compressed-key-type`) — not predicted
    match m.ops with
    | first :: _ =>
        if (first.startsWith "LZ4(" ∨ first.startsWith "Pco(") ∧ ¬ (first.startsWith "LZ4(U8" ∨ first.startsWith "Pco(U8") then none
        else some m.range
    | [] => none
  else
  match ops with
  | [] => some m.range
  | [op] =>
      if op.startsWith "ToI64(" ∨ op.startsWith "Add(" ∨ op.startsWith "Delta(" then some m.range else none
  | [a, d] =>
      if a.startsWith "Add(" ∧ d.startsWith "Delta(" then
        (addOffset a).map fun o => m.range.map fun r => (r.1 + o, r.2 + o)
      else none
  | _ => none

/-- Internal aggregate columns computed per partition and merged (AVG expands to SUM and COUNT). -/
inductive IAgg where
  | cnt1 | cnt (c : Nat) | sum (c : Nat) | min (c : Nat) | max (c : Nat)
  deriving DecidableEq, Repr, Inhabited

def IAgg.op : IAgg → Agg
  | .cnt1 => .count | .cnt _ => .count | .sum _ => .sum | .min _ => .min | .max _ => .max

def expandSel : List SelItem → List IAgg
  | [] => []
  | .key _ :: t => expandSel t
  | .agg a :: t =>
      (match a.fn with
       | .count1 => [.cnt1] | .count => [.cnt a.col] | .sum => [.sum a.col]
       | .min => [.min a.col] | .max => [.max a.col] | .avg => [.sum a.col, .cnt a.col]) ++ expandSel t

inductive ColKind where | int | float | other
  deriving DecidableEq, Repr

def colKind (cells : List Val) : ColKind :=
  if cells.all (fun v => match v with | .int _ | .null => true | _ => false) then .int
  else if cells.all (fun v => match v with | .float _ | .null => true | _ => false) then .float
  else .other

/-- i64 in-band encoding of a nullable integer. -/
def encInt : Val → Int
  | .int i => i
  | _ => I64_MAX
def decInt (i : Int) : Val := if i = I64_MAX then .null else .int i

/-- Key encoding for the merge: integers are themselves (NULL = i64::MAX).  A single string / float grouping column
    is merged by the same generic step functions, which only compare keys; it is represented by the rank of the
    value in the ascending list `univ` of all values of the column (order-isomorphic), NULL again the maximum. -/
def rankIn : List Val → Val → Nat → Int
  | [], _, _ => I64_MAX
  | u :: us, v, i => if u = v then i else rankIn us v (i + 1)

def encKeys (univs : List (List Val)) (k : List Val) : List Int :=
  (k.zip (univs ++ List.replicate k.length [])).map fun (v, u) =>
    if u.isEmpty then encInt v else match v with | .null => I64_MAX | v => rankIn u v 0

def encKey (univ : List Val) (v : Val) : Int :=
  if univ.isEmpty then encInt v else match v with | .null => I64_MAX | v => rankIn univ v 0

def decKey (univ : List Val) (i : Int) : Val :=
  if univ.isEmpty then decInt i else if i = I64_MAX then .null else univ.getD i.toNat .null

/-- Integer SUM in row order: error iff some prefix leaves i64 (`overflowing_add`, flag checked after the batch). -/
def sumChecked : Int → List Int → Option Int
  | acc, [] => some acc
  | acc, x :: xs => if inI64 (acc + x) then sumChecked (acc + x) xs else none

inductive PartialRes where
  | val (v : Val)
  | overflow
  | unknown

/-- One partial aggregate of one group of one partition. -/
def partialAgg (a : IAgg) (nullableCol : Nat → Bool) (rows : List Row) : PartialRes :=
  match a with
  | .cnt1 => .val (.int rows.length)
  | .cnt c =>
      let cells := (colCells c rows).filter (· ≠ .null)
      if nullableCol c then (if cells.isEmpty then .val .null else .val (.int cells.length))
      else .val (.int rows.length)
  | .sum c =>
      let cells := (colCells c rows).filter (· ≠ .null)
      if cells.isEmpty then .val .null else
      match ints? cells with
      | some xs => (match sumChecked 0 xs with | some s => .val (.int s) | none => .overflow)
      | none => match floats? cells with
        | some bs => (match floatSumExact bs with | some s => .val (.float s) | none => .unknown)
        | none => .unknown
  | .min c =>
      let cells := (colCells c rows).filter (· ≠ .null)
      if cells.isEmpty then .val .null else
      match ints? cells with
      | some (x :: t) => .val (.int (t.foldl minStep x))
      | _ => match floats? cells with
        | some bs => if bs.all (fun b => isFiniteOrdinary b && notNegZero b) then
            .val ((floatMinMax false bs).elim .null .float) else .unknown
        | none => .unknown
  | .max c =>
      let cells := (colCells c rows).filter (· ≠ .null)
      if cells.isEmpty then .val .null else
      match ints? cells with
      | some (x :: t) => .val (.int (t.foldl maxStep x))
      | _ => match floats? cells with
        | some bs => if bs.all (fun b => isFiniteOrdinary b && notNegZero b) then
            .val ((floatMinMax true bs).elim .null .float) else .unknown
        | none => .unknown

/-- A partition's partial result: groups in engine order, key tuple + one value per internal aggregate. -/
structure PRes where
  keys : List (List Val)      -- row-major: one key tuple per group
  aggs : List (List Val)      -- row-major: one list of partial aggregates per group
  deriving Repr, Inhabited

inductive PartOut where
  | ok (p : PRes)
  | overflow
  | unknown

/-- Engine order of key tuples inside a partition: lexicographic, integers ascending, NULL first for the
    components whose NULL is fused to raw key 0 (`nullFirst`), last otherwise. -/
def engLt : List Bool → List Val → List Val → Bool
  | nf :: nfs, a :: as, b :: bs =>
      let lt : Bool := match a, b with
        | .null, .null => false
        | .null, _ => nf
        | _, .null => !nf
        | x, y => valLt x y
      let gt : Bool := match a, b with
        | .null, .null => false
        | .null, _ => !nf
        | _, .null => nf
        | x, y => valLt y x
      if lt then true else if gt then false else engLt nfs as bs
  | _, _, _ => false

def aggsOfGroup (iaggs : List IAgg) (nullableCol : Nat → Bool) (rows : List Row) : Option (Option (List Val)) :=
  -- some (some vs) | some none = overflow | none = unknown
  iaggs.foldr (fun a acc =>
    match partialAgg a nullableCol rows, acc with
    | .unknown, _ => none
    | _, none => none
    | .overflow, _ => some none
    | _, some none => some none
    | .val v, some (some vs) => some (some (v :: vs))) (some (some []))

/-- Is the NULL of grouping column `c` the smallest raw key in this partition?  Single key: iff the planner
    shifts by an offset (`fuse_int_nulls`); bit-packed keys: always.  `none`: the column is not predictable. -/
def keyNullFirst (single : Bool) (m : ColMeta) : Option Bool :=
  if !m.present then none else
  match effRange m with
  | none => none
  | some range =>
      if !m.nullable then some true
      else if single then some (singleKeyPlan range true).2.isSome
      else some true

/-- A single string grouping column.  Dictionary-encoded: grouped on the (sorted) dictionary's indices like an
    integer column, NULL fused to raw key 0, hence FIRST; packed / hex-packed strings: hash grouping followed by a
    sort that puts NULL last.  A single non-nullable float column: hash grouping + ascending sort. -/
def singleOtherKeyNullFirst (kind : ColKind) (m : ColMeta) : Option Bool :=
  if !m.present then none else
  match kind with
  | .float => if m.nullable then none else some false
  | _ =>
      if m.ops.any (fun op => op.startsWith "DictLookup(") then some m.nullable
      else if m.ops.any (fun op => op = "UnpackStrings" ∨ op.startsWith "UnhexpackStrings(") then some false
      else none

/-- Open finding `groupby-compressed-key-type`: with several (bit-packed) grouping columns the unpacked key is cast back
    to `plan_type.encoding_type()`, the type of the column's FIRST DATA SECTION; for an lz4 / pco compressed column
    that is the compressed byte stream (`u8`), not the decompressed integers (`ensure_fixed_width` keeps the old
    section types), so the stored value is truncated to 8 bits before the rest of the codec (ToI64 / Add) is applied.
    Returns the offset `o` of the remaining codec when the column is affected. -/
def truncatedKey (m : ColMeta) : Option Int :=
  let ops := m.ops.filter fun op => op ≠ "PushDataSection(1)" ∧ op ≠ "Nullable"
  match ops with
  | first :: rest =>
      if (first.startsWith "LZ4(" ∨ first.startsWith "Pco(") ∧ ¬ (first.startsWith "LZ4(U8" ∨ first.startsWith "Pco(U8") then
        match rest with
        | [op] =>
            if op.startsWith "ToI64(" then some 0
            else if op.startsWith "Add(" then
              match ((op.drop 4).toString.dropEnd 1).toString.splitOn "," with
              | [_, o] => o.toInt?
              | _ => none
            else none
        | _ => none
      else none
  | [] => none

/-- The key value a partition emits for a grouping column (several grouping columns). -/
def emitKey (m : ColMeta) (v : Val) : Val :=
  match truncatedKey m, v with
  | some o, .int x => .int ((x - o) % 256 + o)
  | _, v => v

/-- The partial result of one partition. -/
def partitionResult (keys : List Nat) (iaggs : List IAgg) (metas : List ColMeta) (kept : List Row)
    (keyKinds : List ColKind := []) : PartOut :=
  let keyMetas := keys.map fun c => metas.getD c ColMeta.absent
  let kinds := keyKinds ++ List.replicate (keys.length - keyKinds.length) ColKind.int
  let keyKind := if kinds.all (· = .int) then ColKind.int else ColKind.other
  -- A grouping column without data in this partition (`compile_grouping_key`: `gk_plan.is_null()` → the filtered
  -- constant 0 as raw key, decoded as a NULL vector; `try_bitpacking`: a zero-width field): every kept row falls into
  -- the NULL group of that column, so its NULL position is immaterial.  Predicted for a single integer / string
  -- grouping column and for several integer grouping columns (the value-rows fallback casts the Null plan to Val and
  -- fails: open finding `groupby-absent-column`, not predicted).
  let absentOk (m : ColMeta) : Bool := !m.present && keyKind != .float && (keys.length = 1 || keyKind = .int)
  let nf := if keys.length = 1 then
              (match kinds.headD .int with
               | .int => keyMetas.mapM (fun m => if absentOk m then some true else keyNullFirst true m)
               | .float => keyMetas.mapM (singleOtherKeyNullFirst .float)
               | k => keyMetas.mapM (fun m => if absentOk m then some true else singleOtherKeyNullFirst k m))
            else (keyMetas.zip kinds).mapM fun (m, k) =>
              match k with
              | .int => if absentOk m then some true else keyNullFirst false m
              | .float => none
              | .other =>
                  -- a dictionary-encoded string column among several bit-packed grouping columns
                  if m.present ∧ m.ops.any (fun op => op.startsWith "DictLookup(") ∧ (effRange m).isSome then some true else none
  match nf with
  | none => .unknown
  | some nullFirst =>
    -- several keys must be bit-packable
    let packable := keys.length ≤ 1 ||
      (planPack (keyMetas.reverse.map fun m =>
        if absentOk m then (some (0, 0), false) else ((effRange m).getD none, m.nullable)) 0).isSome
    -- every aggregate input must be present in the partition
    let aggCols := iaggs.filterMap fun a => match a with
      | .cnt1 => none | .cnt c => some c | .sum c => some c | .min c => some c | .max c => some c
    if !packable || aggCols.any (fun c => !(metas.getD c ColMeta.absent).present) then .unknown else
    let groups := groupRows keys kept
    if keyKind = .int ∧ groups.any (fun g => g.1.any fun v => match v with | .int _ | .null => false | _ => true) then .unknown else
    let ordered := sortBy (fun a b => engLt nullFirst a.1 b.1) groups
    let nullableCol := fun c => (metas.getD c ColMeta.absent).nullable
    let rec go : Groups → PartOut
      | [] => .ok ⟨[], []⟩
      | (k, rs) :: t =>
          match aggsOfGroup iaggs nullableCol rs, go t with
          | none, _ => .unknown
          | _, .unknown => .unknown
          | some none, _ => .overflow
          | _, .overflow => .overflow
          | some (some vs), .ok p =>
              let k' := if keys.length ≥ 2 then (keyMetas.zip k).map fun (m, v) => emitKey m v else k
              .ok ⟨k' :: p.keys, vs :: p.aggs⟩
    go ordered

/-! ### Merging two partial results -/

def transposeCols {α : Type} [Inhabited α] (rows : List (List α)) (ncols : Nat) : List (List α) :=
  (List.range ncols).map fun j => rows.map fun r => r.getD j default

def floatCombine (op : Agg) (a b : Val) : Option Val :=
  match a, b with
  | .null, v => some v
  | v, .null => some v
  | .float x, .float y =>
      (match op with
       | .sum | .count => (floatSumExact [x, y]).map Val.float
       | .max => some (.float (if floatKey x ≥ floatKey y then x else y))
       | .min => some (.float (if floatKey x ≤ floatKey y then x else y)))
  | _, _ => none

/-- merge_aggregate on a float column (null_coalesce on F64_NULL; exact sums only). `none` = not predicted. -/
def mergeAggFloat (op : Agg) (ops : List MergeOp) (l r : List Val) : Option (List Val) :=
  if l.isEmpty then some r else if r.isEmpty then some l else
  let rec loop : List MergeOp → List Val → List Val → List Val → Option (List Val)
    | [], _, _, acc => some acc.reverse
    | .takeLeft :: ops, a :: l, r, acc => loop ops l r (a :: acc)
    | .takeRight :: ops, l, b :: r, acc => loop ops l r (b :: acc)
    | .mergeRight :: ops, l, b :: r, last :: acc =>
        (floatCombine op last b).bind fun v => loop ops l r (v :: acc)
    | _, _, _, _ => none
  loop ops l r []

inductive MRes where
  | ok (p : PRes)
  | overflow
  | fault
  | unknown

def mergePRes (univs : List (List Val)) (iaggs : List IAgg) (isFloat : IAgg → Bool) (nk : Nat) (a b : PRes) : MRes :=
  let ka := transposeCols (a.keys.map (encKeys univs)) nk
  let kb := transposeCols (b.keys.map (encKeys univs)) nk
  match mergeKeys ka kb with
  | none => .fault
  | some (kcols, ops) =>
      let na := iaggs.length
      let ca := transposeCols a.aggs na
      let cb := transposeCols b.aggs na
      let rec cols : List IAgg → List (List Val) → List (List Val) → Option (Except MergeErr (List (List Val)))
        | [], _, _ => some (.ok [])
        | ia :: rest, la :: las, lb :: lbs =>
            let me : Option (Except MergeErr (List Val)) :=
              if isFloat ia then (mergeAggFloat ia.op ops la lb).map .ok
              else some ((mergeAggregate ia.op ops (la.map encInt) (lb.map encInt)).map (·.map decInt))
            (match me, cols rest las lbs with
             | none, _ => none
             | _, none => none
             | some (.error e), _ => some (.error e)
             | _, some (.error e) => some (.error e)
             | some (.ok c), some (.ok cs) => some (.ok (c :: cs)))
        | _, _, _ => some (.error .fault)
      match cols iaggs ca cb with
      | none => .unknown
      | some (.error .overflow) => .overflow
      | some (.error .fault) => .fault
      | some (.ok acols) =>
          let n := (kcols.head?.map List.length).getD ((acols.head?.map List.length).getD 0)
          let keyRows := (List.range n).map fun i => (kcols.zip (univs ++ List.replicate nk [])).map fun (c, u) => decKey u (c.getD i 0)
          let aggRows := (List.range n).map fun i => acols.map fun c => c.getD i .null
          .ok ⟨keyRows, aggRows⟩

def evalPTree (univ : List (List Val)) (iaggs : List IAgg) (isFloat : IAgg → Bool) (nk : Nat) (parts : List PRes) : Tree → MRes
  | .leaf i => match parts[i]? with | some p => .ok p | none => .fault
  | .node l r =>
      match evalPTree univ iaggs isFloat nk parts l, evalPTree univ iaggs isFloat nk parts r with
      | .ok a, .ok b => mergePRes univ iaggs isFloat nk a b
      | .ok _, e => e
      | e, _ => e

/-! ### Final pass and output -/

/-- `checked_divide` on the in-band values: division by zero / MIN ÷ -1 → Overflow error. -/
def avgCell (s c : Val) : Option Val :=
  let x := encInt s
  let y := encInt c
  if y = 0 ∨ (x ≤ -I64_MAX ∧ y = -1) then none else some (decInt (Int.tdiv x y))

/-- Build the output row of one merged group: consume the internal aggregate values in select order. -/
def finalRow : List SelItem → List Nat → List Val → List Val → Option Row
  | [], _, _, _ => some []
  | .key c :: t, keys, kvals, avals =>
      let v := ((keys.zip kvals).find? (·.1 = c)).elim .null (·.2)
      (finalRow t keys kvals avals).map (v :: ·)
  | .agg a :: t, keys, kvals, avals =>
      match a.fn, avals with
      | .avg, s :: c :: rest => (avgCell s c).bind fun v => (finalRow t keys kvals rest).map (v :: ·)
      | .avg, _ => none
      | _, v :: rest =>
          -- an integer aggregate equal to the in-band sentinel is displayed as NULL
          let shown := match v with | .int i => decInt i | v => v
          (finalRow t keys kvals rest).map (shown :: ·)
      | _, [] => none

def finalRows (sel : List SelItem) (keys : List Nat) (p : PRes) : Out :=
  match (p.keys.zip p.aggs).mapM fun (k, a) => finalRow sel keys k a with
  | some rs => .rows rs
  | none => .overflow

/-- Outcome along one merge tree. -/
def runTree (univ : List (List Val)) (sel : List SelItem) (keys : List Nat) (iaggs : List IAgg) (isFloat : IAgg → Bool)
    (parts : List PRes) (t : Tree) : Out :=
  match evalPTree univ iaggs isFloat keys.length parts t with
  | .ok p => finalRows sel keys p
  | .overflow => .overflow
  | .fault => .fault
  | .unknown => .unknown

/-- Is the key part of a partial result ascending under the merge comparator (in-band i64 order)? -/
def keysAscending (univs : List (List Val)) (p : PRes) : Bool :=
  let enc := p.keys.map (encKeys univs)
  let rec asc : List (List Int) → Bool
    | a :: b :: t => GroupMerge.tupleLt a b && asc (b :: t)
    | _ => true
  asc enc

end LM.GroupApi
