import LocustModel.Prim
import LocustModel.Query.Sql
/-
  Implementation model of LocustDB's WHERE clause (property C03).

  Mirrors, function by function,
    src/mem_store/codec.rs                       CodecOp property tables, `has_property`, `ensure_property`, `pop_push`,
                                                 `output_type`, `encode_int`, `encode_str`
    src/engine/planning/query_plan.rs            `compile_expr`: ColName (ensure_fixed_width split, absent column = NullVec),
                                                 And / Or (Null-typed operand short cuts, bool check), Func2 comparison
                                                 (FUNCTION2_REGISTRY lookup, encoding-invariance branch, decode branch, factories),
                                                 Func1 Not / IsNull / IsNotNull, constants
    src/engine/planning/planner.rs               `propagate_nullability` rewrites of comparisons / And / Or (`combine_nulls`)
    src/engine/operators/vector_operator.rs      which (lhs, rhs) buffer kinds `less_than` … `not_equals` accept (`reify_types!`)
    src/engine/operators/comparison_operators.rs LessThan / LessThanEquals / Equals / NotEquals, BoolOr / BoolAnd (`Widen` = value
                                                 preserving cast, modelled by the embedding into `Int`)
    src/engine/operators/dict_lookup.rs          DictLookup, InverseDictLookup
    src/engine/operators/{combine_null_maps,is_null,filter,filter_nullable,functions(BooleanNot)}.rs
    src/engine/planning/query.rs                 `NormalFormQuery::run`: choice of Filter::{U8,NullableU8,Null,None}
    src/engine/execution/query_task.rs           per-partition execution, first error wins, results concatenated in range order

  A column image is (section types, codec ops, dictionary) exactly as the real `Column` reports them, plus the logical
  cells of the partition's row range; the stored data is derived from the cells by the codec (`v - offset`, dictionary
  index) — that the real sections hold exactly this is C01's theorem, and is checked on every case by the correspondence.
  Vectors are lists; a nullable vector carries `present`.  Integer buffers of every width are `List Int`.
-/
namespace LM.Filter
open LM LM.Sql

abbrev Bytes := List UInt8

/-! ### codec.rs -/

/-- `EncodingType` of a data section / decode-stack entry (base type; nullability is a flag in `TT`). -/
inductive ET where | str | i64 | u8 | u16 | u32 | u64 | f64 | bitvec | nullT | other
  deriving DecidableEq, Repr, Inhabited

/-- Entry of `CodecOp::output_type`'s type stack: base type + "is a Nullable* variant". -/
structure TT where
  base : ET
  nullable : Bool
  deriving DecidableEq, Repr, Inhabited

inductive BT where | string | integer | float | nstring | ninteger | nfloat | null | boolean
  deriving DecidableEq, Repr, Inhabited

/-- `BasicType::non_nullable`. -/
def BT.nonNullable : BT → BT
  | .ninteger => .integer | .nstring => .string | .nfloat => .float | t => t

def BT.isNullableVariant : BT → Bool
  | .ninteger | .nstring | .nfloat => true | _ => false

inductive COp where
  | nullable
  | add (t : ET) (o : Int)
  | delta (t : ET)
  | toI64 (t : ET)
  | push (i : Nat)
  | dict (t : ET)
  | decomp (t : ET)        -- LZ4(t, _) / Pco(t, _, _)
  | unpack
  | unhex
  deriving DecidableEq, Repr, Inhabited

/-- `CodecOp::is_elementwise_decodable`. -/
def COp.elementwise : COp → Bool
  | .nullable => false | .add _ _ => true | .delta _ => false | .toI64 _ => true | .push _ => true
  | .dict _ => true | .decomp _ => false | .unpack => false | .unhex => false

/-- `CodecOp::is_order_preserving`. -/
def COp.orderPreserving : COp → Bool
  | .nullable => false | .add _ _ => true | .delta _ => false | .toI64 _ => true | .push _ => true
  | .dict _ => true | .decomp _ => false | .unpack => false | .unhex => false

/-- `CodecOp::arg_count`. -/
def COp.argCount : COp → Nat
  | .nullable => 0 | .add _ _ => 1 | .delta _ => 1 | .toI64 _ => 1 | .push _ => 0
  | .dict _ => 3 | .decomp _ => 1 | .unpack => 1 | .unhex => 1

/-- `Codec::pop` / `Codec::pop_push` on the reversed op list (head = top of the Vec): remove `k` complete
    sub-expressions, pushing every removed op onto `acc` (which is therefore in original order). -/
def popN : List COp → Nat → List COp → List COp × List COp
  | stk, 0, acc => (stk, acc)
  | [], _, acc => ([], acc)
  | op :: stk, k + 1, acc => popN stk (k + op.argCount) (op :: acc)

theorem popN_length_le (stk : List COp) (k : Nat) (acc : List COp) : (popN stk k acc).1.length ≤ stk.length := by
  induction stk generalizing k acc with
  | nil => cases k <;> simp [popN]
  | cons op stk ih =>
    cases k with
    | zero => simp [popN]
    | succ k => simp only [popN, List.length_cons]; exact Nat.le_succ_of_le (ih _ _)

/-- `Codec::has_property` (reversed op list). -/
def hasPropertyAux (p : COp → Bool) : List COp → Bool
  | [] => true
  | op :: stk =>
      if !p op then false
      else hasPropertyAux p (popN stk (op.argCount - 1) []).1
termination_by stk => stk.length
decreasing_by
  have := popN_length_le stk (op.argCount - 1) []
  simp only [List.length_cons]; omega

def hasProperty (p : COp → Bool) (ops : List COp) : Bool := hasPropertyAux p ops.reverse

/-- `Codec::ensure_property` (reversed op list, `pp` in original order).  Returns (ops to run first, remaining ops).
    When every visited op has the property the Rust returns `property_preserving` *without* reversing it; mirrored. -/
def ensurePropertyAux (p : COp → Bool) : List COp → List COp → List COp × List COp
  | [], pp => ([], pp.reverse)
  | op :: stk, pp =>
      if !p op then ((op :: stk).reverse, pp)
      else
        let r := popN stk (op.argCount - 1) (op :: pp)
        ensurePropertyAux p r.1 r.2
termination_by stk _ => stk.length
decreasing_by
  have := popN_length_le stk (op.argCount - 1) (op :: pp)
  simp only [List.length_cons]; omega

def ensureProperty (p : COp → Bool) (ops : List COp) : List COp × List COp :=
  ensurePropertyAux p ops.reverse []

/-- `EncodingType::cast_to_basic` on the stack entry (`none` = the Rust panics). -/
def castToBasic (t : TT) : Option BT :=
  match t.base, t.nullable with
  | .str, false => some .string | .i64, false => some .integer | .f64, false => some .float
  | .str, true => some .nstring | .i64, true => some .ninteger | .f64, true => some .nfloat
  | .nullT, false => some .null
  | _, _ => none

/-- One step of `CodecOp::output_type`. -/
def outputTypeStep (secs : List ET) (stack : List TT) (op : COp) : Option (List TT) :=
  match op, stack with
  | .nullable, _ :: d :: rest => some ({ d with nullable := true } :: rest)
  | .add _ _, d :: rest | .delta _, d :: rest | .toI64 _, d :: rest => some (⟨.i64, d.nullable⟩ :: rest)
  | .dict _, _ :: _ :: i :: rest => some (⟨.str, i.nullable⟩ :: rest)
  | .decomp t, _ :: rest => some (⟨t, false⟩ :: rest)
  | .unpack, _ :: rest | .unhex, _ :: rest => some (⟨.str, false⟩ :: rest)
  | .push i, stack => (secs[i]?).map fun t => ⟨t, false⟩ :: stack
  | _, _ => none

/-- `CodecOp::output_type`: decoded basic type of a column (`none` = panic / malformed codec). -/
def outputType (ops : List COp) (secs : List ET) : Option BT :=
  match secs with
  | [] => none
  | s0 :: _ =>
    match ops.foldlM (outputTypeStep secs) [⟨s0, false⟩] with
    | some (t :: _) => castToBasic t
    | _ => none

/-- Rust `i64::saturating_sub` (on the exact difference). -/
def satI64 (x : Int) : Int := if x > I64_MAX then I64_MAX else if x < I64_MIN then I64_MIN else x

/-- `Codec::encode_int`: `x.saturating_sub(y)` (since fix fa88bbb; before: `x - y`, a dev-profile panic on overflow). -/
def encodeInt (ops : List COp) (x : Int) : Except Fault Int :=
  match ops with
  | [.add _ y] => .ok (satI64 (x - y))
  | [.toI64 _] => .ok x
  | .add _ _ :: _ => .error .assert          -- assert_eq!(self.ops.len(), 1)
  | .toI64 _ :: _ => .error .assert
  | _ => .error .unreachable                 -- panic!("encode_int not supported …")

/-- What `InverseDictLookup` returns for a constant that is not in the dictionary (`rounding` field of the plan node). -/
inductive Rounding where
  | exact     -- 0: -1
  | down      -- 1: index of the largest smaller entry (-1 if none)
  | up        -- 2: index of the smallest larger entry (dictionary size if none)
  deriving DecidableEq, Repr, Inhabited

/-- `InverseDictLookup::execute` (since fix cb16884): scan the dictionary; stop at the first entry equal to the constant
    (result = its index); count the entries smaller than the constant on the way (`smaller`); if none is equal the
    result is -1 / `smaller - 1` / `smaller` depending on `rounding`. -/
def inverseDictLookupAux (c : Bytes) (rnd : Rounding) : List Bytes → Nat → Nat → Int
  | [], _, smaller => match rnd with | .exact => -1 | .down => (smaller : Int) - 1 | .up => (smaller : Int)
  | d :: ds, i, smaller =>
      if d = c then (i : Int)
      else inverseDictLookupAux c rnd ds (i + 1) (if bytesLt d c then smaller + 1 else smaller)

def inverseDictLookup (dict : List Bytes) (rnd : Rounding) (c : Bytes) : Int := inverseDictLookupAux c rnd dict 0 0

/-- query_plan.rs `dict_const_rounding(function, const_is_lhs)`. -/
def dictConstRounding (op : CmpOp) (constIsLhs : Bool) : Rounding :=
  match op, constIsLhs with
  | .lt, false | .ge, false | .gt, true | .le, true => .up
  | .le, false | .gt, false | .ge, true | .lt, true => .down
  | _, _ => .exact

/-- Does `Codec::encode_str` accept this codec?  (`[PushDataSection(1), PushDataSection(2), DictLookup(_)]`) -/
def isDictCodec : List COp → Bool
  | [.push 1, .push 2, .dict _] => true
  | _ => false

/-! ### Vectors -/

inductive Data where
  | ints (xs : List Int)          -- U8 / U16 / U32 / I64 integer buffers
  | bits (xs : List Bool)         -- u8 boolean buffers: every producer writes 0/1 (`(t < u) as u8`, `true as u8`,
                                  -- ConstantExpand of 0/1), so `|`, `&`, `^ 1`, `> 0` are `||`, `&&`, `!`, `= true`
  | floats (xs : List Nat)        -- F64 bit patterns
  | strs (xs : List Bytes)        -- Str
  | nullv                         -- EncodingType::Null ("null vector")
  | scalarI (i : Int)
  | scalarF (b : Nat)
  | scalarS (s : Bytes)
  deriving Repr, Inhabited

/-- `Type` of compile_expr: decoded basic type, the codec ops still to be applied (`[]` = identity codec), is_scalar. -/
structure Ty where
  decoded : BT
  ops : List COp
  dict : List Bytes := []        -- the column's dictionary sections (only read through encode_str / DictLookup)
  isScalar : Bool
  deriving Repr, Inhabited

def Ty.isEncoded (t : Ty) : Bool := !t.ops.isEmpty

/-- A compiled and (denotationally) executed plan node. `poison` = some operator of the plan is rejected by
    `prepare` (reify_types!) — a FatalError that only surfaces after the whole query compiled. -/
structure Out where
  data : Data
  present : Option (List Bool)
  ty : Ty
  poison : Bool := false
  deriving Repr, Inhabited

inductive Err where
  | type | notimpl | fatal
  | panic            -- worker thread panics; the caller sees QueryError::Canceled
  | unmodelled       -- the model does not predict (driver prints `?`)
  deriving DecidableEq, Repr, Inhabited

/-- Float operations the model does not interpret: `i as f64`, and `x - (y as f64)` of `encode_float`. -/
structure FP where
  i2f : Int → Nat
  encF : Nat → Int → Nat

/-! ### Column images -/

structure ColImg where
  secs : List ET
  ops : List COp
  dict : List Bytes
  deriving Repr, Inhabited

inductive PCol where
  | absent
  | img (im : ColImg)
  deriving Repr, Inhabited

/-- One partition: its length and, per logical column, the image and the logical cells of its row range. -/
structure Part where
  len : Nat
  cols : List (PCol × List Val)
  deriving Repr, Inhabited

def intOf : Val → Int | .int i => i | _ => 0
def floatOf : Val → Nat | .float b => b | _ => 0
def strOf : Val → Bytes | .str s => s | _ => []
def isPresent : Val → Bool | .null => false | _ => true

/-- Stored value of an `Add(t, o)` section: `v - o` (NULL slots: placeholder, never observable). -/
def encAdd (o : Int) : Val → Int | .int i => i - o | _ => 0

def dictIndexAux (s : Bytes) : List Bytes → Nat → Int
  | [], _ => 0
  | d :: ds, i => if d = s then (i : Int) else dictIndexAux s ds (i + 1)
/-- Stored index of a dictionary-coded string. -/
def dictIndex (dict : List Bytes) : Val → Int
  | .str s => dictIndexAux s dict 0
  | _ => 0

/-- Data of the buffer compile_expr hands on for a column after the fixed-width stage, given the remaining ops. -/
def stage1Data (decoded : BT) (rest : List COp) (dict : List Bytes) (cells : List Val) : Option Data :=
  match rest with
  | [] =>
      match decoded.nonNullable with
      | .integer => some (.ints (cells.map intOf))
      | .float => some (.floats (cells.map floatOf))
      | .string => some (.strs (cells.map strOf))
      | .null => some .nullv                      -- a stored all-NULL column (DataSection::Null): the null vector
      | _ => none
  | [.add _ o] => some (.ints (cells.map (encAdd o)))
  | [.toI64 _] => some (.ints (cells.map intOf))
  | [.push 1, .push 2, .dict _] => some (.ints (cells.map (dictIndex dict)))
  | _ => none

/-- compile_expr, `ColName` arm. -/
def colRef (part : Part) (i : Nat) : Except Err Out :=
  match part.cols[i]? with
  | none | some (.absent, _) =>
      .ok { data := .nullv, present := none, ty := { decoded := .null, ops := [], isScalar := false } }
  | some (.img im, cells) =>
      match outputType im.ops im.secs with
      | none => .error .unmodelled
      | some decoded =>
        let rest := if hasProperty COp.elementwise im.ops then im.ops else (ensureProperty COp.elementwise im.ops).2
        match stage1Data decoded rest im.dict cells with
        | none => .error .unmodelled
        | some d =>
          .ok { data := d
                present := if decoded.isNullableVariant then some (cells.map isPresent) else none
                ty := { decoded := decoded, ops := rest, dict := im.dict, isScalar := false } }

/-! ### Comparison nodes -/

/-- Executor-level comparison operators. -/
inductive XOp where | lt | le | eq | ne
  deriving DecidableEq, Repr, Inhabited

/-- FUNCTION2_REGISTRY factories: which operator runs and whether the operands are swapped (`GT` = `less_than(rhs, lhs)`). -/
def lower : CmpOp → XOp × Bool
  | .lt => (.lt, false) | .le => (.le, false) | .gt => (.lt, true) | .ge => (.le, true)
  | .eq => (.eq, false) | .ne => (.ne, false)

def xInt : XOp → Int → Int → Bool
  | .lt, a, b => a < b | .le, a, b => a ≤ b | .eq, a, b => a == b | .ne, a, b => a != b
def xBytes : XOp → Bytes → Bytes → Bool
  | .lt, a, b => bytesLt a b | .le, a, b => !bytesLt b a | .eq, a, b => a == b | .ne, a, b => a != b
def xFloat (x : XOp) (a b : Nat) : Bool := xInt x (floatKey a) (floatKey b)

/-- `operator::less_than` … `not_equals`: the accepted buffer-kind pairs (`none` = reify_types! fails → FatalError). -/
def cmpData (x : XOp) : Data → Data → Option (List Bool)
  | .strs a, .scalarS c => some (a.map fun v => xBytes x v c)
  | .scalarS c, .strs a => some (a.map fun v => xBytes x c v)
  | .strs a, .strs b => some (List.zipWith (fun u v => xBytes x u v) a b)
  | .ints a, .scalarI c => some (a.map fun v => xInt x v c)
  | .scalarI c, .ints a => some (a.map fun v => xInt x c v)
  | .ints a, .ints b => some (List.zipWith (fun u v => xInt x u v) a b)
  | .floats a, .scalarF c => some (a.map fun v => xFloat x v c)
  | .scalarF c, .floats a => some (a.map fun v => xFloat x c v)
  | .floats a, .floats b => some (List.zipWith (fun u v => xFloat x u v) a b)
  | _, _ => none

/-- planner.rs `combine_nulls`: both nullable → CombineNullMaps (bitwise and), one nullable → PropagateNullability. -/
def combinePresent : Option (List Bool) → Option (List Bool) → Option (List Bool)
  | some a, some b => some (List.zipWith (· && ·) a b)
  | some a, none => some a
  | none, some b => some b
  | none, none => none

inductive Decl where
  | same (t : BT)       -- comparison_op(t): (t, t)
  | floatInt            -- (Float, Integer): cast rhs to float
  | intFloat            -- (Integer, Float): cast lhs to float
  | fwdLeft             -- forward_left_null: returns lhs
  | fwdRight            -- forward_right_null: returns rhs
  deriving DecidableEq, Repr, Inhabited

/-- FUNCTION2_REGISTRY entry list of a comparison function as (signature, declaration), in source order
    (since fix 8188cdb every comparison function has the NULL-forwarding entries, also for strings). -/
def registry (op : CmpOp) : List ((BT × BT) × Decl) :=
  let base : List ((BT × BT) × Decl) :=
    [((.integer, .integer), .same .integer), ((.float, .float), .same .float), ((.string, .string), .same .string),
     ((.float, .integer), .floatInt), ((.integer, .float), .intFloat)]
  let fwd : List ((BT × BT) × Decl) :=
    [((.null, .float), .fwdLeft), ((.float, .null), .fwdRight), ((.null, .integer), .fwdLeft), ((.integer, .null), .fwdRight),
     ((.null, .string), .fwdLeft), ((.string, .null), .fwdRight), ((.null, .null), .fwdLeft), ((.null, .null), .fwdRight)]
  match op with
  | _ => base ++ fwd

def findDecl (op : CmpOp) (l r : BT) : Option Decl :=
  ((registry op).find? fun e => e.1.1 == l.nonNullable && e.1.2 == r.nonNullable).map (·.2)

/-- `Codec::decode` of the remaining (element-wise) ops on a stage-1 buffer. -/
def decodeData (t : Ty) (d : Data) : Option Data :=
  match t.ops, d with
  | [], d => some d
  | [.add _ o], .ints xs => some (.ints (xs.map (· + o)))
  | [.toI64 _], .ints xs => some (.ints xs)
  | [.push 1, .push 2, .dict _], .ints xs => some (.strs (xs.map fun i => t.dict.getD i.toNat []))
  | _, _ => none

/-- `int_to_float_cast`. -/
def castFloat (fp : FP) : Data → Option Data
  | .ints xs => some (.floats (xs.map fp.i2f))
  | .scalarI i => some (.scalarF (fp.i2f i))
  | _ => none

/-- Encoding-invariance branch: translate the scalar `k` into the encoding of the other operand `t`. -/
def encodeConst (fp : FP) (op : CmpOp) (constIsLhs : Bool) (t : Ty) (k : Data) : Except Err Data :=
  match t.decoded.nonNullable with
  | .integer =>
      match k with
      | .scalarI v => match encodeInt t.ops v with
          | .ok e => .ok (.scalarI e)
          | .error _ => .error .panic
      | .scalarF b => match t.ops with
          | [.add _ y] => .ok (.scalarF (fp.encF b y))
          | [.toI64 _] => .ok (.scalarF b)
          | _ => .error .panic
      | _ => .error .panic
  | .string =>
      match k with
      | .scalarS s => if isDictCodec t.ops then .ok (.scalarI (inverseDictLookup t.dict (dictConstRounding op constIsLhs) s)) else .error .panic
      | _ => .error .fatal                      -- plan.scalar_str()?
  | _ => .error .panic                           -- "Can't elide decode on …"

def boolTy : Ty := { decoded := .boolean, ops := [], isScalar := false }
def nullTy : Ty := { decoded := .null, ops := [], isScalar := false }

/-- `declaration.encoding_invariance`. -/
def Decl.invariant : Decl → Bool
  | .same _ | .floatInt | .intFloat => true
  | _ => false

/-- compile_expr Func2 arm, operand preparation: a scalar next to an encoded operand is translated into the encoding
    (the column stays encoded); otherwise both operands are decoded. -/
def prepOperands (fp : FP) (op : CmpOp) (inv : Bool) (l r : Out) : Except Err (Data × Data) :=
  if inv && l.ty.isScalar && r.ty.isEncoded then
    match encodeConst fp op true r.ty l.data with
    | .ok k => .ok (k, r.data)
    | .error e => .error e
  else if inv && r.ty.isScalar && l.ty.isEncoded then
    match encodeConst fp op false l.ty r.data with
    | .ok k => .ok (l.data, k)
    | .error e => .error e
  else
    match decodeData l.ty l.data, decodeData r.ty r.data with
    | some a, some b => .ok (a, b)
    | _, _ => .error .unmodelled

/-- The registry factories of the mixed int/float signatures: `int_to_float_cast` of the integer side. -/
def castOperands (fp : FP) (decl : Decl) (a b : Data) : Option (Data × Data) :=
  match decl with
  | .floatInt => (castFloat fp b).map fun b' => (a, b')
  | .intFloat => (castFloat fp a).map fun a' => (a', b)
  | _ => some (a, b)

/-- The comparison operator itself (`qp.less_than(lhs, rhs)` … incl. the swapped forms of GT / GTE), the
    `propagate_nullability` rewrite of its null maps, and `prepare`'s acceptance check. -/
def cmpRes (op : CmpOp) (a b : Data) : Option (List Bool) :=
  if (lower op).2 then cmpData (lower op).1 b a else cmpData (lower op).1 a b

def cmpExec (op : CmpOp) (a b : Data) (lp rp : Option (List Bool)) (poison : Bool) : Out :=
  match cmpRes op a b with
  | some bits => { data := .bits bits, present := combinePresent lp rp, ty := boolTy, poison := poison }
  | none => { data := .bits [], present := combinePresent lp rp, ty := boolTy, poison := true }

/-- compile_expr, `Func2(function, lhs, rhs)` arm for the six comparison functions. -/
def cmpNode (fp : FP) (op : CmpOp) (l r : Out) : Except Err Out :=
  match findDecl op l.ty.decoded r.ty.decoded with
  | none => .error .type
  | some decl =>
    match prepOperands fp op decl.invariant l r with
    | .error e => .error e
    | .ok (a, b) =>
      match decl with
      | .fwdLeft => .ok { l with data := a, ty := nullTy, poison := l.poison || r.poison }
      | .fwdRight => .ok { r with data := b, ty := nullTy, poison := l.poison || r.poison }
      | _ =>
        match castOperands fp decl a b with
        | none => .error .panic                    -- int_to_float_cast(..).unwrap()
        | some (a, b) => .ok (cmpExec op a b l.present r.present (l.poison || r.poison))

/-- `BoolOr` / `BoolAnd` on u8 buffers. -/
def orBits (a b : List Bool) : List Bool := List.zipWith (· || ·) a b
def andBits (a b : List Bool) : List Bool := List.zipWith (· && ·) a b

def bitsOf : Data → List Bool | .bits xs => xs | _ => []

/-- kleene_null_map.rs, one row: is `l AND r` / `l OR r` known, given which operands are known and their data bits?
    Known if both operands are known, or one operand alone determines the result (FALSE for AND, TRUE for OR). -/
def kleeneKnown (isOr : Bool) (lk l rk r : Bool) : Bool :=
  if isOr then (lk && rk) || (lk && l) || (rk && r) else (lk && rk) || (lk && !l) || (rk && !r)

/-- Presence flags of a buffer as a list (a non-nullable buffer is present everywhere). -/
def presentList (bits : List Bool) : Option (List Bool) → List Bool
  | some p => p
  | none => bits.map fun _ => true

/-- `KleeneNullMap::execute` for two boolean buffers (since fix 92690d6; before: `combine_nulls`, i.e. NULL
    whenever an operand is NULL). -/
def kleenePresent (isOr : Bool) (lb : List Bool) (lp : Option (List Bool)) (rb : List Bool) (rp : Option (List Bool)) : List Bool :=
  List.zipWith (fun (x y : Bool × Bool) => kleeneKnown isOr x.2 x.1 y.2 y.1)
    (lb.zip (presentList lb lp)) (rb.zip (presentList rb rp))

/-- `KleeneNullMap::execute` with `rhs = None` (an operand that is NULL in every row), for OR: known iff TRUE. -/
def kleenePresentNull (xb : List Bool) (xp : Option (List Bool)) : List Bool :=
  List.zipWith (fun b k => kleeneKnown true k b false false) xb (presentList xb xp)

/-- compile_expr, `Func2(Or | And, …)` arms + the planner rewrite (`And/Or … if nullable` → op on the data bytes,
    `kleene_nulls`: KleeneNullMap + AssembleNullable).
    Null-typed operand: AND returns the Null operand; OR returns the other operand if that is not boolean, else
    `NULL OR x`: x's data with the null map "x is TRUE". -/
def boolNode (isOr : Bool) (l r : Out) : Except Err Out :=
  if l.ty.decoded == .null || r.ty.decoded == .null then
    if isOr then
      let x := if l.ty.decoded == .null then r else l
      if x.ty.decoded != .boolean then .ok { x with poison := l.poison || r.poison }
      else .ok { data := x.data, present := some (kleenePresentNull (bitsOf x.data) x.present), ty := boolTy,
                 poison := l.poison || r.poison }
    else .ok { (if l.ty.decoded == .null then l else r) with poison := l.poison || r.poison }
  else if l.ty.decoded != .boolean || r.ty.decoded != .boolean then .error .type
  else
    let bits := if isOr then orBits (bitsOf l.data) (bitsOf r.data) else andBits (bitsOf l.data) (bitsOf r.data)
    let present := if l.present.isSome || r.present.isSome
      then some (kleenePresent isOr (bitsOf l.data) l.present (bitsOf r.data) r.present) else none
    .ok { data := .bits bits, present := present, ty := boolTy, poison := l.poison || r.poison }

/-- compile_expr, `Func1(Not, …)`: type check, then `.u8()?` (FatalError on a nullable buffer), `BooleanNot` = `b ^ 1`. -/
def notNode (a : Out) : Except Err Out :=
  if a.ty.decoded != .boolean then .error .type
  else match a.present with
    | some _ => .error .fatal
    | none => .ok { a with data := .bits ((bitsOf a.data).map (!·)) }

/-- `TypedBufferRef::is_null`: the buffer is the null vector. -/
def Data.isNullVec : Data → Bool
  | .nullv => true
  | _ => false

/-- compile_expr, `Func1(IsNull | IsNotNull, …)`: on a nullable buffer the null map decides, otherwise a constant
    vector of `column_len` entries: 1 iff the buffer is the null vector (IsNull) / is not (IsNotNull). -/
def isNullNode (len : Nat) (wantNull : Bool) (a : Out) : Except Err Out :=
  match a.present with
  | some p => .ok { data := .bits (p.map fun b => if wantNull then !b else b), present := none, ty := boolTy, poison := a.poison }
  | none =>
      .ok { data := .bits (List.replicate len (if wantNull then a.data.isNullVec else !a.data.isNullVec)), present := none, ty := boolTy, poison := a.poison }

def scalarTy (t : BT) : Ty := { decoded := t, ops := [], isScalar := true }

/-- `QueryPlan::compile_expr` on the fragment of expressions the WHERE property speaks about. -/
def compile (fp : FP) (part : Part) : Expr → Except Err Out
  | .col i => colRef part i
  | .lit (.int i) => .ok { data := .scalarI i, present := none, ty := scalarTy .integer }
  | .lit (.float b) => .ok { data := .scalarF b, present := none, ty := scalarTy .float }
  | .lit (.str s) => .ok { data := .scalarS s, present := none, ty := scalarTy .string }
  | .lit .null => .error .notimpl
  | .cmp op l r =>
      match compile fp part l with
      | .error e => .error e
      | .ok a => match compile fp part r with
        | .error e => .error e
        | .ok b => cmpNode fp op a b
  | .or l r =>
      match compile fp part l with
      | .error e => .error e
      | .ok a => match compile fp part r with
        | .error e => .error e
        | .ok b => boolNode true a b
  | .and l r =>
      match compile fp part l with
      | .error e => .error e
      | .ok a => match compile fp part r with
        | .error e => .error e
        | .ok b => boolNode false a b
  | .not e =>
      match compile fp part e with
      | .error e => .error e
      | .ok a => notNode a
  | .isNull e =>
      match compile fp part e with
      | .error e => .error e
      | .ok a => isNullNode part.len true a
  | .isNotNull e =>
      match compile fp part e with
      | .error e => .error e
      | .ok a => isNullNode part.len false a
  | .arith _ _ _ => .error .unmodelled

/-- `Filter` / `NullableFilter` applied to the row indices: keep `i` iff the filter byte is > 0 and (if nullable) present. -/
def keptIdx : List Bool → Option (List Bool) → Nat → List Nat
  | [], _, _ => []
  | b :: bs, none, i => if b then i :: keptIdx bs none (i + 1) else keptIdx bs none (i + 1)
  | _ :: _, some [], _ => []                           -- (null map shorter than the data: not well formed)
  | b :: bs, some (p :: ps), i => if b && p then i :: keptIdx bs (some ps) (i + 1) else keptIdx bs (some ps) (i + 1)

/-- query.rs `where_filter` (since fix 73cacf9): how the compiled WHERE expression is applied to the `len` rows of the
    partition.  Boolean buffer → Filter::U8 / NullableU8; null vector → Filter::Null (no row); integer constant → 0 is
    false (no row), anything else true (Filter::None, every row; a query without WHERE clause has the filter `1`);
    every other expression is a TypeError.  (Before the fix: everything that was not a u8 / nullable u8 / null buffer
    meant "no filter", and a narrow integer column was used as a byte mask.) -/
def whereFilter (len : Nat) (out : Out) : Except Err (List Nat) :=
  match out.ty.decoded, out.data with
  | .boolean, .bits bits => .ok (keptIdx bits out.present 0)
  | .null, _ => .ok []
  | .integer, .scalarI c => if c = 0 then .ok [] else .ok (List.range len)
  | _, _ => .error .type

/-- `NormalFormQuery::run`: compile the WHERE expression, choose the filter, apply it to the projected column;
    `prepare` then rejects operators it cannot instantiate (FatalError).  Result: indices (within the partition) of the
    rows that are kept.  (The stage partitioner `QueryExecutor::partition` is not modelled; until fix 186ef0c it panicked
    when one string literal was shared between InverseDictLookup and a streamed comparison — witness `C03W.Ex2`.) -/
def implFilter (fp : FP) (part : Part) (e : Expr) : Except Err (List Nat) :=
  match compile fp part e with
  | .error err => .error err
  | .ok out =>
    match whereFilter part.len out with
    | .error err => .error err
    | .ok idx => if out.poison then .error .fatal else .ok idx

/-- Outcome of the whole query over all partitions. -/
inductive QOut where
  | rows (ids : List Nat)
  | err (e : Err)
  deriving Repr

/-- `QueryTask`: every partition runs `NormalFormQuery::run`; the first error fails the query (if partitions fail with
    different kinds the winner depends on scheduling: not predicted); results are concatenated in range order. -/
def implQuery (fp : FP) (parts : List (Nat × Part)) (e : Expr) : QOut :=
  let rs := parts.map fun (start, p) => (start, implFilter fp p e)
  let errs := rs.filterMap fun (_, r) => match r with | .error k => some k | .ok _ => none
  match errs with
  | [] => .rows (rs.flatMap fun (start, r) => match r with | .ok ids => ids.map (· + start) | .error _ => [])
  | k :: ks => if ks.all (· == k) then .err k else .err .unmodelled

/-- Does some partition answer with an error *value* (TypeError / NotImplemented / FatalError)?  Then the whole query
    answers with an error value (of one of those kinds): the predicate is outside the supported fragment. -/
def anyErrValue (fp : FP) (parts : List (Nat × Part)) (e : Expr) : Bool :=
  parts.any fun (_, p) => match implFilter fp p e with
    | .error .type | .error .notimpl | .error .fatal => true
    | _ => false

end LM.Filter
