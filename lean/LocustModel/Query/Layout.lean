import LocustModel.Query.Sql
import LocustModel.Query.GroupSpec
import LocustModel.Query.OrderSpec
import LocustModel.Query.Combine
/-
  C02 — logical vs physical evaluation of a query.

  `evalLogical q rows`  the specification: the reference semantics of C03–C06 applied to the logical table
                        (`Sql.filterRows`, `Sql.projectRows`, `OrderSpec`, `GroupSpec.specGroupBy`).
  `evalPhys q parts t`  the model of what the engine does for a physical realisation: the table is a list of
                        partitions (`parts`, in row-range order — open buffer, frozen buffer, fresh, compacted or
                        reloaded partitions are all just partitions here, their content being guaranteed by
                        C01/C07/C14), every partition is evaluated on its own, the partial results are combined
                        by `Combine.combine…` along a bracketing `t`, and the answer is cut out by `outputSlice`.

  Per-partition evaluation uses the row-at-a-time semantics (C03–C06 show the per-partition operator pipelines
  compute it); what this file adds is the split into partitions and the merge tree.  Core-only.
-/
namespace LM.Layout
open LM LM.Sql LM.Combine LM.OrderSpec

/-! ### Queries of the fragment -/

structure SelQuery where
  exprs : List Expr
  pred : Option Expr
  limit : Nat            -- `u64::MAX` when absent; any number ≥ the table length behaves the same
  offset : Nat

structure OrdQuery where
  exprs : List Expr
  pred : Option Expr
  keys : List (Nat × Bool)   -- ORDER BY columns with direction (true = DESC)
  limit : Nat
  offset : Nat

structure GrpQuery where
  sel : List GroupSpec.SelItem
  pred : Option Expr

/-! ### Splitting a table into partitions -/

/-- Cut `rows` into consecutive pieces of the given lengths (a last piece takes what is left). -/
def splitRows {ρ : Type} : List Nat → List ρ → List (List ρ)
  | [], rows => if rows.isEmpty then [] else [rows]
  | n :: ns, rows => rows.take n :: splitRows ns (rows.drop n)

theorem splitRows_flatten {ρ : Type} (ns : List Nat) (rows : List ρ) : (splitRows ns rows).flatten = rows := by
  induction ns generalizing rows with
  | nil => cases rows <;> simp [splitRows]
  | cons n ns ih => simp [splitRows, ih]

/-! ### Res plumbing -/

def Res.bind {α β : Type} : Res α → (α → Res β) → Res β
  | .ok a, f => f a
  | .overflow, _ => .overflow
  | .unsupported, _ => .unsupported

/-- All partitions are evaluated; an overflow in any of them fails the query (`fail_with`), an unsupported
    construct in any of them is an error value. Overflow dominates, as in `Sql.filterRows`. -/
def Res.all {α : Type} : List (Res α) → Res (List α)
  | [] => .ok []
  | r :: rs =>
      match r, Res.all rs with
      | .ok a, .ok t => .ok (a :: t)
      | .overflow, _ => .overflow
      | _, .overflow => .overflow
      | _, _ => .unsupported

/-! ### SELECT … [WHERE] [LIMIT/OFFSET] -/

def selectRows (i2f : Int → Nat) (q : SelQuery) (rows : List Row) : Res (List Row) :=
  Res.bind (filterRows i2f q.pred rows) (projectRows i2f q.exprs)

def evalLogicalSel (i2f : Int → Nat) (q : SelQuery) (rows : List Row) : Res (List Row) :=
  Res.bind (selectRows i2f q rows) fun r => .ok (plainSpec r q.limit q.offset)

/-- `t` is a bracketing of the positions `0 .. parts.length-1`; the leaves are looked up in the evaluated partitions. -/
def evalPhysSel (i2f : Int → Nat) (q : SelQuery) (t : Tree (List Row)) : List Row :=
  outputSlice q.limit q.offset (t.eval (combineSel (q.limit + q.offset)))

/-! ### ORDER BY -/

def keyDirs (keys : List (Nat × Bool)) : List Bool := keys.map (·.2)

/-- The rows that survive WHERE, each with its key tuple and the cells it shows. -/
def orderItems (i2f : Int → Nat) (q : OrdQuery) (rows : List Row) : Res (List Item) :=
  Res.bind (filterRows i2f q.pred rows) fun kept =>
    Res.bind (projectRows i2f q.exprs kept) fun shown =>
      .ok ((kept.map fun r => q.keys.map fun k => r.getD k.1 .null).zip shown)

/-- Per partition: `sort_by` from the last key to the first, stable (= the stable lexicographic sort), or `top_n`;
    either way a sorted arrangement of the partition's items, of which at least the first `limit+offset` are kept. -/
def partSorted (q : OrdQuery) (items : List Item) : List Item := isort (itemLe (keyDirs q.keys)) items

def evalPhysOrd (q : OrdQuery) (t : Tree (List Item)) : List Item :=
  outputSlice q.limit q.offset (t.eval (combineSort (itemLe (keyDirs q.keys)) (q.limit + q.offset)))

/-! ### Grouped / global aggregates -/

def evalLogicalGrp (i2f : Int → Nat) (q : GrpQuery) (rows : List Row) : Res (List Row) :=
  GroupSpec.specGroupBy i2f q.sel q.pred rows

end LM.Layout
