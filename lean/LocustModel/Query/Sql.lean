import LocustModel.Prim
import LocustModel.Query.Arith
import LocustModel.Query.ArithSpec
/-
  Reference semantics (specification) of the SQL fragment LocustDB supports, row at a time.
  Shared by the oracles of C02–C06 and C12.  Deliberately simple: `List` of rows, Kleene logic,
  exact integer arithmetic, stable merge sort written out here (no library sort), association-list
  group-by.  Nothing in this file mirrors the engine.

  Values: NULL, i64 integers, f64 bit patterns, byte strings.  Float *arithmetic* is not part of the
  fragment (only comparison, MIN/MAX, ordering, and SUM over floats whose partial sums are exact);
  float order is OrderedFloat's total order computed on the bit pattern.
-/
namespace LM.Sql
open LM

inductive Val where
  | null
  | int (i : Int)
  | float (bits : Nat)
  | str (s : List UInt8)
  deriving DecidableEq, Repr, Inhabited

abbrev Row := List Val

/-- Sign-magnitude key of an f64 pattern under OrderedFloat: NaN greatest (all NaNs equal), -0 = +0. -/
def floatKey (bits : Nat) : Int :=
  let mag := bits % 9223372036854775808          -- lower 63 bits
  let neg := bits / 9223372036854775808 % 2 = 1
  let expAllOnes := mag / 4503599627370496 = 2047 -- 2^52
  let isNan := expAllOnes ∧ mag % 4503599627370496 ≠ 0
  if isNan then 9223372036854775808 else if neg then - (mag : Int) else (mag : Int)

/-- Byte-lexicographic order (Rust `str` order). -/
def bytesLt : List UInt8 → List UInt8 → Bool
  | [], [] => false
  | [], _ :: _ => true
  | _ :: _, [] => false
  | a :: as, b :: bs => if a < b then true else if b < a then false else bytesLt as bs

inductive CmpOp where | eq | ne | lt | le | gt | ge
  deriving DecidableEq, Repr, Inhabited

def cmpInt (op : CmpOp) (a b : Int) : Bool :=
  match op with
  | .eq => a == b | .ne => a != b | .lt => a < b | .le => a ≤ b | .gt => a > b | .ge => a ≥ b

def cmpBytes (op : CmpOp) (a b : List UInt8) : Bool :=
  match op with
  | .eq => a == b | .ne => a != b | .lt => bytesLt a b | .le => !bytesLt b a
  | .gt => bytesLt b a | .ge => !bytesLt a b

/-- Three-valued outcome of evaluating an expression on a row. -/
inductive Ev where
  | val (v : Val)          -- a value (booleans are `int 0` / `int 1`, unknown is `null`)
  | overflow               -- arithmetic overflow / division by zero: the whole query fails
  | unsupported            -- outside the supported fragment (type combination the engine rejects)
  deriving DecidableEq, Repr, Inhabited

def boolVal (b : Bool) : Ev := .val (.int (if b then 1 else 0))

/-- Comparison with SQL NULL semantics. `i2f` converts an integer to the f64 pattern it is cast to when
    compared with a float (Rust `as f64`; a parameter, supplied natively by the driver). -/
def evalCmp (i2f : Int → Nat) (op : CmpOp) : Val → Val → Ev
  | .null, _ => .val .null
  | _, .null => .val .null
  | .int a, .int b => boolVal (cmpInt op a b)
  | .float a, .float b => boolVal (cmpInt op (floatKey a) (floatKey b))
  | .int a, .float b => boolVal (cmpInt op (floatKey (i2f a)) (floatKey b))
  | .float a, .int b => boolVal (cmpInt op (floatKey a) (floatKey (i2f b)))
  | .str a, .str b => boolVal (cmpBytes op a b)
  | _, _ => .unsupported

def evalAnd : Val → Val → Ev
  | .int 0, _ => boolVal false
  | _, .int 0 => boolVal false
  | .int _, .int _ => boolVal true
  | .null, .int _ => .val .null
  | .int _, .null => .val .null
  | .null, .null => .val .null
  | _, _ => .unsupported

def evalOr : Val → Val → Ev
  | .int a, .int b => boolVal (a != 0 || b != 0)
  | .int a, .null => if a != 0 then boolVal true else .val .null
  | .null, .int b => if b != 0 then boolVal true else .val .null
  | .null, .null => .val .null
  | _, _ => .unsupported

def evalNot : Val → Ev
  | .int a => boolVal (a == 0)
  | .null => .val .null
  | _ => .unsupported

def evalArith (op : Arith.Op) : Val → Val → Ev
  | .null, .null => .val .null
  | .null, .int _ => .val .null
  | .int _, .null => .val .null
  | .int a, .int b =>
      match ArithSpec.specCell op (some a) (some b) with
      | .value (some v) => .val (.int v)
      | .value none => .val .null
      | .error => .overflow
  | _, _ => .unsupported

inductive Expr where
  | col (i : Nat)
  | lit (v : Val)
  | cmp (op : CmpOp) (l r : Expr)
  | and (l r : Expr)
  | or (l r : Expr)
  | not (e : Expr)
  | isNull (e : Expr)
  | isNotNull (e : Expr)
  | arith (op : Arith.Op) (l r : Expr)
  deriving Repr, Inhabited

def bind2 (a b : Ev) (f : Val → Val → Ev) : Ev :=
  match a, b with
  | .val x, .val y => f x y
  | .overflow, _ => .overflow
  | _, .overflow => .overflow
  | _, _ => .unsupported

def eval (i2f : Int → Nat) : Expr → Row → Ev
  | .col i, row => .val (row.getD i .null)
  | .lit v, _ => .val v
  | .cmp op l r, row => bind2 (eval i2f l row) (eval i2f r row) (evalCmp i2f op)
  | .and l r, row => bind2 (eval i2f l row) (eval i2f r row) evalAnd
  | .or l r, row => bind2 (eval i2f l row) (eval i2f r row) evalOr
  | .not e, row => match eval i2f e row with
      | .val v => evalNot v | o => o
  | .isNull e, row => match eval i2f e row with
      | .val v => boolVal (v == .null) | o => o
  | .isNotNull e, row => match eval i2f e row with
      | .val v => boolVal (v != .null) | o => o
  | .arith op l r, row => bind2 (eval i2f l row) (eval i2f r row) (evalArith op)

/-- Outcome of a whole query under the specification. -/
inductive Res (α : Type) where
  | ok (a : α)
  | overflow
  | unsupported
  deriving Repr

/-- Does the row satisfy the WHERE clause?  true iff the predicate evaluates to a non-zero integer
    (NULL / unknown is not true). -/
def keep (i2f : Int → Nat) (pred : Option Expr) (r : Row) : Res Bool :=
  match pred with
  | none => .ok true
  | some p =>
    match eval i2f p r with
    | .overflow => .overflow
    | .unsupported => .unsupported
    | .val (.int i) => .ok (i != 0)
    | .val .null => .ok false
    | .val _ => .unsupported

/-- WHERE: keep exactly the rows whose predicate is true, in table order. -/
def filterRows (i2f : Int → Nat) (pred : Option Expr) : List Row → Res (List Row)
  | [] => .ok []
  | r :: rs =>
      match keep i2f pred r, filterRows i2f pred rs with
      | .ok b, .ok t => .ok (if b then r :: t else t)
      | .overflow, _ => .overflow
      | _, .overflow => .overflow
      | _, _ => .unsupported

/-- Projection of a list of expressions on every row. -/
def projectRows (i2f : Int → Nat) (es : List Expr) : List Row → Res (List Row)
  | [] => .ok []
  | r :: rs =>
      let rec cells : List Expr → Res Row
        | [] => .ok []
        | e :: es' => match eval i2f e r with
            | .val v => (match cells es' with | .ok t => .ok (v :: t) | o => o)
            | .overflow => .overflow
            | .unsupported => .unsupported
      match cells es, projectRows i2f es rs with
      | .ok c, .ok t => .ok (c :: t)
      | .overflow, _ => .overflow
      | _, .overflow => .overflow
      | _, _ => .unsupported

/-! ### Ordering -/

/-- Total preorder on values of one type used by ORDER BY: NULL after every value. Mixed types are
    outside the fragment (compared by a fixed type rank so the function stays total). -/
def valRank : Val → Nat
  | .int _ => 0 | .float _ => 1 | .str _ => 2 | .null => 3

/-- `a` strictly before `b` ascending (NULL last). -/
def valLt (a b : Val) : Bool :=
  match a, b with
  | .int x, .int y => x < y
  | .float x, .float y => floatKey x < floatKey y
  | .str x, .str y => bytesLt x y
  | x, y => valRank x < valRank y

/-- Lexicographic comparison of key tuples with per-key direction (true = descending).
    Descending reverses the whole order of that key, so NULL comes first. -/
def keysLt : List (Val × Bool) → List (Val × Bool) → Bool
  | [], _ => false
  | _, [] => false
  | (a, d) :: as, (b, _) :: bs =>
      let lt := if d then valLt b a else valLt a b
      let gt := if d then valLt a b else valLt b a
      if lt then true else if gt then false else keysLt as bs

/-- Insertion sort, stable: the specification's notion of "sorted by the keys". -/
def insertBy (lt : α → α → Bool) (x : α) : List α → List α
  | [] => [x]
  | y :: ys => if lt x y then x :: y :: ys else y :: insertBy lt x ys

def sortBy (lt : α → α → Bool) : List α → List α
  | [] => []
  | x :: xs => insertBy lt x (sortBy lt xs)

/-! ### Aggregation -/

inductive AggKind where | count | sum | min | max
  deriving DecidableEq, Repr, Inhabited

/-- Aggregate over the non-NULL inputs of one group. SUM of integers is exact or overflows;
    SUM of floats is outside this spec's arithmetic (the driver supplies exact dyadic sums). -/
def aggInts (k : AggKind) (xs : List Int) : Res Val :=
  match k with
  | .count => .ok (.int xs.length)
  | .sum => if xs.isEmpty then .ok .null else
      let s := xs.foldl (· + ·) 0
      if inI64 s then .ok (.int s) else .overflow
  | .min => match xs with
      | [] => .ok .null
      | x :: t => .ok (.int (t.foldl (fun a b => if b < a then b else a) x))
  | .max => match xs with
      | [] => .ok .null
      | x :: t => .ok (.int (t.foldl (fun a b => if b > a then b else a) x))

end LM.Sql
