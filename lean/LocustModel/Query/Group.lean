import LocustModel.Prim
/-
  C04 — the in-partition grouping pipeline, operator by operator.

  Mirrors (dev profile):
    src/engine/planning/query_plan.rs   compile_grouping_key (single key: range → cardinality / offset),
                                        try_bitpacking (`bits`, shifted bounds, widths, largest_key)
    src/engine/operators/fuse_nulls.rs  FuseIntNulls / UnfuseIntNulls
    src/engine/operators/aggregate.rs   Aggregate / AggregateNullable / CheckedAggregate(Nullable)
    src/engine/operators/exists.rs, nonzero_indices.rs, compact.rs, nonzero_compact.rs
    src/engine/operators/parameterized_vec_vec_int_op.rs (BitShiftLeftAdd), bit_unpack.rs
  Vectors are lists; accumulator arrays are lists indexed by the (raw) grouping key.
-/
namespace LM.Group
open LM

/-! ### Planner arithmetic -/

/-- `bits(max)`: number of bits needed for 0..=max (`64 - leading_zeros`, 0 for max ≤ 0). -/
def bitLen : Nat → Nat → Nat
  | 0, _ => 0
  | fuel + 1, n => if n = 0 then 0 else 1 + bitLen fuel (n / 2)

def bits (max : Int) : Nat := if max ≤ 0 then 0 else bitLen 64 max.toNat

/-- `checked_*` on i64. -/
def chkSub (a b : Int) : Option Int := if inI64 (a - b) then some (a - b) else none
def chkNeg (a : Int) : Option Int := if inI64 (-a) then some (-a) else none

/-- compile_grouping_key, one grouping expression with a known encoding range: (max_cardinality, offset);
    `none` when the shifted range does not fit i64 (then: unknown range, hash grouping on unshifted values). -/
def checkedRange (min max : Int) (nullable : Bool) : Option (Int × Option Int) :=
  if min ≤ 0 ∧ nullable then do
    let w ← chkSub max min
    let card ← chkAdd w 1
    let nm ← chkNeg min
    let off ← chkAdd nm 1
    pure (card, some off)
  else if nullable then some (max, some 0)
  else if min < 0 then do
    let w ← chkSub max min
    let nm ← chkNeg min
    pure (w, some nm)
  else some (max, none)

/-- `(max_cardinality, offset)` of the single-key plan. -/
def singleKeyPlan (range : Option (Int × Int)) (nullable : Bool) : Int × Option Int :=
  match range.bind fun r => checkedRange r.1 r.2 nullable with
  | some x => x
  | none => (4611686018427387904, none)     -- 1 << 62

/-- try_bitpacking `shifted_bounds`: (max', width, -min, null_offset). -/
def shiftedBounds (min max : Int) (nullable : Bool) : Option (Int × Int × Int × Int) := do
  let max' ← if nullable ∧ min ≤ 0 then chkAdd max 1 else some max
  let w ← chkSub max' min
  let nm ← chkNeg min
  let no ← if nullable then chkAdd nm 1 else some 0
  pure (max', w, nm, no)

/-- One column of a bit-packed composite key as planned by try_bitpacking. -/
structure PackCol where
  min : Int
  subtractOffset : Bool
  nullable : Bool
  nullOffset : Int
  adjustedMax : Int
  shift : Nat          -- total_width before this column
  width : Nat          -- bits(adjusted_max)
  deriving Repr, DecidableEq, Inhabited

/-- try_bitpacking, the part of the loop body that depends only on the column: (subtract_offset, null_offset,
    adjusted_max); `none` = the column cannot be bit-packed (unknown range or arithmetic leaving i64). -/
def colPlan (range : Option (Int × Int)) (nullable : Bool) : Option (Int × Bool × Int × Int) := do
  let (min, max) ← range
  let (max', w, _nm, no) ← shiftedBounds min max nullable
  let subtractOffset := decide ((bits max' : Int) - bits w > 1) || decide (min < 0) || nullable
  let adjustedMax ← if nullable then chkAdd w 1 else some (if subtractOffset then w else max')
  pure (min, subtractOffset, no, adjustedMax)

/-- try_bitpacking over the grouping columns in REVERSE select order (the last one gets shift 0):
    `none` = not bit-packable (some column is not, or more than 63 bits in total). -/
def planPack : List (Option (Int × Int) × Bool) → Nat → Option (List PackCol)
  | [], _ => some []
  | (range, nullable) :: rest, total =>
      match colPlan range nullable with
      | none => none
      | some (min, subtractOffset, no, adjustedMax) =>
          if total + bits adjustedMax > 63 then none else
          match planPack rest (total + bits adjustedMax) with
          | none => none
          | some cols => some (⟨min, subtractOffset, nullable, no, adjustedMax, total, bits adjustedMax⟩ :: cols)

/-- `largest_key`. -/
def largestKey (cols : List PackCol) : Int := cols.foldl (fun acc c => acc + c.adjustedMax * 2 ^ c.shift) 0

/-! ### Operators -/

/-- FuseIntNulls: `input[i] + offset`, NULL ↦ 0.  (After the planner widens narrow columns the addition is in i64.) -/
def fuseIntNulls (offset : Int) : List (Option Int) → Except Fault (List Int)
  | [] => .ok []
  | none :: t => (fuseIntNulls offset t).map (0 :: ·)
  | some v :: t => do
      let x ← addI64 v offset
      let r ← fuseIntNulls offset t
      pure (x :: r)

/-- UnfuseIntNulls: 0 ↦ NULL, otherwise `fused[i] - offset`. -/
def unfuseIntNulls (offset : Int) : List Int → Except Fault (List (Option Int))
  | [] => .ok []
  | k :: t =>
      if k = 0 then (unfuseIntNulls offset t).map (none :: ·)
      else do
        let x ← subI64 k offset
        let r ← unfuseIntNulls offset t
        pure (some x :: r)

/-- BitShiftLeftAdd: `lhs + (rhs << shift)` (zip). -/
def bitPack (shift : Nat) : List Int → List Int → List Int
  | a :: as, b :: bs => (a + b * 2 ^ shift) :: bitPack shift as bs
  | _, _ => []

/-- The composite key of one row: `plan = adjusted_0`, then for every further column
    `plan = bit_pack(plan, adjusted_i, total_width_i)` = `plan + (adjusted_i << total_width_i)`. -/
def packKey : List PackCol → List Int → Int → Int
  | c :: cs, v :: vs, acc => packKey cs vs (acc + v * 2 ^ c.shift)
  | _, _, acc => acc

/-- BitUnpackOperator: `(d >> shift) & mask(width)` on non-negative keys. -/
def bitUnpack1 (shift width : Nat) (d : Int) : Int := (d / 2 ^ shift) % 2 ^ width
def bitUnpack (shift width : Nat) (ds : List Int) : List Int := ds.map (bitUnpack1 shift width)

/-- `accumulators.resize(max_index + 1, unit)` on a fresh vector. -/
def freshAcc (maxIndex : Nat) (unit : Int) : List Int := List.replicate (maxIndex + 1) unit

/-- Aggregate<T,U,V,A>::execute loop: `accumulators[i] = A::accumulate(accumulators[i], n)` (zip of grouping
    and input); `none` = index out of bounds. -/
def accumulate (f : Int → Int → Int) : List Int → List (Nat × Int) → Option (List Int)
  | acc, [] => some acc
  | acc, (g, n) :: rest =>
      if h : g < acc.length then accumulate f (acc.set g (f acc[g] n)) rest else none

/-- AggregateNullable: only rows whose input is present are accumulated, and their slot is marked present. -/
def accumulateNullable (f : Int → Int → Int) :
    List Int × List Bool → List (Nat × Option Int) → Option (List Int × List Bool)
  | st, [] => some st
  | st, (_, none) :: rest => accumulateNullable f st rest
  | (acc, pres), (g, some n) :: rest =>
      if h : g < acc.length then accumulateNullable f (acc.set g (f acc[g] n), pres.set g true) rest else none

/-- CheckedAggregate<SumI64>: `overflowing_add`, `any_overflow |= overflow`. Returns (accumulators, any_overflow). -/
def accumulateChecked : List Int × Bool → List (Nat × Int) → Option (List Int × Bool)
  | st, [] => some st
  | (acc, ovf), (g, n) :: rest =>
      if h : g < acc.length then
        accumulateChecked (acc.set g (ovfAdd acc[g] n).1, ovf || (ovfAdd acc[g] n).2) rest
      else none

/-- Exists: `exists[index] = 1`. -/
def existsOp : List Nat → List Nat → Option (List Nat)
  | ex, [] => some ex
  | ex, g :: rest => if g < ex.length then existsOp (ex.set g 1) rest else none

/-- NonzeroIndices: indices of the non-zero entries, ascending. -/
def nonzeroIndicesFrom : Nat → List Nat → List Nat
  | _, [] => []
  | i, x :: xs => if x > 0 then i :: nonzeroIndicesFrom (i + 1) xs else nonzeroIndicesFrom (i + 1) xs
def nonzeroIndices (xs : List Nat) : List Nat := nonzeroIndicesFrom 0 xs

/-- Compact: keep `data[i]` where `select[i] > 0` (zip: `select.iter().take(data.len())`). -/
def compact {α : Type} : List α → List Nat → List α
  | d :: ds, s :: ss => if s > 0 then d :: compact ds ss else compact ds ss
  | _, _ => []

/-- NonzeroCompact: keep the positive entries. -/
def nonzeroCompact (xs : List Int) : List Int := xs.filter (· > 0)

/-- Aggregator units and steps (aggregate.rs). -/
def maxUnit : Int := I64_MIN
def minUnit : Int := I64_MAX
def maxStep (a v : Int) : Int := if a ≥ v then a else v
def minStep (a v : Int) : Int := if a ≤ v then a else v
def countStep (a _v : Int) : Int := a + 1


/-- Which accumulator operator `prepare_aggregation` plans for an integer aggregate (merge-level aggregator names). -/
inductive AggOp where | sum | count | max | min
  deriving DecidableEq, Repr, Inhabited

def aggStep : AggOp → Int → Int → Int
  | .sum => fun a v => a + v
  | .count => countStep
  | .max => maxStep
  | .min => minStep
def aggUnit : AggOp → Int
  | .sum => 0 | .count => 0 | .max => maxUnit | .min => minUnit

/-- The accumulator array of one partition for a non-nullable integer input: SUM goes through CheckedAggregate
    (`none` here = QueryError::Overflow or an index fault), the others through Aggregate. -/
def arrayAcc (op : AggOp) (maxIndex : Nat) (rows : List (Nat × Int)) : Option (List Int) :=
  match op with
  | .sum =>
      match accumulateChecked (freshAcc maxIndex 0, false) rows with
      | some (acc, false) => some acc
      | _ => none
  | _ => accumulate (aggStep op) (freshAcc maxIndex (aggUnit op)) rows

/-- The partial result of one partition on the array path: group keys = nonzero_indices(exists),
    aggregates = compact(accumulators, exists). -/
def arrayPartition (op : AggOp) (maxIndex : Nat) (rows : List (Nat × Int)) : Option (List Nat × List Int) := do
  let acc ← arrayAcc op maxIndex rows
  let sel ← existsOp (List.replicate (maxIndex + 1) 0) (rows.map (·.1))
  pure (nonzeroIndices sel, compact acc sel)


/-- CompactNullable: data and presence are compacted together. -/
def compactNullable (data : List Int) (present : List Bool) (select : List Nat) : List Int × List Bool :=
  (compact data select, compact present select)

/-- FuseNullsI64: absent ↦ `I64_NULL = i64::MAX`. -/
def fuseNulls : List Int → List Bool → List Int
  | a :: as, p :: ps => (if p then a else I64_MAX) :: fuseNulls as ps
  | _, _ => []

/-- The partial result of one partition on the array path for a NULLABLE integer input:
    AggregateNullable, Exists, NonzeroIndices, CompactNullable, FuseNulls. -/
def arrayPartitionNullable (op : AggOp) (maxIndex : Nat) (rows : List (Nat × Option Int)) :
    Option (List Nat × List Int) := do
  let (acc, pres) ← accumulateNullable (aggStep op) (freshAcc maxIndex (aggUnit op), List.replicate (maxIndex + 1) false) rows
  let sel ← existsOp (List.replicate (maxIndex + 1) 0) (rows.map (·.1))
  let (d, p) := compactNullable acc pres sel
  pure (nonzeroIndices sel, fuseNulls d p)

end LM.Group
