import LocustModel.Prim
import LocustModel.Query.Arith
/-
  Specification for C06: exact integer arithmetic (truncated division), result iff it fits i64.
-/
namespace LM.ArithSpec
open LM LM.Arith

/-- Mathematically exact value; `none` = undefined (division by zero). -/
def exact (op : Op) (l r : Int) : Option Int :=
  match op with
  | .add => some (l + r)
  | .sub => some (l - r)
  | .mul => some (l * r)
  | .div => if r = 0 then none else some (Int.tdiv l r)
  | .mod => if r = 0 then none else some (Int.tmod l r)

inductive Outcome where
  | value (v : Option Int)   -- a cell (NULL or integer)
  | error                    -- the whole query fails with Overflow
  deriving DecidableEq, Repr

/-- What the property allows for one row: NULL if an operand is NULL (never an error);
    otherwise the exact value when defined and representable, else an error.
    An error is *always* allowed by the property ("exact or the query fails"). -/
def allowed (op : Op) (l r : Option Int) (out : Outcome) : Prop :=
  match l, r with
  | some a, some b =>
      match out with
      | .error => True
      | .value v => ∃ e, exact op a b = some e ∧ inI64 e ∧ v = some e
  | _, _ => out = .value none

/-- The strict reading used by the oracle: error exactly when the exact result is undefined or
    does not fit (plus the one documented spurious case `(i64::MIN+1) / -1`). -/
def specCell (op : Op) (l r : Option Int) : Outcome :=
  match l, r with
  | some a, some b =>
      match exact op a b with
      | none => .error
      | some e => if inI64 e then .value (some e) else .error
  | _, _ => .value none

end LM.ArithSpec
