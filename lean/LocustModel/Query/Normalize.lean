import LocustModel.Prim
/-
  C12 model, part 1: from the SQL parser's syntax tree to the normal-form query.

  Rust anchors (mirrored arm by arm, in evaluation order, because the order decides WHICH error
  value comes out):
    src/syntax/parser.rs      parse_query, get_query_components, get_projection, get_table_name,
                              get_order_by, get_limit, get_offset, convert_to_native_expr,
                              function_arg_to_expr, strip_quotes, map_unary_operator,
                              map_binary_operator, get_raw_val
    src/syntax/expression.rs  Expr, Func1Type, Func2Type, add_colnames
    src/engine/planning/query.rs   Query::normalize, extract_aggregators, ensure_no_aggregates,
                              is_select_star, find_referenced_cols
    src/engine/execution/query_task.rs   the `SELECT *` expansion at the top of QueryTask::new

  The sqlparser syntax tree is mirrored COARSELY: only the distinctions parser.rs makes.  Every
  node kind parser.rs sends to its `_ =>` arm is one constructor `other`.  sqlparser itself
  (text → tree) is not modelled; the harness generates the text together with the mirrored tree.

  Outcomes: `Res.ok` (a value), `Res.err` (a QueryError VALUE handed back to the caller),
  `Res.fault` (a panic on the calling thread).  C12 is about telling the last two apart.
-/
namespace LM.Norm
open LM

/-! ## Outcomes -/

/-- Kinds of `QueryError` (src/errors.rs). -/
inductive QErr where
  | parse | notimpl | type | fatal | overflow | canceled
  deriving DecidableEq, Repr, Inhabited

def QErr.toString : QErr → String
  | .parse => "parse" | .notimpl => "notimpl" | .type => "type" | .fatal => "fatal"
  | .overflow => "overflow" | .canceled => "canceled"
instance : ToString QErr := ⟨QErr.toString⟩

inductive Res (α : Type) where
  | ok (a : α)
  | err (e : QErr)
  | fault (f : Fault)
  deriving DecidableEq, Repr, Inhabited

def Res.bind {α β : Type} : Res α → (α → Res β) → Res β
  | .ok a, f => f a
  | .err e, _ => .err e
  | .fault x, _ => .fault x

instance : Monad Res where
  pure := Res.ok
  bind := Res.bind

@[simp] theorem Res.ok_bind {α β : Type} (a : α) (f : α → Res β) : (Res.ok a >>= f) = f a := rfl
@[simp] theorem Res.err_bind {α β : Type} (e : QErr) (f : α → Res β) : (Res.err e >>= f) = Res.err e := rfl
@[simp] theorem Res.fault_bind {α β : Type} (x : Fault) (f : α → Res β) : (Res.fault x >>= f) = Res.fault x := rfl
@[simp] theorem Res.pure_eq {α : Type} (a : α) : (pure a : Res α) = Res.ok a := rfl

/-- The computation does not panic. -/
def Res.NoFault {α : Type} : Res α → Prop
  | .fault _ => False
  | _ => True

theorem Res.noFault_bind {α β : Type} {x : Res α} {f : α → Res β}
    (hx : x.NoFault) (hf : ∀ a, x = .ok a → (f a).NoFault) : (x >>= f).NoFault := by
  cases x with
  | ok a => exact hf a rfl
  | err e => trivial
  | fault y => exact hx

/-! ## Target: LocustDB's own expression and query types -/

inductive RawVal where
  | int (i : Int)
  | float (bits : Nat)
  | str (s : String)
  | null
  deriving DecidableEq, Repr, Inhabited

inductive F1 where
  | negate | toYear | not | isNull | isNotNull | length | floor
  deriving DecidableEq, Repr, Inhabited

inductive F2 where
  | eq | ne | lt | le | gt | ge | and | or | add | sub | mul | div | mod | regex | like | notLike
  deriving DecidableEq, Repr, Inhabited

/-- The parser only ever emits the integer-typed aggregators. -/
inductive Agg where
  | sum | count | max | min
  deriving DecidableEq, Repr, Inhabited

inductive Expr where
  | col (name : String)
  | const (v : RawVal)
  | f1 (t : F1) (e : Expr)
  | f2 (t : F2) (a b : Expr)
  | agg (a : Agg) (e : Expr)
  deriving DecidableEq, Repr, Inhabited

structure ColumnInfo where
  expr : Expr
  name : String
  deriving DecidableEq, Repr, Inhabited

structure Limit where
  limit : Nat
  offset : Nat
  deriving DecidableEq, Repr, Inhabited

structure Query where
  select : List ColumnInfo
  table : String
  filter : Expr
  orderBy : List (Expr × Bool)
  limit : Limit
  deriving DecidableEq, Repr, Inhabited

/-! ## Source: the coarse mirror of sqlparser's tree -/

/-- `sqlparser::ast::Value`.  For a number the tree carries, next to the token text, what Rust's
    `str::parse::<f64>` returns for that text (`none` = parse error); std's float parser is trusted
    and its result is an input of the model. -/
inductive Lit where
  | number (text : String) (f64 : Option Nat)
  | sqString (s : String)
  | null
  | other                 -- booleans, hex / national / double-quoted strings, placeholders, …
  deriving DecidableEq, Repr, Inhabited

inductive UnOp where
  | not | minus | other   -- other: Plus, bitwise not, …
  deriving DecidableEq, Repr, Inhabited

inductive BinOp where
  | and | plus | minus | multiply | divide | modulo | gt | gtEq | lt | ltEq | eq | notEq | or
  | other                 -- ||, XOR, bitwise operators, …
  deriving DecidableEq, Repr, Inhabited

/-- `sqlparser::ast::Expr`.  A function node carries the UPPER-CASED rendering of its name (Rust's
    `to_uppercase`, trusted) and its arguments when it has a plain list of ≤ 2 of them; a
    non-expression argument (named, `*`, `t.*`) behaves exactly like an unsupported expression
    (`function_arg_to_expr` answers NotImplemented for all of them) and is mirrored as `other`. -/
inductive AExpr where
  | binary (op : BinOp) (l r : AExpr)
  | unary (op : UnOp) (e : AExpr)
  | value (l : Lit)
  | ident (value : String)
  | nested (e : AExpr)
  | func0 (name : String)
  | func1 (name : String) (a : AExpr)
  | func2 (name : String) (a b : AExpr)
  | funcN (name : String)               -- ≥ 3 arguments, or no plain argument list at all
  | isNull (e : AExpr)
  | isNotNull (e : AExpr)
  | like (negated : Bool) (e pat : AExpr) (escape : Bool)
  | floor (e : AExpr)
  | other                               -- IN, BETWEEN, CASE, subqueries, CAST, a.b, ILIKE, …
  deriving DecidableEq, Repr, Inhabited

inductive SelItem where
  | unnamed (e : AExpr) (display : String)       -- display = sqlparser's rendering of `e`
  | aliased (e : AExpr) (aliasDisplay : String)  -- rendering of the alias identifier (with quotes)
  | wildcard
  | other                                        -- `t.*`
  deriving DecidableEq, Repr, Inhabited

inductive TableFactor where
  | table (display : String)                     -- rendering of the object name
  | other                                        -- derived table, table function, nested join, …
  deriving DecidableEq, Repr, Inhabited

structure TableWithJoins where
  relation : TableFactor
  joins : Nat
  deriving DecidableEq, Repr, Inhabited

inductive GroupBy where
  | all
  | exprs (nExprs nMods : Nat)
  deriving DecidableEq, Repr, Inhabited

inductive ALimit where
  | none
  | limitOffset (limit : Option AExpr) (offset : Option AExpr)
  | offsetCommaLimit (offset limit : AExpr)
  deriving DecidableEq, Repr, Inhabited

structure ASelect where
  distinct : Bool
  projection : List SelItem
  from_ : List TableWithJoins
  selection : Option AExpr
  groupBy : GroupBy
  having : Bool
  deriving DecidableEq, Repr, Inhabited

inductive SetExpr where
  | select (s : ASelect)
  | other                                        -- UNION, VALUES, parenthesised query, …
  deriving DecidableEq, Repr, Inhabited

inductive AOrderBy where
  | none
  | all
  | exprs (es : List (AExpr × Option Bool))      -- expression, `asc` option
  deriving DecidableEq, Repr, Inhabited

structure AQuery where
  body : SetExpr
  orderBy : AOrderBy
  limit : ALimit
  deriving DecidableEq, Repr, Inhabited

inductive Statement where
  | query (q : AQuery)
  | other
  deriving DecidableEq, Repr, Inhabited

/-- What `Parser::parse_sql` returned. -/
inductive Parsed where
  | parserError                                  -- ParserError::ParserError
  | otherError                                   -- TokenizerError, RecursionLimitExceeded
  | stmts (ss : List Statement)
  deriving DecidableEq, Repr, Inhabited

/-! ## Rust integer parsing (`core::num::from_str_radix`, radix 10) -/

def digitVal? (c : Char) : Option Nat :=
  if '0' ≤ c ∧ c ≤ '9' then some (c.toNat - '0'.toNat) else none

/-- Value of a string of decimal digits; `none` on any other character. (The empty list gives 0:
    callers check non-emptiness first, as Rust does.) -/
def digitsVal : List Char → Nat → Option Nat
  | [], acc => some acc
  | c :: cs, acc => match digitVal? c with
      | some d => digitsVal cs (acc * 10 + d)
      | none => none

/-- `s.parse::<u64>()`: optional `+`, at least one digit, only digits, value ≤ u64::MAX. -/
def parseU64 (s : String) : Option Nat :=
  let cs := match s.toList with
    | '+' :: rest => rest
    | cs => cs
  if cs.isEmpty then none else
  match digitsVal cs 0 with
  | some v => if v ≤ U64_MAX then some v else none
  | none => none

/-- `s.parse::<i64>()`: optional `+` or `-`, at least one digit, only digits, value in range. -/
def parseI64 (s : String) : Option Int :=
  let (neg, cs) := match s.toList with
    | '+' :: rest => (false, rest)
    | '-' :: rest => (true, rest)
    | cs => (false, cs)
  if cs.isEmpty then none else
  match digitsVal cs 0 with
  | some v =>
      let i : Int := if neg then - (v : Int) else (v : Int)
      if inI64 i then some i else none
  | none => none

/-! ## parser.rs -/

/-- `strip_quotes` (after the `fix:` that made it total): strip one matching pair of back-ticks or
    double quotes. -/
def stripQuotes (s : String) : String :=
  let cs := s.toList
  if cs.length ≥ 2 ∧ cs.head? = some '`' ∧ cs.getLast? = some '`' then String.ofList (cs.drop 1).dropLast
  else if cs.length ≥ 2 ∧ cs.head? = some '"' ∧ cs.getLast? = some '"' then String.ofList (cs.drop 1).dropLast
  else s

def mapUnaryOperator : UnOp → Res F1
  | .not => .ok .not
  | .minus => .ok .negate
  | .other => .err .fatal

def mapBinaryOperator : BinOp → Res F2
  | .and => .ok .and | .plus => .ok .add | .minus => .ok .sub | .multiply => .ok .mul
  | .divide => .ok .div | .modulo => .ok .mod | .gt => .ok .gt | .gtEq => .ok .ge
  | .lt => .ok .lt | .ltEq => .ok .le | .eq => .ok .eq | .notEq => .ok .ne | .or => .ok .or
  | .other => .err .notimpl

/-- `get_raw_val`: a number that fits i64 is an integer, anything else goes through
    `parse::<f64>().unwrap()`. -/
def getRawVal : Lit → Res RawVal
  | .number text f64 =>
      match parseI64 text with
      | some i => .ok (.int i)
      | none => match f64 with
          | some bits => .ok (.float bits)
          | none => .fault .unwrap
  | .sqString s => .ok (.str s)
  | .null => .ok .null
  | .other => .err .notimpl

/-- The name dispatch of `ASTNode::Function`. -/
inductive FnKind where
  | toYear | regex | length | count | sum | avg | max | min | unknown
  deriving DecidableEq, Repr

def fnKind (upperName : String) : FnKind :=
  if upperName = "TO_YEAR" then .toYear else if upperName = "REGEX" then .regex
  else if upperName = "LENGTH" then .length else if upperName = "COUNT" then .count
  else if upperName = "SUM" then .sum else if upperName = "AVG" then .avg
  else if upperName = "MAX" then .max else if upperName = "MIN" then .min else .unknown

/-- A known function called with the wrong number of arguments: ParseError; an unknown function:
    NotImplemented (whatever its arguments). -/
def fnArityError (name : String) : Res Expr :=
  match fnKind name with
  | .unknown => .err .notimpl
  | _ => .err .parse

/-- `convert_to_native_expr`. -/
def convertExpr : AExpr → Res Expr
  | .binary op l r => do
      let t ← mapBinaryOperator op
      let a ← convertExpr l
      let b ← convertExpr r
      pure (.f2 t a b)
  | .unary op e => do
      let t ← mapUnaryOperator op
      let a ← convertExpr e
      pure (.f1 t a)
  | .value l => do
      let v ← getRawVal l
      pure (.const v)
  | .ident v => .ok (.col v)          -- `Ident::value` is already unquoted (after the `fix:`)
  | .nested e => convertExpr e
  | .func0 name => fnArityError name
  | .funcN name => fnArityError name
  | .func1 name a =>
      match fnKind name with
      | .toYear => do let x ← convertExpr a; pure (.f1 .toYear x)
      | .length => do let x ← convertExpr a; pure (.f1 .length x)
      | .count => do let x ← convertExpr a; pure (.agg .count x)
      | .sum => do let x ← convertExpr a; pure (.agg .sum x)
      | .avg => do
          let x ← convertExpr a
          let y ← convertExpr a
          pure (.f2 .div (.agg .sum x) (.agg .count y))
      | .max => do let x ← convertExpr a; pure (.agg .max x)
      | .min => do let x ← convertExpr a; pure (.agg .min x)
      | .regex => .err .parse
      | .unknown => .err .notimpl
  | .func2 name a b =>
      match fnKind name with
      | .regex => do
          let x ← convertExpr a
          let y ← convertExpr b
          pure (.f2 .regex x y)
      | .unknown => .err .notimpl
      | _ => .err .parse
  | .isNull e => do let x ← convertExpr e; pure (.f1 .isNull x)
  | .isNotNull e => do let x ← convertExpr e; pure (.f1 .isNotNull x)
  | .like negated e pat escape =>
      if escape then .err .notimpl else do
        let x ← convertExpr e
        let y ← convertExpr pat
        pure (.f2 (if negated then .notLike else .like) x y)
  | .floor e => do let x ← convertExpr e; pure (.f1 .floor x)
  | .other => .err .notimpl

structure Components where
  projection : List SelItem
  relation : Option TableFactor
  selection : Option AExpr
  orderBy : Option (List (AExpr × Option Bool))
  limit : Option AExpr
  offset : Option AExpr
  deriving Repr

/-- `get_query_components`: the chain of `if … else if …` that rejects unsupported clauses.
    `GROUP BY ALL`, ORDER BY ALL and every clause not named here are silently ignored (as in Rust). -/
def getQueryComponents (q : AQuery) : Res Components :=
  match q.body with
  | .other => .err .notimpl
  | .select s =>
      let groupByNonEmpty : Bool := match s.groupBy with
        | .exprs n m => n != 0 || m != 0
        | .all => false
      if groupByNonEmpty then .err .notimpl
      else if s.having then .err .notimpl
      else if s.distinct then .err .notimpl
      else if s.from_.length > 1 then .err .notimpl
      else if (match s.from_ with | t :: _ => t.joins != 0 | [] => false) then .err .notimpl
      else
        let (limit, offset) := match q.limit with
          | .limitOffset l o => (l, o)
          | .offsetCommaLimit o l => (some l, some o)
          | .none => (none, none)
        .ok { projection := s.projection
              relation := s.from_.getLast?.map (·.relation)
              selection := s.selection
              orderBy := match q.orderBy with
                | .exprs es => some es
                | _ => none
              limit := limit
              offset := offset }

/-- One arm of the `match elem` in `get_projection`. -/
def convertItem : SelItem → Res ColumnInfo
  | .unnamed e display => do
      let x ← convertExpr e
      pure { expr := x, name := stripQuotes display }
  | .wildcard => .ok { expr := .col "*", name := "*" }
  | .aliased e a => do
      let x ← convertExpr e
      pure { expr := x, name := stripQuotes a }
  | .other => .err .notimpl

/-- `get_projection`: stops at the first item that fails. -/
def getProjection : List SelItem → Res (List ColumnInfo)
  | [] => .ok []
  | item :: rest => do
      let ci ← convertItem item
      let cis ← getProjection rest
      pure (ci :: cis)

/-- The `match selection` of `parse_query`: no WHERE clause is the constant 1. -/
def getFilter : Option AExpr → Res Expr
  | some s => convertExpr s
  | none => .ok (.const (.int 1))

def getTableName : Option TableFactor → Res String
  | some (.table display) => .ok (stripQuotes display)
  | some .other => .err .parse
  | none => .err .parse

def getOrderByList : List (AExpr × Option Bool) → Res (List (Expr × Bool))
  | [] => .ok []
  | (e, asc) :: rest => do
      let x ← convertExpr e
      let xs ← getOrderByList rest
      pure ((x, !(asc.getD true)) :: xs)

def getOrderBy : Option (List (AExpr × Option Bool)) → Res (List (Expr × Bool))
  | none => .ok []
  | some es => getOrderByList es

/-- `get_limit` (after the `fix:`): a number token that is not a u64 is a ParseError value. -/
def getLimit : Option AExpr → Res Nat
  | some (.value (.number text _)) =>
      match parseU64 text with
      | some v => .ok v
      | none => .err .parse
  | none => .ok U64_MAX
  | some _ => .err .notimpl

/-- `get_offset` (after the `fix:`). -/
def getOffset : Option AExpr → Res Nat
  | none => .ok 0
  | some (.value (.number text _)) =>
      match parseU64 text with
      | some v => .ok v
      | none => .err .parse
  | some _ => .err .parse

/-- `parse_query`. -/
def parseQuery : Parsed → Res Query
  | .parserError => .err .parse
  | .otherError => .err .fatal
  | .stmts ss =>
      if ss.length > 1 then .err .parse else
      match ss.getLast? with
      | none => .err .parse                       -- `""`, `";"` (after the `fix:`)
      | some .other => .err .parse
      | some (.query q) => do
          let c ← getQueryComponents q
          let projection ← getProjection c.projection
          let table ← getTableName c.relation
          let filter ← getFilter c.selection
          let orderBy ← getOrderBy c.orderBy
          let limit ← getLimit c.limit
          let offset ← getOffset c.offset
          pure { select := projection, table := table, filter := filter, orderBy := orderBy,
                 limit := { limit := limit, offset := offset } }

/-! ## query.rs: normal form -/

structure NormalFormQuery where
  projection : List ColumnInfo
  aggregate : List (Agg × ColumnInfo)
  filter : Expr
  orderBy : List (Expr × Bool)
  limit : Limit
  deriving DecidableEq, Repr, Inhabited

inductive ResultColumn where
  | proj (i : Nat)
  | agg (i : Nat)
  deriving DecidableEq, Repr, Inhabited

/-- `ensure_no_aggregates`. -/
def ensureNoAggregates : Expr → Res Unit
  | .agg _ _ => .err .type
  | .f1 _ e => ensureNoAggregates e
  | .f2 _ a b => do
      ensureNoAggregates a
      ensureNoAggregates b
  | .const _ => .ok ()
  | .col _ => .ok ()

/-- `extract_aggregators`; the `&mut Vec<String>` of generated names is threaded through. -/
def extractAggregators : Expr → List String → String → Res (Expr × List (Agg × ColumnInfo) × List String)
  | .agg a e, names, aliasName =>
      let columnName := "_ca" ++ toString names.length
      match ensureNoAggregates e with
      | .ok () => .ok (.col columnName, [(a, { expr := e, name := aliasName })], names ++ [columnName])
      | .err x => .err x
      | .fault x => .fault x
  | .f1 t e, names, aliasName =>
      match extractAggregators e names aliasName with
      | .ok (e', aggs, names') => .ok (.f1 t e', aggs, names')
      | .err x => .err x
      | .fault x => .fault x
  | .f2 t a b, names, aliasName =>
      match extractAggregators a names aliasName with
      | .ok (a', aggs1, names1) =>
          (match extractAggregators b names1 aliasName with
           | .ok (b', aggs2, names2) => .ok (.f2 t a' b', aggs1 ++ aggs2, names2)
           | .err x => .err x
           | .fault x => .fault x)
      | .err x => .err x
      | .fault x => .fault x
  | .const v, names, _ => .ok (.const v, [], names)
  | .col n, names, _ => .ok (.col n, [], names)

/-- Accumulators of the first loop of `normalize`. -/
structure NormAcc where
  finalProjection : List ColumnInfo := []
  select : List ColumnInfo := []
  aggregate : List (Agg × ColumnInfo) := []
  aggregateColnames : List String := []
  selectColnames : List String := []
  finalSelectOrdering : List ResultColumn := []
  deriving Repr, Inhabited

def normSelectStep (acc : NormAcc) (ci : ColumnInfo) : Res NormAcc :=
  match extractAggregators ci.expr acc.aggregateColnames ci.name with
  | .err x => .err x
  | .fault x => .fault x
  | .ok (fullExpr, aggregates, names') =>
      if aggregates.isEmpty then
        let columnName := "_cs" ++ toString acc.selectColnames.length
        .ok { acc with
              aggregateColnames := names'
              finalSelectOrdering := acc.finalSelectOrdering ++ [.proj acc.select.length]
              selectColnames := acc.selectColnames ++ [columnName]
              select := acc.select ++ [{ expr := fullExpr, name := ci.name }]
              finalProjection := acc.finalProjection ++ [{ expr := .col columnName, name := ci.name }] }
      else
        .ok { acc with
              aggregateColnames := names'
              finalSelectOrdering := acc.finalSelectOrdering ++ [.agg acc.aggregate.length]
              aggregate := acc.aggregate ++ aggregates
              finalProjection := acc.finalProjection ++ [{ expr := fullExpr, name := ci.name }] }

def normSelectLoop : NormAcc → List ColumnInfo → Res NormAcc
  | acc, [] => .ok acc
  | acc, ci :: rest =>
      match normSelectStep acc ci with
      | .ok acc' => normSelectLoop acc' rest
      | .err x => .err x
      | .fault x => .fault x

structure OrderAcc where
  select : List ColumnInfo
  aggregate : List (Agg × ColumnInfo)
  aggregateColnames : List String
  selectColnames : List String
  finalOrderBy : List (Expr × Bool) := []
  deriving Repr, Inhabited

def normOrderStep (acc : OrderAcc) (ob : Expr × Bool) : Res OrderAcc :=
  match extractAggregators ob.1 acc.aggregateColnames "INTERMEDIARY_COL" with
  | .err x => .err x
  | .fault x => .fault x
  | .ok (fullExpr, aggregates, names') =>
      if aggregates.isEmpty then
        let columnName := "_cs" ++ toString acc.selectColnames.length
        .ok { acc with
              aggregateColnames := names'
              selectColnames := acc.selectColnames ++ [columnName]
              select := acc.select ++ [{ expr := fullExpr, name := columnName }]
              finalOrderBy := acc.finalOrderBy ++ [(.col columnName, ob.2)] }
      else
        .ok { acc with
              aggregateColnames := names'
              aggregate := acc.aggregate ++ aggregates
              finalOrderBy := acc.finalOrderBy ++ [(fullExpr, ob.2)] }

def normOrderLoop : OrderAcc → List (Expr × Bool) → Res OrderAcc
  | acc, [] => .ok acc
  | acc, ob :: rest =>
      match normOrderStep acc ob with
      | .ok acc' => normOrderLoop acc' rest
      | .err x => .err x
      | .fault x => .fault x

def isColName : Expr → Bool
  | .col _ => true
  | _ => false

structure Normalized where
  main : NormalFormQuery
  final : Option NormalFormQuery
  sources : List ResultColumn
  deriving DecidableEq, Repr, Inhabited

/-- `add_colnames` leaves the set non-empty: the expression references some column. -/
def Expr.hasColumn : Expr → Bool
  | .col _ => true
  | .const _ => false
  | .f1 _ e => e.hasColumn
  | .f2 _ a b => a.hasColumn || b.hasColumn
  | .agg _ e => e.hasColumn

/-- A sort key that references no column and contains no aggregate is the same for every row; since the
    `fix:` for ORDER BY <constant>, `normalize` drops it
    (`!(colnames.is_empty() && ensure_no_aggregates(expr).is_ok())`). -/
def keepsOrderKey (e : Expr) : Bool :=
  !(!e.hasColumn && (match ensureNoAggregates e with | .ok _ => true | _ => false))

/-- `Query::normalize`. -/
def normalize (q : Query) : Res Normalized :=
  let orderBy := q.orderBy.filter fun ob => keepsOrderKey ob.1
  match normSelectLoop {} q.select with
  | .err x => .err x
  | .fault x => .fault x
  | .ok acc =>
      let nontrivialAggregateExpression := acc.finalProjection.any fun ci => !isColName ci.expr
      let sortAfterAggregation := !acc.aggregate.isEmpty && !orderBy.isEmpty
      let requireFinalPass := sortAfterAggregation || nontrivialAggregateExpression
      if requireFinalPass then
        match normOrderLoop { select := acc.select, aggregate := acc.aggregate,
                              aggregateColnames := acc.aggregateColnames,
                              selectColnames := acc.selectColnames } orderBy with
        | .err x => .err x
        | .fault x => .fault x
        | .ok oacc =>
            .ok { main := { projection := oacc.select, aggregate := oacc.aggregate, filter := q.filter,
                            orderBy := [], limit := { limit := U64_MAX, offset := 0 } }
                  final := some { projection := acc.finalProjection, aggregate := [],
                                  filter := .const (.int 1), orderBy := oacc.finalOrderBy, limit := q.limit }
                  sources := (List.range acc.finalProjection.length).map .proj }
      else
        .ok { main := { projection := acc.select, aggregate := acc.aggregate, filter := q.filter,
                        orderBy := orderBy, limit := q.limit }
              final := none
              sources := acc.finalSelectOrdering }

/-! ## `SELECT *` and referenced columns -/

/-- `Expr::add_colnames` as a membership test. -/
def Expr.mentions (n : String) : Expr → Bool
  | .col c => c == n
  | .const _ => false
  | .f1 _ e => e.mentions n
  | .f2 _ a b => a.mentions n || b.mentions n
  | .agg _ e => e.mentions n

/-- `find_referenced_cols().contains("*")`. -/
def Query.referencesStar (q : Query) : Bool :=
  q.select.any (fun ci => ci.expr.mentions "*") || q.orderBy.any (fun ob => ob.1.mentions "*")
    || q.filter.mentions "*"

/-- `is_select_star`. -/
def Query.isSelectStar (q : Query) : Bool :=
  match q.select with
  | [ci] => ci.expr == .col "*"
  | _ => false

/-- Stable insertion sort by `String` order (= byte order of the UTF-8 encodings, Rust's `str` order);
    stands in for `Itertools::sorted_by`. -/
def insertName (x : String) : List String → List String
  | [] => [x]
  | y :: ys => if x < y then x :: y :: ys else y :: insertName x ys

def sortNames : List String → List String
  | [] => []
  | x :: xs => insertName x (sortNames xs)

/-- Top of `QueryTask::new`: `SELECT *` becomes one plain column reference per catalogue column, sorted
    by name; `column_names.unwrap()` panics when the caller supplied none. -/
def expandStar (q : Query) (columnNames : Option (List String)) : Res Query :=
  if q.isSelectStar then
    match columnNames with
    | none => .fault .unwrap
    | some names => .ok { q with select := (sortNames names).map fun n => { expr := .col n, name := n } }
  else .ok q

end LM.Norm
