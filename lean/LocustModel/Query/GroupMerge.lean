import LocustModel.Query.Merge
/-
  C04 — merging the partial results of two partitions of a grouped aggregation, for any number of grouping
  columns, and folding such merges along a merge tree.

  Mirrors  src/engine/operators/partition.rs (`partition`), subpartition.rs (`subpartition`),
  merge_deduplicate_partitioned.rs (`merge_deduplicate_partitioned`) and the way
  src/engine/execution/batch_merging.rs (`combine`, aggregation branch) wires them with
  merge_deduplicate / merge_drop / merge_aggregate (models in Query/Merge.lean).
  Keys are i64 in the engine's in-band representation (`I64_NULL = i64::MAX` for a NULL key), ascending comparator.
-/
namespace LM.GroupMerge
open LM LM.Merge

structure Premerge where
  left : Nat
  right : Nat
  deriving DecidableEq, Repr, Inhabited

/-- `while i < len && elem == xs[i] { count += 1; i += 1 }`: length of the leading run of `e` and the rest. -/
def takeRun (e : Int) : List Int → Nat × List Int
  | [] => (0, [])
  | x :: xs => if x = e then let (n, r) := takeRun e xs; (n + 1, r) else (0, x :: xs)

theorem takeRun_length (e : Int) (xs : List Int) : (takeRun e xs).1 + (takeRun e xs).2.length = xs.length := by
  induction xs with
  | nil => simp [takeRun]
  | cons x xs ih => by_cases h : x = e <;> simp [takeRun, h] <;> omega

/-- partition.rs `partition::<T, C>(left, right, limit)` (three loops fused: while both sides are non-empty the
    next run starts with the smaller head; afterwards the remaining runs of the non-empty side).
    `minElems` is the running `min_elems`; the loops stop once it reaches `limit`.  Fuel: every step consumes
    at least one element, `left.len() + right.len()` steps always suffice. -/
def partitionLoop (desc : Bool) (limit : Nat) : Nat → List Int → List Int → Nat → List Premerge
  | 0, _, _, _ => []
  | fuel + 1, l, r, minElems =>
      if minElems ≥ limit then [] else
      match l, r with
      | [], [] => []
      | a :: _, [] =>
          let (n, l') := takeRun a l
          ⟨n, 0⟩ :: partitionLoop desc limit fuel l' [] (minElems + n)
      | [], b :: _ =>
          let (n, r') := takeRun b r
          ⟨0, n⟩ :: partitionLoop desc limit fuel [] r' (minElems + n)
      | a :: _, b :: _ =>
          let e := if cmpEq desc a b then a else b
          let (nl, l') := takeRun e l
          let (nr, r') := takeRun e r
          ⟨nl, nr⟩ :: partitionLoop desc limit fuel l' r' (minElems + max nl nr)

/-- `limit` is clamped to `u32::MAX`. -/
def partition (desc : Bool) (l r : List Int) (limit : Nat) : List Premerge :=
  partitionLoop desc (min limit 4294967295) (l.length + r.length) l r 0

/-- One group of subpartition.rs: `while i < i_max || j < j_max { … }` on the group's slices. -/
def subGroup (desc : Bool) : Nat → List Int → List Int → List Premerge
  | 0, _, _ => []
  | _ + 1, [], [] => []
  | fuel + 1, lg, rg =>
      let e := match lg, rg with
        | a :: _, [] => a
        | a :: _, b :: _ => if cmpEq desc a b then a else b
        | [], b :: _ => b
        | [], [] => 0
      let (nl, lg') := takeRun e lg
      let (nr, rg') := takeRun e rg
      ⟨nl, nr⟩ :: subGroup desc fuel lg' rg'

/-- subpartition.rs `subpartition(partitioning, left, right)`; `none` = slice index out of bounds (panic). -/
def subpartition (desc : Bool) : List Premerge → List Int → List Int → Option (List Premerge)
  | [], _, _ => some []
  | g :: gs, l, r =>
      if l.length < g.left ∨ r.length < g.right then none else
      (subpartition desc gs (l.drop g.left) (r.drop g.right)).map
        (subGroup desc (g.left + g.right) (l.take g.left) (r.take g.right) ++ ·)

/-- One group of merge_deduplicate_partitioned.rs (`last` starts as None in every group). -/
def mdpGroup : Nat → Option Int → List Int → List Int → List Int × List MergeOp
  | 0, _, _, _ => ([], [])
  | _ + 1, _, [], [] => ([], [])
  | fuel + 1, _, a :: lg, [] =>
      let (m, o) := mdpGroup fuel (some a) lg []
      (a :: m, .takeLeft :: o)
  | fuel + 1, last, lg, b :: rg =>
      if last = some b then
        let (m, o) := mdpGroup fuel last lg rg
        (m, .mergeRight :: o)
      else match lg with
        | a :: lg' =>
            if cmpEq false a b then
              let (m, o) := mdpGroup fuel (some a) lg' (b :: rg)
              (a :: m, .takeLeft :: o)
            else
              let (m, o) := mdpGroup fuel (some b) lg rg
              (b :: m, .takeRight :: o)
        | [] =>
            let (m, o) := mdpGroup fuel (some b) [] rg
            (b :: m, .takeRight :: o)

/-- merge_deduplicate_partitioned.rs; `none` = index out of bounds. -/
def mergeDedupPartitioned : List Premerge → List Int → List Int → Option (List Int × List MergeOp)
  | [], _, _ => some ([], [])
  | g :: gs, l, r =>
      if l.length < g.left ∨ r.length < g.right then none else
      let (m, o) := mdpGroup (g.left + g.right) none (l.take g.left) (r.take g.right)
      (mergeDedupPartitioned gs (l.drop g.left) (r.drop g.right)).map fun (m', o') => (m ++ m', o ++ o')

/-! ### A partial result and the merge of two of them (batch_merging.rs `combine`, aggregation branch) -/

/-- Partial result of a grouped aggregation with one aggregate: key columns (column-major, equal lengths)
    and one partial aggregate per group. -/
structure Part where
  keys : List (List Int)
  vals : List Int
  deriving DecidableEq, Repr, Inhabited

inductive MergeRes where
  | ok (p : Part)
  | overflow     -- QueryError::Overflow (an error value)
  | fault        -- a panic (index out of bounds, overflow of `a + b` in the dev profile)
  deriving DecidableEq, Repr, Inhabited

/-- The ops and merged key columns: no key column → the constant `[TakeLeft, MergeRight]`; one → merge_deduplicate;
    several → partition on the first, subpartition on the middle ones, merge_deduplicate_partitioned on the last,
    merge_drop on all but the last. -/
def mergeKeys (a b : List (List Int)) : Option (List (List Int) × List MergeOp) :=
  match a, b with
  | [], _ => some ([], [.takeLeft, .mergeRight])
  | [ka], [kb] => let (m, o) := mergeDedup false none ka kb; some ([m], o)
  | ka :: as, kb :: bs =>
      let rec refine (p : List Premerge) : List (List Int) → List (List Int) → Option (List Premerge × List Int × List Int)
        | [la], [lb] => some (p, la, lb)
        | ma :: as', mb :: bs' => (subpartition false p ma mb).bind fun p' => refine p' as' bs'
        | _, _ => none
      (refine (partition false ka kb 18446744073709551615) as bs).bind fun (p, la, lb) =>
        (mergeDedupPartitioned p la lb).bind fun (last, ops) =>
          let dropped := ((ka :: as).zip (kb :: bs)).dropLast.mapM fun (ca, cb) => mergeDrop ops ca cb
          dropped.map fun cols => (cols ++ [last], ops)
  | _, _ => none

def mergeParts (op : Agg) (a b : Part) : MergeRes :=
  match mergeKeys a.keys b.keys with
  | none => .fault
  | some (keys, ops) =>
      match mergeAggregate op ops a.vals b.vals with
      | .ok v => .ok ⟨keys, v⟩
      | .error .overflow => .overflow
      | .error .fault => .fault

/-! ### Merge trees -/

inductive Tree where
  | leaf (i : Nat)
  | node (l r : Tree)
  deriving Repr, Inhabited

def Tree.leaves : Tree → List Nat
  | .leaf i => [i]
  | .node l r => l.leaves ++ r.leaves

/-- Fold the merge along a tree over the partial results `parts` (leaf `i` = `parts[i]`). -/
def evalTree (op : Agg) (parts : List Part) : Tree → MergeRes
  | .leaf i => match parts[i]? with | some p => .ok p | none => .fault
  | .node l r =>
      match evalTree op parts l, evalTree op parts r with
      | .ok a, .ok b => mergeParts op a b
      | .ok _, e => e
      | e, _ => e

/-- All binary trees over the leaves `lo, …, lo+n-1` in order (every bracketing). -/
def allTrees : Nat → Nat → Nat → List Tree
  | 0, _, _ => []
  | _ + 1, _, 0 => []
  | _ + 1, lo, 1 => [.leaf lo]
  | fuel + 1, lo, n =>
      (List.range (n - 1)).flatMap fun k =>
        (allTrees fuel lo (k + 1)).flatMap fun l => (allTrees fuel (lo + k + 1) (n - k - 1)).map fun r => .node l r

/-! ### Specification of the merged result (exact, no sentinel)

  A partial result denotes an association list key tuple ↦ `Option Int` (`none` = NULL = "no non-NULL input in
  this group so far").  The union of several partial results maps every key tuple that occurs to the exact
  combination of its partial aggregates: Σ for SUM and COUNT, max / min for MAX / MIN, NULLs ignored. -/

abbrev Denot := List (List Int × Option Int)

def decodeVal (v : Int) : Option Int := if v = I64_MAX then none else some v

def rowsOfKeys : List (List Int) → Nat → List (List Int)
  | cols, n => (List.range n).map fun i => cols.map fun c => c.getD i 0

def Part.denot (p : Part) : Denot := (rowsOfKeys p.keys p.vals.length).zip (p.vals.map decodeVal)

def combineExact (op : Agg) : Option Int → Option Int → Option Int
  | none, b => b
  | a, none => a
  | some a, some b =>
      some (match op with
        | .sum | .count => a + b
        | .max => if a ≥ b then a else b
        | .min => if a ≤ b then a else b)

def tupleLt : List Int → List Int → Bool
  | a :: as, b :: bs => if a < b then true else if b < a then false else tupleLt as bs
  | _, _ => false

def insertExact (op : Agg) (k : List Int) (v : Option Int) : Denot → Denot
  | [] => [(k, v)]
  | (k', v') :: t =>
      if k = k' then (k', combineExact op v' v) :: t
      else if tupleLt k k' then (k, v) :: (k', v') :: t
      else (k', v') :: insertExact op k v t

/-- Exact union of the partial results, in partition order, sorted by key tuple. -/
def specUnion (op : Agg) (parts : List Part) : Denot :=
  (parts.flatMap Part.denot).foldl (fun acc kv => insertExact op kv.1 kv.2 acc) []

/-- A sum that leaves i64 cannot be returned. -/
def denotFits (d : Denot) : Bool := d.all fun kv => match kv.2 with | none => true | some v => decide (inI64 v)

/-- Some order of combining overflows although the total may fit (positive / negative parts alone leave i64). -/
def unionMayOverflow (op : Agg) (parts : List Part) : Bool :=
  (op = .sum ∨ op = .count) &&
  let all := parts.flatMap Part.denot
  all.any fun kv =>
    let same := all.filterMap fun kv' => if kv'.1 = kv.1 then kv'.2 else none
    let pos := (same.filter (· > 0)).foldl (· + ·) 0
    let neg := (same.filter (· < 0)).foldl (· + ·) 0
    !(decide (inI64 pos) && decide (inI64 neg))

/-- Exact value of every inner node of a tree for every key: used by the classifier of `sum-sentinel`
    (some partial SUM of the tree actually taken equals i64::MAX). -/
def nodeHitsSentinel (op : Agg) (parts : List Part) : Tree → Bool
  | .leaf _ => false
  | .node l r =>
      nodeHitsSentinel op parts l || nodeHitsSentinel op parts r ||
      (op = .sum &&
        (specUnion op ((Tree.node l r).leaves.filterMap fun i => parts[i]?)).any fun kv => kv.2 = some I64_MAX)

end LM.GroupMerge
