import LocustModel.Query.Sql
/-
  C04 — specification of grouped aggregation (`SELECT g.., agg.. FROM t [WHERE ..]`; LocustDB groups
  implicitly by the non-aggregate select items).

  `specGroupBy sel pred rows`: keep exactly the rows for which the predicate is true, form one group per
  distinct tuple of the plain select items (NULL is a value of its own), each group once, and compute every
  aggregate over exactly the rows of its group, ignoring NULL inputs.  The result is the association list
  sorted by key tuple (NULL last), i.e. a canonical representative of the multiset of result rows.

  Nothing in this file mirrors the engine.  Exact integer arithmetic (`Int`); floats are bit patterns,
  summed exactly as dyadic rationals (a float SUM is inside the specification's domain only when every
  partial sum in every order is exactly representable, so that "up to rounding" never has to be decided).
-/
namespace LM.GroupSpec
open LM LM.Sql

inductive AggFn where | count1 | count | sum | min | max | avg
  deriving DecidableEq, Repr, Inhabited

/-- One aggregate of the select list: function and input column (ignored for COUNT(1)). -/
structure AggItem where
  fn : AggFn
  col : Nat
  deriving DecidableEq, Repr, Inhabited

inductive SelItem where
  | key (col : Nat)
  | agg (a : AggItem)
  deriving DecidableEq, Repr, Inhabited

def SelItem.keyCol? : SelItem → Option Nat
  | .key c => some c
  | .agg _ => none

/-- Lexicographic order on key tuples, ascending, NULL after every value (`Sql.valLt`). -/
def tupleLt : List Val → List Val → Bool
  | a :: as, b :: bs => if valLt a b then true else if valLt b a then false else tupleLt as bs
  | _, _ => false

def keyOf (keys : List Nat) (r : Row) : List Val := keys.map fun i => r.getD i .null

/-- Groups as an association list key tuple ↦ rows of the group (in table order), sorted by key. -/
abbrev Groups := List (List Val × List Row)

/-- append a row to the group whose key is `k` -/
def addToGroup (k : List Val) (r : Row) : Groups → Groups
  | [] => []
  | (k', rs) :: t => if k = k' then (k', rs ++ [r]) :: t else (k', rs) :: addToGroup k r t

/-- open a new group, at its position in the canonical order -/
def insertNew (k : List Val) (r : Row) : Groups → Groups
  | [] => [(k, [r])]
  | (k', rs) :: t => if tupleLt k k' then (k, [r]) :: (k', rs) :: t else (k', rs) :: insertNew k r t

/-- A row joins the group of its key tuple if there is one, otherwise it founds a new group. -/
def insertGroup (k : List Val) (r : Row) (g : Groups) : Groups :=
  if g.any (fun e => e.1 = k) then addToGroup k r g else insertNew k r g

def groupRows (keys : List Nat) (rows : List Row) : Groups :=
  rows.foldl (fun acc r => insertGroup (keyOf keys r) r acc) []

/-! ### Exact dyadic floats -/

/-- Finite f64 pattern → (m, e) with value m·2^e; `none` for ±inf / NaN. -/
def floatDecode (bits : Nat) : Option (Int × Int) :=
  let neg := bits / 9223372036854775808 % 2 = 1
  let expo := bits / 4503599627370496 % 2048
  let frac := bits % 4503599627370496
  if expo = 2047 then none
  else
    let m : Int := if expo = 0 then frac else frac + 4503599627370496
    let e : Int := if expo = 0 then -1074 else (expo : Int) - 1075
    some (if neg then -m else m, e)

def natBits : Nat → Nat → Nat
  | 0, _ => 0
  | fuel + 1, n => if n = 0 then 0 else 1 + natBits fuel (n / 2)

/-- m·2^e (|m| < 2^53, e ≥ -1074) → the f64 pattern, if exactly representable. Zero is +0.0. -/
def floatEncode (m e : Int) : Option Nat :=
  if m = 0 then some 0
  else
    let a := m.natAbs
    let k := natBits 64 a
    if k > 53 ∨ e < -1074 then none
    else
      let sign : Nat := if m < 0 then 9223372036854775808 else 0
      -- normalised to 53 bits: a·2^(53-k) · 2^(e-(53-k))
      let e' : Int := e - (53 - (k : Int))
      if e' ≥ -1074 then
        let expo := e' + 1075
        if expo ≥ 2047 then none
        else some (sign + expo.toNat * 4503599627370496 + (a * 2 ^ (53 - k) - 4503599627370496))
      else
        -- subnormal: a·2^(e+1074) < 2^52
        some (sign + a * 2 ^ (e + 1074).toNat)

/-- Exact sum of finite floats, defined only when every partial sum in every order is exact:
    with e₀ the least exponent, Σ|mᵢ|·2^(eᵢ-e₀) < 2^53 and no overflow to infinity is possible. -/
def floatSumExact (bs : List Nat) : Option Nat := do
  let ds ← bs.mapM floatDecode
  match ds with
  | [] => none
  | (_, e1) :: _ =>
    let e0 : Int := ds.foldl (fun acc d => if d.2 < acc then d.2 else acc) e1
    let scaled : List Int := ds.map fun d => d.1 * 2 ^ (d.2 - e0).toNat
    let absSum : Nat := scaled.foldl (fun acc x => acc + x.natAbs) 0
    if absSum < 9007199254740992 ∧ e0 + 53 ≤ 1023 then
      floatEncode (scaled.foldl (· + ·) 0) e0
    else none

/-! ### Aggregates over one group -/

def colCells (col : Nat) (rows : List Row) : List Val := rows.map fun r => r.getD col .null

def ints? : List Val → Option (List Int)
  | [] => some []
  | .int i :: t => (ints? t).map (i :: ·)
  | _ => none

def floats? : List Val → Option (List Nat)
  | [] => some []
  | .float b :: t => (floats? t).map (b :: ·)
  | _ => none

def isFiniteOrdinary (b : Nat) : Bool :=
  -- excludes NaN (order / equality ambiguous under OrderedFloat) and -0.0 (equal to +0.0 but a different pattern)
  b / 4503599627370496 % 2048 ≠ 2047 ∨ b % 4503599627370496 = 0
def notNegZero (b : Nat) : Bool := b ≠ 9223372036854775808

def floatMinMax (isMax : Bool) : List Nat → Option Nat
  | [] => none
  | x :: t => some (t.foldl (fun a b =>
      if isMax then (if floatKey b > floatKey a then b else a) else (if floatKey b < floatKey a then b else a)) x)

/-- The aggregate of `a` over the rows of one group: NULL inputs ignored. -/
def aggCell (a : AggItem) (rows : List Row) : Res Val :=
  let cells := (colCells a.col rows).filter (· ≠ .null)
  match a.fn with
  | .count1 => .ok (.int rows.length)
  | .count => .ok (.int cells.length)
  | .sum =>
      match ints? cells with
      | some xs => aggInts .sum xs
      | none => match floats? cells with
        | some bs => (match floatSumExact bs with | some s => .ok (.float s) | none => .unsupported)
        | none => .unsupported
  | .min =>
      match ints? cells with
      | some xs => aggInts .min xs
      | none => match floats? cells with
        | some bs => if bs.all (fun b => isFiniteOrdinary b && notNegZero b) then
              .ok ((floatMinMax false bs).elim .null .float) else .unsupported
        | none => .unsupported
  | .max =>
      match ints? cells with
      | some xs => aggInts .max xs
      | none => match floats? cells with
        | some bs => if bs.all (fun b => isFiniteOrdinary b && notNegZero b) then
              .ok ((floatMinMax true bs).elim .null .float) else .unsupported
        | none => .unsupported
  | .avg =>
      -- AVG = SUM / COUNT with the engine's integer division (truncating) on integers
      match ints? cells with
      | some [] => .ok .null
      | some xs =>
          let s := xs.foldl (· + ·) 0
          if inI64 s then .ok (.int (Int.tdiv s xs.length)) else .overflow
      | none => .unsupported

/-- One result row: plain items show the group's key (the value every row of the group has in that column),
    aggregate items the aggregate over the group's rows. -/
def rowOf (sel : List SelItem) (rows : List Row) : Res Row :=
  match sel with
  | [] => .ok []
  | .key c :: rest =>
      let v := match rows with | r :: _ => r.getD c .null | [] => .null
      (match rowOf rest rows with
       | .ok t => .ok (v :: t) | .overflow => .overflow | .unsupported => .unsupported)
  | .agg a :: rest =>
      match aggCell a rows, rowOf rest rows with
      | .ok v, .ok t => .ok (v :: t)
      | .overflow, _ => .overflow
      | _, .overflow => .overflow
      | _, _ => .unsupported

def rowsOf (sel : List SelItem) : Groups → Res (List Row)
  | [] => .ok []
  | (_, rs) :: t =>
      match rowOf sel rs, rowsOf sel t with
      | .ok r, .ok rest => .ok (r :: rest)
      | .overflow, _ => .overflow
      | _, .overflow => .overflow
      | _, _ => .unsupported

/-- **The specification.**  Result rows sorted by key tuple. -/
def specGroupBy (i2f : Int → Nat) (sel : List SelItem) (pred : Option Expr) (rows : List Row) : Res (List Row) :=
  match filterRows i2f pred rows with
  | .ok kept =>
      let keys := sel.filterMap SelItem.keyCol?
      rowsOf sel (groupRows keys kept)
  | .overflow => .overflow
  | .unsupported => .unsupported

/-- Integer SUM/AVG whose value depends on nothing but whose *evaluation* may overflow in some order of
    summation: the positive or the negative inputs alone leave i64.  (C06: "exact or the query fails";
    for such inputs an Overflow error value is accepted in place of the exact result.) -/
def sumMayOverflow (xs : List Int) : Bool :=
  let pos := (xs.filter (· > 0)).foldl (· + ·) 0
  let neg := (xs.filter (· < 0)).foldl (· + ·) 0
  !(decide (inI64 pos) && decide (inI64 neg))

def groupMayOverflow (sel : List SelItem) (rows : List Row) : Bool :=
  sel.any fun
    | .agg a => (a.fn = .sum ∨ a.fn = .avg) &&
        (match ints? ((colCells a.col rows).filter (· ≠ .null)) with
         | some xs => sumMayOverflow xs | none => false)
    | .key _ => false

def mayOverflow (i2f : Int → Nat) (sel : List SelItem) (pred : Option Expr) (rows : List Row) : Bool :=
  match filterRows i2f pred rows with
  | .ok kept =>
      let keys := sel.filterMap SelItem.keyCol?
      (groupRows keys kept).any fun g => groupMayOverflow sel g.2
  | _ => false

end LM.GroupSpec
