import LocustModel.Prim
import LocustModel.Query.OrderSpec
/-
  C05 — implementation model of ORDER BY / LIMIT / OFFSET.

  Mirrors (function by function, quirks included)
    src/engine/operators/merge.rs            merge              → `merge`
    src/engine/operators/merge_keep.rs       merge_keep         → `mergeKeep`
    src/engine/operators/partition.rs        partition          → `runs`, `limitRuns`, `partition`
    src/engine/operators/subpartition.rs     subpartition       → `subpartition`
    src/engine/operators/merge_partitioned.rs merge_partitioned → `mergePartitioned`
    src/engine/operators/top_n.rs            heap_replace, TopN::{execute,finalize} → `heapReplace`, `topN`
    src/engine/operators/sort_by*.rs         SortBy/SortByNullable (stable)          → `sortSucc`
    src/engine/planning/query.rs             NormalFormQuery::run strategy choice    → `useTopN`, `partRun`
    src/engine/execution/batch_merging.rs    combine (sort branch / select branch)   → `combineSorted`, `combinePlain`
    src/engine/execution/query_task.rs       combined_limit, convert_to_output_format → `combinedLimit`, `slice`

  A comparator is `le a b = Comparator::cmp_eq(a, b)`; `Comparator::cmp(a, b)` is `!le b a` and the
  `PartialEq` used by partition / subpartition is `eqv le` (true of every `Comparator` impl in
  comparator.rs: u8..u64, i64, OrderedFloat, &str, Option<&str>, Val).
  `slice::sort_by` is modelled by the reference stable sort `isort`; `sort_unstable_by` is a PARAMETER
  (any function returning a sorted permutation).
-/
namespace LM.Order
open LM LM.OrderSpec

variable {α : Type}

/-- `Comparator::cmp`. -/
def lt (le : α → α → Bool) (a b : α) : Bool := !le b a

/-! ### merge.rs / merge_keep.rs -/

/-- merge.rs `merge::<T, C>(left, right, limit)`: (merged keys, take-left flags as 1/0). -/
def merge (le : α → α → Bool) : List α → List α → Nat → List α × List Nat
  | _, _, 0 => ([], [])
  | [], r, n + 1 => (r.take (n + 1), (r.take (n + 1)).map fun _ => 0)
  | l, [], n + 1 => (l.take (n + 1), (l.take (n + 1)).map fun _ => 1)
  | a :: l, b :: r, n + 1 =>
      if le a b then
        let (m, o) := merge le l (b :: r) n
        (a :: m, 1 :: o)
      else
        let (m, o) := merge le (a :: l) r n
        (b :: m, 0 :: o)

/-- Unlimited stable merge (left wins ties). -/
def mergeAll (le : α → α → Bool) : List α → List α → List α
  | [], r => r
  | l, [] => l
  | a :: l, b :: r =>
      if le a b then a :: mergeAll le l (b :: r) else b :: mergeAll le (a :: l) r

/-- merge_keep.rs `merge_keep(ops, left, right)`; `none` = index out of bounds (a panic). -/
def mergeKeep {β : Type} : List Nat → List β → List β → Option (List β)
  | [], _, _ => some []
  | o :: ops, l, r =>
      if o = 1 then
        match l with
        | [] => none
        | a :: l' => (mergeKeep ops l' r).map (a :: ·)
      else
        match r with
        | [] => none
        | b :: r' => (mergeKeep ops l r').map (b :: ·)

/-! ### partition.rs / subpartition.rs / merge_partitioned.rs -/

/-- Length of the run of elements satisfying `p` at the front (`while i < len && elem == left[i]`). -/
def runLen (p : α → Bool) : List α → Nat
  | [] => 0
  | a :: l => if p a then runLen p l + 1 else 0

/-- The `Premerge { left, right }` groups of partition.rs without the limit: runs of identical
    elements, the next run being started by whichever side is `cmp_eq`-first (three loops: both sides,
    left rest, right rest).  `fuel` bounds the number of runs (each consumes at least one element for
    a reflexive comparator; an irreflexive one would make the Rust loop spin forever). -/
def runsAux (le : α → α → Bool) : Nat → List α → List α → List (Nat × Nat)
  | 0, _, _ => []
  | _ + 1, [], [] => []
  | fuel + 1, a :: l, [] =>
      let pl := runLen (eqv le a) (a :: l)
      (pl, 0) :: runsAux le fuel ((a :: l).drop pl) []
  | fuel + 1, [], b :: r =>
      let pr := runLen (eqv le b) (b :: r)
      (0, pr) :: runsAux le fuel [] ((b :: r).drop pr)
  | fuel + 1, a :: l, b :: r =>
      let elem := if le a b then a else b
      let pl := runLen (eqv le elem) (a :: l)
      let pr := runLen (eqv le elem) (b :: r)
      (pl, pr) :: runsAux le fuel ((a :: l).drop pl) ((b :: r).drop pr)

def runs (le : α → α → Bool) (l r : List α) : List (Nat × Nat) := runsAux le (l.length + r.length) l r

/-- The `min_elems < limit` accounting of partition.rs (`min_elems += max(left, right)` — "why max not
    sum?": it under-counts, so more groups than needed are produced, never fewer). -/
def limitRuns : List (Nat × Nat) → Nat → Nat → List (Nat × Nat)
  | [], _, _ => []
  | g :: gs, limit, minElems =>
      if minElems < limit then g :: limitRuns gs limit (minElems + max g.1 g.2) else []

def U32_MAX : Nat := 4294967295

/-- partition.rs `partition::<T, C>(left, right, limit)`. -/
def partition (le : α → α → Bool) (l r : List α) (limit : Nat) : List (Nat × Nat) :=
  limitRuns (runs le l r) (min limit U32_MAX) 0

/-- subpartition.rs: refine every group by the next key (within a group: the same run logic, unlimited).
    `none` = a group reaches beyond a column (index panic). -/
def subpartition (le : α → α → Bool) : List (Nat × Nat) → List α → List α → Option (List (Nat × Nat))
  | [], _, _ => some []
  | (gl, gr) :: gs, l, r =>
      if gl ≤ l.length ∧ gr ≤ r.length then
        (subpartition le gs (l.drop gl) (r.drop gr)).map (runs le (l.take gl) (r.take gr) ++ ·)
      else none

/-- All rows of the groups, each group merged by the last key: the loop body of merge_partitioned.rs,
    `for _ in 0..(group.left + group.right) { if j == j_max || (i < i_max && C::cmp_eq(left[i], right[j])) {take left} else {take right} }`,
    is `merge` of the two group slices with limit `left + right`.  `none` = a group reaches beyond a column. -/
def mergeGroups (le : α → α → Bool) : List (Nat × Nat) → List α → List α → Option (List α × List Nat)
  | [], _, _ => some ([], [])
  | (gl, gr) :: gs, l, r =>
      if gl ≤ l.length ∧ gr ≤ r.length then
        let (m, o) := merge le (l.take gl) (r.take gr) (gl + gr)
        (mergeGroups le gs (l.drop gl) (r.drop gr)).map fun (ms, os) => (m ++ ms, o ++ os)
      else none

/-- merge_partitioned.rs: the loop stops when `i + j == limit` AFTER a push — so `limit = 0` never
    stops it (quirk; unreachable from batch_merging because `partition` then yields no group). -/
def mergePartitioned (le : α → α → Bool) (groups : List (Nat × Nat)) (l r : List α) (limit : Nat) :
    Option (List α × List Nat) :=
  (mergeGroups le groups l r).map fun (m, o) =>
    if limit = 0 then (m, o) else (m.take limit, o.take limit)

/-! ### top_n.rs -/

/-- `heap_replace(keys, values, key, value, node)`: sift the new entry down from `node`; the heap keeps the
    WORST key (last under the comparator) at the root.  The two parallel slices `keys` / `values` are one list
    of pairs here (`keys[i] = h[i].1`, `values[i] = h[i].2`).  `fuel` ≥ height. -/
def heapReplace (le : α → α → Bool) : Nat → List (α × Nat) → α × Nat → Nat → List (α × Nat)
  | 0, h, x, node => h.set node x
  | fuel + 1, h, x, node =>
      let lc := 2 * node + 1
      let rc := 2 * node + 2
      match h[lc]? with
      | none => h.set node x                                       -- `2 * node + 1 < keys.len()` fails
      | some kl =>
        let leftIsWorse : Bool := match h[rc]? with
          | none => true                                            -- right_child >= keys.len()
          | some kr => lt le kr.1 kl.1                              -- C::cmp(keys[right], keys[left])
        if lt le x.1 kl.1 && leftIsWorse then
          heapReplace le fuel (h.set node kl) x lc
        else match h[rc]? with
          | some kr =>
            if lt le x.1 kr.1 then heapReplace le fuel (h.set node kr) x rc
            else h.set node x
          | none => h.set node x

/-- An unstable sort: any function that returns a sorted permutation (law stated in the theorems). -/
abbrev USort := ∀ {β : Type}, (β → β → Bool) → List β → List β

structure USortLaw (usort : USort) : Prop where
  perm : ∀ {β : Type} (le : β → β → Bool) (l : List β), (usort le l).Perm l
  sorted : ∀ {β : Type} (le : β → β → Bool), TotalPre le → ∀ l : List β, Sorted le (usort le l)

/-- The heap phase of `TopN::execute` over the rest of the stream: `if C::cmp(key, keys[0]) { heap_replace }`. -/
def topNFeed (le : α → α → Bool) : List α → Nat → List (α × Nat) → List (α × Nat)
  | [], _, h => h
  | x :: xs, idx, h =>
      match h.head? with
      | none => topNFeed le xs (idx + 1) h             -- n = 0: nothing is kept (guard added by the fix)
      | some k0 =>
        if lt le x k0.1 then topNFeed le xs (idx + 1) (heapReplace le h.length h (x, idx) 0)
        else topNFeed le xs (idx + 1) h

/-- Comparator on positions of a key list (`|i, j| C::ordering(keys[*i], keys[*j])`; positions are always in
    range in the Rust — an out-of-range position is ordered first here so that the function stays a preorder). -/
def atIdx (le : α → α → Bool) (keys : List α) (i j : Nat) : Bool :=
  match keys[i]?, keys[j]? with
  | some a, some b => le a b
  | none, _ => true
  | some _, none => false

/-- `TopN<T, C>` over the whole (chunked) input stream; returns the selected indices in order.
    The chunking does not matter: the buffer is filled with the first `n` rows, sorted worst-first when
    (and only when) it is full, the remaining rows go through the heap; `finalize` sorts by key. -/
def topN (usort : USort) (le : α → α → Bool) (n : Nat) (xs : List α) : List Nat :=
  let ge : α → α → Bool := fun a b => le b a
  let first := xs.take n
  let idx0 := List.range first.length
  let h0 : List (α × Nat) :=
    if first.length = n then
      -- indices.sort_unstable_by(|i, j| C::ordering(keys[*i], keys[*j]).reverse()); keys.sort_unstable_by(…reverse())
      (usort ge first).zip (usort (atIdx ge first) idx0)
    else first.zip idx0
  let h := topNFeed le (xs.drop n) n h0
  -- finalize: sort_indices.sort_unstable_by(|i, j| C::ordering(keys[*i], keys[*j])); output indices[i]
  let order := usort (atIdx le (h.map (·.1))) (List.range h.length)
  order.filterMap fun i => h[i]?.map (·.2)

/-! ### sort_by.rs and the strategy choice of NormalFormQuery::run -/

/-- `for (plan, desc) in order_by.iter().rev() { indices = sort_by(ranking, indices, desc, stable) }`:
    stable sorts from the last key to the first. -/
def sortSucc {β : Type} (cmps : List (β → β → Bool)) (rows : List β) : List β :=
  cmps.foldr (fun c acc => isort c acc) rows

/-- The single comparator equivalent to a key list. -/
def lexOf {β : Type} : List (β → β → Bool) → β → β → Bool
  | [], _, _ => true
  | c :: cs, a, b => if c a b then (if c b a then lexOf cs a b else true) else false

/-- `limit < partition_range.len() / 2 && order_by.len() == 1 && !ranking.is_constant()` -/
def useTopN (limit partLen nkeys : Nat) (constant : Bool) : Bool :=
  decide (limit < partLen / 2) && decide (nkeys = 1) && !constant

/-- `Query::normalize` (after fix 1179be7): ORDER BY keys that reference no column (and contain no aggregate) have the
    same value in every row; they are dropped before planning (a scalar ranking has length 1). -/
def dropConstKeys {κ : Type} (isConst : κ → Bool) (keys : List κ) : List κ := keys.filter fun k => !isConst k

/-- One partition through `NormalFormQuery::run`: `partLen` is the unfiltered length, `rows` the rows
    that passed the filter (the sort runs on the filtered ranking). -/
def partRun {β : Type} (usort : USort) (cmps : List (β → β → Bool)) (constant : Bool) (limit partLen : Nat)
    (rows : List β) : List β :=
  match cmps with
  | [] => rows
  | c :: _ =>
    if useTopN limit partLen cmps.length constant then
      (topN usort c limit rows).filterMap fun i => rows[i]?
    else sortSucc cmps rows

/-! ### batch_merging.rs `combine` and query_task.rs -/

/-- `combined_limit()` / `let limit = (self.limit.limit + self.limit.offset) as usize` — after the fix
    `saturating_add` (before: a dev-profile overflow panic). -/
def combinedLimit (limit offset : Nat) : Nat := min (limit + offset) U64_MAX

/-- Sort branch of `combine`, one key: `merge` on the key column, `merge_keep` on every other column. -/
def combineSorted1 {β : Type} (le : β → β → Bool) (l r : List β) (limit : Nat) : Option (List β) :=
  mergeKeep (merge le l r limit).2 l r

/-- Sort branch of `combine`, several keys: `partition` on the first key, `subpartition` on the middle
    keys, `merge_partitioned` on the last; `merge_keep` replays the flags on every column. -/
def subpartitionAll {β : Type} (l r : List β) : List (β → β → Bool) → List (Nat × Nat) → Option (List (Nat × Nat))
  | [], g => some g
  | c :: cs, g =>
      match subpartition c g l r with
      | none => none
      | some g' => subpartitionAll l r cs g'

def combineSortedN {β : Type} (c1 : β → β → Bool) (mid : List (β → β → Bool)) (last : β → β → Bool)
    (l r : List β) (limit : Nat) : Option (List β) :=
  match subpartitionAll l r mid (partition c1 l r limit) with
  | none => none
  | some g =>
    match mergePartitioned last g l r limit with
    | none => none
    | some (_, ops) => mergeKeep ops l r

def combineSorted {β : Type} (cmps : List (β → β → Bool)) (l r : List β) (limit : Nat) : Option (List β) :=
  match cmps with
  | [] => none
  | [c] => combineSorted1 c l r limit
  | c1 :: c2 :: cs => combineSortedN c1 ((c2 :: cs).dropLast) ((c2 :: cs).getLast (by simp)) l r limit

/-- Select branch of `combine` (no ORDER BY): `count = if col1.len() >= limit {0} else {min(col2.len(), limit - col1.len())}`. -/
def combinePlain {β : Type} (l r : List β) (limit : Nat) : List β :=
  if l.length ≥ limit then l else l ++ r.take (limit - l.length)

/-- Partial results are combined pairwise over adjacent ranges; the bracketing depends on thread timing. -/
inductive PTree (β : Type) where
  | leaf (partLen : Nat) (rows : List β)
  | node (l r : PTree β)

def PTree.rows {β : Type} : PTree β → List β
  | .leaf _ rows => rows
  | .node l r => l.rows ++ r.rows

def evalTree {β : Type} (usort : USort) (cmps : List (β → β → Bool)) (constant : Bool) (climit : Nat) :
    PTree β → Option (List β)
  | .leaf partLen rows => some (partRun usort cmps constant climit partLen rows)
  | .node l r => do
      let a ← evalTree usort cmps constant climit l
      let b ← evalTree usort cmps constant climit r
      if cmps.isEmpty then some (combinePlain a b climit) else combineSorted cmps a b climit

/-- `convert_to_output_format`: rows `offset .. offset + count`.  After the fix the offset is clamped to
    the result length (before: `len - offset` underflowed for `offset > len`). -/
def slice {β : Type} (full : List β) (limit offset : Nat) : List β :=
  let off := min offset full.length
  let count := min limit (full.length - off)
  (full.drop off).take count

/-- The whole query on one table realisation. -/
def runQuery {β : Type} (usort : USort) (cmps : List (β → β → Bool)) (constant : Bool) (limit offset : Nat)
    (t : PTree β) : Option (List β) :=
  (evalTree usort cmps constant (combinedLimit limit offset) t).map fun full => slice full limit offset

end LM.Order
