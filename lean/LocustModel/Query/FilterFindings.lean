import LocustModel.Query.Filter
/-
  Classifiers of the open known findings of C03 (decidable predicates on a case, evaluated by the driver), and the
  per-case validation of the side conditions of `C03_where`.

  `andOrNull` was the classifier of C03-and-or-null (DESIGN §8 #2: AND / OR computed
  on the data bytes with the null maps and-ed instead of Kleene logic; fixed in /repo by the KleeneNullMap operator): a
  fixed entry suppresses nothing, so `classify` no longer emits it — a regression is reported as a VIOLATION.
-/
namespace LM.Filter.Findings
open LM LM.Sql LM.Filter

/-- Does some AND / OR node of `e` have an operand that evaluates to NULL on row `r`? -/
def nullOperandAt (i2f : Int → Nat) : Expr → Row → Bool
  | .and l r, row | .or l r, row =>
      (match eval i2f l row with | .val .null => true | _ => false)
      || (match eval i2f r row with | .val .null => true | _ => false)
      || nullOperandAt i2f l row || nullOperandAt i2f r row
  | .not e, row => nullOperandAt i2f e row
  | .isNull e, row | .isNotNull e, row => nullOperandAt i2f e row
  | _, _ => false

def rowId (r : Row) : Option Nat := match r.head? with | some (.int i) => some i.toNat | _ => none

def andOrNull (fp : FP) (e : Expr) (rows : List Row) (model : QOut) (spec : Res (List Row)) : Bool :=
  match model, spec with
  | .rows ms, .ok kept =>
      let ss := kept.filterMap rowId
      let diff := rows.filter fun r => match rowId r with
        | some i => ms.contains i != ss.contains i
        | none => false
      !diff.isEmpty && diff.all (nullOperandAt fp.i2f e)
  | _, _ => false

/-! ### Per-case validation of the side conditions of `C03_where` on the real column images -/

def bitsOfET : ET → Option Nat
  | .u8 => some 8 | .u16 => some 16 | .u32 => some 32 | _ => none

def sortedB : List Bytes → Bool
  | a :: b :: rest => bytesLt a b && sortedB (b :: rest)
  | _ => true

/-- Stored values of offset / cast columns fit the narrow section type; dictionaries are strictly sorted and contain
    every stored string (the `WellEnc` hypotheses of `IntCol` / `StrCol`). -/
def imageOK (im : ColImg) (cells : List Val) : Bool :=
  let rest := if hasProperty COp.elementwise im.ops then im.ops else (ensureProperty COp.elementwise im.ops).2
  match rest with
  | [.add t o] => match bitsOfET t with
      | some b => cells.all fun v => match v with | .int i => decide (inU b (i - o)) | _ => true
      | none => false
  | [.toI64 t] => match bitsOfET t with
      | some b => cells.all fun v => match v with | .int i => decide (inU b i) | _ => true
      | none => false
  | [.push 1, .push 2, .dict _] =>
      sortedB im.dict && cells.all fun v => match v with | .str s => im.dict.contains s | _ => true
  | _ => true

/-- First column (partition start, column index) whose image violates the side conditions. -/
def badImage (parts : List (Nat × Part)) : Option (Nat × Nat) :=
  parts.findSome? fun (start, p) =>
    (p.cols.zipIdx.findSome? fun ((pc, cells), j) => match pc with
      | .img im => if imageOK im cells then none else some (start, j)
      | .absent => none)

/-- No open finding of C03 has a classifier at present (C03-and-or-null fixed by 92690d6, C03-shared-str-const-panic by
    186ef0c): nothing is suppressed, every spec failure is a VIOLATION. -/
def classify (_fp : FP) (_parts : List (Nat × Part)) (_e : Expr) (_rows : List Row) (_model : QOut) (_spec : Res (List Row)) : String := ""

end LM.Filter.Findings
