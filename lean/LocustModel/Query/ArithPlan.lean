import LocustModel.Query.ArithTree
import LocustModel.Query.ArithShell
import LocustModel.Gen.Registry
/-
  Planner rules for integer arithmetic (src/engine/planning/query_plan.rs `compile_expr`, the `Func2` arm) and the
  execution of the resulting operators on ONE partition, then the assembly of the partitions' results.

  Rust                                               Lean
  ------------------------------------------------   ------------------------------------------
  compile_expr: ColName (present / absent column)    `colTy` / `colOperand`  (absent or all-NULL in the partition ⇒ type Null)
  compile_expr: Const(Int) / Const(Null)             `Ty.scalar` / `QErr.notimpl` ("Const(Null).compile_vec()")
  FUNCTION2_REGISTRY.get(f).iter().find(matches)     `lookup`  over the GENERATED table `Gen.Registry.entries`
  no declaration matches                             `QErr.type`
  (declaration.factory)(planner, lhs, rhs)           `Node` kinds; checked nodes run through `ArithShell.dispatch`
  QueryPlanner::prepare → operator::checked_* fails  `QErr.fatal` (two scalar operands; there is no constant folding)
  every operation of the plan is prepared + executed  `evalNode` evaluates both subtrees even below a forwarded NULL
  NormalFormQuery::run per partition, QueryTask      `runPartition`, `runQuery`
  BoxedData::get_raw on Vec<i64> (`wrap_one`)        `renderI64`  (i64::MAX in a NON-nullable result column reads as NULL)

  Error values (`QErr`) are results, not panics (`Fault`).
-/
namespace LM.ArithPlan
open LM LM.Arith LM.ArithTree LM.ArithShell LM.Gen.Registry

inductive QErr where | notimpl | type | fatal | overflow
  deriving DecidableEq, Repr

def QErr.toString : QErr → String
  | .notimpl => "notimpl" | .type => "type" | .fatal => "fatal" | .overflow => "overflow"

/-- Static type of a compiled sub-expression as far as the arithmetic rules look at it. -/
inductive Ty where
  | scalar                 -- `Type::scalar(Integer)`
  | int (nullable : Bool)  -- Integer / NullableInteger vector
  | null                   -- `BasicType::Null`: column absent from or entirely NULL in this partition
  deriving DecidableEq, Repr

/-- `type.decoded.non_nullable()` as matched against the registry signatures. -/
def Ty.basic : Ty → BT
  | .scalar => .integer
  | .int _ => .integer
  | .null => .null

def funcOf : Op → Func
  | .add => .add | .sub => .subtract | .mul => .multiply | .div => .divide | .mod => .modulo

/-- `declarations.iter().find(|p| p.matches(lhs, rhs))`. -/
def lookup (op : Op) (tl tr : Ty) : Option Entry :=
  (entries (funcOf op)).find? fun e => e.sigs.contains (tl.basic, tr.basic)

/-- What the factory of a registry entry builds, as far as this model interprets it. -/
inductive Node where
  | checked (op : Op)        -- qp.checked_add / checked_subtract / checked_multiply / checked_divide / checked_modulo
  | unchecked (op : Op)      -- qp.add / subtract / multiply(.., I64) / divide / modulo: `Op::perform`, no overflow flag
  | castNullMul              -- (Null, Integer) for `*`: cast lhs to NullableI64 (all NULL, data 0), unchecked multiply
  | forwardLeft | forwardRight
  | unmodelled
  deriving DecidableEq, Repr

def interp : Factory → Node
  | .call "checked_add" => .checked .add
  | .call "checked_subtract" => .checked .sub
  | .call "checked_multiply" => .checked .mul
  | .call "checked_divide" => .checked .div
  | .call "checked_modulo" => .checked .mod
  | .call "add" => .unchecked .add
  | .call "subtract" => .unchecked .sub
  | .call "divide" => .unchecked .div
  | .call "modulo" => .unchecked .mod
  | .callEnc "multiply" "I64" => .unchecked .mul
  | .castThen true "NullableI64" "multiply" "I64" => .castNullMul
  | .forwardLeft => .forwardLeft
  | .forwardRight => .forwardRight
  | _ => .unmodelled

/-- A compiled sub-expression on one partition: its type, its buffer, whether some executed operator raised its
    overflow flag, whether some operator could not be prepared (FatalError), whether a panic happened. -/
structure Val where
  ty : Ty
  data : List Int                  -- for `scalar`: [k]; for `null`: [] (only the length is kept)
  present : Option (List Bool)
  overflow : Bool := false
  fatal : Bool := false
  fault : Option Fault := none
  unmodelled : Bool := false
  deriving Repr

/-- One partition's slice of a column, with the representation the column has there. -/
structure PCol where
  cells : List (Option Int)

def PCol.allNull (c : PCol) : Bool := c.cells.all (·.isNone)
def PCol.anyNull (c : PCol) : Bool := c.cells.any (·.isNone)

/-- `Column` in a partition: absent or entirely NULL ⇒ Null type; some NULL ⇒ nullable with a presence bitmap
    (the data under a NULL slot is arbitrary; 0 here, the shells' results do not depend on it — Thm `C06_shell_*`). -/
def colVal (len : Nat) (c : Option PCol) : Val :=
  match c with
  | none => { ty := .null, data := List.replicate len 0, present := some (List.replicate len false) }
  | some c =>
      if c.allNull then { ty := .null, data := c.cells.map fun _ => 0, present := some (c.cells.map fun _ => false) }
      else if c.anyNull then
        { ty := .int true, data := c.cells.map (·.getD 0), present := some (c.cells.map (·.isSome)) }
      else { ty := .int false, data := c.cells.map (·.getD 0), present := none }

def Val.operand (v : Val) : Operand :=
  match v.ty with
  | .scalar => .scalar (v.data.headD 0)
  | _ => .vec v.data v.present

def orFault (a b : Option Fault) : Option Fault := match a with | some f => some f | none => b

/-- One `Func2` node: registry lookup on the operand types, then the factory's operator(s). -/
def evalNode (op : Op) (len : Nat) (l r : Val) : Except QErr Val :=
  match lookup op l.ty r.ty with
  | none => .error .type
  | some e =>
      let base : Val := { ty := .null, data := List.replicate len 0, present := some (List.replicate len false),
                          overflow := l.overflow || r.overflow, fatal := l.fatal || r.fatal,
                          fault := orFault l.fault r.fault, unmodelled := l.unmodelled || r.unmodelled }
      match interp e.factory with
      | .forwardLeft => .ok { base with ty := l.ty, data := l.data, present := l.present }
      | .forwardRight => .ok { base with ty := r.ty, data := r.data, present := r.present }
      | .castNullMul =>
          -- lhs: NullToVec (data 0, nothing present); Multiply on the data, null maps combined
          let rp := match r.ty with | .scalar => none | _ => r.present
          .ok { base with ty := .int true,
                          present := combineNulls2 (some (List.replicate len false)) rp }
      | .checked op' =>
          match dispatch op' l.operand r.operand with
          | .fatal => .ok { base with ty := .int false, fatal := true }
          | .ok d p o =>
              .ok { base with ty := .int p.isSome, data := d, present := p, overflow := base.overflow || o }
      | .unchecked op' =>
          match l.operand, r.operand with
          | .scalar _, .scalar _ => .ok { base with ty := .int false, fatal := true }
          | lo, ro =>
              let ld := match lo with | .scalar k => List.replicate len k | .vec d _ => d
              let rd := match ro with | .scalar k => List.replicate len k | .vec d _ => d
              let lp := match lo with | .scalar _ => none | .vec _ p => p
              let rp := match ro with | .scalar _ => none | .vec _ p => p
              let p := combineNulls2 lp rp
              match uncheckedVV op' ld rd with
              | .ok d => .ok { base with ty := .int p.isSome, data := d, present := p }
              | .error f => .ok { base with ty := .int p.isSome, present := p, fault := orFault base.fault (some f) }
      | .unmodelled => .ok { base with ty := .int true, unmodelled := true }

/-- `compile_expr` + execution on one partition (`cols i` = the column's slice, `none` if absent). -/
def evalPart (len : Nat) (cols : Nat → Option PCol) : Expr → Except QErr Val
  | .col i => .ok (colVal len (cols i))
  | .const k => .ok { ty := .scalar, data := [k], present := none }
  | .nullConst => .error .notimpl
  | .bin op l r =>
      match evalPart len cols l with
      | .error e => .error e
      | .ok lv =>
          match evalPart len cols r with
          | .error e => .error e
          | .ok rv => evalNode op len lv rv

inductive POut where
  | cells (cs : List (Option Int)) (nullable : Bool)
  | err (e : QErr)
  | fault (f : Fault)
  | unknown
  deriving Repr

/-- One partition of `SELECT <expr> FROM t`: planning errors first, then prepare (Fatal), then execution. -/
def runPartition (len : Nat) (cols : Nat → Option PCol) (e : Expr) : POut :=
  match evalPart len cols e with
  | .error q => .err q
  | .ok v =>
      if v.fatal then .err .fatal
      else if v.unmodelled then .unknown
      else match v.fault with
        | some f => .fault f
        | none =>
            if v.overflow then .err .overflow
            else match v.ty with
              | .scalar => .unknown      -- constant projection: not generated
              | .null => .cells (List.replicate len none) true
              | .int nullable => .cells ((view v.data v.present).take len) nullable

/-- The one spurious error the code raises and the property's wording allows ("exact or the query fails"):
    `(i64::MIN + 1) / -1` (the guard is `lhs <= -i64::MAX`).  True iff some node of the tree meets exactly these
    operands on this row (operands taken from the exact evaluation). -/
def spuriousDiv : Expr → Row → Bool
  | .bin op l r, row =>
      spuriousDiv l row || spuriousDiv r row ||
      (op == .div && evalRowSpec l row == some (some (I64_MIN + 1)) && evalRowSpec r row == some (some (-1)))
  | _, _ => false

inductive QOut where
  | rows (cells : List (Option Int))
  | err (e : QErr)
  | fault (f : Fault)
  | unknown
  deriving Repr

/-- `wrap_one` on an I64 result column: the sentinel reads as NULL. -/
def renderI64 (c : Option Int) : Option Int := if c = some I64_MAX then none else c

/-- All partitions.  Any failing partition fails the query; planning / prepare errors depend on the query shape
    only and therefore win over an Overflow raised while executing another partition.  If every partition produced a
    non-nullable I64 column the merged column stays I64 and is read back through `wrap_one`. -/
def runQuery (parts : List (Nat × (Nat → Option PCol))) (e : Expr) : QOut :=
  let outs := parts.map fun p => runPartition p.1 p.2 e
  let shapeErr := outs.findSome? fun o => match o with
    | .err .overflow => none
    | .err q => some q
    | _ => none
  match shapeErr with
  | some q => .err q
  | none =>
      if outs.any (fun o => match o with | .unknown => true | _ => false) then .unknown
      else match outs.findSome? (fun o => match o with | .fault f => some f | _ => none) with
        | some f => .fault f
        | none =>
            if outs.any (fun o => match o with | .err _ => true | _ => false) then .err .overflow
            else
              let allNonNull := outs.all fun o => match o with | .cells _ n => !n | _ => false
              let cells := outs.flatMap fun o => match o with | .cells cs _ => cs | _ => []
              .rows (if allNonNull then cells.map renderI64 else cells)

end LM.ArithPlan
