import LocustModel.Prim
import LocustModel.Query.Merge
/-
  C02 — model of how per-partition results become one query result.

  Rust anchors
    src/engine/execution/batch_merging.rs   combine (select / sort / aggregate branch), unify_types,
                                            unify_grouping_types, null_to_val, the `limit - col1.len()` append
    src/engine/execution/query_task.rs      QueryTask::run (per-worker map of partial results),
                                            combine_results / eligible_pair, push_result (final combine),
                                            convert_to_output_format, combined_limit
    src/engine/operators/merge.rs           merge (generic comparator; `Merge.merge` is its i64 instance)
    src/engine/operators/*.rs               the streaming operators: execute(stream=true) on one chunk with the
                                            state carried in the operator struct (offset, last_index, accumulators)

  A `BatchResult` is modelled by its content only: the rows it holds (select / sort branch: one `ρ` per row, for
  the sort branch already carrying its key tuple) or the grouped partial aggregates (aggregate branch: key column
  and one value column per aggregate).  Buffers, aliases, `show`, `batch_count` and the unsafe lifetime plumbing
  are not modelled.  Core-only (imported by the driver).
-/
namespace LM.Combine
open LM

/-! ## 1. Bracketings: the shape of a sequence of pairwise merges -/

/-- A bracketing of the per-partition results.  `combine` is only ever applied to results whose row
    ranges are adjacent, the left one covering the earlier rows (`ensure!(batch1.scanned_range.end ==
    batch2.scanned_range.start)`), so every execution computes `eval combine t` for some `t` whose leaves
    are the partition results in row-range order (`C02_schedule_tree`). -/
inductive Tree (α : Type) where
  | leaf (a : α)
  | node (l r : Tree α)
  deriving Repr

def Tree.leaves {α : Type} : Tree α → List α
  | .leaf a => [a]
  | .node l r => l.leaves ++ r.leaves

def Tree.eval {α : Type} (f : α → α → α) : Tree α → α
  | .leaf a => a
  | .node l r => f (l.eval f) (r.eval f)

/-- Evaluation when `combine` can fail (`Result<BatchResult, QueryError>`): the first error aborts the query
    (`fail_with`). -/
def Tree.evalE {α ε : Type} (f : α → α → Except ε α) : Tree α → Except ε α
  | .leaf a => .ok a
  | .node l r =>
      match l.evalE f, r.evalE f with
      | .ok a, .ok b => f a b
      | .error e, _ => .error e
      | _, .error e => .error e

/-- The right-nested bracketing of a non-empty list (what a single worker that sees the partitions in
    reverse order would build); used as the canonical representative. -/
def Tree.ofList {α : Type} (a : α) : List α → Tree α
  | [] => .leaf a
  | b :: rest => .node (.leaf a) (Tree.ofList b rest)

/-! ## 2. `combine`, select branch -/

/-- batch_merging.rs, "Select query": per column
    `count = if col1.len() >= limit { 0 } else { min(col2.len(), limit - col1.len()) }; col1.append_all(col2, count)`.
    All columns of a batch have the same length (`validate`), so the rows move together. -/
def combineSel {ρ : Type} (limit : Nat) (a b : List ρ) : List ρ :=
  let count := if a.length ≥ limit then 0 else min b.length (limit - a.length)
  a ++ b.take count

/-- convert_to_output_format: `count = min(limit, len - offset)`, rows `offset .. offset+count`.
    (`len - offset` is a checked subtraction in the dev profile; since the C05 repair an offset beyond the
    result yields the empty result, which is what truncated subtraction on `Nat` gives.) -/
def outputSlice {ρ : Type} (limit offset : Nat) (full : List ρ) : List ρ :=
  (full.drop offset).take (min limit (full.length - offset))

/-! ## 3. `combine`, sort branch -/

/-- merge.rs `merge(left, right, limit)` for an arbitrary comparator `le` (`C::cmp_eq`): two-index loop,
    the left element is taken when `le l r`, i.e. the earlier partition wins ties; stops after `limit`
    elements; when one side is exhausted the rest of the other is copied up to the limit. -/
def mergeLim {α : Type} (le : α → α → Bool) : List α → List α → Nat → List α
  | _, _, 0 => []
  | [], r, n + 1 => r.take (n + 1)
  | l, [], n + 1 => l.take (n + 1)
  | a :: l, b :: r, n + 1 =>
      if le a b then a :: mergeLim le l (b :: r) n else b :: mergeLim le (a :: l) r n

/-- Unlimited merge (left wins ties). -/
def mergeAll {α : Type} (le : α → α → Bool) : List α → List α → List α
  | [], r => r
  | l, [] => l
  | a :: l, b :: r =>
      if le a b then a :: mergeAll le l (b :: r) else b :: mergeAll le (a :: l) r

/-- The sort branch of `combine` on rows that carry their key tuple: `merge` on the (last) key column,
    `merge_keep` on every other column with the same take-left flags (C05 shows the flags move whole rows). -/
def combineSort {α : Type} (le : α → α → Bool) (limit : Nat) (a b : List α) : List α := mergeLim le a b limit

/-- Merge of all partition results in row-range order, right-nested. -/
def mergeList {α : Type} (le : α → α → Bool) : List (List α) → List α
  | [] => []
  | l :: ls => mergeAll le l (mergeList le ls)

/-! ## 4. `combine`, aggregate branch -/

/-- One grouped partial result: the (fused, i64) group keys in the order the partition emitted them and one
    column of partial aggregates (the model treats one aggregate at a time; every aggregate column is merged
    with the same `MergeOp`s). -/
structure AggPart where
  keys : List Int
  vals : List Int
  deriving DecidableEq, Repr, Inhabited

/-- batch_merging.rs, "Aggregation query" with one grouping column:
    `merge_deduplicate(l, r)` gives the merged keys and the ops, `merge_aggregate(ops, l, r, aggregator)` the values. -/
def combineAgg (op : Merge.Agg) (a b : AggPart) : Except Merge.MergeErr AggPart :=
  let (k, ops) := Merge.mergeDedup false none a.keys b.keys
  match Merge.mergeAggregate op ops a.vals b.vals with
  | .ok v => .ok ⟨k, v⟩
  | .error e => .error e

/-- No grouping column (`lprojection.is_empty()`): `ops = [TakeLeft, MergeRight]` on the single-row partials. -/
def combineGlobal (op : Merge.Agg) (a b : List Int) : Except Merge.MergeErr (List Int) :=
  Merge.mergeAggregate op [.takeLeft, .mergeRight] a b

/-! ### Exact (specification-level) merge of grouped partial aggregates -/

/-- Exact combination of two partial aggregates, NULL = `none` (no sentinel, unbounded integers). -/
def combineX (op : Merge.Agg) : Option Int → Option Int → Option Int
  | none, b => b
  | a, none => a
  | some a, some b =>
      match op with
      | .sum => some (a + b)
      | .count => some (a + b)
      | .max => some (if a ≥ b then a else b)
      | .min => some (if a ≤ b then a else b)

/-- Exact merge of two key-sorted association lists: equal keys are combined, all others carried over. -/
def mergeX (op : Merge.Agg) : List (Int × Option Int) → List (Int × Option Int) → List (Int × Option Int)
  | [], r => r
  | l, [] => l
  | (k1, v1) :: l, (k2, v2) :: r =>
      if k1 < k2 then (k1, v1) :: mergeX op l ((k2, v2) :: r)
      else if k2 < k1 then (k2, v2) :: mergeX op ((k1, v1) :: l) r
      else (k1, combineX op v1 v2) :: mergeX op l r

/-- Grouping a list of (key, input) pairs: every pair is a one-group partial result. -/
def groupX (op : Merge.Agg) : List (Int × Option Int) → List (Int × Option Int)
  | [] => []
  | kv :: rest => mergeX op [kv] (groupX op rest)

/-! ## 5. `combine_results`: which pairs are merged, and when -/

/-- An entry of the `BTreeMap<usize, BatchResult>`: partitions `lo .. hi-1` (by position in row-range
    order; the key of the map is the start of the row range, which is monotone in `lo`), the level, the value. -/
structure Seg (α : Type) where
  lo : Nat
  hi : Nat
  level : Nat
  val : α
  deriving Repr

/-- `eligible_pair` + the body of the `while let` loop: the first pair of neighbours (in key order) whose ranges
    are adjacent and whose levels are equal (or any levels when `sameLevel = false`) is replaced by its
    combination (`level + 1`, range = union, stored under the left key). -/
def mergeFirst {α : Type} (f : α → α → α) (sameLevel : Bool) : List (Seg α) → Option (List (Seg α))
  | a :: b :: rest =>
      if (a.level = b.level || !sameLevel) && a.hi = b.lo then
        some (⟨a.lo, b.hi, a.level + 1, f a.val b.val⟩ :: rest)
      else (mergeFirst f sameLevel (b :: rest)).map (a :: ·)
  | _ => none

/-- `QueryTask::combine_results(batch_results, limit, batch_size, require_same_level)`; the list is the map in
    key order.  `fuel` bounds the number of merges (each merge shortens the list). -/
def combineResults {α : Type} (f : α → α → α) (requireSameLevel : Bool) : Nat → List (Seg α) → List (Seg α)
  | 0, s => s
  | fuel + 1, s =>
      match mergeFirst f true s with
      | some s' => combineResults f requireSameLevel fuel s'
      | none =>
        if requireSameLevel then s
        else match mergeFirst f false s with
          | some s' => combineResults f requireSameLevel fuel s'
          | none => s

/-- `batch_results.insert(batch_result.scanned_range.start, batch_result)`: keep the list in key order. -/
def insertSeg {α : Type} (x : Seg α) : List (Seg α) → List (Seg α)
  | [] => [x]
  | y :: ys => if x.lo < y.lo then x :: y :: ys else y :: insertSeg x ys

/-- One worker (`QueryTask::run`): it obtains partitions in some order (`next_partition` hands out indices of
    the snapshot vector, whose order is that of a `HashMap`), evaluates each, inserts the result into its
    private map and merges neighbours of equal level. -/
def worker {α : Type} (f : α → α → α) (parts : List α) : List Nat → List (Seg α) → List (Seg α)
  | [], s => s
  | i :: is, s =>
      match parts[i]? with
      | some v =>
          let s1 := insertSeg ⟨i, i + 1, 0, v⟩ s
          worker f parts is (combineResults f true s1.length s1)
      | none => worker f parts is s

/-- `push_result` of every entry of every worker's map into the shared map, then (once
    `completed_batches == partitions.len()`) the final `combine_results(.., require_same_level = false)`. -/
def finish {α : Type} (f : α → α → α) (workers : List (List (Seg α))) : List (Seg α) :=
  let all := workers.flatten.foldl (fun acc x => insertSeg x acc) []
  combineResults f false all.length all

/-- The whole of `QueryTask`'s merging for an assignment of partitions to workers (each worker's list is the
    order in which it completed its partitions). -/
def schedule {α : Type} (f : α → α → α) (parts : List α) (assignment : List (List Nat)) : List (Seg α) :=
  finish f (assignment.map fun is => worker f parts is [])

/-! ## 6. Streaming stages: an operator run chunk by chunk with carried state -/

/-- A streamable operator: `execute(stream = true)` consumes one chunk of its (zipped) inputs, may emit a chunk
    of output, and updates the state stored in the operator struct / its output buffer. -/
structure StreamOp (σ α β : Type) where
  step : σ → List α → σ × List β

/-- Run the operator over a chunking of its input, threading the state, concatenating what it emits
    (a streaming consumer sees the chunks one after the other; a blocking consumer sees the concatenation). -/
def StreamOp.runChunks {σ α β : Type} (op : StreamOp σ α β) : σ → List (List α) → σ × List β
  | s, [] => (s, [])
  | s, c :: cs =>
      let (s1, o1) := op.step s c
      let (s2, o2) := op.runChunks s1 cs
      (s2, o1 ++ o2)

/-- The law a streamable operator has to satisfy: a chunk boundary anywhere is invisible. -/
def StreamOp.Lawful {σ α β : Type} (op : StreamOp σ α β) : Prop :=
  (∀ s, op.step s [] = (s, [])) ∧
  ∀ s a b, op.step s (a ++ b) = ((op.step (op.step s a).1 b).1, (op.step s a).2 ++ (op.step (op.step s a).1 b).2)

/-- Chunks of at most `n` elements (`batch_size`): the executor's chunking of a buffer. -/
def chunksOf {α : Type} (n : Nat) (l : List α) : List (List α) :=
  if h : n = 0 ∨ l = [] then (if l = [] then [] else [l]) else
    l.take n :: chunksOf n (l.drop n)
termination_by l.length
decreasing_by
  have h1 : n ≠ 0 := fun hn => h (Or.inl hn)
  have h2 : l ≠ [] := fun hl => h (Or.inr hl)
  have : l.length ≠ 0 := fun hl => h2 (List.length_eq_zero_iff.mp hl)
  simp only [List.length_drop]; omega

/-- Element-wise operators (casts, arithmetic, comparisons, `Select` through a chunk of indices, null-map
    propagation): stateless. -/
def mapOp {α β : Type} (f : α → β) : StreamOp Unit α β := ⟨fun s c => (s, c.map f)⟩

/-- filter.rs `Filter` / `NullableFilter`: data and filter are streamed with the same chunking; keep the
    element when the filter byte is non-zero (and present). -/
def filterOp {α : Type} : StreamOp Unit (α × Bool) α :=
  ⟨fun s c => (s, (c.filter (·.2)).map (·.1))⟩

/-- nonzero_indices.rs `NonzeroIndices` / `NonzeroNonnullIndices`: emits `index + self.offset` for every non-zero
    element of the chunk, then `self.offset += chunk.len()`. -/
def enumFrom {α : Type} : Nat → List α → List (Nat × α)
  | _, [] => []
  | i, x :: xs => (i, x) :: enumFrom (i + 1) xs

def nonzeroIndicesOp : StreamOp Nat Int Nat :=
  ⟨fun offset c => (offset + c.length, ((enumFrom 0 c).filter (fun p => p.2 > 0)).map (fun p => p.1 + offset))⟩

/-- The same operator with the defect "offset reset for every chunk" (what forgetting the carried state looks like). -/
def nonzeroIndicesBroken : StreamOp Nat Int Nat :=
  ⟨fun _ c => (0, ((enumFrom 0 c).filter (fun p => p.2 > 0)).map (fun p => p.1))⟩

/-- aggregate.rs `Aggregate::execute`: `accumulators[grouping[i]] = A::accumulate(accumulators[grouping[i]], nums[i])`
    for the rows of the chunk; the accumulator vector is the carried state, nothing is emitted per chunk. -/
def setAt (acc : List Int) (i : Nat) (v : Int) : List Int :=
  match acc, i with
  | [], _ => []
  | _ :: t, 0 => v :: t
  | h :: t, i + 1 => h :: setAt t i v

def accumulateOp (accumulate : Int → Int → Int) : StreamOp (List Int) (Nat × Int) Unit :=
  ⟨fun acc c => (c.foldl (fun acc p => setAt acc p.1 (accumulate (acc.getD p.1 0) p.2)) acc, [])⟩

/-- top_n.rs `TopN::execute`, per element: while fewer than `n` keys are held the element is pushed with index
    `last_index`; when the `n`-th arrives both vectors are sorted descending by the comparator (`sortFull`, std
    `sort_unstable_by`: a parameter); afterwards an element that beats the root replaces it (`heapReplace`:
    a parameter, modelled by C05).  `last_index` is carried across chunks. -/
structure TopNState where
  keys : List Int
  idx : List Nat
  last : Nat
  deriving DecidableEq, Repr, Inhabited

def topNElem (n : Nat) (beats : Int → Int → Bool)
    (sortFull : List Int × List Nat → List Int × List Nat)
    (heapReplace : List Int × List Nat → Int → Nat → List Int × List Nat) (s : TopNState) (x : Int) : TopNState :=
  if s.keys.length < n then
    let k := s.keys ++ [x]
    let i := s.idx ++ [s.last]
    if k.length = n then
      let (k', i') := sortFull (k, i)
      ⟨k', i', s.last + 1⟩
    else ⟨k, i, s.last + 1⟩
  else if beats x (s.keys.headD 0) then
    let (k', i') := heapReplace (s.keys, s.idx) x s.last
    ⟨k', i', s.last + 1⟩
  else { s with last := s.last + 1 }

def topNOp (n : Nat) (beats : Int → Int → Bool)
    (sortFull : List Int × List Nat → List Int × List Nat)
    (heapReplace : List Int × List Nat → Int → Nat → List Int × List Nat) : StreamOp TopNState Int Unit :=
  ⟨fun s c => (c.foldl (topNElem n beats sortFull heapReplace) s, [])⟩

end LM.Combine
