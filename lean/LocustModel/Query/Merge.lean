import LocustModel.Prim
/-
  Models of the pure merge step functions used when partial results of two partitions are combined
  (src/engine/operators/merge.rs, merge_keep.rs, merge_deduplicate.rs, merge_aggregate.rs,
  merge_drop.rs).  Two-index `while` loops become structural recursion on the pair of remaining
  slices; the limit is fuel.  Keys are i64 (`Int`); the comparator is CmpLessThan (asc) or
  CmpGreaterThan (desc): `cmp_eq l r = l ≤ r` resp. `l ≥ r`.
-/
namespace LM.Merge
open LM

/-- `Comparator::cmp_eq`. -/
def cmpEq (desc : Bool) (l r : Int) : Bool := if desc then decide (l ≥ r) else decide (l ≤ r)

/-- merge.rs `merge::<T, C>(left, right, limit)`: returns (merged keys, take-left flags as 1/0). -/
def merge (desc : Bool) : List Int → List Int → Nat → List Int × List Nat
  | _, _, 0 => ([], [])
  | [], r, n + 1 => (r.take (n + 1), (r.take (n + 1)).map fun _ => 0)
  | l, [], n + 1 => (l.take (n + 1), (l.take (n + 1)).map fun _ => 1)
  | a :: l, b :: r, n + 1 =>
      if cmpEq desc a b then
        let (m, o) := merge desc l (b :: r) n
        (a :: m, 1 :: o)
      else
        let (m, o) := merge desc (a :: l) r n
        (b :: m, 0 :: o)

/-- Unlimited stable merge (the specification's notion; left wins ties). -/
def mergeAll (desc : Bool) : List Int → List Int → List Int
  | [], r => r
  | l, [] => l
  | a :: l, b :: r =>
      if cmpEq desc a b then a :: mergeAll desc l (b :: r) else b :: mergeAll desc (a :: l) r

/-- merge_keep.rs `merge_keep(ops, left, right)`: replay the take-left flags on another column.
    `none` = index out of bounds (a panic in Rust). -/
def mergeKeep {α : Type} : List Nat → List α → List α → Option (List α)
  | [], _, _ => some []
  | o :: ops, l, r =>
      if o = 1 then
        match l with
        | [] => none
        | a :: l' => (mergeKeep ops l' r).map (a :: ·)
      else
        match r with
        | [] => none
        | b :: r' => (mergeKeep ops l r').map (b :: ·)

inductive MergeOp where | takeLeft | takeRight | mergeRight
  deriving DecidableEq, Repr, Inhabited

/-- merge_deduplicate.rs: `last = result.last()` carried as an accumulator.
    Returns (deduplicated keys, ops). -/
def mergeDedup (desc : Bool) : Option Int → List Int → List Int → List Int × List MergeOp
  | _, l, [] => (l, l.map fun _ => .takeLeft)
  | last, [], b :: r =>
      -- `if j < right.len() && result.last() == Some(&right[j])` then the rest of right is taken as is
      if last = some b then (r, .mergeRight :: r.map fun _ => .takeRight)
      else (b :: r, .takeRight :: r.map fun _ => .takeRight)
  | last, a :: l, b :: r =>
      if last = some b then
        let (m, o) := mergeDedup desc last (a :: l) r
        (m, .mergeRight :: o)
      else if cmpEq desc a b then
        let (m, o) := mergeDedup desc (some a) l (b :: r)
        (a :: m, .takeLeft :: o)
      else
        let (m, o) := mergeDedup desc (some b) (a :: l) r
        (b :: m, .takeRight :: o)

/-- merge_drop.rs: replay MergeOps on a grouping column (MergeRight drops the right element). -/
def mergeDrop {α : Type} : List MergeOp → List α → List α → Option (List α)
  | [], _, _ => some []
  | .takeLeft :: ops, a :: l, r => (mergeDrop ops l r).map (a :: ·)
  | .takeRight :: ops, l, b :: r => (mergeDrop ops l r).map (b :: ·)
  | .mergeRight :: ops, l, _ :: r => mergeDrop ops l r
  | _, _, _ => none

/-- Aggregators that can be merged across partitions (Combinable<i64>). -/
inductive Agg where | sum | count | max | min
  deriving DecidableEq, Repr, Inhabited

inductive MergeErr where | overflow | fault
  deriving DecidableEq, Repr

/-- `Combinable<i64>::combine`: `I64_NULL = i64::MAX` is the in-band NULL of a partial aggregate. -/
def combine (op : Agg) (a b : Int) : Except MergeErr Int :=
  if a = I64_MAX then .ok b
  else if b = I64_MAX then .ok a
  else match op with
    | .sum => if inI64 (a + b) then .ok (a + b) else .error .overflow   -- checked_add
    | .count => if inI64 (a + b) then .ok (a + b) else .error .fault    -- plain `a + b`: dev-profile panic
    | .max => .ok (if a ≥ b then a else b)
    | .min => .ok (if a ≤ b then a else b)

/-- merge_aggregate.rs loop body; `acc` is the result so far in reverse. -/
def mergeAggLoop (op : Agg) : List MergeOp → List Int → List Int → List Int → Except MergeErr (List Int)
  | [], _, _, acc => .ok acc.reverse
  | .takeLeft :: ops, a :: l, r, acc => mergeAggLoop op ops l r (a :: acc)
  | .takeRight :: ops, l, b :: r, acc => mergeAggLoop op ops l r (b :: acc)
  | .mergeRight :: ops, l, b :: r, last :: acc =>
      match combine op last b with
      | .ok v => mergeAggLoop op ops l r (v :: acc)
      | .error e => .error e
  | _, _, _, _ => .error .fault

/-- merge_aggregate.rs `merge_aggregate(ops, left, right, aggregator)` incl. the early returns. -/
def mergeAggregate (op : Agg) (ops : List MergeOp) (l r : List Int) : Except MergeErr (List Int) :=
  if l.isEmpty then .ok r else if r.isEmpty then .ok l else mergeAggLoop op ops l r []

end LM.Merge
