import LocustModel.Query.Sql
/-
  C05 — specification of ORDER BY / LIMIT / OFFSET as a RELATION, and its executable judge.

  Nothing in this file mirrors the engine.  A comparator is a Boolean function `le a b`
  ("`a` may come before `b`"), assumed to be a total preorder; rows that are `le` in both directions
  tie and may appear in any relative order.

    OrderSpec le rows out n m  :=  out = rows m+1 .. m+n of SOME arrangement of `rows` sorted by `le`

  which is the property text: sub-multiset of the filtered rows, sorted, of length
  min n (count - m), every row strictly before the cut-off key present.
-/
namespace LM.OrderSpec
open LM LM.Sql

/-! ### Comparators -/

/-- `le` is a total preorder (what `Comparator::cmp_eq` must be for sorting / merging to make sense). -/
structure TotalPre {α : Type} (le : α → α → Bool) : Prop where
  total : ∀ a b, le a b = true ∨ le b a = true
  trans : ∀ a b c, le a b = true → le b c = true → le a c = true

/-- The two rows tie. -/
def eqv {α : Type} (le : α → α → Bool) (a b : α) : Bool := le a b && le b a

/-- `l` is sorted: every element may come before every later one. -/
def Sorted {α : Type} (le : α → α → Bool) (l : List α) : Prop := l.Pairwise (fun a b => le a b = true)

def sortedB {α : Type} (le : α → α → Bool) : List α → Bool
  | [] => true
  | a :: l => l.all (le a) && sortedB le l

/-- Reference stable sort (insertion sort; an earlier row stays before a later row it ties with). -/
def insertLe {α : Type} (le : α → α → Bool) (x : α) : List α → List α
  | [] => [x]
  | y :: ys => if le x y then x :: y :: ys else y :: insertLe le x ys

def isort {α : Type} (le : α → α → Bool) : List α → List α
  | [] => []
  | x :: xs => insertLe le x (isort le xs)

/-! ### The property -/

/-- ORDER BY … LIMIT n OFFSET m as a relation between the (filtered) rows and the output. -/
def OrderSpec {α : Type} (le : α → α → Bool) (rows out : List α) (n m : Nat) : Prop :=
  ∃ s : List α, s.Perm rows ∧ Sorted le s ∧ out = (s.drop m).take n

/-- Without ORDER BY: exactly rows m+1..m+n in ingestion order. -/
def plainSpec {α : Type} (rows : List α) (n m : Nat) : List α := (rows.drop m).take n

/-! ### Executable judge -/

/-- Multiset difference `l - xs`; `none` when some element of `xs` is not (or not often enough) in `l`. -/
def msub {α : Type} [DecidableEq α] : List α → List α → Option (List α)
  | l, [] => some l
  | l, x :: xs => if x ∈ l then msub (l.erase x) xs else none

inductive Verdict where
  | ok
  | notARow        -- the output is not a sub-multiset of the filtered rows (invented / duplicated / altered row)
  | wrongLength    -- length ≠ min n (count - m)
  | unsorted       -- the output itself is not sorted by the keys
  | wrongCut       -- sorted, right length, real rows — but not rows m+1..m+n (a row before the cut-off is missing)
  deriving DecidableEq, Repr

def Verdict.toString : Verdict → String
  | .ok => "OK" | .notARow => "BAD not-a-row" | .wrongLength => "BAD wrong-length"
  | .unsorted => "BAD unsorted" | .wrongCut => "BAD wrong-cut"

/-- The arrangement the judge tries: the rows not returned, sorted, with the output spliced in after
    the first `m` of them. -/
def witness {α : Type} (le : α → α → Bool) (rest out : List α) (m : Nat) : List α :=
  (isort le rest).take m ++ out ++ (isort le rest).drop m

def judge {α : Type} [DecidableEq α] (le : α → α → Bool) (rows out : List α) (n m : Nat) : Verdict :=
  match msub rows out with
  | none => .notARow
  | some rest =>
    if out.length ≠ min n (rows.length - m) then .wrongLength
    else if !sortedB le out then .unsorted
    else if !sortedB le (witness le rest out m) then .wrongCut
    else .ok

/-! ### The concrete comparator on SQL values -/

/-- One ORDER BY key: ascending = NULL last, descending = the whole order reversed (NULL first). -/
def valLe (desc : Bool) (a b : Val) : Bool := if desc then !valLt a b else !valLt b a

/-- Lexicographic comparison of key tuples, one direction per key.  Recursion is on the direction list
    so that the function is a total preorder on all tuples (missing cells read as NULL). -/
def keysLe : List Bool → List Val → List Val → Bool
  | [], _, _ => true
  | d :: ds, a, b =>
      let x := a.headD .null
      let y := b.headD .null
      if valLe d x y then (if valLe d y x then keysLe ds a.tail b.tail else true) else false

/-- A result row: the key tuple it is ordered by, and the cells it shows. -/
abbrev Item := List Val × List Val

def itemLe (dirs : List Bool) (a b : Item) : Bool := keysLe dirs a.1 b.1

end LM.OrderSpec
