import LocustModel.Query.Arith
import LocustModel.Query.ArithSpec
/-
  Expression trees over integer columns and constants, as compiled by the planner for
  `+ - * / %` (every node is a checked operator; both sides are decoded to i64 first because
  these functions are not encoding invariant).  Model evaluation is column-at-a-time with an
  overflow flag per operator (as the operator shells do); spec evaluation is row-at-a-time.
-/
namespace LM.ArithTree
open LM LM.Arith LM.ArithSpec

inductive Expr where
  | col (i : Nat)
  | const (v : Int)
  | nullConst
  | bin (op : Op) (l r : Expr)
  deriving Repr, Inhabited

/-- A row: one optional integer per column. -/
abbrev Row := List (Option Int)

/-- Model: evaluate one row through `Arith.cell` at every node. Returns the cell and whether some
    node raised its overflow flag on present operands. -/
def evalRowModel : Expr → Row → Except Fault (Option Int × Bool)
  | .col i, row => .ok ((row.getD i none), false)
  | .const v, _ => .ok (some v, false)
  | .nullConst, _ => .ok (none, false)
  | .bin op l r, row =>
      match evalRowModel l row, evalRowModel r row with
      | .ok (a, oa), .ok (b, ob) =>
          match cell op a b with
          | .ok (v, o) => .ok (v, oa || ob || o)
          | .error f => .error f
      | .error f, _ => .error f
      | _, .error f => .error f

/-- Spec: exact evaluation of one row. `none` = the row makes the query fail. -/
def evalRowSpec : Expr → Row → Option (Option Int)
  | .col i, row => some (row.getD i none)
  | .const v, _ => some (some v)
  | .nullConst, _ => some none
  | .bin op l r, row =>
      match evalRowSpec l row, evalRowSpec r row with
      | some a, some b =>
          match specCell op a b with
          | .value v => some v
          | .error => none
      | _, _ => none

inductive QResult where
  | rows (cells : List (Option Int))
  | overflow
  | fault (f : Fault)
  deriving Repr

def runModel (e : Expr) (rows : List Row) : QResult :=
  let rec go : List Row → List (Option Int) → Bool → QResult
    | [], acc, o => if o then .overflow else .rows acc.reverse
    | r :: rs, acc, o =>
        match evalRowModel e r with
        | .ok (v, o') => go rs (v :: acc) (o || o')
        | .error f => .fault f
  go rows [] false

def runSpec (e : Expr) (rows : List Row) : QResult :=
  let rec go : List Row → List (Option Int) → QResult
    | [], acc => .rows acc.reverse
    | r :: rs, acc =>
        match evalRowSpec e r with
        | some v => go rs (v :: acc)
        | none => .overflow
  go rows []

end LM.ArithTree
