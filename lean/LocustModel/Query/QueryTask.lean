import LocustModel.Query.Normalize
/-
  C12 model, part 2: from the parsed query to the answer.

  Rust anchors:
    src/locustdb.rs                          run_query (everything before the task is scheduled)
    src/engine/execution/query_task.rs       QueryTask::new (early answer), push_result, fail_with,
                                             fail_with_no_lock, next_partition, run, convert_to_output_format
    src/engine/execution/batch_merging.rs    BatchResult::len, BatchResult::validate
    src/scheduler/shared_sender.rs           SharedSender::send (forwards the first value only)

  What the executor computes (the cells) is not modelled here (C01–C06 do that); a `Batch` is the
  SHAPE of a `BatchResult`: data columns plus the index vectors `projection` / `aggregations`.
-/
namespace LM.Norm
open LM

/-! ## `run_query` up to the creation of the task -/

/-- Outcome of the internal query `SELECT column_name FROM _meta_columns_<table>` that `SELECT *`
    needs. -/
inductive MetaCols where
  | missing                       -- the `_meta_columns_<table>` table does not exist: FatalError
  | notString                     -- answer is not a single string column (e.g. no partitions): FatalError
  | names (l : List String)
  deriving DecidableEq, Repr, Inhabited

/-- The facts about the database a query depends on before execution starts. -/
structure Catalog where
  tableExists : Bool
  metaCols : MetaCols
  partitions : Nat
  deriving DecidableEq, Repr, Inhabited

structure TaskPlan where
  norm : Normalized
  outputColnames : List String
  partitions : Nat
  deriving DecidableEq, Repr, Inhabited

/-- `run_query` + `QueryTask::new` up to (not including) the early answer. -/
def runFront (p : Parsed) (cat : Catalog) : Res TaskPlan := do
  let q ← parseQuery p
  let allCols ← (if q.referencesStar then
      match cat.metaCols with
      | .missing => Res.err .fatal
      | .notString => Res.err .fatal
      | .names l => Res.ok (some l)
    else Res.ok none)
  if !cat.tableExists then Res.err .notimpl else do
  let q' ← expandStar q allCols
  let n ← normalize q'
  pure { norm := n, outputColnames := q'.select.map (·.name), partitions := cat.partitions }

/-- The pass whose result is converted into the answer, and its LIMIT clause
    (`self.final_pass.as_ref().map(|x| &x.limit).unwrap_or(&self.main_phase.limit)`). -/
def Normalized.outputPass (n : Normalized) : NormalFormQuery := n.final.getD n.main

/-! ## Shape of a batch result and of the answer -/

structure Batch (α : Type) where
  columns : List (List α)
  projection : List Nat
  aggregations : List Nat
  deriving DecidableEq, Repr

/-- `BatchResult::len`: length of the first column. -/
def Batch.len {α : Type} (b : Batch α) : Nat :=
  match b.columns with
  | [] => 0
  | c :: _ => c.length

/-- `BatchResult::validate`: all columns as long as the first, every aggregation index in range. -/
def Batch.validate {α : Type} (b : Batch α) : Bool :=
  (match b.columns with
   | [] => true
   | c :: cs => cs.all fun d => d.length == c.length)
  && b.aggregations.all fun i => decide (i < b.columns.length)

structure Output (α : Type) where
  colnames : List String
  rows : Option (List (List α))
  columns : List (String × List α)
  deriving DecidableEq, Repr

structure TaskShape where
  outputColnames : List String
  sources : List ResultColumn
  limit : Limit
  rowformat : Bool
  deriving Repr

/-- `full_result.projection[*i]` / `full_result.aggregations[*i].0`, then `full_result.columns[index]`. -/
def sourceColumn {α : Type} (b : Batch α) : ResultColumn → Except Fault (List α)
  | .proj i => match b.projection[i]? with
      | none => .error .index
      | some idx => match b.columns[idx]? with
          | none => .error .index
          | some c => .ok c
  | .agg i => match b.aggregations[i]? with
      | none => .error .index
      | some idx => match b.columns[idx]? with
          | none => .error .index
          | some c => .ok c

/-- One record of the row view: `columns[index].get_raw(i)` for every source. -/
def recordAt {α : Type} (b : Batch α) (i : Nat) : List ResultColumn → Except Fault (List α)
  | [] => .ok []
  | rc :: rest =>
      match sourceColumn b rc with
      | .error f => .error f
      | .ok c => match c[i]? with
          | none => .error .index
          | some v => match recordAt b i rest with
              | .error f => .error f
              | .ok r => .ok (v :: r)

/-- `for i in offset..(count + offset)`. -/
def recordsFrom {α : Type} (b : Batch α) (sources : List ResultColumn) (start : Nat) : Nat → Except Fault (List (List α))
  | 0 => .ok []
  | k + 1 =>
      match recordAt b start sources with
      | .error f => .error f
      | .ok r => match recordsFrom b sources (start + 1) k with
          | .error f => .error f
          | .ok rs => .ok (r :: rs)

/-- `slice_box(from, to)`: `&self[from..to]`. -/
def sliceBox {α : Type} (c : List α) (from_ to : Nat) : Except Fault (List α) :=
  if from_ ≤ to ∧ to ≤ c.length then .ok ((c.drop from_).take (to - from_)) else .error .index

/-- `for (colname, proj) in self.output_colnames.iter().zip(&self.result_column_sources)`. -/
def columnsOut {α : Type} (b : Batch α) (offset count : Nat) : List String → List ResultColumn → Except Fault (List (String × List α))
  | n :: names, rc :: rest =>
      match sourceColumn b rc with
      | .error f => .error f
      | .ok c => match sliceBox c offset (offset + count) with
          | .error f => .error f
          | .ok s => match columnsOut b offset count names rest with
              | .error f => .error f
              | .ok cs => .ok ((n, s) :: cs)
  | _, _ => .ok []

/-- `convert_to_output_format` (with the `fix:`es that clamp OFFSET to the result length and return the
    validation error instead of unwrapping it): a result of inconsistent shape is a FatalError VALUE
    (`push_result` hands it to `fail_with_no_lock`); index errors would still be panics. -/
def convertToOutput {α : Type} (t : TaskShape) (b : Batch α) : Res (Output α) :=
  let limit := t.limit.limit
  let offset := min t.limit.offset b.len
  let count := min limit (b.len - offset)
  if !b.validate then .err .fatal else
  match (if t.rowformat then (recordsFrom b t.sources offset count).map some else .ok none) with
  | .error f => .fault f
  | .ok rows =>
    match columnsOut b offset count t.outputColnames t.sources with
    | .error f => .fault f
    | .ok columns => .ok { colnames := t.outputColnames, rows := rows, columns := columns }

/-- The early answer of `QueryTask::new` for a table without partitions (after the `fix:`): one empty
    column per select item. -/
def earlyAnswer {α : Type} (outputColnames : List String) : Output α :=
  { colnames := outputColnames, rows := some [], columns := outputColnames.map fun n => (n, []) }

/-! ## Specification of a well-formed answer -/

/-- What the select list demands of the name of one output column: the alias / the identifier as
    written, or (for an unaliased expression other than a column) nothing beyond its position. -/
inductive NameSpec where
  | exact (n : String)
  | any
  deriving DecidableEq, Repr, Inhabited

def NameSpec.ok : NameSpec → String → Bool
  | .exact n, m => n == m
  | .any, _ => true

def namesOk : List NameSpec → List String → Bool
  | [], [] => true
  | s :: ss, n :: ns => s.ok n && namesOk ss ns
  | _, _ => false

/-- The row view of a list of columns of length `n`. -/
def rowView {α : Type} (cols : List (List α)) (n : Nat) : List (List α) :=
  (List.range n).map fun i => cols.filterMap fun c => c[i]?

/-- Number of rows of an answer: the length of its first column (of the row view, if it has no column). -/
def Output.len {α : Type} (o : Output α) : Nat :=
  match o.columns with
  | c :: _ => c.2.length
  | [] => match o.rows with
      | some rs => rs.length
      | none => 0

def rowsAgree {α : Type} (rows : Option (List (List α))) (cols : List (List α)) (n : Nat) : Prop :=
  match rows with
  | none => True
  | some rs => rs = rowView cols n

instance {α : Type} [DecidableEq α] (rows : Option (List (List α))) (cols : List (List α)) (n : Nat) :
    Decidable (rowsAgree rows cols n) := by
  unfold rowsAgree; cases rows <;> exact inferInstance

/-- C12's "a result is well-formed": one column per select item, in select-list order, under the
    written name or alias; all columns of equal length; the row view and the column view describe
    the same cells; no more rows than LIMIT allows. -/
def WellFormed {α : Type} (sel : List NameSpec) (limit : Nat) (o : Output α) : Prop :=
  o.columns.length = sel.length ∧
  o.colnames = o.columns.map (·.1) ∧
  namesOk sel o.colnames = true ∧
  (∀ c ∈ o.columns, c.2.length = o.len) ∧
  o.len ≤ limit ∧
  rowsAgree o.rows (o.columns.map (·.2)) o.len

instance {α : Type} [DecidableEq α] (sel : List NameSpec) (limit : Nat) (o : Output α) :
    Decidable (WellFormed sel limit o) := by
  unfold WellFormed; exact inferInstance

/-- What the (unmodelled) executor is trusted to deliver for a pass: a batch result with one
    `projection` / `aggregations` entry per projection / aggregate of the pass, all pointing at
    existing columns, all columns equally long. -/
structure ExecShape {α : Type} (nf : NormalFormQuery) (b : Batch α) : Prop where
  valid : b.validate = true
  nproj : b.projection.length = nf.projection.length
  nagg : b.aggregations.length = nf.aggregate.length
  projRange : ∀ i ∈ b.projection, i < b.columns.length

/-! ## The task as a transition system (who sends the answer, and how often) -/

namespace Task

/-- Shared state of one `QueryTask` (the atomics, the fields behind `unsafe_state`, the sender). -/
structure Shared where
  parts : Nat               -- `partitions.len()`
  batchIndex : Nat          -- `batch_index`
  completed : Bool          -- `completed`
  completedBatches : Nat    -- `state.completed_batches`
  senderPresent : Bool      -- `SharedSender.inner` is `Some`
  delivered : Nat           -- values that went into the one-shot channel
  poisoned : Bool           -- a thread panicked while holding the state lock
  deriving DecidableEq, Repr

/-- A worker thread inside `QueryTask::run`; `held` = partitions whose batch results it holds locally. -/
inductive Worker where
  | looping (held : Nat)      -- at `while let Some(..) = self.next_partition()`
  | processing (held : Nat)   -- claimed a partition: `main_phase.run…` and `combine_results` pending
  | checking (held : Nat)     -- about to read `self.completed`
  | pushing (held : Nat)      -- in `for (_, result) in batch_results { self.push_result(..) }`
  | done                      -- returned from `run`
  | dead                      -- panicked
  deriving DecidableEq, Repr

structure St where
  sh : Shared
  ws : List Worker
  deriving Repr

/-- `SharedSender::send`: the first call forwards the value, later calls do nothing. -/
def send (s : Shared) : Shared :=
  if s.senderPresent then { s with senderPresent := false, delivered := s.delivered + 1 } else s

/-- `fail_with_no_lock`. -/
def failNoLock (s : Shared) : Shared :=
  send { s with completed := true, batchIndex := s.parts }

/-- State right after `QueryTask::new`: the early answer is sent iff `task.completed()`, i.e. iff there
    is no partition. -/
def init (parts workers : Nat) : St :=
  let s : Shared := { parts := parts, batchIndex := 0, completed := false, completedBatches := 0,
                      senderPresent := true, delivered := 0, poisoned := false }
  { sh := if parts = 0 then send s else s, ws := List.replicate workers (.looping 0) }

/-- One atomic step of one worker.  Outcomes of the executor / the merge / the final pass / the
    conversion are chosen by the environment: every constructor that could apply is a possible step. -/
inductive Step : St → St → Prop where
  /-- `next_partition`: `fetch_add(1)`; a partition is left. -/
  | claim (sh : Shared) (l r : List Worker) (h : Nat) (hlt : sh.batchIndex < sh.parts) :
      Step ⟨sh, l ++ .looping h :: r⟩ ⟨{ sh with batchIndex := sh.batchIndex + 1 }, l ++ .processing h :: r⟩
  /-- `next_partition`: none left; leave the loop. -/
  | exhausted (sh : Shared) (l r : List Worker) (h : Nat) (hge : sh.parts ≤ sh.batchIndex) :
      Step ⟨sh, l ++ .looping h :: r⟩ ⟨{ sh with batchIndex := sh.batchIndex + 1 }, l ++ .pushing h :: r⟩
  /-- the batch ran and merged with the local results. -/
  | processed (sh : Shared) (l r : List Worker) (h : Nat) :
      Step ⟨sh, l ++ .processing h :: r⟩ ⟨sh, l ++ .checking (h + 1) :: r⟩
  /-- the batch (or the local merge) returned an error value: `fail_with`, task already completed. -/
  | failLate (sh : Shared) (l r : List Worker) (h : Nat) (hp : sh.poisoned = false) (hc : sh.completed = true) :
      Step ⟨sh, l ++ .processing h :: r⟩ ⟨sh, l ++ .done :: r⟩
  /-- … `fail_with`, first to complete: the error is sent. -/
  | failFirst (sh : Shared) (l r : List Worker) (h : Nat) (hp : sh.poisoned = false) (hc : sh.completed = false) :
      Step ⟨sh, l ++ .processing h :: r⟩ ⟨failNoLock sh, l ++ .done :: r⟩
  /-- … `fail_with` on a poisoned lock: `lock().unwrap()` panics. -/
  | failPoisoned (sh : Shared) (l r : List Worker) (h : Nat) (hp : sh.poisoned = true) :
      Step ⟨sh, l ++ .processing h :: r⟩ ⟨sh, l ++ .dead :: r⟩
  /-- the executor panicked (no lock held). -/
  | processPanic (sh : Shared) (l r : List Worker) (h : Nat) :
      Step ⟨sh, l ++ .processing h :: r⟩ ⟨sh, l ++ .dead :: r⟩
  /-- `if self.completed.load() { return }`. -/
  | checkCompleted (sh : Shared) (l r : List Worker) (h : Nat) (hc : sh.completed = true) :
      Step ⟨sh, l ++ .checking h :: r⟩ ⟨sh, l ++ .done :: r⟩
  | checkContinue (sh : Shared) (l r : List Worker) (h : Nat) (hc : sh.completed = false) :
      Step ⟨sh, l ++ .checking h :: r⟩ ⟨sh, l ++ .looping h :: r⟩
  /-- `push_result` of a local result covering `k` partitions: task already completed. -/
  | pushLate (sh : Shared) (l r : List Worker) (h k : Nat) (hk : 1 ≤ k ∧ k ≤ h)
      (hp : sh.poisoned = false) (hc : sh.completed = true) :
      Step ⟨sh, l ++ .pushing h :: r⟩ ⟨sh, l ++ .pushing (h - k) :: r⟩
  /-- `push_result`: not the last batch. -/
  | pushPartial (sh : Shared) (l r : List Worker) (h k : Nat) (hk : 1 ≤ k ∧ k ≤ h)
      (hp : sh.poisoned = false) (hc : sh.completed = false) (hne : sh.completedBatches + k ≠ sh.parts) :
      Step ⟨sh, l ++ .pushing h :: r⟩
           ⟨{ sh with completedBatches := sh.completedBatches + k }, l ++ .pushing (h - k) :: r⟩
  /-- `push_result`: last batch; merge, final pass and conversion succeed; the result is sent. -/
  | pushFinalOk (sh : Shared) (l r : List Worker) (h k : Nat) (hk : 1 ≤ k ∧ k ≤ h)
      (hp : sh.poisoned = false) (hc : sh.completed = false) (heq : sh.completedBatches + k = sh.parts) :
      Step ⟨sh, l ++ .pushing h :: r⟩
           ⟨{ send { sh with completedBatches := sh.completedBatches + k } with completed := true },
            l ++ .pushing (h - k) :: r⟩
  /-- `push_result`: last batch; the merge, the "exactly one remaining partition" check or (after the
      `fix:`) the final pass returns an error value: `fail_with_no_lock`. -/
  | pushFinalErr (sh : Shared) (l r : List Worker) (h k : Nat) (hk : 1 ≤ k ∧ k ≤ h)
      (hp : sh.poisoned = false) (hc : sh.completed = false) (heq : sh.completedBatches + k = sh.parts) :
      Step ⟨sh, l ++ .pushing h :: r⟩
           ⟨failNoLock { sh with completedBatches := sh.completedBatches + k }, l ++ .pushing (h - k) :: r⟩
  /-- `push_result`: last batch; a panic while the state lock is held (poisons it). -/
  | pushFinalPanic (sh : Shared) (l r : List Worker) (h k : Nat) (hk : 1 ≤ k ∧ k ≤ h)
      (hp : sh.poisoned = false) (hc : sh.completed = false) (heq : sh.completedBatches + k = sh.parts) :
      Step ⟨sh, l ++ .pushing h :: r⟩
           ⟨{ sh with completedBatches := sh.completedBatches + k, poisoned := true }, l ++ .dead :: r⟩
  /-- `push_result` / `push_colstack` on a poisoned lock. -/
  | pushPoisoned (sh : Shared) (l r : List Worker) (h : Nat) (hp : sh.poisoned = true) :
      Step ⟨sh, l ++ .pushing h :: r⟩ ⟨sh, l ++ .dead :: r⟩
  /-- all local results pushed; `push_colstack`; return. -/
  | finish (sh : Shared) (l r : List Worker) (hp : sh.poisoned = false) :
      Step ⟨sh, l ++ .pushing 0 :: r⟩ ⟨sh, l ++ .done :: r⟩

/-- Reflexive-transitive closure. -/
inductive Reach : St → St → Prop where
  | refl (s : St) : Reach s s
  | step {s t u : St} : Reach s t → Step t u → Reach s u

def Worker.held : Worker → Nat
  | .looping h => h | .processing h => h | .checking h => h | .pushing h => h | .done => 0 | .dead => 0

def Worker.inProcess : Worker → Nat
  | .processing _ => 1
  | _ => 0

def total (f : Worker → Nat) (ws : List Worker) : Nat := (ws.map f).sum

def NoDead (ws : List Worker) : Prop := ∀ w ∈ ws, w ≠ .dead

/-- Every worker has returned or panicked. -/
def Terminal (s : St) : Prop := ∀ w ∈ s.ws, w = .done ∨ w = .dead

end Task

end LM.Norm
