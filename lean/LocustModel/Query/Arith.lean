import LocustModel.Prim
/-
  Model of src/engine/operators/numeric_operators.rs (CheckedBinaryOp impls) and of the
  checked operator shells in src/engine/operators/binary_operator.rs.

  `performChecked` mirrors `perform_checked` arm by arm: it returns the (possibly wrapped) value
  and the overflow flag exactly as the Rust does, or a `Fault` where the Rust would panic.
-/
namespace LM.Arith

inductive Op where | add | sub | mul | div | mod
  deriving DecidableEq, Repr, Inhabited

/-- `CheckedBinaryOp::perform_checked` for Addition/Subtraction/Multiplication/Division/Modulo. -/
def performChecked (op : Op) (l r : Int) : Except Fault (Int × Bool) :=
  match op with
  | .add => .ok (ovfAdd l r)
  | .sub => .ok (ovfSub l r)
  | .mul => .ok (ovfMul l r)
  | .div =>
      -- division_by_0 || (lhs <= -i64::MAX && rhs == -1)  → (1, true)
      if r = 0 ∨ (l ≤ -I64_MAX ∧ r = -1) then .ok (1, true)
      else .ok (Int.tdiv l r, false)
  | .mod =>
      if r = 0 then .ok (1, true)
      else .ok (wrap64 (Int.tmod l r), false)      -- wrapping_rem

/-- A nullable vector: `data` with an optional presence bitmap (`none` = every slot present). -/
structure NVec where
  data : List Int
  present : Option (List Bool)

/-- Result of an operator `execute`: a QueryError::Overflow value, or the output vector. -/
inductive ExecResult (α : Type) where
  | ok (v : α)
  | overflowErr
  deriving Repr

/-- Loop body shared by all six checked shells: push result, `any_overflow |= overflow [&& present]`. -/
def stepAcc (op : Op) (acc : List Int × Bool) (l r : Int) (present : Bool) :
    Except Fault (List Int × Bool) :=
  match performChecked op l r with
  | .error f => .error f
  | .ok (v, o) => .ok (acc.1 ++ [v], acc.2 || (o && present))

/-- `CheckedBinaryOperator` / `NullableCheckedBinaryOperator` (vector ∘ vector, zip semantics). -/
def execVV (op : Op) : List Int → List Int → List Bool → List Int × Bool → Except Fault (List Int × Bool)
  | l :: ls, r :: rs, ps, acc =>
      let p := ps.headD true
      match stepAcc op acc l r p with
      | .error f => .error f
      | .ok acc' => execVV op ls rs ps.tail acc'
  | _, _, _, acc => .ok acc

/-- Row-level view used by specs and theorems: one output cell, or overflow flagged on a present row. -/
def cell (op : Op) (l r : Option Int) : Except Fault (Option Int × Bool) :=
  match l, r with
  | some a, some b =>
      match performChecked op a b with
      | .error f => .error f
      | .ok (v, o) => .ok (some v, o)
  | _, _ => .ok (none, false)

end LM.Arith
