import LocustModel.Query.Combine
/-
  C02 — chunk-level models of the remaining operators a streaming stage can contain or feed.

  Rust anchors (src/engine/operators/)
    buffer_stream.rs    BufferStream, BufferStreamNull, BufferStreamNullable   (block buffer behind a streaming stage:
                        `execute` is called once per chunk and appends to the output buffer)
    select.rs           Select, SelectNullable (`indices` streamed, `input` a block; `if stream { output.clear() }`)
    compact.rs          Compact (`data[j] = data[i]` for `select[i] > 0`, `truncate(j)`)
    merge_keep.rs       merge_keep (`take_left` flags, carried read positions `i`, `j`)
    to_val.rs           ValToNullableInt with block output (the repaired step and the one before /repo 3044fa3)

  All are instances of `Combine.StreamOp`: one `step` = one `execute` on one chunk, the state is what the operator
  struct / its output buffer holds between two calls.  Operators that emit a chunk for a streaming consumer put it in
  the output component; operators whose consumer reads the whole buffer afterwards (block output) keep it in the state.

  Presence bitmaps.  A `Vec<u8>` bitmap is modelled by the sorted list of the indices of its set bits
  (`BitVecMut::set` = insert, `BitVec::is_set` = membership; the byte vector is a function of that set because `set`
  only ever grows the vector up to the byte that holds the bit).  Where the BYTE structure matters — the repaired
  defect of BufferStreamNullable — the number of bytes is carried next to the set.
  Core-only.
-/
namespace LM.StreamOps
open LM LM.Combine

/-! ## buffer_stream.rs -/

/-- `BufferStream::execute`: `output.extend(data.iter())`.  Nothing is emitted to a streaming consumer; the buffered
    vector is the state a blocking consumer reads after the stage. -/
def bufferStreamOp {α : Type} : StreamOp (List α) α Unit := ⟨fun out c => (out ++ c, [])⟩

/-- `BufferStreamNull::execute`: `self.count += input.len()`. -/
def bufferNullOp {α : Type} : StreamOp Nat α Unit := ⟨fun n c => (n + c.length, [])⟩

/-- indices (chunk-relative, ascending) of the elements of the chunk whose presence bit is set -/
def presentIdx {α : Type} (c : List (α × Bool)) : List Nat :=
  ((enumFrom 0 c).filter (fun p => p.2.2)).map (·.1)

/-- `BufferStreamNullable::execute` since /repo 54594d7:
    `let offset = output.len(); output.extend(data); for i in 0..data.len() { if present.is_set(i) { output_present.set(offset + i) } }`.
    State: buffered data, set bits of the buffered bitmap. -/
def bufferNullableOp {α : Type} : StreamOp (List α × List Nat) (α × Bool) Unit :=
  ⟨fun s c => ((s.1 ++ c.map (·.1), s.2 ++ (presentIdx c).map (· + s.1.length)), [])⟩

/-- The same operator BEFORE 54594d7: `output.extend(data); output_present.extend(present.iter())` — the presence
    BYTES of the chunk are appended, so bit `i` of the chunk lands at bit `8 * (bytes buffered so far) + i`.
    State: data, set bits, number of bitmap bytes buffered (a chunk of `k` elements carries `⌈k/8⌉` bytes). -/
def bufferNullableOld {α : Type} : StreamOp (List α × List Nat × Nat) (α × Bool) Unit :=
  ⟨fun s c => ((s.1 ++ c.map (·.1), s.2.1 ++ (presentIdx c).map (· + 8 * s.2.2), s.2.2 + (c.length + 7) / 8), [])⟩

/-! ## select.rs -/

/-- `Select::execute(stream = true)`: `output.clear(); for i in indices { output.push(data[*i]) }` — `data` is a block
    input (the whole buffer), the indices arrive in chunks.  `none` = index out of bounds (the worker panics). -/
def selectOp {α : Type} (data : List α) : StreamOp Unit Nat (Option α) := ⟨fun s c => (s, c.map (data[·]?))⟩

/-- `Select::execute(stream = false)` in a streaming stage (block output: no `clear`, the output accumulates). -/
def selectBlockOp {α : Type} (data : List α) : StreamOp (List (Option α)) Nat Unit :=
  ⟨fun out c => (out ++ c.map (data[·]?), [])⟩

/-- `SelectNullable::execute(stream = true)`: data and presence of the chunk, presence bits chunk-relative
    (`present_out.set(i)` after `present_out.clear()`), which is what a streaming consumer expects. -/
def selectNullableOp {α : Type} (data : List (α × Bool)) : StreamOp Unit Nat (Option (α × Bool)) :=
  ⟨fun s c => (s, c.map (data[·]?))⟩

def insertBit (i : Nat) : List Nat → List Nat
  | [] => [i]
  | b :: bs => if i < b then i :: b :: bs else if i = b then b :: bs else b :: insertBit i bs

/-- `SelectNullable::execute(stream = false)` called once per chunk (block output in a streaming stage): `data_out`
    accumulates, but the presence bit is still set at the CHUNK-RELATIVE position `i`
    (`for (i, &index) in indices.iter().enumerate() { data_out.push(data[index]); if present.is_set(index) { present_out.set(i) } }`). -/
def selectNullableBlockOp {α : Type} (data : List (α × Bool)) : StreamOp (List (Option α) × List Nat) Nat Unit :=
  ⟨fun s c =>
    ((s.1 ++ c.map (fun i => (data[i]?).map (·.1)),
      (presentIdx (c.map fun i => ((), ((data[i]?).map (·.2)).getD false))).foldl (fun bits i => insertBit i bits) s.2), [])⟩

/-! ## compact.rs -/

/-- `Compact::execute`: keeps `data[i]` for `select[i] > 0`, `i` below both lengths (`select.iter().take(data.len())`
    zipped with the enumeration), in place.  On zipped chunks this is a filter. -/
def compactOp {α : Type} : StreamOp Unit (α × Int) α := ⟨fun s c => (s, (c.filter (fun p => p.2 > 0)).map (·.1))⟩

/-- The operator as the engine runs it (never streamed: `can_stream_input = false`): whole buffers. -/
def compact {α : Type} (data : List α) (select : List Int) : List α :=
  ((data.zip select).filter (fun p => p.2 > 0)).map (·.1)

/-! ## merge_keep.rs -/

/-- `merge_keep(ops, left, right)`: `if take_left { result.push(left[i]); i += 1 } else { result.push(right[j]); j += 1 }`.
    The read positions are the carried state; `none` = index out of bounds. -/
def mergeKeepGo {α : Type} (left right : List α) : Nat × Nat → List Bool → (Nat × Nat) × List (Option α)
  | s, [] => (s, [])
  | s, true :: fs => let r := mergeKeepGo left right (s.1 + 1, s.2) fs; (r.1, left[s.1]? :: r.2)
  | s, false :: fs => let r := mergeKeepGo left right (s.1, s.2 + 1) fs; (r.1, right[s.2]? :: r.2)

def mergeKeepOp {α : Type} (left right : List α) : StreamOp (Nat × Nat) Bool (Option α) := ⟨mergeKeepGo left right⟩

/-! ## to_val.rs -/

/-- `ValToNullableInt::execute(stream = false)` since /repo 3044fa3 (value rows unpacked back into a nullable integer
    column, block output inside a streaming stage): `let offset = data.len(); … data.push(x); present.set(offset + i)`,
    `Val::Null` pushes 0 and sets nothing.  `none` = `Val::Null`.  Same shape as the nullable block buffer. -/
def valToNullableOp : StreamOp (List Int × List Nat) (Option Int) Unit :=
  ⟨fun s c => bufferNullableOp.step s (c.map fun v => (v.getD 0, v.isSome))⟩

/-- The same operator BEFORE 3044fa3: `present.set(i)` with `i` the index WITHIN the chunk while `data` accumulates. -/
def valToNullableOld : StreamOp (List Int × List Nat) (Option Int) Unit :=
  ⟨fun s c => ((s.1 ++ c.map (·.getD 0),
      (presentIdx (c.map fun v => (v.getD 0, v.isSome))).foldl (fun bits i => insertBit i bits) s.2), [])⟩

end LM.StreamOps
