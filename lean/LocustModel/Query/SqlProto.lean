import LocustModel.Proto
import LocustModel.Query.Sql
/-
  Line-protocol (de)serialisation for the SQL specification: cells, columns, RPN expressions.
  cells: `_` | `i<int>` | `f<16 hex digits>` | `x<hex utf8 bytes>`
  rpn tokens (comma separated): `c<i>` `ki<int>` `kf<hex>` `kx<hex>` `kn`  = <> < <= > >=  and or not isnull notnull  + - * / %
-/
namespace LM.SqlProto
open LM LM.Proto LM.Sql

def parseHexNat (s : String) : Option Nat :=
  s.toList.foldlM (fun acc c => (hexDigit? c).map (acc * 16 + ·)) 0

def parseCell (s : String) : Option Val :=
  if s = "_" then some .null else
  match s.toList with
  | 'i' :: rest => (String.ofList rest).toInt?.map Val.int
  | 'f' :: rest => (parseHexNat (String.ofList rest)).map Val.float
  | 'x' :: _ => (parseHexBytes? s).map Val.str
  | _ => none

def showHex16 (n : Nat) : String :=
  let rec go (k : Nat) (n : Nat) (acc : List Char) : List Char :=
    match k with
    | 0 => acc
    | k + 1 => go k (n / 16) (hexChar (n % 16) :: acc)
  String.ofList (go 16 n [])

def showCell : Val → String
  | .null => "_"
  | .int i => "i" ++ toString i
  | .float b => "f" ++ showHex16 b
  | .str s => showHexBytes s

def parseCells (s : String) : Option (List Val) := parseList parseCell s

def showRow (r : Row) : String := if r.isEmpty then "()" else ",".intercalate (r.map showCell)

def showRows (rs : List Row) : String :=
  if rs.isEmpty then "[]" else ";".intercalate (rs.map showRow)

/-- rows: `[]` | row;row;…   row: `()` | cell,cell,… -/
def parseRows (s : String) : Option (List Row) :=
  if s = "[]" then some [] else
  (s.splitOn ";").mapM fun r => if r = "()" then some [] else parseCells r

def transpose (cols : List (List Val)) (n : Nat) : List Row :=
  (List.range n).map fun i => cols.map fun c => c.getD i .null

def parseRpn (toks : List String) : Option Expr :=
  let rec go : List String → List Expr → Option Expr
    | [], [e] => some e
    | [], _ => none
    | t :: ts, st =>
        let bin (f : Expr → Expr → Expr) : Option Expr :=
          match st with
          | r :: l :: st' => go ts (f l r :: st')
          | _ => none
        let un (f : Expr → Expr) : Option Expr :=
          match st with
          | e :: st' => go ts (f e :: st')
          | _ => none
        if t = "=" then bin (.cmp .eq) else if t = "<>" then bin (.cmp .ne)
        else if t = "<" then bin (.cmp .lt) else if t = "<=" then bin (.cmp .le)
        else if t = ">" then bin (.cmp .gt) else if t = ">=" then bin (.cmp .ge)
        else if t = "and" then bin .and else if t = "or" then bin .or
        else if t = "not" then un .not
        else if t = "isnull" then un .isNull else if t = "notnull" then un .isNotNull
        else if t = "+" then bin (.arith .add) else if t = "-" then bin (.arith .sub)
        else if t = "*" then bin (.arith .mul) else if t = "/" then bin (.arith .div)
        else if t = "%" then bin (.arith .mod)
        else if t = "kn" then go ts (.lit .null :: st)
        else match t.toList with
          | 'c' :: rest => (String.ofList rest).toNat?.bind fun i => go ts (.col i :: st)
          | 'k' :: rest => (parseCell (String.ofList rest)).bind fun v => go ts (.lit v :: st)
          | _ => none
  go toks []

def parseExpr (s : String) : Option Expr := parseRpn (s.splitOn ",")

def parseOptExpr (s : String) : Option (Option Expr) :=
  if s = "-" then some none else (parseExpr s).map some

/-- Native int → f64 cast used by the executable spec for int/float comparisons. -/
def i2fNative (i : Int) : Nat := (Float.ofInt i).toBits.toNat

end LM.SqlProto
