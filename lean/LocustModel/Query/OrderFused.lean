import LocustModel.Query.OrderSpec
/-
  C05 — the in-band NULL sentinels the engine orders by on two of its three paths.

  `NormalFormQuery::run` sorts a nullable key with `SortByNullable` (NULL handled apart: correct), but
  the top-n path and every merge of partial results compare FUSED keys (fuse_nulls.rs): NULL becomes
  `I64_NULL = i64::MAX` in an integer key and `F64_NULL = 0x7ffaaaaaaaaaaaaa` — a NaN — in a float key, and
  `OrderedFloat` treats all NaNs as equal.  Integer keys: harmless (i64::MAX is outside the value domain).
  Float keys: a genuine NaN VALUE ties with NULL, so "NULL after every value" fails as soon as a NaN and a
  NULL meet in a merge or in top-n (known finding C05-nan-null-tie).
-/
namespace LM.OrderFused
open LM LM.Sql LM.OrderSpec

def F64_NULL_BITS : Nat := 0x7ffaaaaaaaaaaaaa

/-- FuseNullsF64: the key the engine compares. -/
def fuseFloat : Val → Nat
  | .float b => b
  | _ => F64_NULL_BITS

/-- `Comparator<OrderedFloat<f64>>::cmp_eq` of CmpLessThan / CmpGreaterThan on fused float keys. -/
def fusedFloatLe (desc : Bool) (a b : Val) : Bool :=
  if desc then decide (floatKey (fuseFloat a) ≥ floatKey (fuseFloat b))
  else decide (floatKey (fuseFloat a) ≤ floatKey (fuseFloat b))

/-- FuseNullsI64. -/
def fuseInt : Val → Int
  | .int i => i
  | _ => I64_MAX

def fusedIntLe (desc : Bool) (a b : Val) : Bool :=
  if desc then decide (fuseInt a ≥ fuseInt b) else decide (fuseInt a ≤ fuseInt b)

def isNaNVal : Val → Bool
  | .float b => floatKey b == 9223372036854775808
  | _ => false

def isFloatOrNull : Val → Bool
  | .float _ => true
  | .null => true
  | _ => false

/-- Classifier of C05-nan-null-tie: a key column (values of the rows that pass the filter) holds both a NaN and a NULL. -/
def nanAndNull (keyCol : List Val) : Bool := keyCol.any isNaNVal && keyCol.any (· == .null)

end LM.OrderFused
