import LocustModel.Query.Arith
/-
  Operator shells of src/engine/operators/binary_operator.rs, column at a time.

  Rust                                   Lean
  ------------------------------------   -----------------------------------------
  BinaryOperator::execute                uncheckedVV   (zip; `Op::perform`, dev profile: panic on overflow)
  BinaryVSOperator / BinarySVOperator    uncheckedVS / uncheckedSV
  CheckedBinaryOperator::execute         checkedVV     (zip; `any_overflow |= overflow`)
  CheckedBinaryVSOperator                checkedVS     (vector ∘ scalar)
  CheckedBinarySVOperator                checkedSV     (scalar ∘ vector)
  NullableCheckedBinaryOperator          nullableVV    (`any_overflow |= overflow && present.is_set(i)`)
  NullableCheckedBinaryVSOperator        nullableVS
  NullableCheckedBinarySVOperator        nullableSV
  CombineNullMaps::execute               combineNullMaps (`*out = l & r`, zip)
  vector_operator.rs checked_addition …  dispatch      (which shell for which operand kinds; `+`/`*` with a scalar on
                                                        the left are run as vector ∘ scalar with the operands swapped)

  The data vector of a nullable column holds an arbitrary value under a NULL slot; the shells compute on it and the
  presence bitmap masks the overflow flag.  `view` is what a reader of the nullable output sees.
-/
namespace LM.ArithShell
open LM LM.Arith

/-- `perform_checked` as the pair it returns.  `performChecked` never faults (Thm `C06_checked_total`);
    the `(0, true)` default is unreachable and only makes this function total by construction. -/
def pcT (op : Op) (l r : Int) : Int × Bool :=
  match performChecked op l r with
  | .ok x => x
  | .error _ => (0, true)

/-- `BinaryOp::perform` in the dev profile: `+ - *` panic on overflow, `/ %` panic on a zero divisor and on MIN / -1. -/
def performUnchecked (op : Op) (l r : Int) : Except Fault Int :=
  match op with
  | .add => addI64 l r
  | .sub => subI64 l r
  | .mul => mulI64 l r
  | .div => if r = 0 then .error .overflow else if inI64 (Int.tdiv l r) then .ok (Int.tdiv l r) else .error .overflow
  | .mod => if r = 0 then .error .overflow else if l = I64_MIN ∧ r = -1 then .error .overflow else .ok (Int.tmod l r)

/-- CheckedBinaryOperator::execute: `for (l, r) in lhs.iter().zip(rhs.iter())`. -/
def checkedVV (op : Op) : List Int → List Int → List Int × Bool
  | l :: ls, r :: rs =>
      let vo := pcT op l r
      let rest := checkedVV op ls rs
      (vo.1 :: rest.1, vo.2 || rest.2)
  | _, _ => ([], false)

/-- CheckedBinaryVSOperator::execute: `for &l in lhs.iter() { perform_checked(l, rhs) }`. -/
def checkedVS (op : Op) (ls : List Int) (r : Int) : List Int × Bool :=
  match ls with
  | l :: ls' =>
      let vo := pcT op l r
      let rest := checkedVS op ls' r
      (vo.1 :: rest.1, vo.2 || rest.2)
  | [] => ([], false)

/-- CheckedBinarySVOperator::execute: `for &r in rhs.iter() { perform_checked(lhs, r) }`. -/
def checkedSV (op : Op) (l : Int) (rs : List Int) : List Int × Bool :=
  match rs with
  | r :: rs' =>
      let vo := pcT op l r
      let rest := checkedSV op l rs'
      (vo.1 :: rest.1, vo.2 || rest.2)
  | [] => ([], false)

/-- NullableCheckedBinaryOperator::execute.  `present.is_set(i)` for the running index `i` is the head of the
    remaining bitmap (a bit beyond the bitmap's length reads as unset, `headD false`). -/
def nullableVV (op : Op) : List Int → List Int → List Bool → List Int × Bool
  | l :: ls, r :: rs, ps =>
      let vo := pcT op l r
      let rest := nullableVV op ls rs ps.tail
      (vo.1 :: rest.1, (vo.2 && ps.headD false) || rest.2)
  | _, _, _ => ([], false)

/-- NullableCheckedBinaryVSOperator::execute. -/
def nullableVS (op : Op) (ls : List Int) (r : Int) (ps : List Bool) : List Int × Bool :=
  match ls with
  | l :: ls' =>
      let vo := pcT op l r
      let rest := nullableVS op ls' r ps.tail
      (vo.1 :: rest.1, (vo.2 && ps.headD false) || rest.2)
  | [] => ([], false)

/-- NullableCheckedBinarySVOperator::execute. -/
def nullableSV (op : Op) (l : Int) (rs : List Int) (ps : List Bool) : List Int × Bool :=
  match rs with
  | r :: rs' =>
      let vo := pcT op l r
      let rest := nullableSV op l rs' ps.tail
      (vo.1 :: rest.1, (vo.2 && ps.headD false) || rest.2)
  | [] => ([], false)

/-- CombineNullMaps::execute (`*out = l & r` over the zipped bitmaps). -/
def combineNullMaps (l r : List Bool) : List Bool := List.zipWith (· && ·) l r

/-- CombineNullMaps::execute on ONE CHUNK of a streamed stage (code after fix `combine-null-maps-stale`): the output
    buffer (`outBits` bits, reused for every chunk) is rewritten completely; an input bitmap chunk may be shorter than
    the chunk (trailing NULLs are not materialized) and its missing bits read as unset. -/
def combineChunk (outBits : Nat) (l r : List Bool) : List Bool :=
  (List.range outBits).map fun i => l.getD i false && r.getD i false

/-- The same step as it was BEFORE the fix: only `min (len l) (len r)` leading bits are written, the rest of the reused
    buffer keeps the previous chunk's bits (`prev`). -/
def combineChunkOld (prev l r : List Bool) : List Bool :=
  List.zipWith (· && ·) l r ++ prev.drop (min l.length r.length)

/-- StreamBuffer (bitvec): chunk `k` of a bitmap for chunk size `B` (after fix `stream-short-bitmap`: empty beyond the end). -/
def chunkOf (B k : Nat) (m : List Bool) : List Bool := (m.drop (k * B)).take B

/-- BinaryOperator::execute with `Op::perform` (no overflow flag; the dev profile panics). -/
def uncheckedVV (op : Op) : List Int → List Int → Except Fault (List Int)
  | l :: ls, r :: rs =>
      match performUnchecked op l r, uncheckedVV op ls rs with
      | .ok v, .ok vs => .ok (v :: vs)
      | .error f, _ => .error f
      | _, .error f => .error f
  | _, _ => .ok []

/-- An operand buffer as the operator factory sees it. -/
inductive Operand where
  | scalar (v : Int)                                   -- ScalarI64
  | vec (data : List Int) (present : Option (List Bool))  -- I64 / NullableI64 (after `forget_nullability` + null map)
  deriving Repr

/-- What a reader of a (nullable) vector sees. -/
def view (data : List Int) (present : Option (List Bool)) : List (Option Int) :=
  match present with
  | none => data.map some
  | some ps => List.zipWith (fun d p => if p then some d else none) data ps

inductive ShellResult where
  | ok (data : List Int) (present : Option (List Bool)) (overflow : Bool)
  | fatal            -- reify_types!: "… not supported for type (ScalarI64, ScalarI64)"
  deriving Repr

/-- `combine_nulls2` (planner.rs): both nullable → CombineNullMaps, one nullable → GetNullMap of that one. -/
def combineNulls2 (pl pr : Option (List Bool)) : Option (List Bool) :=
  match pl, pr with
  | some a, some b => some (combineNullMaps a b)
  | some a, none => some a
  | none, some b => some b
  | none, none => none

/-- operator::checked_addition / nullable_checked_addition … (vector_operator.rs): shell selection.
    `commutes` = the factory swaps a left scalar to the right (`+`, `*`); `-`, `/`, `%` use the SV shell. -/
def commutes : Op → Bool
  | .add | .mul => true
  | _ => false

def dispatch (op : Op) (l r : Operand) : ShellResult :=
  match l, r with
  | .scalar _, .scalar _ => .fatal
  | .vec ls pl, .vec rs pr =>
      match combineNulls2 pl pr with
      | none => let x := checkedVV op ls rs; .ok x.1 none x.2
      | some ps => let x := nullableVV op ls rs ps; .ok x.1 (some ps) x.2
  | .vec ls pl, .scalar k =>
      match pl with
      | none => let x := checkedVS op ls k; .ok x.1 none x.2
      | some ps => let x := nullableVS op ls k ps; .ok x.1 (some ps) x.2
  | .scalar k, .vec rs pr =>
      if commutes op then
        -- `lhs: ScalarI64, rhs: IntegerNoU64 => VSOperator { lhs: rhs, rhs: lhs }`
        match pr with
        | none => let x := checkedVS op rs k; .ok x.1 none x.2
        | some ps => let x := nullableVS op rs k ps; .ok x.1 (some ps) x.2
      else
        match pr with
        | none => let x := checkedSV op k rs; .ok x.1 none x.2
        | some ps => let x := nullableSV op k rs ps; .ok x.1 (some ps) x.2

end LM.ArithShell
