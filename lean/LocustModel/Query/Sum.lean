import LocustModel.Query.Merge
/-
  SUM over integers (the second half of C06).

  Rust                                                          Lean
  -----------------------------------------------------------   -------------------------------------------
  aggregate.rs  SumI64::accumulate_checked (overflowing_add)     `ovfAdd` (Prim)
  aggregate.rs  CheckedAggregate::execute                        `aggArray` (accumulator array indexed by grouping id,
                                                                  `any_overflow |= overflow`), one slot: `accumulate`
  aggregate.rs  CheckedAggregateNullable::execute                the same on the present rows only (`presentVals`)
  query.rs      run_aggregate: compact + `fuse_nulls`            `partialSum`: a group without a non-NULL value is the
                fuse_nulls.rs FuseNullsI64                        in-band sentinel I64_NULL = i64::MAX
  merge_aggregate.rs Combinable<i64>::combine (SumI64)           `Merge.combine .sum` (sentinel coalescing, checked_add)
  query_task.rs combine_results (adjacent ranges, any order)     `PTree`: ANY bracketing of the partition list
  vec_data.rs   wrap_one on the final Vec<i64>                   `decodeOut`
  query_plan.rs prepare_aggregation: summation-preserving        same `Int` values either way: a narrow integer is summed via
                codecs sum the narrow values, others decode        `Into<i64>` into i64 accumulators (no narrow arithmetic)

  Specification: `exactSum` — the exact sum of the non-NULL cells in `Int`, NULL when there is none.
-/
namespace LM.Sum
open LM LM.Merge

/-- CheckedAggregate for one accumulator slot: `(result, overflow) = acc.overflowing_add(v); any_overflow |= overflow`. -/
def accumulate : Int × Bool → List Int → Int × Bool
  | acc, [] => acc
  | (a, o), x :: xs => accumulate ((ovfAdd a x).1, o || (ovfAdd a x).2) xs

/-- One group's accumulator from `SumI64::unit() = 0`. -/
def sumChecked (xs : List Int) : Int × Bool := accumulate (0, false) xs

/-- CheckedAggregate::execute loop: `accumulators[g] = accumulate_checked(accumulators[g], v)`. -/
def aggArray : List Int × Bool → List (Nat × Int) → List Int × Bool
  | st, [] => st
  | (accs, o), (g, x) :: rows =>
      aggArray (accs.set g (ovfAdd (accs.getD g 0) x).1, o || (ovfAdd (accs.getD g 0) x).2) rows

/-- The non-NULL cells, in row order (CheckedAggregateNullable skips rows whose presence bit is clear). -/
def presentVals (cells : List (Option Int)) : List Int := cells.filterMap id

/-- One partition's partial SUM of one group, as collected after `fuse_nulls`:
    Overflow error, the sentinel when no cell is present, else the accumulator. -/
def partialSum (cells : List (Option Int)) : Except MergeErr Int :=
  let xs := presentVals cells
  let r := sumChecked xs
  if r.2 then .error .overflow
  else if xs.isEmpty then .ok I64_MAX
  else .ok r.1

/-- How the partial results of the partitions are merged: a leaf per partition, any bracketing. -/
inductive PTree where
  | leaf (cells : List (Option Int))
  | node (l r : PTree)
  deriving Repr, Inhabited

def evalTree : PTree → Except MergeErr Int
  | .leaf cells => partialSum cells
  | .node l r =>
      match evalTree l, evalTree r with
      | .ok a, .ok b => combine .sum a b
      | .error e, _ => .error e
      | _, .error e => .error e

/-- All cells of the tree, partition after partition. -/
def cellsOf : PTree → List (Option Int)
  | .leaf cells => cells
  | .node l r => cellsOf l ++ cellsOf r

/-- Reading the final I64 column back (`wrap_one`): the sentinel is NULL. -/
def decodeOut (v : Int) : Option Int := if v = I64_MAX then none else some v

/-- Specification. -/
def exactSum (cells : List (Option Int)) : Option Int :=
  if (presentVals cells).isEmpty then none else some (presentVals cells).sum

/-- Every non-NULL cell is an i64. -/
def WfCells (cells : List (Option Int)) : Prop := ∀ a, some a ∈ cells → inI64 a

def WfTree : PTree → Prop
  | .leaf cells => WfCells cells
  | .node l r => WfTree l ∧ WfTree r

/-- No partial result (of a partition or of a merged range) is exactly i64::MAX. -/
def NoSentinel : PTree → Prop
  | .leaf cells => exactSum cells ≠ some I64_MAX
  | .node l r => NoSentinel l ∧ NoSentinel r ∧ exactSum (cellsOf l ++ cellsOf r) ≠ some I64_MAX

-- ------------------------------------------------------------------------------------------------------------
-- Executable helpers for the driver: all bracketings, grouped partial results.

/-- A bracketing of the partition list (leaves are partition indices, left to right). -/
inductive Shape where
  | leaf (i : Nat)
  | node (l r : Shape)
  deriving Repr, Inhabited

/-- Every binary bracketing of the partitions `lo, lo+1, …, lo+n-1` (Catalan many; the driver sees a handful). -/
def allShapes : (fuel : Nat) → (lo n : Nat) → List Shape
  | 0, _, _ => []
  | _, _, 0 => []
  | _, lo, 1 => [.leaf lo]
  | fuel + 1, lo, n =>
      (List.range (n - 1)).flatMap fun k =>
        (allShapes fuel lo (k + 1)).flatMap fun l =>
          (allShapes fuel (lo + k + 1) (n - k - 1)).map fun r => .node l r

/-- One group's merge tree: partitions without a row of the group contribute nothing (merge_deduplicate emits
    TakeLeft / TakeRight for them, `combine` is called only for a key present on both sides). -/
def restrict (cellsOfPart : Nat → Option (List (Option Int))) : Shape → Option PTree
  | .leaf i => (cellsOfPart i).map .leaf
  | .node l r =>
      match restrict cellsOfPart l, restrict cellsOfPart r with
      | some a, some b => some (.node a b)
      | some a, none => some a
      | none, some b => some b
      | none, none => none

/-- The idealised engine without the in-band sentinel: NULL is `none`; overflow wherever a running or merged sum
    leaves i64.  Used by the oracle to decide whether an Overflow error is justified by an intermediate sum. -/
def idealPrefix : Int → List Int → Option Int
  | a, [] => some a
  | a, x :: xs => if inI64 (a + x) then idealPrefix (a + x) xs else none

def idealLeaf (cells : List (Option Int)) : Except MergeErr (Option Int) :=
  let xs := presentVals cells
  if xs.isEmpty then .ok none
  else match idealPrefix 0 xs with
    | some v => .ok (some v)
    | none => .error .overflow

def idealTree : PTree → Except MergeErr (Option Int)
  | .leaf cells => idealLeaf cells
  | .node l r =>
      match idealTree l, idealTree r with
      | .ok none, .ok b => .ok b
      | .ok a, .ok none => .ok a
      | .ok (some a), .ok (some b) => if inI64 (a + b) then .ok (some (a + b)) else .error .overflow
      | .error e, _ => .error e
      | _, .error e => .error e

end LM.Sum
