import LocustModel.Query.ArithPlan
/-
  C06: how the partitions' cells of `SELECT <expr> FROM t` become the result that is shown
  (batch_merging.rs select branch, to_val.rs NullableToVal, data.rs get_raw / vec_data.rs wrap_one), stated on top of
  `ArithPlan.runPartition` / `runQuery`.  Shared by Thm/C06.lean (hypothesis of `C06_select_partial`) and Drv/C06.lean
  (classifier of the open finding `select-i64max-null`), so that the classifier is literally the negation of the
  theorem's hypothesis.

  Rust                                                              Lean
  ---------------------------------------------------------------   ---------------------------------------------
  a partition whose result is NullableI64 → NullableToVal:           `runPartition … = .cells cs true`; the cells are
    present slot → `cast_present` = Val::Integer (fix a145ed7),        kept as they are (also a present i64::MAX)
    absent slot → Val::Null
  a partition whose result is plain I64                              `.cells cs false`
  merge, all partitions I64: Vec<i64>.append_all                     `allNonNullable = true`
  merge, some partition Val: to_mixed (Val::Integer) + append_all    `allNonNullable = false`
  get_raw on the merged Vec<i64>: wrap_one, I64_NULL → Null          `renderI64` on every cell (row view AND, since
                                                                      634094e, column view)
-/
namespace LM.ArithPlan
open LM LM.ArithTree

/-- The cells the partitions computed, in partition order (what `C06_plan_sound` speaks about). -/
def partCells (parts : List (Nat × (Nat → Option PCol))) (e : Expr) : List (Option Int) :=
  (parts.map fun p => runPartition p.1 p.2 e).flatMap fun o => match o with | .cells cs _ => cs | _ => []

/-- The result column is a plain I64 vector (no null map) in every partition. -/
def allNonNullable (parts : List (Nat × (Nat → Option PCol))) (e : Expr) : Bool :=
  (parts.map fun p => runPartition p.1 p.2 e).all fun o => match o with | .cells _ n => !n | _ => false

/-- The region of the open finding `select-i64max-null`: the merged result column is a plain I64 vector and some
    computed cell is exactly i64::MAX (= I64_NULL, which `wrap_one` reads as NULL).  Decidable; its negation is the
    hypothesis of `C06_select_partial`. -/
def sentinelShown (parts : List (Nat × (Nat → Option PCol))) (e : Expr) : Bool :=
  allNonNullable parts e && (partCells parts e).contains (some I64_MAX)

end LM.ArithPlan
