import LocustModel.Gen.RoutingConsts
/-
  C15 model: how the columns of a partition are distributed over files and found again.

  Rust source → Lean definition
    src/scheduler/inner_locustdb.rs  subpartition            → `subpartition` (`sortCols`, `groupGo`, `lastAll`, `mkMeta`)
                                     is_filesystem_safe      → `isFilesystemSafe`
    src/disk_store/meta_store.rs     subpartitions_by_last_column (BTreeMap<String, usize>) → `byLast` (`btInsert`)
                                     PartitionMetadata::subpartition_key (lower_bound(Included(name)).peek_next())
                                                             → `route` (`lowerBound`)
    src/disk_store/storage.rs        partition_filename      → `partitionFilename`
                                     sanitize_table_name     → `sanitize`
                                     write_subpartitions / load_column → `writeSubpartitions` / `loadColumn`

  Names are lists of Unicode scalar values (Rust `char`s) as `Nat`.  Rust compares `str`s byte-wise on the UTF-8
  encoding; UTF-8 preserves code-point order, so the lexicographic order on code points used here is the same order
  (trusted fact, exercised by the harness with 1/2/3/4-byte characters).  Lengths that Rust measures in bytes are
  computed with `utf8Len`.  SHA-256 of the UTF-8 bytes of a name is the parameter `Hn`; the Unicode predicate
  `is_alphanumeric && is_lowercase` on non-ASCII characters is the parameter `U`.
  The numeric literals of the Rust code (the 64-byte bound of `is_filesystem_safe`, the 189-byte truncation of
  `sanitize_table_name`) are NOT written here: they come from `Gen/RoutingConsts.lean`, which `tools/extract.py`
  regenerates from the Rust source on every run, so the theorems are about the constants the code has now.
  Core only (no Mathlib): the driver links this file.
-/
namespace LM.Routing

abbrev Name := List Nat

/-! ### order on names (Rust `str::cmp`) -/

def nameLe : Name → Name → Bool
  | [], _ => true
  | _ :: _, [] => false
  | a :: as, b :: bs => decide (a < b) || (a == b && nameLe as bs)

/-- Rust `a < b` on `str`. -/
def nameLt (a b : Name) : Bool := nameLe a b && !(a == b)

/-! ### characters -/

/-- Length of the UTF-8 encoding of a scalar value. -/
def utf8Len (c : Nat) : Nat := if c < 0x80 then 1 else if c < 0x800 then 2 else if c < 0x10000 then 3 else 4

/-- Rust `str::len` (bytes). -/
def byteLen (n : Name) : Nat := (n.map utf8Len).sum

/-- `(c.is_alphanumeric() && c.is_lowercase()) || c == '_'`; `U` answers for non-ASCII scalars.
    For ASCII: `is_lowercase` holds exactly for `a..z` (digits are *not* lowercase, so they are not "safe"). -/
def safeChar (U : Nat → Bool) (c : Nat) : Bool :=
  if c < 128 then (decide (97 ≤ c) && decide (c ≤ 122)) || c == 95 else U c

/-- `is_filesystem_safe`. -/
def isFilesystemSafe (U : Nat → Bool) (n : Name) : Bool :=
  decide (byteLen n ≤ LM.Gen.RoutingConsts.fsSafeMaxBytes) && n.all (safeChar U)

def hexDigit (n : Nat) : Nat := if n < 10 then 48 + n else 87 + n

/-- `format!("{:x}", digest)`: two lower-case hex digits per byte. -/
def hexName (d : List UInt8) : Name :=
  d.flatMap fun b => [hexDigit (b.toNat / 16), hexDigit (b.toNat % 16)]

def allKey : Name := [97, 108, 108]   -- "all"

/-! ### subpartition -/

structure Col (α : Type) where
  name : Name
  size : Nat          -- `heap_size_of_children()`, an input of the model
  payload : α
  deriving Repr

structure SubMeta where
  key : Name
  sizeBytes : Nat
  lastColumn : Name
  deriving Repr, DecidableEq

/-- `columns.sort_by(|a, b| a.name().cmp(b.name()))` (stable). -/
def sortCols {α} (cols : List (Col α)) : List (Col α) :=
  cols.mergeSort fun a b => nameLe a.name b.name

/-- The loop of `subpartition`: `cur`/`bytes` are `acc.subpartition`/`acc.bytes`; a finished group is emitted with its
    byte count (`create_subpartition`); the final `create_subpartition` emits whatever is left (possibly nothing). -/
def groupGo {α} (max : Nat) : List (Col α) → List (Col α) → Nat → List (List (Col α) × Nat)
  | [], cur, bytes => [(cur, bytes)]
  | c :: cs, cur, bytes =>
      if bytes + c.size > max ∧ cur ≠ [] then (cur, bytes) :: groupGo max cs [c] c.size
      else groupGo max cs (cur ++ [c]) (bytes + c.size)

/-- The running `last_column` of the loop (`if column.name() > last_column { last_column = … }`, initially `""`). -/
def lastAll {α} (cols : List (Col α)) : Name :=
  cols.foldl (fun l c => if nameLt l c.name then c.name else l) []

/-- Key of a group whose last column is `last`: the name itself when filesystem safe, else hex SHA-256. -/
def keyOf (Hn : Name → List UInt8) (U : Nat → Bool) (last : Name) : Name :=
  if isFilesystemSafe U last then last else hexName (Hn last)

/-- Metadata of one group in the several-groups case (`column_names.last().unwrap()`; the group is never empty there,
    see `C15_groups_nonempty`). -/
def mkMeta {α} (Hn : Name → List UInt8) (U : Nat → Bool) (g : List (Col α) × Nat) : SubMeta :=
  let last := (g.1.map (·.name)).getLast?.getD []
  { key := keyOf Hn U last, sizeBytes := g.2, lastColumn := last }

def subpartition {α} (Hn : Name → List UInt8) (U : Nat → Bool) (max : Nat) (cols : List (Col α)) :
    List SubMeta × List (List (Col α)) :=
  let sorted := sortCols cols
  let gs := groupGo max sorted [] 0
  let metas := match gs with
    | [g] => [{ key := allKey, sizeBytes := g.2, lastColumn := lastAll sorted }]
    | _ => gs.map (mkMeta Hn U)
  (metas, gs.map (·.1))

/-! ### the catalogue's routing index -/

/-- `BTreeMap::insert` on a map kept as a key-sorted association list. -/
def btInsert (m : List (Name × Nat)) (k : Name) (v : Nat) : List (Name × Nat) :=
  match m with
  | [] => [(k, v)]
  | (k', v') :: rest =>
      if k == k' then (k, v) :: rest
      else if nameLe k k' then (k, v) :: (k', v') :: rest
      else (k', v') :: btInsert rest k v

/-- `for (i, sp) in metadata.iter().enumerate() { map.insert(sp.last_column.clone(), i) }`. -/
def byLastFrom (acc : List (Name × Nat)) (metas : List SubMeta) (start : Nat) : List (Name × Nat) :=
  match metas with
  | [] => acc
  | s :: rest => byLastFrom (btInsert acc s.lastColumn start) rest (start + 1)

def byLast (metas : List SubMeta) : List (Name × Nat) := byLastFrom [] metas 0

/-- `lower_bound(Bound::Included(name)).peek_next()`: first entry whose key is ≥ `name`. -/
def lowerBound (m : List (Name × Nat)) (name : Name) : Option (Name × Nat) :=
  m.find? fun e => nameLe name e.1

/-- `PartitionMetadata::subpartition_key`. -/
def route (metas : List SubMeta) (name : Name) : Option Name :=
  (lowerBound (byLast metas) name).bind fun e => (metas[e.2]?).map (·.key)

/-! ### file names -/

/-- Decimal digits of `n`, most significant first. -/
def decDigits (n : Nat) : List Nat :=
  if n < 10 then [48 + n] else decDigits (n / 10) ++ [48 + n % 10]
decreasing_by omega

def pad5 (ds : List Nat) : List Nat := List.replicate (5 - ds.length) 48 ++ ds

def partSuffix : Name := [46, 112, 97, 114, 116]   -- ".part"

/-- `format!("{:05}_{}.part", id, subpartition_key)`. -/
def partitionFilename (id : Nat) (key : Name) : Name :=
  pad5 (decDigits id) ++ [95] ++ key ++ partSuffix

/-- What `to_lowercase()` followed by `retain(is_ascii_alphanumeric | '_' | '-' | '.')` leaves of one character.
    Besides ASCII, exactly two scalars lower-case to something containing a retained character:
    U+212A KELVIN SIGN → `k`, U+0130 → `i` + U+0307 (checked against Rust's tables over all scalars by the harness). -/
def lowerRetain (c : Nat) : List Nat :=
  if 65 ≤ c ∧ c ≤ 90 then [c + 32]
  else if (97 ≤ c ∧ c ≤ 122) ∨ (48 ≤ c ∧ c ≤ 57) ∨ c = 95 ∨ c = 45 ∨ c = 46 then [c]
  else if c = 0x212A then [107]
  else if c = 0x130 then [105]
  else []

/-- `trim_start_matches(['-', '.'])`. -/
def trimStart : Name → Name
  | [] => []
  | c :: cs => if c = 45 ∨ c = 46 then trimStart cs else c :: cs

/-- `if name.len() > 189 { name = name[..189].to_string() }` with the two literals taken from the source
    (the name is pure ASCII at this point, so bytes = characters). -/
def truncName (n : Name) : Name :=
  if n.length > LM.Gen.RoutingConsts.tableNameTruncAbove then n.take LM.Gen.RoutingConsts.tableNameTruncTo else n

/-- The cleaned name before the "was it modified" test. -/
def cleanName (t : Name) : Name := truncName (trimStart (t.flatMap lowerRetain))

/-- `sanitize_table_name` (`if name != table_name || name.is_empty()`: since fix b1e0b04 the empty table name gets
    the hash form as well). -/
def sanitize (Hn : Name → List UInt8) (t : Name) : Name :=
  let name := cleanName t
  if name ≠ t ∨ name = [] then [45] ++ name ++ [45] ++ hexName (Hn t) else name

/-! ### writing and reading a partition's files -/

/-- A directory: file name ↦ columns of the file (latest write wins). -/
abbrev Files (α : Type) := List (Name × List (Col α))

def store {α} (fs : Files α) (path : Name) (data : List (Col α)) : Files α :=
  (path, data) :: fs.filter (fun e => !(e.1 == path))

def load {α} (fs : Files α) (path : Name) : Option (List (Col α)) :=
  (fs.find? (fun e => e.1 == path)).map (·.2)

/-- `Storage::write_subpartitions` for one partition (`zip` of metadata and groups). -/
def writeSubpartitions {α} (fs : Files α) (id : Nat) : List SubMeta → List (List (Col α)) → Files α
  | m :: ms, g :: gs => writeSubpartitions (store fs (partitionFilename id m.key) g) id ms gs
  | _, _ => fs

/-- `Storage::load_column` followed by the selection by name in `DiskReadScheduler::get_or_load`:
    `none` = the column is absent (no route, or the routed file does not contain it). -/
def loadColumn {α} (fs : Files α) (id : Nat) (metas : List SubMeta) (name : Name) : Option (Col α) :=
  match route metas name with
  | none => none
  | some key =>
      match load fs (partitionFilename id key) with
      | none => none          -- the Rust `unwrap()`s here; unreachable for files written by `writeSubpartitions`
      | some cols => cols.find? (fun c => c.name == name)

end LM.Routing
