/-
  C14 model, part 2a: the enumerations shared by the hand-written segment model and the generated tables.
    src/engine/data_types/types.rs  EncodingType                       → `Enc`  (Rust variant names; `ByteSlices(_)` → `ByteSlices`)
    locustdb-serialization/schemas/partition_segment.capnp EncodingType → `CapEnc` (+ ordinals)
    src/mem_store/codec.rs CodecOp (tags)                               → `OpTag`
    partition_segment.capnp CodecOp union members                       → `CapOpTag`
    src/mem_store/column.rs DataSection (tags)                          → `SecTag`
    partition_segment.capnp DataSection union members                   → `CapSecTag`
  Core only.
-/
namespace LM.Segment

inductive Enc where
  | Str | I64 | U8 | U16 | U32 | U64 | F64 | Val | USize | Bitvec
  | NullableStr | NullableI64 | NullableU8 | NullableU16 | NullableU32 | NullableU64 | NullableF64
  | OptStr | Null | ScalarI64 | ScalarF64 | ScalarStr | ScalarString | ConstVal | ByteSlices | ValRows | Premerge | MergeOp
  deriving DecidableEq, Repr, Inhabited

inductive CapEnc where
  | U8 | U16 | U32 | U64 | I64 | Null | F64 | Bitvec
  deriving DecidableEq, Repr, Inhabited

/-- Ordinals of `enum EncodingType` in partition_segment.capnp (what is actually stored). -/
def CapEnc.ordinal : CapEnc → Nat
  | .U8 => 0 | .U16 => 1 | .U32 => 2 | .U64 => 3 | .I64 => 4 | .Null => 5 | .F64 => 6 | .Bitvec => 7

inductive OpTag where
  | Nullable | Add | Delta | ToI64 | PushDataSection | DictLookup | LZ4 | Pco | UnpackStrings | UnhexpackStrings | Unknown
  deriving DecidableEq, Repr, Inhabited

/-- Union members of `struct CodecOp` (capnp-rust `Which` names). -/
inductive CapOpTag where
  | Add | Delta | ToI64 | PushDataSection | DictLookup | Lz4 | UnpackStrings | UnhexpackStrings | Nullable | Pco
  deriving DecidableEq, Repr, Inhabited

inductive SecTag where
  | U8 | U16 | U32 | U64 | I64 | F64 | Null | Bitvec | LZ4 | Pco
  deriving DecidableEq, Repr, Inhabited

/-- Union members of `struct DataSection`. -/
inductive CapSecTag where
  | U8 | U16 | U32 | U64 | I64 | Null | F64 | Bitvec | Lz4 | Pco
  deriving DecidableEq, Repr, Inhabited

end LM.Segment
