/-
  C14 model, part 2a: the enumerations shared by the hand-written segment model and the generated tables.
    src/engine/data_types/types.rs  EncodingType                       → `Enc`  (Rust variant names; `ByteSlices(_)` → `ByteSlices`)
    locustdb-serialization/schemas/partition_segment.capnp EncodingType → `CapEnc` (+ ordinals)
    src/mem_store/codec.rs CodecOp (tags)                               → `OpTag`
    partition_segment.capnp CodecOp union members                       → `CapOpTag`
    src/mem_store/column.rs DataSection (tags)                          → `SecTag`
    partition_segment.capnp DataSection union members                   → `CapSecTag`
  Core only.
-/
namespace LM.Segment

inductive Enc where
  | Str | I64 | U8 | U16 | U32 | U64 | F64 | Val | USize | Bitvec
  | NullableStr | NullableI64 | NullableU8 | NullableU16 | NullableU32 | NullableU64 | NullableF64
  | OptStr | Null | ScalarI64 | ScalarF64 | ScalarStr | ScalarString | ConstVal | ByteSlices | ValRows | Premerge | MergeOp
  deriving DecidableEq, Repr, Inhabited

inductive CapEnc where
  | U8 | U16 | U32 | U64 | I64 | Null | F64 | Bitvec
  deriving DecidableEq, Repr, Inhabited

/-- Ordinals of `enum EncodingType` in partition_segment.capnp (what is actually stored). -/
def CapEnc.ordinal : CapEnc → Nat
  | .U8 => 0 | .U16 => 1 | .U32 => 2 | .U64 => 3 | .I64 => 4 | .Null => 5 | .F64 => 6 | .Bitvec => 7

inductive OpTag where
  | Nullable | Add | Delta | ToI64 | PushDataSection | DictLookup | LZ4 | Pco | UnpackStrings | UnhexpackStrings | Unknown
  deriving DecidableEq, Repr, Inhabited

/-- Union members of `struct CodecOp` (capnp-rust `Which` names). -/
inductive CapOpTag where
  | Add | Delta | ToI64 | PushDataSection | DictLookup | Lz4 | UnpackStrings | UnhexpackStrings | Nullable | Pco
  deriving DecidableEq, Repr, Inhabited

inductive SecTag where
  | U8 | U16 | U32 | U64 | I64 | F64 | Null | Bitvec | LZ4 | Pco
  deriving DecidableEq, Repr, Inhabited

/-- Union members of `struct DataSection`. -/
inductive CapSecTag where
  | U8 | U16 | U32 | U64 | I64 | Null | F64 | Bitvec | Lz4 | Pco
  deriving DecidableEq, Repr, Inhabited

/-- `event_buffer::ColumnData` (tags). -/
inductive ColTag where
  | Empty | Dense | Sparse | I64 | SparseI64 | String | Mixed
  deriving DecidableEq, Repr, Inhabited

/-- Union members of `Column.data` in wal_segment.capnp. -/
inductive CapColTag where
  | F64 | SparseF64 | I64 | String | Empty | SparseI64 | Mixed
  deriving DecidableEq, Repr, Inhabited

/-- `api::AnyVal` (tags). -/
inductive AnyTag where
  | Int | Float | Str | Null
  deriving DecidableEq, Repr, Inhabited

/-- Union members of `AnyVal.value` in wal_segment.capnp. -/
inductive CapAnyTag where
  | F64 | I64 | String | Null
  deriving DecidableEq, Repr, Inhabited

/-! Names under which the schema files declare these members, in declaration order (compared with the regenerated
    `Gen/SchemaTables.lean` by `C14_schema_matches_model`). -/

def CapEnc.all : List CapEnc := [.U8, .U16, .U32, .U64, .I64, .Null, .F64, .Bitvec]
def CapEnc.schemaEntry : CapEnc → String × String
  | .U8 => ("u8", "0") | .U16 => ("u16", "1") | .U32 => ("u32", "2") | .U64 => ("u64", "3") | .I64 => ("i64", "4")
  | .Null => ("null", "5") | .F64 => ("f64", "6") | .Bitvec => ("bitvec", "7")

def CapOpTag.all : List CapOpTag :=
  [.Add, .Delta, .ToI64, .PushDataSection, .DictLookup, .Lz4, .UnpackStrings, .UnhexpackStrings, .Nullable, .Pco]
def CapOpTag.member : CapOpTag → String
  | .Add => "add" | .Delta => "delta" | .ToI64 => "toI64" | .PushDataSection => "pushDataSection" | .DictLookup => "dictLookup"
  | .Lz4 => "lz4" | .UnpackStrings => "unpackStrings" | .UnhexpackStrings => "unhexpackStrings" | .Nullable => "nullable" | .Pco => "pco"

def CapSecTag.all : List CapSecTag := [.U8, .U16, .U32, .U64, .I64, .Null, .F64, .Bitvec, .Lz4, .Pco]
def CapSecTag.member : CapSecTag → String
  | .U8 => "u8" | .U16 => "u16" | .U32 => "u32" | .U64 => "u64" | .I64 => "i64" | .Null => "null" | .F64 => "f64"
  | .Bitvec => "bitvec" | .Lz4 => "lz4" | .Pco => "pco"

def CapColTag.all : List CapColTag := [.F64, .SparseF64, .I64, .String, .Empty, .SparseI64, .Mixed]
def CapColTag.member : CapColTag → _root_.String
  | .F64 => "f64" | .SparseF64 => "sparseF64" | .I64 => "i64" | .String => "string" | .Empty => "empty"
  | .SparseI64 => "sparseI64" | .Mixed => "mixed"

def CapAnyTag.all : List CapAnyTag := [.F64, .I64, .String, .Null]
def CapAnyTag.member : CapAnyTag → _root_.String
  | .F64 => "f64" | .I64 => "i64" | .String => "string" | .Null => "null"

end LM.Segment
