import LocustModel.Prim
import LocustModel.Disk.Routing
import LocustModel.Disk.SegmentTypes
import LocustModel.Gen.SegmentTables
/-
  C14 model, part 2: the three stored object kinds as functions to and from *message trees*
  (the capnp schemas as Lean inductive types; capnp's packed encoding is assumed to be the identity on trees).

    src/disk_store/partition_segment.rs  PartitionSegment::serialize / deserialize → `serSegment` / `deserSegment`
    src/disk_store/wal_segment.rs + locustdb-serialization/src/event_buffer.rs
        WalSegment::serialize / deserialize, EventBuffer::serialize_builder / deserialize_reader → `serWal` / `deserWal`
    src/disk_store/meta_store.rs  MetaStore::serialize / deserialize → `serMeta` / `deserMeta`, `normaliseMeta`

  Strings are `Name`s (lists of scalar values), floats are their 64-bit patterns, integers are unbounded `Int`/`Nat`
  (the `as u64` / `as usize` casts are identities on a 64-bit target, which is assumed).
  The type/variant correspondences come from `Gen/SegmentTables.lean` (regenerated from the Rust source on every run).
  Core only.
-/
namespace LM.Segment
open LM LM.Routing LM.Gen.SegmentTables

/-! ### partition segments -/

/-- `mem_store::codec::CodecOp`. -/
inductive CodecOp where
  | nullable
  | add (t : Enc) (amount : Int)
  | delta (t : Enc)
  | toI64 (t : Enc)
  | pushDataSection (n : Nat)
  | dictLookup (t : Enc)
  | lz4 (t : Enc) (decodedLen : Nat)
  | pco (t : Enc) (decodedLen : Nat) (isFp32 : Bool)
  | unpackStrings
  | unhexpackStrings (uppercase : Bool) (totalBytes : Nat)
  | unknown
  deriving DecidableEq, Repr, Inhabited

def CodecOp.tag : CodecOp → OpTag
  | .nullable => .Nullable | .add .. => .Add | .delta _ => .Delta | .toI64 _ => .ToI64
  | .pushDataSection _ => .PushDataSection | .dictLookup _ => .DictLookup | .lz4 .. => .LZ4 | .pco .. => .Pco
  | .unpackStrings => .UnpackStrings | .unhexpackStrings .. => .UnhexpackStrings | .unknown => .Unknown

/-- `mem_store::column::DataSection` (element values as numbers; `f64` as bit patterns). -/
inductive DataSection where
  | u8 (xs : List Nat) | u16 (xs : List Nat) | u32 (xs : List Nat) | u64 (xs : List Nat)
  | i64 (xs : List Int) | f64 (bits : List Nat) | null (count : Nat) | bitvec (xs : List Nat)
  | lz4 (decodedBytes bytesPerElement : Nat) (data : List Nat)
  | pco (decodedBytes bytesPerElement : Nat) (data : List Nat) (isFp32 : Bool)
  deriving DecidableEq, Repr, Inhabited

def DataSection.tag : DataSection → SecTag
  | .u8 _ => .U8 | .u16 _ => .U16 | .u32 _ => .U32 | .u64 _ => .U64 | .i64 _ => .I64 | .f64 _ => .F64
  | .null _ => .Null | .bitvec _ => .Bitvec | .lz4 .. => .LZ4 | .pco .. => .Pco

/-- `DataSection::encoding_type`. -/
def DataSection.encodingType : DataSection → Enc
  | .u8 _ => .U8 | .u16 _ => .U16 | .u32 _ => .U32 | .u64 _ => .U64 | .i64 _ => .I64 | .f64 _ => .F64
  | .null _ => .Null | .bitvec _ => .Bitvec | .lz4 .. => .U8 | .pco .. => .U8

/-- The stored part of `mem_store::column::Column` (the codec's derived fields are recomputed by `Column::new`). -/
structure Column where
  name : Name
  len : Nat
  range : Option (Int × Int)
  codec : List CodecOp
  data : List DataSection
  deriving DecidableEq, Repr, Inhabited

/-- capnp `CodecOp`. -/
inductive CapOp where
  | add (t : CapEnc) (amount : Int)
  | delta (t : CapEnc)
  | toI64 (t : CapEnc)
  | pushDataSection (n : Nat)
  | dictLookup (t : CapEnc)
  | lz4 (t : CapEnc) (lenDecoded : Nat)
  | unpackStrings
  | unhexpackStrings (uppercase : Bool) (totalBytes : Nat)
  | nullable
  | pco (t : CapEnc) (lenDecoded : Nat) (isFp32 : Bool)
  deriving DecidableEq, Repr, Inhabited

def CapOp.tag : CapOp → CapOpTag
  | .add .. => .Add | .delta _ => .Delta | .toI64 _ => .ToI64 | .pushDataSection _ => .PushDataSection
  | .dictLookup _ => .DictLookup | .lz4 .. => .Lz4 | .unpackStrings => .UnpackStrings
  | .unhexpackStrings .. => .UnhexpackStrings | .nullable => .Nullable | .pco .. => .Pco

/-- capnp `DataSection`. -/
inductive CapSection where
  | u8 (xs : List Nat) | u16 (xs : List Nat) | u32 (xs : List Nat) | u64 (xs : List Nat)
  | i64 (xs : List Int) | null (count : Nat) | f64 (bits : List Nat) | bitvec (xs : List Nat)
  | lz4 (decodedBytes bytesPerElement : Nat) (data : List Nat)
  | pco (decodedBytes bytesPerElement : Nat) (data : List Nat) (isFp32 : Bool)
  deriving DecidableEq, Repr, Inhabited

def CapSection.tag : CapSection → CapSecTag
  | .u8 _ => .U8 | .u16 _ => .U16 | .u32 _ => .U32 | .u64 _ => .U64 | .i64 _ => .I64 | .null _ => .Null
  | .f64 _ => .F64 | .bitvec _ => .Bitvec | .lz4 .. => .Lz4 | .pco .. => .Pco

inductive CapRange where
  | range (start stop : Int)
  | empty
  deriving DecidableEq, Repr, Inhabited

/-- capnp `Column` of partition_segment.capnp. -/
structure CapColumn where
  name : Name
  len : Nat
  range : CapRange
  codec : List CapOp
  data : List CapSection
  deriving DecidableEq, Repr, Inhabited

/-- `encoding_type_to_capnp` with its panic arm. -/
def encToCap (t : Enc) : Except Fault CapEnc :=
  match encodingTypeToCapnp t with
  | some c => .ok c
  | none => .error .unreachable

/-- The `match op` of `serialize` (fields copied arm by arm). -/
def serOp : CodecOp → Except Fault CapOp
  | .nullable => .ok .nullable
  | .add t amount => do let c ← encToCap t; pure (.add c amount)
  | .delta t => do let c ← encToCap t; pure (.delta c)
  | .toI64 t => do let c ← encToCap t; pure (.toI64 c)
  | .pushDataSection n => .ok (.pushDataSection n)
  | .dictLookup t => do let c ← encToCap t; pure (.dictLookup c)
  | .lz4 t n => do let c ← encToCap t; pure (.lz4 c n)
  | .pco t n b => do let c ← encToCap t; pure (.pco c n b)
  | .unpackStrings => .ok .unpackStrings
  | .unhexpackStrings u n => .ok (.unhexpackStrings u n)
  | .unknown => .error .unreachable     -- panic!("Trying to serialize CodecOp::Unkown")

/-- The `match section` of `serialize`. -/
def serSection : DataSection → CapSection
  | .u8 xs => .u8 xs | .u16 xs => .u16 xs | .u32 xs => .u32 xs | .u64 xs => .u64 xs | .i64 xs => .i64 xs
  | .f64 bits => .f64 bits | .null n => .null n | .bitvec xs => .bitvec xs
  | .lz4 d b data => .lz4 d b data | .pco d b data fp => .pco d b data fp

def serRange : Option (Int × Int) → CapRange
  | none => .empty
  | some (s, e) => .range s e

def deserRange : CapRange → Option (Int × Int)
  | .empty => none
  | .range s e => some (s, e)

def serColumn (c : Column) : Except Fault CapColumn := do
  let codec ← c.codec.mapM serOp
  pure { name := c.name, len := c.len, range := serRange c.range, codec := codec, data := c.data.map serSection }

/-- `PartitionSegment::serialize` (up to capnp packing). -/
def serSegment (cols : List Column) : Except Fault (List CapColumn) := cols.mapM serColumn

/-- The `match op.which()` of `deserialize`. -/
def deserOp : CapOp → CodecOp
  | .nullable => .nullable
  | .add t amount => .add (deserializeType t) amount
  | .delta t => .delta (deserializeType t)
  | .toI64 t => .toI64 (deserializeType t)
  | .pushDataSection n => .pushDataSection n
  | .dictLookup t => .dictLookup (deserializeType t)
  | .lz4 t n => .lz4 (deserializeType t) n
  | .pco t n b => .pco (deserializeType t) n b
  | .unpackStrings => .unpackStrings
  | .unhexpackStrings u n => .unhexpackStrings u n

/-- The `match d.which()` of `deserialize`. -/
def deserSection : CapSection → DataSection
  | .u8 xs => .u8 xs | .u16 xs => .u16 xs | .u32 xs => .u32 xs | .u64 xs => .u64 xs | .i64 xs => .i64 xs
  | .f64 bits => .f64 bits | .null n => .null n | .bitvec xs => .bitvec xs
  | .lz4 d b data => .lz4 d b data | .pco d b data fp => .pco d b data fp

/-- `cast_to_basic` is defined only on these encodings (it panics on the others). -/
def castToBasicOk : Enc → Bool
  | .Str | .I64 | .F64 | .NullableStr | .OptStr | .NullableI64 | .NullableF64 | .Val | .Null => true
  | _ => false

/-- `EncodingType::is_nullable`. -/
def Enc.isNullable : Enc → Bool
  | .NullableStr | .NullableI64 | .NullableU8 | .NullableU16 | .NullableU32 | .NullableU64 | .NullableF64 => true
  | _ => false

/-- `EncodingType::nullable` (panics on the types that have no nullable version). -/
def Enc.nullable : Enc → Except Fault Enc
  | .Str | .NullableStr => .ok .NullableStr
  | .I64 | .NullableI64 => .ok .NullableI64
  | .U8 | .NullableU8 => .ok .NullableU8
  | .U16 | .NullableU16 => .ok .NullableU16
  | .U32 | .NullableU32 => .ok .NullableU32
  | .U64 | .NullableU64 => .ok .NullableU64
  | .F64 | .NullableF64 => .ok .NullableF64
  | .Val => .ok .Val
  | .OptStr => .ok .OptStr
  | _ => .error .unreachable

/-- One iteration of the loop in `CodecOp::output_type`; the `Vec` used as a stack is a list with its top at the head.
    `type_stack.pop()` without `unwrap` tolerates an empty stack. -/
def outputTypeStep (secTypes : List Enc) (stack : List Enc) : CodecOp → Except Fault (List Enc)
  | .nullable =>
      match stack.drop 1 with
      | [] => .error .unwrap
      | t :: rest => do let n ← t.nullable; pure (n :: rest)
  | .add .. | .delta _ | .toI64 _ =>
      match stack with
      | [] => .error .unwrap
      | t :: rest => .ok ((if t.isNullable then Enc.NullableI64 else Enc.I64) :: rest)
  | .dictLookup _ =>
      match stack.drop 2 with
      | [] => .error .unwrap
      | t :: rest => .ok ((if t.isNullable then Enc.NullableStr else Enc.Str) :: rest)
  | .lz4 t _ => .ok (t :: stack)
  | .pco t _ _ => .ok (t :: stack)
  | .unpackStrings => .ok (.Str :: stack)
  | .unhexpackStrings .. => .ok (.Str :: stack)
  | .pushDataSection i =>
      match secTypes[i]? with
      | some t => .ok (t :: stack)
      | none => .error .index
  | .unknown => .error .unreachable

def outputTypeLoop (secTypes : List Enc) : List CodecOp → List Enc → Except Fault (List Enc)
  | [], stack => .ok stack
  | op :: ops, stack => do let st ← outputTypeStep secTypes stack op; outputTypeLoop secTypes ops st

/-- `CodecOp::output_type` as far as it can panic: `section_types[0]`, the pops, `section_types[i]`, `nullable()`,
    `cast_to_basic()` of the final stack top.  Returns the final encoding type. -/
def outputType (ops : List CodecOp) (secTypes : List Enc) : Except Fault Enc :=
  match secTypes with
  | [] => .error .index
  | t0 :: _ => do
      let st ← outputTypeLoop secTypes ops [t0]
      match st with
      | [] => .error .unwrap
      | t :: _ => if castToBasicOk t then .ok t else .error .unreachable

/-- `Column::new`: with an empty codec it needs `data[0]` and a basic type for it (`Codec::identity`); otherwise
    `Codec::new` runs `output_type` over the ops and the section types.  The stored fields are kept as given. -/
def columnNew (col : Column) : Except Fault Column :=
  if col.codec.isEmpty then
    match col.data with
    | [] => .error .index                                   -- data[0]
    | d :: _ => if castToBasicOk d.encodingType then .ok col else .error .unreachable
  else do
    let _ ← outputType col.codec (col.data.map (·.encodingType))
    pure col

/-- The argument list `deserialize` hands to `Column::new`. -/
def rawColumn (c : CapColumn) : Column :=
  { name := c.name, len := c.len, range := deserRange c.range, codec := c.codec.map deserOp, data := c.data.map deserSection }

def deserColumn (c : CapColumn) : Except Fault Column := columnNew (rawColumn c)

/-- `PartitionSegment::deserialize` (up to capnp packing). -/
def deserSegment (cols : List CapColumn) : Except Fault (List Column) := cols.mapM deserColumn

/-- Columns that `serialize` accepts and that exist at all: no `Unknown` op and only storable encodings in the ops, and
    `Column::new` does not panic on the stored fields (every column value of the running program was produced by
    `Column::new`, `Column::null` or `Codec::new` via `with_lz4` / `with_pco`, all of which run the same `output_type`). -/
def Storable (c : Column) : Prop :=
  (∀ op ∈ c.codec, (serOp op).isOk = true) ∧ columnNew c = .ok c

/-! ### log segments -/

inductive AnyVal where
  | int (i : Int) | float (bits : Nat) | str (s : Name) | null
  deriving DecidableEq, Repr, Inhabited

/-- `event_buffer::ColumnData`. -/
inductive ColumnData where
  | empty
  | dense (bits : List Nat)
  | sparse (xs : List (Nat × Nat))
  | i64 (xs : List Int)
  | sparseI64 (xs : List (Nat × Int))
  | string (xs : List Name)
  | mixed (xs : List AnyVal)
  deriving DecidableEq, Repr, Inhabited

/-- `TableBuffer` — the `HashMap<String, ColumnBuffer>` as an association list in iteration order. -/
structure TableBuffer where
  len : Nat
  columns : List (Name × ColumnData)
  deriving DecidableEq, Repr, Inhabited

structure WalSegment where
  id : Nat
  tables : List (Name × TableBuffer)
  deriving DecidableEq, Repr, Inhabited

/-- capnp `Column.data` union of wal_segment.capnp. -/
inductive CapColData where
  | f64 (bits : List Nat)
  | sparseF64 (indices : List Nat) (values : List Nat)
  | i64 (xs : List Int)
  | string (xs : List Name)
  | empty
  | sparseI64 (indices : List Nat) (values : List Int)
  | mixed (xs : List AnyVal)           -- capnp AnyVal has the same four members
  deriving DecidableEq, Repr, Inhabited

structure CapTableSegment where
  name : Name
  len : Nat
  columns : List (Name × CapColData)
  deriving DecidableEq, Repr, Inhabited

structure CapWal where
  id : Nat
  data : List CapTableSegment
  deriving DecidableEq, Repr, Inhabited

def AnyVal.tag : AnyVal → AnyTag
  | .int _ => .Int | .float _ => .Float | .str _ => .Str | .null => .Null

def ColumnData.tag : ColumnData → ColTag
  | .empty => .Empty | .dense _ => .Dense | .sparse _ => .Sparse | .i64 _ => .I64 | .sparseI64 _ => .SparseI64
  | .string _ => .String | .mixed _ => .Mixed

def CapColData.tag : CapColData → CapColTag
  | .f64 _ => .F64 | .sparseF64 .. => .SparseF64 | .i64 _ => .I64 | .string _ => .String | .empty => .Empty
  | .sparseI64 .. => .SparseI64 | .mixed _ => .Mixed

def serColData : ColumnData → CapColData
  | .empty => .empty
  | .dense bits => .f64 bits
  | .sparse xs => .sparseF64 (xs.map (·.1)) (xs.map (·.2))      -- `unzip`
  | .i64 xs => .i64 xs
  | .sparseI64 xs => .sparseI64 (xs.map (·.1)) (xs.map (·.2))
  | .string xs => .string xs
  | .mixed xs => .mixed xs

def deserColData : CapColData → ColumnData
  | .empty => .empty
  | .f64 bits => .dense bits
  | .sparseF64 is vs => .sparse (is.zip vs)                     -- `indices.iter().zip(values.iter())`
  | .i64 xs => .i64 xs
  | .sparseI64 is vs => .sparseI64 (is.zip vs)
  | .string xs => .string xs
  | .mixed xs => .mixed xs

/-- `HashMap::insert`: replace the value of an existing key, else add the entry. -/
def mapInsert {β} (m : List (Name × β)) (k : Name) (v : β) : List (Name × β) :=
  match m with
  | [] => [(k, v)]
  | (k', v') :: rest => if k' = k then (k, v) :: rest else (k', v') :: mapInsert rest k v

def mapOfList {β} (xs : List (Name × β)) : List (Name × β) :=
  xs.foldl (fun m e => mapInsert m e.1 e.2) []

def serTable (name : Name) (t : TableBuffer) : CapTableSegment :=
  { name := name, len := t.len, columns := t.columns.map fun (n, d) => (n, serColData d) }

def deserTable (t : CapTableSegment) : Name × TableBuffer :=
  (t.name, { len := t.len, columns := mapOfList (t.columns.map fun (n, d) => (n, deserColData d)) })

/-- `WalSegment::serialize` (up to capnp packing). -/
def serWal (w : WalSegment) : CapWal :=
  { id := w.id, data := w.tables.map fun (n, t) => serTable n t }

/-- `WalSegment::deserialize` (up to capnp packing). -/
def deserWal (c : CapWal) : WalSegment :=
  { id := c.id, tables := mapOfList (c.data.map deserTable) }

/-- `EventBuffer::serialize_builder` / `deserialize_reader` on their own (the bare `TableSegmentList` message that
    clients send and `EventBuffer::serialize` / `deserialize` use). -/
def serEventBuffer (tables : List (Name × TableBuffer)) : List CapTableSegment := tables.map fun (n, t) => serTable n t

def deserEventBuffer (data : List CapTableSegment) : List (Name × TableBuffer) := mapOfList (data.map deserTable)

/-- Wire column data whose sparse forms carry as many indices as values (what every writer produces). -/
def CapColData.Balanced : CapColData → Prop
  | .sparseF64 is vs => is.length = vs.length
  | .sparseI64 is vs => is.length = vs.length
  | _ => True

def keysNodup {β} (m : List (Name × β)) : Prop := (m.map (·.1)).Nodup

/-- A well-formed in-memory log segment: the two hash maps have pairwise distinct keys. -/
def WalWf (w : WalSegment) : Prop :=
  keysNodup w.tables ∧ ∀ e ∈ w.tables, keysNodup e.2.columns

/-! ### catalogue -/

structure SubpartitionMetadata where
  sizeBytes : Nat
  key : Name
  lastColumn : Name
  loaded : Bool
  deriving DecidableEq, Repr, Inhabited

structure PartitionMetadata where
  id : Nat
  tablename : Name
  offset : Nat
  len : Nat
  subpartitions : List SubpartitionMetadata
  byLast : List (Name × Nat)          -- `subpartitions_by_last_column`, key-sorted
  deriving DecidableEq, Repr, Inhabited

/-- `MetaStore`: the nested `HashMap<table, HashMap<id, PartitionMetadata>>` flattened, in iteration order. -/
structure MetaStore where
  nextWalId : Nat
  earliestUnflushedWalId : Nat
  partitions : List PartitionMetadata
  deriving DecidableEq, Repr, Inhabited

structure CapSub where
  sizeBytes : Nat
  subpartitionKey : Name
  lastColumn : Name
  deriving DecidableEq, Repr, Inhabited

structure CapPart where
  id : Nat
  tablename : Name
  offset : Nat
  len : Nat
  subpartitions : List CapSub
  deriving DecidableEq, Repr, Inhabited

/-- capnp `DBMeta` as written today (the deprecated v0–v2 fields are left at their empty defaults by the writer and
    are no-ops for the reader when empty; they are not part of the model). -/
structure CapMeta where
  nextWalId : Nat
  partitions : List CapPart
  deriving DecidableEq, Repr, Inhabited

/-- `MetaStore::serialize`: note `set_next_wal_id(self.earliest_unflushed_wal_id)`. -/
def serPart (p : PartitionMetadata) : CapPart :=
  { id := p.id, tablename := p.tablename, offset := p.offset, len := p.len,
    subpartitions := p.subpartitions.map fun s =>
      { sizeBytes := s.sizeBytes, subpartitionKey := s.key, lastColumn := s.lastColumn } }

def serMeta (m : MetaStore) : CapMeta :=
  { nextWalId := m.earliestUnflushedWalId, partitions := m.partitions.map serPart }

/-- The index as both construction sites build it: `insert(last_column, i)` in order. -/
def buildByLast (subs : List SubpartitionMetadata) : List (Name × Nat) :=
  (subs.zipIdx).foldl (fun m p => btInsert m p.1.lastColumn p.2) []

def deserPart (p : CapPart) : PartitionMetadata :=
  let subs := p.subpartitions.map fun s =>
    ({ sizeBytes := s.sizeBytes, key := s.subpartitionKey, lastColumn := s.lastColumn, loaded := false } : SubpartitionMetadata)
  { id := p.id, tablename := p.tablename, offset := p.offset, len := p.len, subpartitions := subs,
    byLast := buildByLast subs }

/-- Insert into the nested hash map: a partition with the same (table, id) is replaced. -/
def partInsert (m : List PartitionMetadata) (p : PartitionMetadata) : List PartitionMetadata :=
  match m with
  | [] => [p]
  | q :: rest => if q.tablename = p.tablename ∧ q.id = p.id then p :: rest else q :: partInsert rest p

/-- `MetaStore::deserialize`: both cursors are set from the stored `nextWalId`. -/
def deserMeta (c : CapMeta) : MetaStore :=
  { nextWalId := c.nextWalId, earliestUnflushedWalId := c.nextWalId,
    partitions := (c.partitions.map deserPart).foldl partInsert [] }

/-- What a catalogue is after a round trip: the WAL cursor collapses onto `earliest_unflushed_wal_id`, every
    `loaded` flag is reset, the index is rebuilt from the `last_column`s. -/
def resetLoaded (s : SubpartitionMetadata) : SubpartitionMetadata := { s with loaded := false }

def normalisePart (p : PartitionMetadata) : PartitionMetadata :=
  { p with subpartitions := p.subpartitions.map resetLoaded, byLast := buildByLast (p.subpartitions.map resetLoaded) }

def normaliseMeta (m : MetaStore) : MetaStore :=
  { nextWalId := m.earliestUnflushedWalId, earliestUnflushedWalId := m.earliestUnflushedWalId,
    partitions := m.partitions.map normalisePart }

def MetaWf (m : MetaStore) : Prop := (m.partitions.map fun p => (p.tablename, p.id)).Nodup

end LM.Segment
