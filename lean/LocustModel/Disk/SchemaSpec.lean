import LocustModel.Disk.Segment
import LocustModel.Gen.SegmentFields
import LocustModel.Gen.WalTables
import LocustModel.Gen.MetaTables
import LocustModel.Gen.SchemaTables
/-
  C14 model, part 3: what the message-tree types of `Disk/Segment.lean` assume about the capnp schemas and about which
  fields the Rust (de)serialisers copy — written down as data, so that it can be compared (by `decide`) with the tables
  regenerated from the current source (`Gen/SchemaTables`, `Gen/SegmentFields`, `Gen/WalTables`, `Gen/MetaTables`).
  `«value»` stands for "the member / field carries its value directly".
-/
namespace LM.Segment
open LM.Gen

def V : String := "«value»"

/-- The arguments of the `CapOp` constructors (= the fields behind each `CodecOp` union member). -/
def CapOpTag.modelFields : CapOpTag → List String
  | .Add => ["type", "amount"] | .Delta => [V] | .ToI64 => [V] | .PushDataSection => [V] | .DictLookup => [V]
  | .Lz4 => ["type", "lenDecoded"] | .UnpackStrings => [] | .UnhexpackStrings => ["uppercase", "totalBytes"]
  | .Nullable => [] | .Pco => ["type", "lenDecoded", "isFp32"]

/-- The arguments of the `CapSection` constructors. -/
def CapSecTag.modelFields : CapSecTag → List String
  | .Lz4 => ["decodedBytes", "bytesPerElement", "data"]
  | .Pco => ["decodedBytes", "bytesPerElement", "data", "isFp32"]
  | _ => [V]

/-- The arguments of the `CapColData` constructors. -/
def CapColTag.modelFields : CapColTag → List _root_.String
  | .SparseF64 => ["indices", "values"] | .SparseI64 => ["indices", "values"] | .Empty => [] | _ => [V]

def CapAnyTag.modelFields : CapAnyTag → List _root_.String
  | .Null => [] | _ => [V]

/-- Same elements, order and multiplicity ignored. -/
def sameSet (a b : List String) : Bool := a.all (b.contains ·) && b.all (a.contains ·)

def names (l : List (String × String × List String)) : List String := l.map (·.1)
def membersWithFields (l : List (String × String × List String)) : List (String × List String) := l.map fun m => (m.1, m.2.2)

/-- The schemas declare exactly the unions, enumerants and struct fields the message-tree types have. -/
def schemaMatchesModel : Bool :=
  -- partition_segment.capnp
  membersWithFields (Schema.get Schema.partitionSegment "CodecOp.union") == CapOpTag.all.map (fun t => (t.member, t.modelFields)) &&
  membersWithFields (Schema.get Schema.partitionSegment "DataSection.union") == CapSecTag.all.map (fun t => (t.member, t.modelFields)) &&
  (Schema.get Schema.partitionSegment "EncodingType.enum").map (fun e => (e.1, e.2.1)) == CapEnc.all.map CapEnc.schemaEntry &&
  names (Schema.get Schema.partitionSegment "PartitionSegment") == ["columns"] &&
  names (Schema.get Schema.partitionSegment "Column") == ["name", "len", "range", "codec", "data"] &&
  membersWithFields (Schema.get Schema.partitionSegment "Column.range") == [("range", ["start", "end"]), ("empty", [])] &&
  -- wal_segment.capnp
  names (Schema.get Schema.walSegment "WalSegment") == ["id", "data"] &&
  names (Schema.get Schema.walSegment "TableSegmentList") == ["data"] &&
  names (Schema.get Schema.walSegment "TableSegment") == ["name", "len", "columns"] &&
  names (Schema.get Schema.walSegment "Column") == ["name", "data"] &&
  membersWithFields (Schema.get Schema.walSegment "Column.data") == CapColTag.all.map (fun t => (t.member, t.modelFields)) &&
  membersWithFields (Schema.get Schema.walSegment "AnyVal.value") == CapAnyTag.all.map (fun t => (t.member, t.modelFields)) &&
  -- dbmeta.capnp: the fields of `CapMeta` / `CapPart` / `CapSub` plus the deprecated ones the writer leaves empty
  sameSet (names (Schema.get Schema.dbmeta "DBMeta")) (["nextWalId", "partitions"] ++ ["strings", "compressedStrings", "lengthsCompressedStrings"]) &&
  names (Schema.get Schema.dbmeta "PartitionMetadata") == ["id", "tablename", "offset", "len", "subpartitions"] &&
  sameSet (names (Schema.get Schema.dbmeta "SubpartitionMetadata"))
    (["sizeBytes", "subpartitionKey", "lastColumn"] ++ ["columns", "internedColumns", "compressedInternedColumns"])

/-- Each argument of a `CodecOp` constructor is written to one capnp field and read back from that same field into the
    same argument position, through `encoding_type_to_capnp` on the way out iff through `deserialize_type` on the way in. -/
def opCopiesRoundTrip (t : CapOpTag) : Bool :=
  let w := SegmentFields.opWrites t
  let r := SegmentFields.opReads t
  w.length == r.length &&
  w.all (fun x => r[x.2.2]? == some ((if x.2.1 == "enc" then "dec" else "raw"), x.1)) &&
  (List.range r.length).all (fun i => w.any (fun x => x.2.2 == i))

/-- Each part of a `DataSection` variant is written to one capnp field and read back from it into the same part. -/
def secCopiesRoundTrip (t : CapSecTag) : Bool :=
  let w := SegmentFields.secWrites t
  let r := SegmentFields.secReads t
  w.all (fun p => r.contains (p.2, p.1)) && r.all (fun p => w.contains (p.2, p.1))

/-- Catalogue: every Rust struct field is written to the capnp field of its name and read back from it (the last column
    goes through the legacy-aware computation, see `metaSourceFacts`). -/
def metaCopiesRoundTrip : Bool :=
  MetaTables.partitionWrites.all (fun p => MetaTables.partitionReads.contains (p.2, p.1)) &&
  MetaTables.partitionReads.all (fun p => MetaTables.partitionWrites.contains (p.2, p.1)) &&
  (MetaTables.subpartitionWrites.filter (·.1 != "lastColumn")).all (fun p => MetaTables.subpartitionReads.contains (p.2, p.1)) &&
  MetaTables.subpartitionReads.all (fun p => MetaTables.subpartitionWrites.contains (p.2, p.1)) &&
  MetaTables.subpartitionWrites.contains ("lastColumn", "lastColumn") &&
  MetaTables.partitionWrites.all (fun p => p.1 == p.2) && MetaTables.subpartitionWrites.all (fun p => p.1 == p.2)

/-- Every field is copied in both directions: per union member, the fields `serialize` sets and the fields `deserialize`
    gets are the fields of the message-tree constructor; likewise for the enclosing structs. -/
def fieldsCopiedBothWays : Bool :=
  CapOpTag.all.all (fun t => sameSet (SegmentFields.opFieldsWritten t) t.modelFields && sameSet (SegmentFields.opFieldsRead t) t.modelFields) &&
  CapSecTag.all.all (fun t => sameSet (SegmentFields.secFieldsWritten t) t.modelFields && sameSet (SegmentFields.secFieldsRead t) t.modelFields) &&
  SegmentFields.columnFieldsWritten == ["name", "len", "range", "codec", "data"] &&
  SegmentFields.columnFieldsRead == ["name", "len", "range", "codec", "data"] &&
  sameSet SegmentFields.rangeFieldsWritten ["empty", "range", "start", "end"] && sameSet SegmentFields.rangeFieldsRead ["start", "end"] &&
  CapOpTag.all.all opCopiesRoundTrip && CapSecTag.all.all secCopiesRoundTrip && metaCopiesRoundTrip &&
  -- log segment
  CapColTag.all.all (fun t => (t.modelFields == [V] || t.modelFields == [] ||
      (sameSet (WalTables.groupFieldsWritten t) t.modelFields && sameSet (WalTables.groupFieldsRead t) t.modelFields))) &&
  sameSet WalTables.walFieldsWritten ["id", "data"] && sameSet WalTables.walFieldsRead ["id", "data"] &&
  sameSet WalTables.listFieldsWritten ["data"] && sameSet WalTables.listFieldsRead ["data"] &&
  sameSet WalTables.tableFieldsWritten ["name", "len", "columns"] && sameSet WalTables.tableFieldsRead ["name", "len", "columns"] &&
  sameSet WalTables.columnFieldsWritten ["name", "data"] && sameSet WalTables.columnFieldsRead ["name", "data"] &&
  -- catalogue: the writer sets exactly the fields of the message-tree types; the reader additionally looks at the deprecated ones
  sameSet MetaTables.dbmetaFieldsWritten ["nextWalId", "partitions"] &&
  sameSet MetaTables.dbmetaFieldsRead (["nextWalId", "partitions"] ++ ["strings", "compressedStrings", "lengthsCompressedStrings"]) &&
  sameSet MetaTables.partitionFieldsWritten ["id", "tablename", "offset", "len", "subpartitions"] &&
  sameSet MetaTables.partitionFieldsRead ["id", "tablename", "offset", "len", "subpartitions"] &&
  sameSet MetaTables.subpartitionFieldsWritten ["sizeBytes", "subpartitionKey", "lastColumn"] &&
  sameSet MetaTables.subpartitionFieldsRead (["sizeBytes", "subpartitionKey", "lastColumn"] ++ ["columns", "internedColumns", "compressedInternedColumns"])

/-- The facts about `MetaStore::serialize` / `deserialize` that `serMeta` / `deserMeta` / `normaliseMeta` mirror: the stored
    cursor is `earliest_unflushed_wal_id`; on reading both cursors are initialised from it; a non-empty explicit last
    column is taken as is; `loaded` starts false; the index maps each last column to its position. -/
def metaSourceFacts : Bool :=
  MetaTables.storedCursor == "earliest_unflushed_wal_id" && MetaTables.cursorReadFrom == "nextWalId" &&
  MetaTables.metaStoreInit == [("next_wal_id", "next_wal_id"), ("earliest_unflushed_wal_id", "next_wal_id"), ("partitions", "partitions")] &&
  MetaTables.partitionInit.map (·.1) == ["id", "tablename", "offset", "len", "subpartitions", "subpartitions_by_last_column"] &&
  MetaTables.subpartitionInit == [("size_bytes", "size_bytes"), ("subpartition_key", "subpartition_key"), ("last_column", "last_column"),
                                  ("loaded", "Arc::new(AtomicBool::new(false))")] &&
  MetaTables.explicitLastColumnWins && MetaTables.loadedResetToFalse && MetaTables.indexInsertsPosition

end LM.Segment
