import LocustModel.Proto
import LocustModel.Disk.DiskProto
import LocustModel.Disk.Segment
/-
  Text format of the C14 line protocol: a small term language  T ::= atom | atom '(' [T {',' T}] ')'
  with parsers into the model's object types and printers for objects and message trees.
  (Parsing/printing is trusted code of the driver; theorems do not depend on it.)
-/
namespace LM.SegProto
open LM LM.Proto LM.Routing LM.DiskProto LM.Segment

inductive T where
  | node (tag : String) (kids : List T)
  deriving Repr, Inhabited

def isAtomChar (c : Char) : Bool := c ≠ '(' && c ≠ ')' && c ≠ ',' && c ≠ ' ' && c ≠ '\t'

/-- Recursive-descent parser with explicit fuel (= input length). -/
def parseT : Nat → List Char → Option (T × List Char)
  | 0, _ => none
  | fuel + 1, cs =>
    let atom := cs.takeWhile isAtomChar
    let rest := cs.dropWhile isAtomChar
    if atom.isEmpty then none else
    match rest with
    | '(' :: ')' :: rest' => some (.node (String.ofList atom) [], rest')
    | '(' :: rest' =>
        let rec kids (f : Nat) (cs : List Char) (acc : List T) : Option (List T × List Char) :=
          match f with
          | 0 => none
          | f + 1 =>
            match parseT fuel cs with
            | none => none
            | some (t, ',' :: cs') => kids f cs' (t :: acc)
            | some (t, ')' :: cs') => some ((t :: acc).reverse, cs')
            | some _ => none
        match kids (fuel + 1) rest' [] with
        | some (ks, rest'') => some (.node (String.ofList atom) ks, rest'')
        | none => none
    | _ => some (.node (String.ofList atom) [], rest)

def parseTerm (s : String) : Option T :=
  let cs := s.toList
  match parseT (cs.length + 1) cs with
  | some (t, []) => some t
  | _ => none

partial def T.show : T → String
  | .node tag [] => tag
  | .node tag ks => tag ++ "(" ++ ",".intercalate (ks.map T.show) ++ ")"

def atom (s : String) : T := .node s []
def node0 (tag : String) : T := .node tag []        -- printed as `tag`
def emptyList (tag : String) : T := .node (tag ++ "()") []

/-- `tag(k1,…)`, printed as `tag()` when there are no children. -/
def listNode (tag : String) (ks : List T) : T := if ks.isEmpty then emptyList tag else .node tag ks

/-! ### atoms -/

def T.atom? : T → Option String
  | .node s [] => some s
  | _ => none

def natOf (t : T) : Option Nat := t.atom?.bind String.toNat?
def intOf (t : T) : Option Int := t.atom?.bind String.toInt?
def boolOf (t : T) : Option Bool := t.atom?.bind fun s => if s = "true" then some true else if s = "false" then some false else none
def nameOf (t : T) : Option Name := t.atom?.bind parseName?
/-- `x0a0b` → [10, 11] -/
def bytesOf (t : T) : Option (List Nat) := t.atom?.bind fun s => (parseHexBytes? s).map fun l => l.map (·.toNat)
/-- `b7ff8000000000000` → bit pattern -/
def bitsOf (t : T) : Option Nat := t.atom?.bind fun s =>
  match s.toList with
  | 'b' :: rest => hexNat? (String.ofList rest)
  | _ => none

def pad16 (s : String) : String := String.ofList (List.replicate (16 - s.length) '0') ++ s
def showBits (n : Nat) : T := atom ("b" ++ pad16 (toHex n))
def showBytes (xs : List Nat) : T := atom (showHexBytes (xs.map UInt8.ofNat))
def showNat (n : Nat) : T := atom (toString n)
def showInt (i : Int) : T := atom (toString i)
def showBool (b : Bool) : T := atom (toString b)
def showNameT (n : Name) : T := atom (showName n)

/-! ### encodings -/

def encNames : List (String × Enc) :=
  [("Str", .Str), ("I64", .I64), ("U8", .U8), ("U16", .U16), ("U32", .U32), ("U64", .U64), ("F64", .F64), ("Val", .Val),
   ("USize", .USize), ("Bitvec", .Bitvec), ("NullableStr", .NullableStr), ("NullableI64", .NullableI64),
   ("NullableU8", .NullableU8), ("NullableU16", .NullableU16), ("NullableU32", .NullableU32), ("NullableU64", .NullableU64),
   ("NullableF64", .NullableF64), ("OptStr", .OptStr), ("Null", .Null), ("ScalarI64", .ScalarI64), ("ScalarF64", .ScalarF64),
   ("ScalarStr", .ScalarStr), ("ScalarString", .ScalarString), ("ConstVal", .ConstVal), ("ByteSlices", .ByteSlices),
   ("ValRows", .ValRows), ("Premerge", .Premerge), ("MergeOp", .MergeOp)]

def encOf (t : T) : Option Enc := t.atom?.bind fun s => encNames.lookup s
def showEnc (e : Enc) : T := atom ((encNames.find? (fun p => p.2 == e)).map (·.1) |>.getD "?")

def capEncName : CapEnc → String
  | .U8 => "U8" | .U16 => "U16" | .U32 => "U32" | .U64 => "U64" | .I64 => "I64" | .Null => "Null" | .F64 => "F64" | .Bitvec => "Bitvec"
def showCapEnc (c : CapEnc) : T := atom (capEncName c ++ "." ++ toString c.ordinal)

/-! ### columns -/

def opOf : T → Option CodecOp
  | .node "nullable" [] => some .nullable
  | .node "add" [t, a] => do pure (.add (← encOf t) (← intOf a))
  | .node "delta" [t] => do pure (.delta (← encOf t))
  | .node "toi64" [t] => do pure (.toI64 (← encOf t))
  | .node "push" [n] => do pure (.pushDataSection (← natOf n))
  | .node "dict" [t] => do pure (.dictLookup (← encOf t))
  | .node "lz4" [t, n] => do pure (.lz4 (← encOf t) (← natOf n))
  | .node "pco" [t, n, b] => do pure (.pco (← encOf t) (← natOf n) (← boolOf b))
  | .node "unpack" [] => some .unpackStrings
  | .node "unhexpack" [u, n] => do pure (.unhexpackStrings (← boolOf u) (← natOf n))
  | .node "unknown" [] => some .unknown
  | _ => none

def showOp : CodecOp → T
  | .nullable => atom "nullable"
  | .add t a => .node "add" [showEnc t, showInt a]
  | .delta t => .node "delta" [showEnc t]
  | .toI64 t => .node "toi64" [showEnc t]
  | .pushDataSection n => .node "push" [showNat n]
  | .dictLookup t => .node "dict" [showEnc t]
  | .lz4 t n => .node "lz4" [showEnc t, showNat n]
  | .pco t n b => .node "pco" [showEnc t, showNat n, showBool b]
  | .unpackStrings => atom "unpack"
  | .unhexpackStrings u n => .node "unhexpack" [showBool u, showNat n]
  | .unknown => atom "unknown"

def kidsOf (tag : String) : T → Option (List T)
  | .node t ks => if t = tag then some ks else if t = tag ++ "()" then some [] else none

def secOf : T → Option DataSection
  | .node "u8" [x] => do pure (.u8 (← bytesOf x))
  | .node "bitvec" [x] => do pure (.bitvec (← bytesOf x))
  | .node "null" [n] => do pure (.null (← natOf n))
  | .node "lz4s" [d, b, x] => do pure (.lz4 (← natOf d) (← natOf b) (← bytesOf x))
  | .node "pcos" [d, b, x, f] => do pure (.pco (← natOf d) (← natOf b) (← bytesOf x) (← boolOf f))
  | t =>
    (do let ks ← kidsOf "u16" t; pure (.u16 (← ks.mapM natOf))) <|>
    (do let ks ← kidsOf "u32" t; pure (.u32 (← ks.mapM natOf))) <|>
    (do let ks ← kidsOf "u64" t; pure (.u64 (← ks.mapM natOf))) <|>
    (do let ks ← kidsOf "i64" t; pure (.i64 (← ks.mapM intOf))) <|>
    (do let ks ← kidsOf "f64" t; pure (.f64 (← ks.mapM bitsOf)))

def showSec : DataSection → T
  | .u8 xs => .node "u8" [showBytes xs]
  | .bitvec xs => .node "bitvec" [showBytes xs]
  | .null n => .node "null" [showNat n]
  | .lz4 d b x => .node "lz4s" [showNat d, showNat b, showBytes x]
  | .pco d b x f => .node "pcos" [showNat d, showNat b, showBytes x, showBool f]
  | .u16 xs => listNode "u16" (xs.map showNat)
  | .u32 xs => listNode "u32" (xs.map showNat)
  | .u64 xs => listNode "u64" (xs.map showNat)
  | .i64 xs => listNode "i64" (xs.map showInt)
  | .f64 xs => listNode "f64" (xs.map showBits)

def colOf : T → Option Column
  | .node "col" [n, len, range, ops, data] => do
      let r ← match range with
        | .node "none" [] => some none
        | .node "r" [s, e] => do pure (some ((← intOf s), (← intOf e)))
        | _ => none
      let ops ← (← kidsOf "ops" ops).mapM opOf
      let data ← (← kidsOf "data" data).mapM secOf
      pure { name := (← nameOf n), len := (← natOf len), range := r, codec := ops, data := data }
  | _ => none

def showCol (c : Column) : T :=
  .node "col" [showNameT c.name, showNat c.len,
    (match c.range with | none => atom "none" | some (s, e) => .node "r" [showInt s, showInt e]),
    listNode "ops" (c.codec.map showOp), listNode "data" (c.data.map showSec)]

def showCapOp : CapOp → T
  | .nullable => atom "nullable"
  | .add t a => .node "add" [showCapEnc t, showInt a]
  | .delta t => .node "delta" [showCapEnc t]
  | .toI64 t => .node "toI64" [showCapEnc t]
  | .pushDataSection n => .node "pushDataSection" [showNat n]
  | .dictLookup t => .node "dictLookup" [showCapEnc t]
  | .lz4 t n => .node "lz4" [showCapEnc t, showNat n]
  | .pco t n b => .node "pco" [showCapEnc t, showNat n, showBool b]
  | .unpackStrings => atom "unpackStrings"
  | .unhexpackStrings u n => .node "unhexpackStrings" [showBool u, showNat n]

def showCapSec : CapSection → T
  | .u8 xs => .node "u8" [showBytes xs]
  | .bitvec xs => .node "bitvec" [showBytes xs]
  | .null n => .node "null" [showNat n]
  | .lz4 d b x => .node "lz4" [showNat d, showNat b, showBytes x]
  | .pco d b x f => .node "pco" [showNat d, showNat b, showBytes x, showBool f]
  | .u16 xs => listNode "u16" (xs.map showNat)
  | .u32 xs => listNode "u32" (xs.map showNat)
  | .u64 xs => listNode "u64" (xs.map showNat)
  | .i64 xs => listNode "i64" (xs.map showInt)
  | .f64 xs => listNode "f64" (xs.map showBits)

def showCapCol (c : CapColumn) : T :=
  .node "ccol" [showNameT c.name, showNat c.len,
    (match c.range with | .empty => atom "empty" | .range s e => .node "range" [showInt s, showInt e]),
    listNode "codec" (c.codec.map showCapOp), listNode "data" (c.data.map showCapSec)]

def segOf (t : T) : Option (List Column) := do (← kidsOf "seg" t).mapM colOf
def showSeg (cs : List Column) : T := listNode "seg" (cs.map showCol)
def showCapSeg (cs : List CapColumn) : T := listNode "cseg" (cs.map showCapCol)

/-! ### log segments -/

def anyOf : T → Option AnyVal
  | .node "i" [v] => do pure (.int (← intOf v))
  | .node "f" [v] => do pure (.float (← bitsOf v))
  | .node "s" [v] => do pure (.str (← nameOf v))
  | .node "null" [] => some .null
  | _ => none

def showAny : AnyVal → T
  | .int i => .node "i" [showInt i] | .float b => .node "f" [showBits b] | .str s => .node "s" [showNameT s] | .null => atom "null"

def pairOf {α} (f : T → Option α) : T → Option (Nat × α)
  | .node "p" [i, v] => do pure ((← natOf i), (← f v))
  | _ => none

def colDataOf (t : T) : Option ColumnData :=
  match t with
  | .node "empty" [] => some .empty
  | t =>
    (do let ks ← kidsOf "dense" t; pure (.dense (← ks.mapM bitsOf))) <|>
    (do let ks ← kidsOf "sparse" t; pure (.sparse (← ks.mapM (pairOf bitsOf)))) <|>
    (do let ks ← kidsOf "i64" t; pure (.i64 (← ks.mapM intOf))) <|>
    (do let ks ← kidsOf "sparsei64" t; pure (.sparseI64 (← ks.mapM (pairOf intOf)))) <|>
    (do let ks ← kidsOf "string" t; pure (.string (← ks.mapM nameOf))) <|>
    (do let ks ← kidsOf "mixed" t; pure (.mixed (← ks.mapM anyOf)))

def showColData : ColumnData → T
  | .empty => atom "empty"
  | .dense xs => listNode "dense" (xs.map showBits)
  | .sparse xs => listNode "sparse" (xs.map fun (i, v) => .node "p" [showNat i, showBits v])
  | .i64 xs => listNode "i64" (xs.map showInt)
  | .sparseI64 xs => listNode "sparsei64" (xs.map fun (i, v) => .node "p" [showNat i, showInt v])
  | .string xs => listNode "string" (xs.map showNameT)
  | .mixed xs => listNode "mixed" (xs.map showAny)

def showCapColData : CapColData → T
  | .empty => atom "empty"
  | .f64 xs => listNode "f64" (xs.map showBits)
  | .sparseF64 is vs => .node "sparseF64" [listNode "indices" (is.map showNat), listNode "values" (vs.map showBits)]
  | .i64 xs => listNode "i64" (xs.map showInt)
  | .sparseI64 is vs => .node "sparseI64" [listNode "indices" (is.map showNat), listNode "values" (vs.map showInt)]
  | .string xs => listNode "string" (xs.map showNameT)
  | .mixed xs => listNode "mixed" (xs.map showAny)

def tableOf : T → Option (Name × TableBuffer)
  | .node "t" [n, len, cols] => do
      let cs ← (← kidsOf "cols" cols).mapM fun c =>
        match c with
        | .node "c" [cn, d] => do pure ((← nameOf cn), (← colDataOf d))
        | _ => none
      pure ((← nameOf n), ({ len := (← natOf len), columns := cs } : TableBuffer))
  | _ => none

/-- `tables(t(name,len,cols(c(name,data),…)),…)` -/
def tablesOf (t : T) : Option (List (Name × TableBuffer)) := do (← kidsOf "tables" t).mapM tableOf

def walOf : T → Option WalSegment
  | .node "wal" [id, tables] => do pure { id := (← natOf id), tables := (← tablesOf tables) }
  | _ => none

def showTables (ts : List (Name × TableBuffer)) : T :=
  listNode "tables" (ts.map fun (n, t) =>
    .node "t" [showNameT n, showNat t.len, listNode "cols" (t.columns.map fun (cn, d) => .node "c" [showNameT cn, showColData d])])

def showWal (w : WalSegment) : T := .node "wal" [showNat w.id, showTables w.tables]

def showCapTables (ts : List CapTableSegment) : T :=
  listNode "data" (ts.map fun t =>
    .node "ts" [showNameT t.name, showNat t.len, listNode "columns" (t.columns.map fun (cn, d) => .node "cc" [showNameT cn, showCapColData d])])

def showCapWal (w : CapWal) : T := .node "cwal" [showNat w.id, showCapTables w.data]

/-- the bare `TableSegmentList` message of `EventBuffer::serialize` -/
def showCapTsl (ts : List CapTableSegment) : T := .node "ctsl" [showCapTables ts]

/-! ### catalogue -/

def metaOf : T → Option MetaStore
  | .node "meta" [next, earliest, parts] => do
      let ps ← (← kidsOf "parts" parts).mapM fun p =>
        match p with
        | .node "p" [id, table, offset, len, subs, idx] => do
            let ss ← (← kidsOf "subs" subs).mapM fun s =>
              match s with
              | .node "s" [size, key, last, loaded] => do
                  pure ({ sizeBytes := (← natOf size), key := (← nameOf key), lastColumn := (← nameOf last), loaded := (← boolOf loaded) } : SubpartitionMetadata)
              | _ => none
            let es ← (← kidsOf "idx" idx).mapM fun e =>
              match e with
              | .node "e" [k, i] => do pure ((← nameOf k), (← natOf i))
              | _ => none
            pure ({ id := (← natOf id), tablename := (← nameOf table), offset := (← natOf offset), len := (← natOf len),
                    subpartitions := ss, byLast := es } : PartitionMetadata)
        | _ => none
      pure { nextWalId := (← natOf next), earliestUnflushedWalId := (← natOf earliest), partitions := ps }
  | _ => none

def showMeta (m : MetaStore) : T :=
  .node "meta" [showNat m.nextWalId, showNat m.earliestUnflushedWalId, listNode "parts" (m.partitions.map fun p =>
    .node "p" [showNat p.id, showNameT p.tablename, showNat p.offset, showNat p.len,
      listNode "subs" (p.subpartitions.map fun s => .node "s" [showNat s.sizeBytes, showNameT s.key, showNameT s.lastColumn, showBool s.loaded]),
      listNode "idx" (p.byLast.map fun (k, i) => .node "e" [showNameT k, showNat i])])]

def showCapMeta (m : CapMeta) : T :=
  .node "cmeta" [showNat m.nextWalId, listNode "partitions" (m.partitions.map fun p =>
    .node "cp" [showNat p.id, showNameT p.tablename, showNat p.offset, showNat p.len,
      listNode "subpartitions" (p.subpartitions.map fun s => .node "cs" [showNat s.sizeBytes, showNameT s.subpartitionKey, showNameT s.lastColumn])])]

/-! ### message trees as input (hand-made messages handed to the real readers) -/

def capEncOf (t : T) : Option CapEnc := t.atom?.bind fun s =>
  match s.splitOn "." with
  | [n, _] => [("U8", CapEnc.U8), ("U16", .U16), ("U32", .U32), ("U64", .U64), ("I64", .I64), ("Null", .Null), ("F64", .F64), ("Bitvec", .Bitvec)].lookup n
  | _ => none

def capOpOf : T → Option CapOp
  | .node "nullable" [] => some .nullable
  | .node "add" [t, a] => do pure (.add (← capEncOf t) (← intOf a))
  | .node "delta" [t] => do pure (.delta (← capEncOf t))
  | .node "toI64" [t] => do pure (.toI64 (← capEncOf t))
  | .node "pushDataSection" [n] => do pure (.pushDataSection (← natOf n))
  | .node "dictLookup" [t] => do pure (.dictLookup (← capEncOf t))
  | .node "lz4" [t, n] => do pure (.lz4 (← capEncOf t) (← natOf n))
  | .node "pco" [t, n, b] => do pure (.pco (← capEncOf t) (← natOf n) (← boolOf b))
  | .node "unpackStrings" [] => some .unpackStrings
  | .node "unhexpackStrings" [u, n] => do pure (.unhexpackStrings (← boolOf u) (← natOf n))
  | _ => none

def capSecOf : T → Option CapSection
  | .node "u8" [x] => do pure (.u8 (← bytesOf x))
  | .node "bitvec" [x] => do pure (.bitvec (← bytesOf x))
  | .node "null" [n] => do pure (.null (← natOf n))
  | .node "lz4" [d, b, x] => do pure (.lz4 (← natOf d) (← natOf b) (← bytesOf x))
  | .node "pco" [d, b, x, f] => do pure (.pco (← natOf d) (← natOf b) (← bytesOf x) (← boolOf f))
  | t =>
    (do let ks ← kidsOf "u16" t; pure (.u16 (← ks.mapM natOf))) <|>
    (do let ks ← kidsOf "u32" t; pure (.u32 (← ks.mapM natOf))) <|>
    (do let ks ← kidsOf "u64" t; pure (.u64 (← ks.mapM natOf))) <|>
    (do let ks ← kidsOf "i64" t; pure (.i64 (← ks.mapM intOf))) <|>
    (do let ks ← kidsOf "f64" t; pure (.f64 (← ks.mapM bitsOf)))

def capColOf : T → Option CapColumn
  | .node "ccol" [n, len, range, ops, data] => do
      let r ← match range with
        | .node "empty" [] => some CapRange.empty
        | .node "range" [s, e] => do pure (CapRange.range (← intOf s) (← intOf e))
        | _ => none
      pure { name := (← nameOf n), len := (← natOf len), range := r,
             codec := (← (← kidsOf "codec" ops).mapM capOpOf), data := (← (← kidsOf "data" data).mapM capSecOf) }
  | _ => none

def capSegOf (t : T) : Option (List CapColumn) := do (← kidsOf "cseg" t).mapM capColOf

def capColDataOf (t : T) : Option CapColData :=
  match t with
  | .node "empty" [] => some .empty
  | .node "sparseF64" [is, vs] => do pure (.sparseF64 (← (← kidsOf "indices" is).mapM natOf) (← (← kidsOf "values" vs).mapM bitsOf))
  | .node "sparseI64" [is, vs] => do pure (.sparseI64 (← (← kidsOf "indices" is).mapM natOf) (← (← kidsOf "values" vs).mapM intOf))
  | t =>
    (do let ks ← kidsOf "f64" t; pure (.f64 (← ks.mapM bitsOf))) <|>
    (do let ks ← kidsOf "i64" t; pure (.i64 (← ks.mapM intOf))) <|>
    (do let ks ← kidsOf "string" t; pure (.string (← ks.mapM nameOf))) <|>
    (do let ks ← kidsOf "mixed" t; pure (.mixed (← ks.mapM anyOf)))

def capTablesOf (t : T) : Option (List CapTableSegment) := do
  (← kidsOf "data" t).mapM fun ts =>
    match ts with
    | .node "ts" [n, len, cols] => do
        let cs ← (← kidsOf "columns" cols).mapM fun c =>
          match c with
          | .node "cc" [cn, d] => do pure ((← nameOf cn), (← capColDataOf d))
          | _ => none
        pure ({ name := (← nameOf n), len := (← natOf len), columns := cs } : CapTableSegment)
    | _ => none

def capWalOf : T → Option CapWal
  | .node "cwal" [id, data] => do pure { id := (← natOf id), data := (← capTablesOf data) }
  | _ => none

def capMetaOf : T → Option CapMeta
  | .node "cmeta" [next, parts] => do
      let ps ← (← kidsOf "partitions" parts).mapM fun p =>
        match p with
        | .node "cp" [id, table, offset, len, subs] => do
            let ss ← (← kidsOf "subpartitions" subs).mapM fun s =>
              match s with
              | .node "cs" [size, key, last] => do
                  pure ({ sizeBytes := (← natOf size), subpartitionKey := (← nameOf key), lastColumn := (← nameOf last) } : CapSub)
              | _ => none
            pure ({ id := (← natOf id), tablename := (← nameOf table), offset := (← natOf offset), len := (← natOf len), subpartitions := ss } : CapPart)
        | _ => none
      pure { nextWalId := (← natOf next), partitions := ps }
  | _ => none

/-- Rust `String` order = lexicographic order of the scalar values. -/
def nameLe : Name → Name → Bool
  | [], _ => true
  | _ :: _, [] => false
  | a :: as, b :: bs => a < b || (a == b && nameLe as bs)

def sortByName {β} (l : List (Name × β)) : List (Name × β) := l.mergeSort fun a b => nameLe a.1 b.1

def sortTables (ts : List (Name × TableBuffer)) : List (Name × TableBuffer) :=
  sortByName (ts.map fun (n, t) => (n, { t with columns := sortByName t.columns }))

def sortParts (ps : List PartitionMetadata) : List PartitionMetadata :=
  ps.mergeSort fun a b => if a.tablename == b.tablename then a.id ≤ b.id else nameLe a.tablename b.tablename

end LM.SegProto
