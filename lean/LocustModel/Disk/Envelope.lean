/-
  C14 model, part 1: the envelope around every stored object.
    src/disk_store/file_writer.rs  VersionedChecksummedBlobWriter::store → `wrap`
                                   VersionedChecksummedBlobWriter::load  → `unwrap`
  Layout: version (u64 BE, = 0) | payload length (u64 BE) | SHA-256 of the payload (32 bytes) | payload.
  The hash is a parameter `H` (theorems hold for every function; collision freedom is a hypothesis only where stated).
  Core only.
-/
namespace LM.Envelope

/-- `u64::to_be_bytes` (of `n mod 2^64`). -/
def be64 (n : Nat) : List UInt8 :=
  [UInt8.ofNat (n / 2 ^ 56), UInt8.ofNat (n / 2 ^ 48), UInt8.ofNat (n / 2 ^ 40), UInt8.ofNat (n / 2 ^ 32),
   UInt8.ofNat (n / 2 ^ 24), UInt8.ofNat (n / 2 ^ 16), UInt8.ofNat (n / 2 ^ 8), UInt8.ofNat n]

/-- `u64::from_be_bytes` of a byte list (big endian). -/
def fromBe (bs : List UInt8) : Nat := bs.foldl (fun a b => a * 256 + b.toNat) 0

/-- `store`: the bytes handed to the inner writer. -/
def wrap (H : List UInt8 → List UInt8) (d : List UInt8) : List UInt8 :=
  be64 0 ++ be64 d.length ++ H d ++ d

inductive LoadError where
  | tooShort      -- "Invalid data length" (fewer than 48 bytes)
  | version       -- "Invalid version number"
  | length        -- "Invalid data length … expected"
  | checksum      -- "Checksum mismatch"
  deriving DecidableEq, Repr

/-- Outcome of `load`: the payload or an `Err(..)`.  (Before the fix `C14-load-length-overflow` the length check was
    `data.len() != 8 + 8 + 32 + data_len`, which panicked in the dev profile for a length field ≥ 2^64 - 48; the code now
    compares `data.len() - 48` with the field, which cannot overflow because `data.len() ≥ 48` was checked first.) -/
inductive Loaded where
  | ok (d : List UInt8)
  | err (e : LoadError)
  deriving DecidableEq, Repr

/-- `load`, with the checks in the order the Rust performs them. -/
def unwrap (H : List UInt8 → List UInt8) (b : List UInt8) : Loaded :=
  if b.length < 48 then .err .tooShort
  else if fromBe (b.take 8) ≠ 0 then .err .version
  else
    let dataLen := fromBe ((b.drop 8).take 8)
    if b.length - 48 ≠ dataLen then .err .length
    else if (b.drop 16).take 32 ≠ H (b.drop 48) then .err .checksum
    else .ok (b.drop 48)

/-- Bit `j` of a byte, most significant first (`0x80 >> j`). -/
def bitMask (j : Fin 8) : UInt8 := UInt8.ofNat (2 ^ (7 - j.val))

/-- The file with bit `i` inverted (bit 0 = most significant bit of byte 0); unchanged when `i` is past the end. -/
def flipBit (b : List UInt8) (i : Nat) : List UInt8 :=
  b.set (i / 8) (b.getD (i / 8) 0 ^^^ bitMask ⟨i % 8, Nat.mod_lt _ (by decide)⟩)

end LM.Envelope
