import LocustModel.Proto
import LocustModel.Disk.Routing
import LocustModel.Disk.Sha256
/- Line-protocol helpers shared by the C14 / C15 drivers: names as dotted hex scalar values (`n61.62`, empty `n`),
   UTF-8 encoding (to feed SHA-256), the instantiation of the routing model's hash parameter with real SHA-256. -/
namespace LM.DiskProto
open LM.Proto LM.Routing

def hexNat? (s : String) : Option Nat :=
  if s.isEmpty then none else
  s.toList.foldlM (fun acc c => (hexDigit? c).map fun d => acc * 16 + d) 0

/-- `n61.62` → [0x61, 0x62]; `n` → []. -/
def parseName? (s : String) : Option Name :=
  match s.toList with
  | 'n' :: rest =>
      if rest.isEmpty then some [] else ((String.ofList rest).splitOn ".").mapM hexNat?
  | _ => none

def toHex (n : Nat) : String := String.ofList (Nat.toDigits 16 n)

def showName (n : Name) : String := "n" ++ ".".intercalate (n.map toHex)

/-- UTF-8 encoding of one scalar value. -/
def utf8Char (c : Nat) : List UInt8 :=
  if c < 0x80 then [UInt8.ofNat c]
  else if c < 0x800 then [UInt8.ofNat (0xC0 + c / 64), UInt8.ofNat (0x80 + c % 64)]
  else if c < 0x10000 then [UInt8.ofNat (0xE0 + c / 4096), UInt8.ofNat (0x80 + c / 64 % 64), UInt8.ofNat (0x80 + c % 64)]
  else [UInt8.ofNat (0xF0 + c / 262144), UInt8.ofNat (0x80 + c / 4096 % 64), UInt8.ofNat (0x80 + c / 64 % 64),
        UInt8.ofNat (0x80 + c % 64)]

def utf8 (n : Name) : List UInt8 := n.flatMap utf8Char

/-- The model's `Hn` instantiated for execution: SHA-256 of the UTF-8 bytes. -/
def shaName (n : Name) : List UInt8 := LM.Sha256.sha256 (utf8 n)

def parseNameList? (s : String) : Option (List Name) := parseList parseName? s

end LM.DiskProto
