import LocustModel.Disk.Routing
import LocustModel.Prim
/-
  C15 model, read side: how a reopened database finds (or recognises as absent) the columns of ONE partition over a
  sequence of queries and evictions.

  Rust source → Lean definition
    src/mem_store/partition.rs          Partition::get_cols (per referenced column)      → `getCol`
                                        ColumnHandle {empty, resident, col} / non_resident / empty / set_empty
                                                                                         → `Handle`, `setEmpty`
                                        Partition::evict                                 → `evict`
    src/scheduler/disk_read_scheduler.rs  DiskReadScheduler::get_or_load (sequential path: point lookup) → `getOrLoad`
    src/disk_store/meta_store.rs        PartitionMetadata::subpartition_has_been_loaded / mark_subpartition_as_loaded /
                                        subpartition_key (all three: the same `lower_bound(Included(name))`)
                                                                                         → `hasBeenLoaded`, `routeIdx`
    src/disk_store/storage.rs           Storage::load_column                             → inside `getOrLoad`

  A freshly restored partition (`Partition::nonresident`) has no handles and no loaded flags: `RState.init`.
  The flags of a handle are modelled as they are (two independent booleans + the cached column), not as an enum:
  `get_or_load` tests `is_empty` first, then `is_resident`.
  Threads are not modelled (C10/C11): one query at a time.  Core only: the driver links this file.
-/
namespace LM.Routing

/-- `ColumnHandle`: the `empty` marker and the cached column (`resident` ⇔ `col` is `Some`). -/
structure Handle (α : Type) where
  empty : Bool
  col : Option (Col α)

/-- Read-side state of one partition: `Partition.cols` and the `loaded` flags of its `SubpartitionMetadata`
    (as the set of flagged indices). -/
structure RState (α : Type) where
  handles : List (Name × Handle α)
  loaded : List Nat

def RState.init {α} : RState α := { handles := [], loaded := [] }

/-- Index found by `subpartitions_by_last_column.lower_bound(Included(name)).peek_next()`. -/
def routeIdx (metas : List SubMeta) (name : Name) : Option Nat :=
  (lowerBound (byLast metas) name).map (·.2)

/-- `HashMap::insert` / overwrite of one handle. -/
def setHandle {α} (hs : List (Name × Handle α)) (name : Name) (h : Handle α) : List (Name × Handle α) :=
  (name, h) :: hs.filter (fun e => !(e.1 == name))

def getHandle {α} (hs : List (Name × Handle α)) (name : Name) : Option (Handle α) :=
  (hs.find? (fun e => e.1 == name)).map (·.2)

/-- `subpartition_has_been_loaded`: no file at or after `name` counts as "loaded". -/
def hasBeenLoaded {α} (st : RState α) (metas : List SubMeta) (name : Name) : Bool :=
  match routeIdx metas name with
  | none => true
  | some i => st.loaded.contains i

/-- `handle.set_empty()` on the handle registered under `name`. -/
def setEmpty {α} (hs : List (Name × Handle α)) (name : Name) : List (Name × Handle α) :=
  match getHandle hs name with
  | some h => setHandle hs name { h with empty := true }
  | none => hs

/-- The `for mut column in columns` loop of `get_or_load`: `cols.entry(name).or_insert(non_resident)`, then
    `*maybe_column = Some(column)`, `set_resident` (the `empty` flag of an existing handle is left as it is). -/
def makeResident {α} (hs : List (Name × Handle α)) (cols : List (Col α)) : List (Name × Handle α) :=
  cols.foldl (fun hs c =>
    let h := (getHandle hs c.name).getD { empty := false, col := none }
    setHandle hs c.name { h with col := some c }) hs

/-- `DiskReadScheduler::get_or_load(handle)` for the handle registered under `name` (sequential path). -/
def getOrLoad {α} (fs : Files α) (id : Nat) (metas : List SubMeta) (st : RState α) (name : Name) (h : Handle α) :
    Except Fault (Option (Col α) × RState α) :=
  if h.empty then .ok (none, st)
  else match h.col with
  | some c => .ok (some c, st)
  | none =>
    match routeIdx metas name with
    | none => .ok (none, { st with handles := setEmpty st.handles name })   -- `load_column` → None → set_empty
    | some i =>
      match metas[i]? with
      | none => .error .index                                               -- `self.subpartitions[*idx]`
      | some m =>
        match load fs (partitionFilename id m.key) with
        | none => .error .unwrap                                            -- `self.writer.load(&path).unwrap()`
        | some cols =>
          let hs := makeResident st.handles cols
          let st' : RState α := { handles := hs, loaded := i :: st.loaded } -- mark_subpartition_as_loaded
          match cols.find? (fun c => c.name == name) with
          | some c => .ok (some c, st')
          | none => .ok (none, { st' with handles := setEmpty hs name })    -- `None => handle.set_empty()`

/-- One referenced column in `Partition::get_cols`. -/
def getCol {α} (fs : Files α) (id : Nat) (metas : List SubMeta) (st : RState α) (name : Name) :
    Except Fault (Option (Col α) × RState α) :=
  match getHandle st.handles name with
  | some h => getOrLoad fs id metas st name h
  | none =>
    let h : Handle α :=
      if hasBeenLoaded st metas name then { empty := true, col := none }    -- ColumnHandle::empty
      else { empty := false, col := none }                                  -- ColumnHandle::non_resident
    getOrLoad fs id metas { st with handles := setHandle st.handles name h } name h

/-- `Partition::evict(col)` (only called for resident handles). -/
def evict {α} (st : RState α) (name : Name) : RState α :=
  match getHandle st.handles name with
  | some h => { st with handles := setHandle st.handles name { h with col := none } }
  | none => st

/-- `InnerLocustDB::evict_cache`: `Partition::evict` for every entry of the LRU, i.e. every resident handle
    (evicting a non-resident handle changes nothing, so all handles are visited). -/
def evictAll {α} (st : RState α) : RState α :=
  (st.handles.map (·.1)).foldl evict st

inductive ROp where
  | get (name : Name)
  | evict (name : Name)
  | evictAll

/-- A sequence of reads and evictions; returns the answer of every `get`. -/
def runOps {α} (fs : Files α) (id : Nat) (metas : List SubMeta) :
    RState α → List ROp → Except Fault (List (Option (Col α)) × RState α)
  | st, [] => .ok ([], st)
  | st, .get name :: rest =>
    match getCol fs id metas st name with
    | .error f => .error f
    | .ok (r, st') =>
      match runOps fs id metas st' rest with
      | .error f => .error f
      | .ok (rs, fin) => .ok (r :: rs, fin)
  | st, .evict name :: rest => runOps fs id metas (evict st name) rest
  | st, .evictAll :: rest => runOps fs id metas (evictAll st) rest

/-- Specification: the column stored under that name, if the partition has one. -/
def specGet {α} (cols : List (Col α)) (name : Name) : Option (Col α) := cols.find? (fun c => c.name == name)

def specOps {α} (cols : List (Col α)) : List ROp → List (Option (Col α))
  | [] => []
  | .get name :: rest => specGet cols name :: specOps cols rest
  | .evict _ :: rest => specOps cols rest
  | .evictAll :: rest => specOps cols rest

end LM.Routing
