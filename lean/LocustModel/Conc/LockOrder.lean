/-
  C11 — the lock acquisition order read off the source.

  `Lock`      every std::sync lock (and the reader semaphore) of the anchored code.
  `rank`      the order in which they may be nested (smaller = outer).
  `edges`     every place where a lock is acquired while another one is held: (function, held, acquired).
              Read off src/scheduler/inner_locustdb.rs, src/mem_store/table.rs, src/mem_store/partition.rs,
              src/scheduler/disk_read_scheduler.rs, src/disk_store/storage.rs, src/engine/execution/query_task.rs,
              src/scheduler/shared_sender.rs, src/mem_store/lru.rs (docs/C11.md has the reading).
  `lockSites` per function, the lock fields in the textual order of their `.lock()/.read()/.write()` calls; the
              harness re-extracts this from /repo on every run and the driver compares (a new or reordered
              acquisition shows up as a correspondence difference and forces a re-reading).
  Core-only.
-/
namespace LM.LockOrder

inductive Lock where
  | walSize        -- InnerLocustDB.wal_size.0
  | taskQueue      -- InnerLocustDB.task_queue
  | pending        -- InnerLocustDB.pending_wal_flushes.0
  | tables         -- InnerLocustDB.tables (RwLock)
  | frozen         -- Table.frozen_buffer
  | partitions     -- Table.partitions (RwLock)
  | buffer         -- Table.buffer
  | columnNames    -- Table.column_names (RwLock)
  | cols           -- Partition.cols (RwLock)
  | handle         -- ColumnHandle.col
  | lru            -- Lru.cache
  | drsQueue       -- DiskReadScheduler.task_queue
  | bgLoad         -- DiskReadScheduler.background_load_in_progress
  | loadScheduled  -- DiskReadScheduler.load_scheduled (RwLock)
  | readerSem      -- DiskReadScheduler.reader_semaphore
  | catalogue      -- Storage.meta_store (RwLock)
  | taskState      -- QueryTask.unsafe_state
  | sender         -- SharedSender.inner
  deriving DecidableEq, Repr

open Lock

def rank : Lock → Nat
  | walSize => 0 | taskQueue => 1 | pending => 2 | tables => 3 | frozen => 4 | partitions => 5 | buffer => 6
  | columnNames => 7 | cols => 8 | handle => 9 | lru => 10 | drsQueue => 11 | bgLoad => 12 | loadScheduled => 13
  | readerSem => 14 | catalogue => 15 | taskState => 16 | sender => 17

/-- (function, lock held, lock acquired while holding it) -/
def edges : List (String × Lock × Lock) := [
  -- InnerLocustDB::ingest_efficient: the whole body runs under wal_size
  ("ingest_efficient", walSize, tables), ("ingest_efficient", walSize, columnNames),
  ("ingest_efficient", walSize, taskQueue),          -- query_column_names → schedule (and waits for a worker)
  ("ingest_efficient", walSize, catalogue),          -- persist_wal_segment on a joined thread
  ("ingest_efficient", walSize, buffer), ("ingest_efficient", tables, buffer), ("ingest_efficient", tables, columnNames),
  ("Table::ingest_homogeneous", buffer, columnNames), ("Table::ingest", buffer, columnNames),
  ("Table::ingest_heterogeneous", buffer, columnNames),
  -- InnerLocustDB::wal_flush, freeze block
  ("wal_flush", walSize, catalogue), ("wal_flush", walSize, tables), ("wal_flush", walSize, frozen), ("wal_flush", walSize, buffer),
  ("Table::freeze_buffer", frozen, buffer),
  -- queries / statistics
  ("InnerLocustDB::snapshot", tables, frozen), ("InnerLocustDB::snapshot", tables, partitions), ("InnerLocustDB::snapshot", tables, buffer),
  ("Table::snapshot", frozen, partitions), ("Table::snapshot", frozen, buffer), ("Table::snapshot", partitions, buffer),
  ("Table::snapshot", frozen, handle), ("Table::snapshot", partitions, handle), ("Table::snapshot", buffer, handle),  -- Partition::new asserts through try_get
  ("InnerLocustDB::stats", tables, buffer), ("InnerLocustDB::mem_tree", tables, cols), ("Partition::mem_tree", cols, handle),
  -- flush pool
  ("Table::batch", frozen, partitions), ("Table::batch", frozen, handle), ("Table::batch", frozen, lru),
  -- eviction / restore / memory accounting
  ("evict_cache", tables, lru), ("evict_cache", tables, partitions), ("enforce_mem_limit", tables, partitions),
  ("enforce_mem_limit", tables, buffer), ("enforce_mem_limit", tables, lru),
  ("Table::evict", partitions, cols), ("Partition::evict", cols, handle), ("Partition::evict", handle, lru),
  ("InnerLocustDB::restore", tables, partitions), ("Table::restore", partitions, cols), ("Partition::restore", cols, handle),
  ("Partition::restore", handle, lru),
  ("Table::heap_size_of_children", partitions, cols), ("Partition::heap_size_of_children", cols, handle),
  ("Partition::heap_size_per_column", cols, handle),
  ("log_table_stats", tables, partitions), ("log_table_stats", partitions, cols),
  -- column loading on a worker
  ("Partition::get_cols", cols, catalogue),
  ("get_or_load", handle, lru), ("get_or_load", cols, handle), ("get_or_load", cols, lru), ("get_or_load", cols, catalogue),
  ("get_or_load", cols, loadScheduled), ("get_or_load", bgLoad, loadScheduled), ("get_or_load", readerSem, catalogue),
  ("service_reads", drsQueue, bgLoad),
  -- answering
  ("QueryTask::push_result", taskState, sender), ("QueryTask::fail_with", taskState, sender)
]

/-- `a` is held while `b` is acquired somewhere in the code -/
def Edge (a b : Lock) : Prop := ∃ f, (f, a, b) ∈ edges

/-- `Path R a l b`: `a R l₀ R l₁ … R b` -/
def Path (R : Lock → Lock → Prop) : Lock → List Lock → Lock → Prop
  | a, [], b => R a b
  | a, c :: rest, b => R a c ∧ Path R c rest b

/-- a wait-for cycle: thread i holds `lᵢ` and waits for `lᵢ₊₁`, the last one waits for the first -/
def Cycle (R : Lock → Lock → Prop) : List Lock → Prop
  | [] => False
  | a :: rest => Path R a rest a

/-- lock field name (as written at the acquisition site) → lock -/
def fieldLock : String → Option Lock
  | "wal_size" => some walSize | "task_queue" => some taskQueue | "pending_wal_flushes" => some pending
  | "tables" => some tables | "frozen_buffer" => some frozen | "partitions" => some partitions | "buffer" => some buffer
  | "column_names" => some columnNames | "cols" => some cols | "col" => some handle | "cache" => some lru
  | "background_load_in_progress" => some bgLoad | "load_scheduled" => some loadScheduled
  | "meta_store" => some catalogue | "unsafe_state" => some taskState | "inner" => some sender
  | _ => none

/-- `<file>:<fn>` → lock fields in textual order of acquisition (as extracted by the harness from /repo).
    `task_queue` inside disk_read_scheduler.rs is the scheduler's own queue (`drsQueue`). -/
def lockSites : List (String × List String) := [
  ("inner_locustdb.rs:new", ["tables"]),
  ("inner_locustdb.rs:snapshot", ["tables"]),
  ("inner_locustdb.rs:full_snapshot", ["tables"]),
  ("inner_locustdb.rs:stop", ["task_queue"]),
  ("inner_locustdb.rs:await_task", ["task_queue"]),
  ("inner_locustdb.rs:schedule", ["task_queue"]),
  ("inner_locustdb.rs:ingest_single", ["tables"]),
  ("inner_locustdb.rs:ingest_efficient", ["wal_size", "tables", "tables"]),
  ("inner_locustdb.rs:wal_flush", ["wal_size", "tables"]),
  ("inner_locustdb.rs:schedule_query_column_names", ["tables"]),
  ("inner_locustdb.rs:trigger_wal_flush", ["pending_wal_flushes"]),
  ("inner_locustdb.rs:restore", ["tables"]),
  ("inner_locustdb.rs:ingest_homogeneous", ["tables"]),
  ("inner_locustdb.rs:ingest_heterogeneous", ["tables"]),
  ("inner_locustdb.rs:drop_pending_tasks", ["task_queue"]),
  ("inner_locustdb.rs:mem_tree", ["tables"]),
  ("inner_locustdb.rs:stats", ["tables"]),
  ("inner_locustdb.rs:create_if_empty_no_ingest", ["tables", "tables"]),
  ("inner_locustdb.rs:create_if_empty", ["tables", "tables"]),
  ("inner_locustdb.rs:enforce_mem_limit", ["tables", "meta_store", "tables"]),
  ("inner_locustdb.rs:enforce_wal_limit", ["wal_size", "pending_wal_flushes", "meta_store", "pending_wal_flushes", "pending_wal_flushes"]),
  ("inner_locustdb.rs:log_metrics", ["wal_size", "wal_size"]),
  ("inner_locustdb.rs:evict_cache", ["tables"]),
  ("inner_locustdb.rs:log_table_stats", ["tables", "partitions"]),
  ("table.rs:snapshot", ["frozen_buffer", "partitions", "buffer"]),
  ("table.rs:init_column_names", ["column_names"]),
  ("table.rs:snapshot_parts", ["partitions"]),
  ("table.rs:freeze_buffer", ["frozen_buffer", "buffer"]),
  ("table.rs:restore_tables_from_disk", ["meta_store"]),
  ("table.rs:restore", ["partitions"]),
  ("table.rs:evict", ["partitions"]),
  ("table.rs:insert_nonresident_partition", ["partitions"]),
  ("table.rs:ingest", ["buffer", "column_names"]),
  ("table.rs:ingest_homogeneous", ["buffer", "column_names"]),
  ("table.rs:ingest_heterogeneous", ["buffer", "column_names"]),
  ("table.rs:batch", ["frozen_buffer", "partitions"]),
  ("table.rs:plan_compaction", ["partitions"]),
  ("table.rs:compact", ["partitions"]),
  ("table.rs:stats", ["buffer"]),
  ("table.rs:heap_size_of_children", ["partitions", "buffer"]),
  ("table.rs:columns_names_loaded", ["column_names"]),
  ("table.rs:column_names", ["column_names"]),
  ("partition.rs:get_cols", ["cols", "cols", "cols"]),
  ("partition.rs:restore", ["cols", "cols", "col"]),
  ("partition.rs:evict", ["cols", "col"]),
  ("partition.rs:mem_tree", ["cols", "col"]),
  ("partition.rs:heap_size_per_column", ["cols", "col"]),
  ("partition.rs:heap_size_of_children", ["cols", "col"]),
  ("partition.rs:col_handle_count", ["cols"]),
  ("partition.rs:clone_column_handles", ["cols"]),
  ("partition.rs:try_get", ["col"]),
  ("disk_read_scheduler.rs:drop", ["load_scheduled"]),        -- LoadInProgress guard: clears the flag when a load ends
  ("disk_read_scheduler.rs:get_or_load", ["load_scheduled", "load_scheduled", "background_load_in_progress", "load_scheduled", "cols"]),
  ("disk_read_scheduler.rs:service_reads", ["background_load_in_progress", "task_queue", "background_load_in_progress"]),
  ("disk_read_scheduler.rs:is_load_scheduled", ["load_scheduled"]),
  ("storage.rs:persist_wal_segment", ["meta_store"]),
  ("storage.rs:unflushed_wal_ids", ["meta_store"]),
  ("storage.rs:persist_partitions", ["meta_store", "meta_store"]),
  ("storage.rs:persist_partition", ["meta_store"]),
  ("storage.rs:prepare_compact", ["meta_store"]),
  ("storage.rs:persist_metastore", ["meta_store", "meta_store"]),
  ("storage.rs:load_column", ["meta_store"]),
  ("storage.rs:partition_has_been_loaded", ["meta_store"]),
  ("storage.rs:mark_subpartition_as_loaded", ["meta_store"]),
  ("query_task.rs:push_result", ["unsafe_state"]),
  ("query_task.rs:push_colstack", ["unsafe_state"]),
  ("query_task.rs:fail_with", ["unsafe_state"]),
  ("shared_sender.rs:send", ["inner"]),
  ("lru.rs:touch", ["cache"]),
  ("lru.rs:put", ["cache"]),
  ("lru.rs:remove", ["cache"]),
  ("lru.rs:evict", ["cache"])
]

/-- lock named by a field at an acquisition site of `file` (`task_queue` inside disk_read_scheduler.rs is the read
    scheduler's own queue) -/
def fieldLockIn (file f : String) : Option Lock :=
  if file == "disk_read_scheduler.rs" && f == "task_queue" then some drsQueue else fieldLock f

/-- a held → acquired pair extracted from the source respects the order: both fields are locks of the order and the
    rank goes strictly up (acquiring a lock that is already held — a self-deadlock of `std::sync::Mutex` — does not) -/
def pairRanked (file a b : String) : Bool :=
  match fieldLockIn file a, fieldLockIn file b with
  | some x, some y => decide (rank x < rank y)
  | _, _ => false

/-- one extracted pair `held>acquired[@callee]` of function `key` = `<file>:<fn>`; `none` = in order -/
def judgePair (key pair : String) : Option String :=
  let file := (key.splitOn ":").headD ""
  let fn := ((key.splitOn ":").drop 1).headD ""
  let (pr, via) := match pair.splitOn "@" with
    | [p, c] => (p, " (via " ++ c ++ ")")
    | _ => (pair, "")
  match pr.splitOn ">" with
  | [a, b] => if pairRanked file a b then none else some ("lock-order " ++ fn ++ ": " ++ a ++ " before " ++ b ++ via)
  | _ => some ("lock-order " ++ fn ++ ": malformed pair " ++ pair)

/-- the specification's judgement of the held → acquired pairs of one function -/
def judgePairs (key : String) (pairs : List String) : String :=
  match pairs.findSome? (judgePair key) with
  | some why => "BAD " ++ why
  | none => "OK"

/-- the wait-for relation generated by a set of extracted pairs (file, held, acquired) -/
def PairEdge (pairs : List (String × String × String)) (x y : Lock) : Prop :=
  ∃ p ∈ pairs, fieldLockIn p.1 p.2.1 = some x ∧ fieldLockIn p.1 p.2.2 = some y

/-- the driver's judgement of one extracted function -/
def judgeSite (key : String) (fields : List String) : String :=
  match lockSites.find? (fun e => e.1 == key) with
  | none => "unknown-function"
  | some e => if e.2 == fields then "OK" else "changed:" ++ ",".intercalate e.2

end LM.LockOrder
