/-
  C10 — interleaving model of ingestion / flush / compaction / eviction / query snapshots.

  Mirrors the critical sections of
    src/mem_store/table.rs            Table::{snapshot, freeze_buffer, batch, compact, evict}
    src/scheduler/inner_locustdb.rs   InnerLocustDB::{ingest_efficient, wal_flush, flush_table_buffer, compact}
  One `Act` = one maximal region executed under one lock set (DESIGN.md Appendix C); a run of the system is any
  interleaving of `Act`s whose guard holds (`apply s a = some s'`).  Rows are abstract tokens; a `Batch` is one
  request's share for one table.  Core-only (no Mathlib): the driver executes the same `apply`.
-/
namespace LM.Conc.Flush

/-- One ingestion request's share for one table. -/
structure Batch where
  req : Nat
  rows : List Nat
  deriving DecidableEq, Repr

def rowsOf (bs : List Batch) : List Nat := bs.flatMap (·.rows)

/-- `Partition`: id, `range.start`, content (as the batches it was built from), residency flag. -/
structure Part where
  id : Nat
  offset : Nat
  batches : List Batch
  resident : Bool
  deriving DecidableEq, Repr

def Part.len (p : Part) : Nat := (rowsOf p.batches).length

def content (ps : List Part) : List Batch := ps.flatMap (·.batches)

/-- `Table` (+ two ghost fields: `log` = every share ever appended, in order; `acked` = how many of them belong to
    requests whose `ingest_efficient` call has returned). -/
structure Table where
  buffer : List Batch := []
  frozen : List Batch := []
  parts : List Part := []        -- kept in insertion order; `offset`s are checked to agree with it (`Tiles`)
  nextId : Nat := 0              -- next_partition_id
  nextOff : Nat := 0             -- next_partition_offset
  log : List Batch := []
  acked : Nat := 0
  deriving Repr

/-- Holder of the `wal_size` mutex. `ingesting req todo`: inside `ingest_efficient`, shares in `todo` not yet appended. -/
inductive Wal where
  | free
  | ingesting (req : Nat) (todo : List (Nat × List Nat))
  deriving DecidableEq, Repr

/-- The single flush thread: idle, or between `freeze` and the end of `wal_flush`. -/
inductive Fl where
  | idle | flushing
  deriving DecidableEq, Repr

structure State where
  tabs : Nat → Table := fun _ => {}
  ntab : Nat := 0                -- tables `< ntab` exist (`self.tables`)
  wal : Wal := .free
  fl : Fl := .idle
  fault : Bool := false          -- `assert!(frozen_buffer.len() == 0)` in freeze_buffer fired

def State.setTab (s : State) (t : Nat) (T : Table) : State :=
  { s with tabs := fun u => if u = t then T else s.tabs u }

/-- `Table::snapshot` (frozen_buffer → partitions → buffer locks held together): the partitions, then the frozen
    buffer as an ephemeral partition at offset `Σ len`, then the open buffer after it. Empty buffers are skipped. -/
def snapshot (T : Table) : List Part :=
  let off := (rowsOf (content T.parts)).length
  T.parts
    ++ (if T.frozen.isEmpty then [] else [⟨0xDEADBEEF, off, T.frozen, true⟩])
    ++ (if T.buffer.isEmpty then [] else [⟨0xDEADBEEF, off + (rowsOf T.frozen).length, T.buffer, true⟩])

/-- `Table::ingest_homogeneous` (buffer lock): append one share. -/
def Table.append (T : Table) (b : Batch) : Table :=
  { T with buffer := T.buffer ++ [b], log := T.log ++ [b] }

/-- `Table::freeze_buffer` (frozen_buffer → buffer locks; caller holds `wal_size`): swap. -/
def Table.freeze (T : Table) : Table := { T with frozen := T.buffer, buffer := T.frozen }

/-- `Table::batch`: frozen rows become partition `nextId` at `nextOff`; the frozen_buffer guard is held until the
    partition is in the map, so this is ONE step. -/
def Table.batch (T : Table) : Table :=
  if T.frozen.isEmpty then T else
  { T with frozen := [],
           parts := T.parts ++ [⟨T.nextId, T.nextOff, T.frozen, true⟩],
           nextId := T.nextId + 1,
           nextOff := T.nextOff + (rowsOf T.frozen).length }

/-- `Table::compact` under ONE `partitions` write lock: remove `n ≥ 1` consecutive partitions starting at position `i`,
    insert the merged one (new id; `range.start` of the first removed). `plan_compaction` always picks a suffix
    (`by_offset[i..]`); the model allows any run. -/
def Table.compact (T : Table) (i n : Nat) : Option Table :=
  let pre := T.parts.take i
  let mid := (T.parts.drop i).take n
  let post := (T.parts.drop i).drop n
  match mid with
  | [] => none
  | p :: _ =>
    if mid.length = n then
      some { T with parts := pre ++ [⟨T.nextId, p.offset, content mid, true⟩] ++ post, nextId := T.nextId + 1 }
    else none

/-- `Partition::evict` / a completed load: residency only. -/
def Table.setResident (T : Table) (pid : Nat) (r : Bool) : Table :=
  { T with parts := T.parts.map fun p => if p.id = pid then { p with resident := r } else p }

def Table.ack (T : Table) : Table := { T with acked := T.log.length }

inductive Act where
  | ingestBegin (req : Nat) (shares : List (Nat × List Nat))   -- takes `wal_size`           [ingest:locked]
  | ingestShare                                                 -- next table's share appended
  | ingestEnd                                                   -- releases `wal_size`; request acknowledged [ingest:done]
  | freeze                                                      -- wal_flush freeze block      [flush:freeze]
  | batch (t : Nat)                                             -- flush_table_buffer / Table::batch [flush:batch:after:t]
  | compactSwap (t i n : Nat)                                   -- Table::compact              [flush:compact:swap]
  | flushEnd                                                    -- both fan-ins returned, metastore persisted, gc done
  | evict (t pid : Nat)
  | load (t pid : Nat)
  | snapshot (t : Nat)                                          -- Table::snapshot of a query (read only)
  deriving Repr

def sharesOk (shares : List (Nat × List Nat)) : Bool := shares.all fun sh => !sh.2.isEmpty

def allFrozenEmpty (s : State) : Bool := (List.range s.ntab).all fun t => (s.tabs t).frozen.isEmpty

def apply (s : State) : Act → Option State
  | .ingestBegin req shares =>
      if s.wal = .free ∧ sharesOk shares = true then
        some { s with wal := .ingesting req shares, ntab := shares.foldl (fun m sh => max m (sh.1 + 1)) s.ntab }
      else none
  | .ingestShare =>
      match s.wal with
      | .ingesting req ((t, rows) :: rest) =>
          some ({ s with wal := .ingesting req rest }.setTab t ((s.tabs t).append ⟨req, rows⟩))
      | _ => none
  | .ingestEnd =>
      match s.wal with
      | .ingesting _ [] => some { s with wal := .free, tabs := fun t => (s.tabs t).ack }
      | _ => none
  | .freeze =>
      if s.wal = .free ∧ s.fl = .idle then
        if allFrozenEmpty s then
          some { s with fl := .flushing, tabs := fun t => if t < s.ntab then (s.tabs t).freeze else s.tabs t }
        else some { s with fault := true }
      else none
  | .batch t => if s.fl = .flushing then some (s.setTab t (s.tabs t).batch) else none
  | .compactSwap t i n =>
      if s.fl = .flushing then (Table.compact (s.tabs t) i n).map (s.setTab t) else none
  | .flushEnd => if s.fl = .flushing ∧ allFrozenEmpty s = true then some { s with fl := .idle } else none
  | .evict t pid => some (s.setTab t ((s.tabs t).setResident pid false))
  | .load t pid => some (s.setTab t ((s.tabs t).setResident pid true))
  | .snapshot _ => some s

/-- All finite runs. -/
inductive Steps : State → State → Prop where
  | refl (s) : Steps s s
  | step {s s' s''} (h : Steps s s') (a : Act) (ha : apply s' a = some s'') : Steps s s''

def init : State := {}

def Reachable (s : State) : Prop := Steps init s

/-- Partition ranges tile `[a, b)` in list order: no gap, no overlap. -/
def Tiles : Nat → List Part → Nat → Prop
  | a, [], b => a = b
  | a, p :: ps, b => p.offset = a ∧ Tiles (a + p.len) ps b

/-- Run a list of actions (driver / examples). -/
def run (s : State) : List Act → Option State
  | [] => some s
  | a :: as => (apply s a).bind (run · as)

end LM.Conc.Flush
