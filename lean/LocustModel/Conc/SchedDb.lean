import LocustModel.Prim
import LocustModel.Conc.Sched
/-
  C11 — the database as a client sees it: requests (`Req`) issued one after the other against the scheduler model,
  what each call returns (`CallOut` / `Reply`) and the state a follow-up call can observe.

  Mirrors the entry points of src/locustdb.rs
    run_query        parse / snapshot in the caller (table locks), then `schedule(QueryTask)` and wait for the receiver
    table_stats / mem_tree   `<dyn Task>::from_fn` + `schedule` (FnTask; the body takes the table locks on the worker)
    ingest_efficient the caller's thread under `wal_size`, then the table's buffer lock
    force_flush      `trigger_wal_flush`
  Core-only.
-/
namespace LM.Sched

/-- what a call returns to its caller -/
inductive Ret where
  | ok | err (kind : String) | failed | panic | hang
  deriving DecidableEq, Repr

def Ret.toString : Ret → String
  | .ok => "ok" | .err k => "err:" ++ k | .failed => "failed" | .panic => "panic" | .hang => "hang"

inductive Req where
  /-- query task: one body outcome per partition -/
  | query (bodies : List Out)
  /-- query answered with an error value of the given kind (decided by the engine; no fault anywhere) -/
  | queryErr (kind : String)
  /-- query over `parts` partitions during which `m` worker panics and `c` caller panics (outside any lock) were observed -/
  | natural (parts m c : Nat)
  /-- query whose failure arises in a chosen phase of its execution: `bodies` = per partition the outcome of the scan and of
      the merges `run()` does itself (`fail_with`), `final` = the outcome of what `push_result` does under the state mutex
      once the last batch arrived: merge across workers, final pass, output conversion (`fail_with_no_lock`).
      `kind` = the kind of the error value (`QueryError`) the caller is given. -/
  | queryPhase (bodies : List Out) (final : Out) (kind : String)
  | fnTask (body : Out)
  | stats | memTree | ingest
  /-- force_flush: k1 batching jobs, f1 of them fault; k2 compaction jobs, f2 fault; tf: the flush thread's own body faults -/
  | flush (k1 f1 k2 f2 tf : Nat)
  /-- the caller faults while holding the lock -/
  | callerFault (l : PLock)
  deriving Repr

structure Db where
  n : Nat
  pool : Pool
  fl : FlushSt := {}
  poisoned : List PLock := []
  deriving Repr

def Db.init (n : Nat) : Db := { n := n, pool := Pool.init n }

/-- `k` outcomes of which the first `f` are faults -/
def jobs (k f : Nat) : List Out := List.replicate (min f k) .fault ++ List.replicate (k - min f k) .done

/-- schedule a task, let the pool run until nothing moves, read the receiver -/
def callTask (cfg : Cfg) (d : Db) (bodies : List Out) (final : Out) : Db × Ret :=
  let id := d.pool.tasks.length
  let p := submit d.pool bodies final
  let p := drain cfg (measure p) p
  let r := match p.tasks[id]? with
    | some t => (match t.reply with
      | some .ok => Ret.ok
      | some .err => Ret.err "value"
      | some .canceled => Ret.err "canceled"
      | none => Ret.hang)
    | none => Ret.hang
  ({ d with pool := p }, r)

/-- the error value of a query task is of the kind the engine produced -/
def Ret.retag (kind : String) : Ret → Ret
  | .err k => if k = "value" then .err kind else .err k
  | r => r

def Db.request (cfg : Cfg) (d : Db) : Req → Db × Ret
  | .query bodies =>
    if PLock.tableLocks ∈ d.poisoned then (d, .panic)            -- Table::snapshot: lock().unwrap() in the caller
    else callTask cfg d bodies .done
  | .queryErr kind => (d, .err kind)
  | .natural parts m c =>
    if c ≠ 0 then (d, .panic)
    else if PLock.tableLocks ∈ d.poisoned then (d, .panic)
    else callTask cfg d (jobs parts m) .done
  | .queryPhase bodies final kind =>
    if PLock.tableLocks ∈ d.poisoned then (d, .panic)
    else ((callTask cfg d bodies final).1, (callTask cfg d bodies final).2.retag kind)
  | .fnTask b => callTask cfg d [b] .done
  | .stats | .memTree =>
    callTask cfg d [if PLock.tableLocks ∈ d.poisoned then .fault else .done] .done   -- the worker meets the poisoned lock
  | .ingest =>
    if PLock.walSize ∈ d.poisoned then (d, .panic)
    else if PLock.tableLocks ∈ d.poisoned then ({ d with poisoned := faultHolding [.walSize] d.poisoned }, .panic)
    else (d, .ok)
  | .flush k1 f1 k2 f2 tf =>
    let (fl, po, out) := forceFlush cfg d.poisoned d.fl (jobs k1 f1) (if tf = 0 then .done else .fault) (jobs k2 f2)
    ({ d with fl := fl, poisoned := po },
      match out with | .ok => .ok | .failed => .failed | .panic => .panic | .hang => .hang)
  | .callerFault l =>
    if l ∈ d.poisoned then (d, .panic)
    else ({ d with poisoned := faultHolding [l] d.poisoned }, .panic)

/-- what the harness observes after a request: live workers, a canary `force_flush`, a canary query on another table -/
structure Obs where
  workers : Nat
  flush : Ret
  canary : Ret
  deriving DecidableEq, Repr

def Db.observe (cfg : Cfg) (d : Db) : Db × Obs :=
  let w := d.pool.workers
  let (d, f) := d.request cfg (.flush 1 0 0 0 0)
  -- the canary table's own locks are never poisoned in the scenarios; only the scheduler matters
  let (d, c) := callTask cfg d [.done] .done
  (d, { workers := w, flush := f, canary := c })

/-- one request followed by the observation -/
def Db.round (cfg : Cfg) (d : Db) (r : Req) : Db × Ret × Obs :=
  let (d, out) := d.request cfg r
  let (d, o) := d.observe cfg
  (d, out, o)

def Db.rounds (cfg : Cfg) (d : Db) : List Req → Db
  | [] => d
  | r :: rs => Db.rounds cfg (d.round cfg r).1 rs

/-! ## Specification -/

/-- Property C11 on one observed round: the call returned (a value, or — for a flush whose job really failed — the
    report that it failed), and the database is intact. -/
def specRound (n : Nat) (r : Req) (out : Ret) (o : Obs) : Option String :=
  let flushFailedAllowed := match r with
    | .flush _ f1 _ _ tf => f1 ≠ 0 || tf ≠ 0
    | _ => false
  if out = .hang then some "call did not return"
  else if out = .panic then some "panic in the caller"
  else if out = .failed && !flushFailedAllowed then some "flush failed without a failing job"
  else if o.workers ≠ n then some "worker lost"
  else if o.flush ≠ .ok then some "flush thread does not answer"
  else if o.canary ≠ .ok then some "canary query not answered"
  else none

/-- The caller's own sections of the request do not fault (job bodies may). -/
def Req.CallerOk : Req → Prop
  | .callerFault _ => False
  | .natural _ _ c => c = 0
  | _ => True

/-- Outcome of a job body given by an `Except Fault` model of the code it executes: a fault of the model is a panic of
    the body, an `ok` result is a value or (if `isErr` says so) an error value. -/
def outOf {β : Type} (r : Except Fault β) (isErr : β → Bool) : Out :=
  match r with
  | .error _ => .fault
  | .ok v => if isErr v then .err else .done

/-- requests whose fault is injected into the caller's own thread are outside the property's domain -/
def Req.inDomain : Req → Bool
  | .callerFault _ => false
  | _ => true

end LM.Sched
