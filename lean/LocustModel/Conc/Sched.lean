/-
  C11 — scheduler model: task queue, worker threads, the single flush thread, pool fan-in, lock poisoning.

  Mirrors (function → definition)
    src/scheduler/inner_locustdb.rs
      schedule                      → `submit`
      await_task                    → `popLoop`, `await`
      worker_loop                   → `finish` (what happens to the thread when `task.execute()` returns / unwinds)
      wal_flush (both fan-ins)      → `recvLoop`, `walFlush`
      trigger_wal_flush             → `forceFlush` (the caller's side)
      enforce_wal_limit             → `flushIter`, `forceFlush`
    src/scheduler/task.rs           FnTask::execute → a task with one body and `final = done`
    src/scheduler/shared_sender.rs  SharedSender::send (first send wins, one shot) → `Task.send`
    src/disk_store/storage.rs       collect_job_results as used by Storage::recover (LocustDB::new) → `recover`
    src/engine/execution/query_task.rs
      QueryTask::new (early answer for zero partitions) → `submit`
      run / next_partition / push_result / push_colstack / fail_with / fail_with_no_lock / completed → `part`
    std::sync::{Mutex,RwLock} poisoning → `faultHolding`, `acquire`
    std::sync::mpsc + threadpool (a pool job that panics never sends; its Sender clone is dropped) → `recvLoop`

  Every job body is a parameter with three possible results (`Out`): it returns, it produces an error *value*
  (QueryError), or it faults (panics).  `Cfg` records the three guards the code has today
  (`Cfg.current`); `Cfg.legacy` is the code before the `fix:` commits, kept so that the theorems can say
  what each guard buys.  Core-only: the driver executes these definitions.
-/
namespace LM.Sched

/-- Result of running a job body. -/
inductive Out where
  | done | err | fault
  deriving DecidableEq, Repr, Inhabited

/-- What the caller's oneshot receiver yields. -/
inductive Reply where
  | ok | err | canceled
  deriving DecidableEq, Repr, Inhabited

structure Cfg where
  /-- `worker_loop` wraps `task.execute()` in `catch_unwind` -/
  catchTask : Bool
  /-- `wal_flush` drops its own `Sender` before each fan-in (`drop(tx)`) -/
  dropTx : Bool
  /-- `enforce_wal_limit` wraps `self.wal_flush()` in `catch_unwind` -/
  catchFlush : Bool
  /-- the fan-ins on the io pool in storage.rs (`recover`, `persist_partitions`, `delete_*`) drop their own `Sender`
      and go through `collect_job_results` -/
  dropTxIo : Bool
  deriving DecidableEq, Repr

def Cfg.current : Cfg := ⟨true, true, true, true⟩
def Cfg.legacy : Cfg := ⟨false, false, false, false⟩

/-! ## Tasks -/

/-- A scheduled task.  `bodies`: one job body per partition (QueryTask) or exactly one (FnTask).
    `final`: the last stage of `push_result` (final pass, `convert_to_output_format`), run under the task's state mutex. -/
structure Task where
  bodies : List Out
  final : Out
  next : Nat := 0              -- batch_index
  completed : Bool := false    -- completed flag
  batches : Nat := 0           -- QueryState::completed_batches
  poisoned : Bool := false     -- unsafe_state mutex poisoned
  reply : Option Reply := none -- what the receiver got (none = still waiting)
  deriving DecidableEq, Repr, Inhabited

/-- `Task::completed` of QueryTask (`FnTask::completed` is constantly false, but an FnTask has parallelism 1 and is
    never looked at again after it was popped). -/
def Task.isCompleted (t : Task) : Bool := t.completed || decide (t.bodies.length ≤ t.next)

/-- `SharedSender::send`: the first send wins. -/
def Task.send (t : Task) (r : Reply) : Task :=
  { t with reply := match t.reply with | none => some r | some x => some x }

/-- The last `Arc` of the task is gone: the oneshot `Sender` is dropped and the receiver sees `Canceled`
    (unless something was sent before). -/
def Task.orphan (t : Task) : Task :=
  { t with reply := match t.reply with | none => some .canceled | some x => some x }

/-! ## Worker pool -/

structure Pool where
  idle : Nat := 0                    -- workers blocked in / about to call await_task
  dead : Nat := 0                    -- worker threads that ended
  busy : List (Nat × Nat) := []      -- workers inside task.execute(): (task id, partitions finished in this run())
  queue : List (Nat × Nat) := []     -- task_queue: (task id, remaining parallelism)
  tasks : List Task := []
  deriving Repr

def Pool.init (n : Nat) : Pool := { idle := n }

/-- live worker threads -/
def Pool.workers (p : Pool) : Nat := p.idle + p.busy.length

def setTask (ts : List Task) (id : Nat) (t : Task) : List Task := ts.set id t

/-- Some queue entry or some executing worker still holds an `Arc` of task `id`
    (the strong count of the `Arc<dyn Task>` is the number of such holders). -/
def referenced (busy queue : List (Nat × Nat)) (id : Nat) : Bool :=
  busy.any (fun e => e.1 == id) || queue.any (fun e => e.1 == id)

/-- An `Arc` of task `id` was just dropped; `busy` / `queue` are the remaining holders. -/
def release (ts : List Task) (busy queue : List (Nat × Nat)) (id : Nat) : List Task :=
  if referenced busy queue id then ts else
  match ts[id]? with
  | none => ts
  | some t => setTask ts id t.orphan

/-- The `while let Some((task, max_parallelism)) = task_queue.pop_front()` loop of `await_task`. -/
def popLoop (busy : List (Nat × Nat)) (ts : List Task) : List (Nat × Nat) → Option Nat × List (Nat × Nat) × List Task
  | [] => (none, [], ts)
  | (id, par) :: q =>
    match ts[id]? with
    | none => popLoop busy ts q
    | some t =>
      if t.isCompleted then popLoop busy (release ts busy q id) q      -- `continue`: the popped Arc is dropped
      else if 1 < par then (some id, (id, par - 1) :: q, ts)            -- push_front(task.clone(), par - 1)
      else (some id, q, ts)

/-- `LocustDB::schedule` of a new task (and `QueryTask::new`'s immediate answer when there is no partition). -/
def submit (p : Pool) (bodies : List Out) (final : Out) : Pool :=
  let t : Task := { bodies := bodies, final := final, reply := if bodies.isEmpty then some .ok else none }
  { p with tasks := p.tasks ++ [t], queue := p.queue ++ [(p.tasks.length, bodies.length)] }

/-- An idle worker runs `await_task`. -/
def await (p : Pool) : Pool :=
  if p.idle = 0 then p else
  match popLoop p.busy p.tasks p.queue with
  | (none, q, ts) => { p with queue := q, tasks := ts }
  | (some id, q, ts) => { p with idle := p.idle - 1, busy := p.busy ++ [(id, 0)], queue := q, tasks := ts }

/-- The thread after `task.execute()` of busy worker `i` ended: normally, or by unwinding (`faulted`).
    Either way the worker's `Arc` of task `id` is dropped. -/
def finish (cfg : Cfg) (p : Pool) (i id : Nat) (t : Task) (faulted : Bool) : Pool :=
  let busy := p.busy.eraseIdx i
  let p := { p with busy := busy, tasks := release (setTask p.tasks id t) busy p.queue id }
  if faulted && !cfg.catchTask then { p with dead := p.dead + 1 } else { p with idle := p.idle + 1 }

/-- `push_result` for the `c` partitions this worker finished, followed by `push_colstack`.
    Returns the task and whether the worker faulted. -/
def pushResults (t : Task) (c : Nat) : Task × Bool :=
  if c = 0 then (t, t.poisoned)                                   -- nothing to push; push_colstack locks the state
  else if t.poisoned then (t, true)                               -- unsafe_state.lock().unwrap()
  else if t.completed then (t, false)                             -- `if self.completed.load() { return }`
  else
    let t := { t with batches := t.batches + c }
    if t.batches = t.bodies.length then
      match t.final with
      | .done => ({ t.send .ok with completed := true }, false)
      | .err => ({ t.send .err with completed := true, next := t.bodies.length }, false)   -- fail_with_no_lock
      | .fault => ({ t with poisoned := true }, true)            -- panic while holding unsafe_state
    else (t, false)

/-- Busy worker `i` calls `next_partition` and runs what follows. -/
def part (cfg : Cfg) (p : Pool) (i : Nat) : Pool :=
  match p.busy[i]? with
  | none => p
  | some (id, c) =>
    match p.tasks[id]? with
    | none => p
    | some t0 =>
      let k := t0.next
      let t := { t0 with next := k + 1 }                          -- fetch_add(1)
      match t.bodies[k]? with
      | none =>                                                   -- loop ends
        let (t', f) := pushResults t c
        finish cfg p i id t' f
      | some .done =>
        if t.completed then finish cfg p i id t false             -- `if self.completed.load() { return }`
        else { p with busy := p.busy.set i (id, c + 1), tasks := setTask p.tasks id t }
      | some .err =>                                              -- fail_with
        if t.poisoned then finish cfg p i id t true
        else if t.completed then finish cfg p i id t false
        else finish cfg p i id { t.send .err with completed := true, next := t.bodies.length } false
      | some .fault => finish cfg p i id t true

inductive Act where
  | submit (bodies : List Out) (final : Out)
  | await
  | part (i : Nat)
  deriving Repr

def step (cfg : Cfg) (p : Pool) : Act → Pool
  | .submit b f => submit p b f
  | .await => await p
  | .part i => part cfg p i

def run (cfg : Cfg) (p : Pool) (as : List Act) : Pool := as.foldl (step cfg) p

/-- A task faults nowhere. -/
def Task.NoFault (t : Task) : Prop := (∀ b ∈ t.bodies, b ≠ .fault) ∧ t.final ≠ .fault ∧ t.poisoned = false

def Act.NoFault : Act → Prop
  | .submit b f => (∀ x ∈ b, x ≠ .fault) ∧ f ≠ .fault
  | _ => True

/-- The canonical scheduler used by the driver: an idle worker takes work whenever there is some, otherwise the
    first busy worker advances.  `fuel` bounds the number of steps. -/
def drain (cfg : Cfg) : Nat → Pool → Pool
  | 0, p => p
  | fuel + 1, p =>
    if p.idle ≠ 0 ∧ p.queue ≠ [] then drain cfg fuel (await p)
    else if p.busy ≠ [] then drain cfg fuel (part cfg p 0)
    else p

/-! ### termination measure (also the fuel the driver gives to `drain`) -/

def lenOf (ts : List Task) (id : Nat) : Nat := match ts[id]? with | some t => t.bodies.length | none => 0
def remOf (ts : List Task) (id : Nat) : Nat := match ts[id]? with | some t => t.bodies.length - t.next | none => 0

/-- weight of a queue entry: it can hand out at most `par` executions, each of weight `≤ 1 + len`, and is itself removed once -/
def qW (ts : List Task) (e : Nat × Nat) : Nat := (e.2 + 1) * (2 + lenOf ts e.1)
/-- weight of an executing worker: the partitions still unclaimed plus the final `next_partition() = None` step -/
def bW (ts : List Task) (e : Nat × Nat) : Nat := 1 + remOf ts e.1

def qSum (ts : List Task) (q : List (Nat × Nat)) : Nat := (q.map (qW ts)).sum
def bSum (ts : List Task) (b : List (Nat × Nat)) : Nat := (b.map (bW ts)).sum

/-- every `await` / `part` step that does anything makes this strictly smaller (Lemmas/C11Progress.lean) -/
def measure (p : Pool) : Nat := qSum p.tasks p.queue + bSum p.tasks p.busy

/-! ## Pool fan-in (`rx.iter().take(k)`) and the flush thread -/

/-- The receiver's loop.  `evs`: the `k` pool jobs in the order they end, `true` = the job sent its result,
    `false` = it died (its `Sender` clone is dropped).  `r` results received so far.
    `none` = the receiver waits forever. -/
def recvLoop (dropTx : Bool) (k : Nat) : Nat → List Bool → Option Nat
  | r, [] => if r = k then some r else if dropTx then some r else none   -- all clones gone; ours only if we dropped it
  | r, true :: evs => if r = k then some r else recvLoop dropTx k (r + 1) evs
  | r, false :: evs => if r = k then some r else recvLoop dropTx k r evs

inductive FlushRes where
  | ok | failed | hang
  deriving DecidableEq, Repr

/-- One `wal_flush`: the batching jobs `b` (one per table, in completion order), the flush thread's own work between the
    phases `tb`, the compaction jobs `c`. -/
def walFlush (cfg : Cfg) (b : List Out) (tb : Out) (c : List Out) : FlushRes :=
  match recvLoop cfg.dropTx b.length 0 (b.map (· != .fault)) with
  | none => .hang
  | some r =>
    if r < b.length then .failed                                  -- assert!(batched_tables == table_count)
    else if tb = .fault then .failed
    else match recvLoop cfg.dropTx c.length 0 (c.map (· != .fault)) with
      | none => .hang
      | some _ => .ok                                             -- failed compactions are skipped

/-- `collect_job_results` of storage.rs as used by `Storage::recover` (hence by `LocustDB::new`): wait for the `k` load
    jobs; a missing result is a panic of the waiting thread, which `InnerLocustDB::new` propagates to its caller
    (`join().unwrap()`).  `none` = `LocustDB::new` never returns. -/
def recover (cfg : Cfg) (jobs : List Out) : Option Bool :=
  match recvLoop cfg.dropTxIo jobs.length 0 (jobs.map (· != .fault)) with
  | none => none
  | some r => some (decide (r = jobs.length))       -- true: opened; false: panicked in the caller

/-- Locks whose poisoning the model tracks (see `Conc/LockOrder.lean` for the full order). -/
inductive PLock where
  | walSize | tableLocks
  deriving DecidableEq, Repr

structure FlushSt where
  alive : Bool := true        -- the flush thread runs its loop
  stuck : Bool := false       -- it waits forever inside a fan-in
  failedFlag : Bool := false  -- wal_flush_failed
  deriving DecidableEq, Repr

/-- What a caller of a blocking entry point observes. -/
inductive CallOut where
  | ok | failed | panic | hang
  deriving DecidableEq, Repr

/-- A thread faults while holding locks: the exclusively held ones are poisoned. -/
def faultHolding (held : List PLock) (poisoned : List PLock) : List PLock := poisoned ++ held.filter (· ∉ poisoned)

/-- Top of the `enforce_wal_limit` loop: `wal_size.lock().unwrap()` is outside the `catch_unwind`. -/
def flushIter (poisoned : List PLock) (s : FlushSt) : FlushSt :=
  if s.alive && !s.stuck && decide (PLock.walSize ∈ poisoned) then { s with alive := false } else s

/-- `force_flush`: push a sender, the flush thread runs `wal_flush` and answers.
    `frozenPoisoned`: `freeze_buffer` meets a poisoned table lock (inside the `wal_size` critical section). -/
def forceFlush (cfg : Cfg) (poisoned : List PLock) (s : FlushSt) (b : List Out) (tb : Out) (c : List Out) :
    FlushSt × List PLock × CallOut :=
  let s := flushIter poisoned s
  if !s.alive || s.stuck then (s, poisoned, .hang)                 -- nobody takes the sender
  else
    let (res, poisoned') :=
      if PLock.tableLocks ∈ poisoned then (FlushRes.failed, faultHolding [.walSize] poisoned)
      else (walFlush cfg b tb (if s.failedFlag then [] else c), poisoned)     -- no compaction once a flush has failed
    match res with
    | .ok => (s, poisoned', .ok)
    | .hang => ({ s with stuck := true }, poisoned', .hang)
    | .failed =>
      -- the senders are dropped: `receiver.recv()` fails in the caller
      if cfg.catchFlush then ({ s with failedFlag := true }, poisoned', .failed)
      else ({ s with alive := false }, poisoned', .failed)

end LM.Sched
