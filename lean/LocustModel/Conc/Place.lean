import LocustModel.Conc.Flush
import LocustModel.Conc.Cols
/-
  C10 — placements.  Turns one harness scenario (harness/src/bin/c10.rs: a flush / an ingestion parked at a labelled
  step boundary, or a query held right after its snapshot while a flush runs underneath) into
    * a list of `Flush.Act`s — the visible content at the query is `content (snapshot …)` of the state they lead to;
    * one `Cols.PState` per partition object the query's snapshot holds, in the life phase the label implies — the
      query faults iff some `getColsMany` on them faults.
  Nothing here is proved about; the theorems of Thm/C10 are about `Flush.apply` / `Cols.getCols`, which this file only
  composes.  Core-only (linked into the driver).

  Columns (numbers = sort order of the names, needed by `beyondLast`):
      bid 0, idx 1, nosuch 2 (never ingested), tag 3, val 4, xtr 5 (only the first buffered batch, if x=1)
  Tables: t = 0, u = 1.
-/
namespace LM.Conc.Place
open LM LM.Conc.Flush LM.Conc.Cols

inductive QKind where
  | present | absent | star | extra
  deriving DecidableEq, Repr

/-- Where the parked flush / ingestion stands, or (hold mode) how far the flush got under the held query. -/
inductive Stage where
  | freezeBefore | freezeAfter
  | batchTaken                -- INSIDE Table::batch: frozen rows taken, partition not yet inserted (frozen_buffer lock held)
  | swapMid                   -- INSIDE Table::compact: old partitions removed, merged one not yet inserted (write lock held)
  | batchAfter | handlesAfter | batchingDone | persistFiles | persistAfter | swapBefore
  | swapAfter | compactFiles | prepareAfter | compactionDone | metaAfter | gcParts | gcWal
  | ingestLocked | ingestDone
  | done                      -- hold mode only: the flush ran to completion
  deriving DecidableEq, Repr

/-- Position in program order of `wal_flush` (for "has step X happened yet"). -/
def Stage.ord : Stage → Nat
  | .freezeBefore => 0 | .freezeAfter => 10 | .batchTaken => 15 | .batchAfter => 20 | .handlesAfter => 30 | .batchingDone => 40
  | .persistFiles => 50 | .persistAfter => 60 | .swapBefore => 70 | .swapMid => 75 | .swapAfter => 80 | .compactFiles => 90
  | .prepareAfter => 100 | .compactionDone => 110 | .metaAfter => 120 | .gcParts => 130 | .gcWal => 140
  | .done => 150 | .ingestLocked => 0 | .ingestDone => 0

/-- Labels inside a critical section: the model has no state there — the step is atomic — so a snapshot cannot be taken;
    the observable consequence is that the query blocks until the step is over. -/
def Stage.inner : Stage → Option Stage
  | .batchTaken => some .batchAfter
  | .swapMid => some .swapAfter
  | _ => none

structure Scen where
  hold : Bool
  stage : Stage
  otherTable : Bool        -- the label names table u (two-table placements); the stage then says where u's job stands
  disk : Bool
  ev : Bool                -- evict_cache after buffering, before the parked operation starts
  rs : Bool                -- restart after the `pre` flushes (partitions restored non-resident)
  pre : List Nat           -- batch sizes, each flushed on its own
  buf : List Nat           -- batch sizes left in the open buffer
  x : Bool                 -- first buffered batch has column xtr
  two : Bool               -- every request also has a share for table u
  midEvict : Bool          -- evict_cache while the flush is parked (place: at the label; hold: right before the swap)
  q : QKind
  ing2 : Option Nat
  comp : Nat               -- partitions of t compacted by the parked flush (observed; 0 = none)
  deriving Repr

def baseCols : List Nat := [0, 1, 3, 4]
def Scen.tabCols (sc : Scen) : List Nat := baseCols ++ (if sc.x then [5] else [])
def Scen.qCols (sc : Scen) : List Nat :=
  match sc.q with
  | .present => [0, 1, 4]
  | .absent => [0, 1, 2]
  | .extra => [0, 1, 5]
  | .star => sc.tabCols

/-! ## Content: the Flush model -/

def ingestActs (b n : Nat) (two : Bool) : List Act :=
  [.ingestBegin b ([(0, List.range n)] ++ (if two then [(1, List.range (n + 1))] else [])), .ingestShare]
    ++ (if two then [.ingestShare] else []) ++ [.ingestEnd]

def batchAll (two : Bool) : List Act := [.batch 0] ++ (if two then [.batch 1] else [])

/-- The history before the parked operation: every `pre` batch flushed on its own, the `buf` batches buffered.
    (Compactions of these earlier flushes are left out: they do not change `content` — C10_snapshot_prefix — and the
    harness shapes have none: cf=1 with one `pre` batch, cf=4 with at most four.) -/
def setupActs (sc : Scen) : List Act :=
  let pre := (List.range sc.pre.length).flatMap fun i =>
    ingestActs (i + 1) (sc.pre.getD i 0) sc.two ++ [.freeze] ++ batchAll sc.two ++ [.flushEnd]
  let buf := (List.range sc.buf.length).flatMap fun i =>
    ingestActs (sc.pre.length + i + 1) (sc.buf.getD i 0) sc.two
  pre ++ buf

def Scen.nIssued0 (sc : Scen) : Nat := sc.pre.length + sc.buf.length

/-- Steps of the parked flush up to the label (table t's view; for a label of table u only what is certain for t). -/
def flushActsTo (sc : Scen) (st : Stage) (nparts : Nat) : List Act :=
  if sc.otherTable then
    (if st.ord ≥ Stage.freezeAfter.ord then [.freeze] else [])
      ++ (if st.ord ≥ Stage.batchAfter.ord then [.batch 1] else [])
      ++ (if st.ord ≥ Stage.batchingDone.ord then [.batch 0] else [])
  else
    (if st.ord ≥ Stage.freezeAfter.ord then [.freeze] else [])
      ++ (if st.ord ≥ Stage.batchAfter.ord then [.batch 0] else [])
      ++ (if st.ord ≥ Stage.batchingDone.ord ∧ sc.two then [.batch 1] else [])
      ++ (if st.ord ≥ Stage.swapAfter.ord ∧ sc.comp > 0 then [.compactSwap 0 (nparts - sc.comp) sc.comp] else [])

/-- Finish whatever is in progress: the parked ingestion, then the flush (batch every table, end). -/
def complete (s : State) (fuel : Nat := 8) : Option State :=
  match fuel with
  | 0 => some s
  | fuel + 1 =>
    match s.wal with
    | .ingesting _ (_ :: _) => (apply s .ingestShare).bind (complete · fuel)
    | .ingesting _ [] => (apply s .ingestEnd).bind (complete · fuel)
    | .free =>
      if s.fl = .flushing then (run s [.batch 0, .batch 1, .flushEnd])
      else some s

def showRows (bs : List Batch) : String :=
  let cells := bs.flatMap fun b => b.rows.map fun i => toString b.req ++ "." ++ toString i
  "ok:" ++ toString cells.length ++ ":" ++ ",".intercalate cells

def visible (s : State) : String := showRows (content (snapshot (s.tabs 0)))

/-! ## Faults: the Cols model -/

def mkCols (cs : List Nat) (h : Handle) : List (Nat × Handle) := cs.map (·, h)

/-- Everything that is in the LRU gets evicted: every handle that holds a column. -/
def evictAll (p : PState) : PState :=
  { p with cols := p.cols.map fun kh => if kh.2 = .resident then (kh.1, .nonresident) else kh }

/-- A partition made by `Table::batch` in this process (`ephemeral = true`!), at the given phase. -/
def batchBorn (cs : List Nat) (ph : Phase) : PState :=
  { phase := ph, ephemeral := true, cols := mkCols cs .resident, fileCols := cs, loadedFlag := true }

/-- Memory-only database: `NoopStorage::partition_has_been_loaded = true`, no catalogue is ever indexed and nothing can
    be non-resident — the same answers a catalogued, loaded partition gives. -/
def memView (p : PState) : PState := { p with phase := .persisted, loadedFlag := true }

def freshPhase (st : Stage) : Phase :=
  if st.ord ≤ Stage.batchAfter.ord then .fresh
  else if st.ord ≤ Stage.persistFiles.ord then .handlesRead
  else .persisted

def mergedPhase (st : Stage) : Phase :=
  if st.ord ≤ Stage.compactFiles.ord then .swapped else .persisted

/-- The partition objects of table t a snapshot taken at the label holds (buffer views left out: they are ephemeral
    with nothing evicted and cannot fault — C10_query_cols_ok_ephemeral_partial). -/
def partsAt (sc : Scen) : List PState :=
  let st := sc.stage
  let wrap (p : PState) : PState :=
    let p := if sc.midEvict ∧ sc.disk then evictAll p else p
    if sc.disk then p else memView p
  let preP : PState :=
    let p := batchBorn baseCols .persisted
    if sc.ev ∧ sc.disk then evictAll p else p
  let compacted := sc.comp > 0 ∧ st.ord ≥ Stage.swapAfter.ord ∧ ¬ sc.otherTable
  let hasFresh := (st.ord ≥ Stage.batchAfter.ord ∧ ¬ sc.otherTable) ∨ (sc.otherTable ∧ st.ord ≥ Stage.batchingDone.ord)
  let freshCols := sc.tabCols
  let fresh := batchBorn freshCols (if sc.otherTable then .handlesRead else freshPhase st)
  if st = .ingestLocked ∨ st = .ingestDone then (List.replicate sc.pre.length preP).map wrap
  else if compacted then
    let kept := sc.pre.length + 1 - sc.comp
    ((List.replicate kept preP) ++ [{ bornByCompact sc.tabCols with phase := mergedPhase st }]).map wrap
  else
    ((List.replicate sc.pre.length preP) ++ (if hasFresh ∧ ¬ sc.buf.isEmpty then [fresh] else [])).map wrap

/-- One query over a set of partition objects: `getColsMany` on each; the first fault ends the worker. -/
def queryParts (ps : List PState) (cols : List Nat) : Except Fault (List PState) :=
  ps.mapM fun p => getColsMany p cols

/-- Hold mode: the life of ONE of the newest `pre` partitions under the flush, up to the point the held query is
    released. -/
def heldPart (sc : Scen) : Except Fault PState := do
  let p0 : PState := if sc.rs then restored baseCols else
    (let p := batchBorn baseCols .persisted; if sc.ev then evictAll p else p)
  let st := sc.stage
  let compacts := sc.comp > 0 ∧ st.ord ≥ Stage.swapBefore.ord
  -- compaction reads every column of the table from each of its inputs
  let p1 ← if compacts then getColsMany p0 sc.tabCols else pure p0
  let p2 := if sc.midEvict ∧ compacts then evictAll p1 else p1
  let ph : Phase :=
    if ¬ (sc.comp > 0) ∨ st.ord < Stage.swapAfter.ord then .persisted
    else if st.ord < Stage.prepareAfter.ord then .removed
    else if st.ord < Stage.gcParts.ord then .uncatalogued
    else .deleted
  let p3 := { p2 with phase := ph }
  pure (if sc.disk then p3 else memView p3)

/-! ## Predictions -/

structure Pred where
  q1 : String := "_"
  i2 : String := "_"
  q2 : String := "_"
  qh : String := "_"
  fl : String := "ok"
  fin : String := "_"
  faultPredicted : Bool := false
  stuck : Bool := false        -- some model action was not enabled: the scenario is outside the model
  undetermined : Bool := false -- which partition the held worker carries is not determined by the scenario

def faultTok : String := "err:canceled"

def predictPlace (sc : Scen) : Pred :=
  match run init (setupActs sc) with
  | none => { stuck := true }
  | some s0 =>
    let nparts := (s0.tabs 0).parts.length + (if sc.buf.isEmpty then 0 else 1)
    let isIngest := sc.stage = .ingestLocked ∨ sc.stage = .ingestDone
    let parkedB := sc.nIssued0 + 1
    let parkedActs : List Act :=
      if isIngest then
        let a := ingestActs parkedB (sc.ing2.getD 2) sc.two
        if sc.stage = .ingestLocked then a.take 1 else a.dropLast
      else flushActsTo sc sc.stage nparts
    match sc.stage.inner with
    | some after =>
      -- parked inside an atomic step: the query blocks (q1) and takes its snapshot once the step is over (q2)
      match run s0 (flushActsTo sc after nparts) with
      | none => { stuck := true }
      | some s1 =>
        match queryParts (partsAt { sc with stage := after }) sc.qCols, complete s1 with
        | .ok _, some s3 => { q1 := "blocked", q2 := visible s1, fin := visible s3 }
        | .error _, _ => { q1 := "blocked", q2 := faultTok, faultPredicted := true }
        | _, none => { q1 := "blocked", q2 := visible s1, stuck := true }
    | none =>
    match run s0 parkedActs with
    | none => { stuck := true }
    | some s1 =>
      let parts := partsAt sc
      match queryParts parts sc.qCols with
      | .error _ => { q1 := faultTok, faultPredicted := true }
      | .ok parts1 =>
        let q1 := visible s1
        if isIngest then
          -- a flush started now cannot freeze: the ingestion holds the `wal_size` lock
          let i2 := if (apply s1 .freeze).isNone then "blocked" else "flushed"
          match complete s1 with
          | none => { q1 := q1, i2 := i2, stuck := true }
          | some s2 =>
            -- then the blocked flush runs
            match (run s2 ([.freeze] ++ batchAll true ++ [.flushEnd])) with
            | none => { q1 := q1, i2 := i2, stuck := true }
            | some s3 => { q1 := q1, i2 := i2, q2 := q1, fin := visible s3 }
        else
          match sc.ing2 with
          | none =>
            match complete s1 with
            | none => { q1 := q1, stuck := true }
            | some s3 => { q1 := q1, fin := visible s3 }
          | some n =>
            match run s1 (ingestActs (sc.nIssued0 + 1) n sc.two) with
            | none => { q1 := q1, stuck := true }
            | some s2 =>
              match queryParts parts1 sc.qCols with
              | .error _ => { q1 := q1, i2 := "ok", q2 := faultTok, faultPredicted := true }
              | .ok _ =>
                match complete s2 with
                | none => { q1 := q1, i2 := "ok", q2 := visible s2, stuck := true }
                | some s3 => { q1 := q1, i2 := "ok", q2 := visible s2, fin := visible s3 }

def predictHold (sc : Scen) : Pred :=
  match run init (setupActs sc) with
  | none => { stuck := true }
  | some s0 =>
    let undet := sc.comp > 0 ∧ sc.comp - 1 < sc.pre.length ∧ sc.pre.length > 0 ∧ sc.comp - 1 > 0
    let fin := match run s0 ([.freeze] ++ batchAll sc.two ++ [.flushEnd]) with
      | some s1 => visible s1
      | none => "model-stuck"
    match (heldPart sc).bind (fun p => getColsMany p sc.qCols) with
    | .error _ => { qh := faultTok, faultPredicted := true, undetermined := undet }
    | .ok _ => { qh := visible s0, fin := fin, undetermined := undet }

end LM.Conc.Place
