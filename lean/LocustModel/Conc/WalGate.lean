import LocustModel.Gen.WalProtocol
/-
  C11 — the log-size gate of `InnerLocustDB::ingest_efficient` against the size trigger of the flush thread
  (`enforce_wal_limit`), as a client sees it: does the call return?

  The two comparisons are the ones FOUND IN THE SOURCE (`Gen/WalProtocol.lean`, regenerated from the source tree by every
  check run): `while *wal_size <ingestGate> max { wait }` and `if wal_size <flushTriggerSize> max || … { wal_flush() }`.
  The full interleaved machine (flush in flight, pending force_flush requests, file-count trigger) is C18's
  (`Store/Interleave.lean`, `C18_no_stuck_ingest`); this is its projection on one number, executable by the C11 driver.
  Core-only.
-/
namespace LM.WalGate
open LM.Gen.WalProtocol

/-- One `ingest_efficient` call that adds `add` accounted bytes, against accounted size `size` and limit `max`, no other
    client active, followed by the flush thread's next poll.  Returns (the call returned, accounted size afterwards).
    A waiting call is released only by a flush (`*wal_size = 0; notify_all`), and with no force_flush pending and few
    files the flush thread starts one only if ITS comparison holds for the same two numbers. -/
def ingestCall (max size add : Nat) : Bool × Nat :=
  let waits := ingestGate.holds size max
  if waits && !flushTriggerSize.holds size max then (false, size)
  else
    let size' := (if waits then 0 else size) + add
    (true, if flushTriggerSize.holds size' max then 0 else size')

/-- a sequence of calls; stops at the first one that does not return -/
def ingestCalls (max : Nat) : Nat → List Nat → List (Bool × Nat)
  | _, [] => []
  | size, a :: as =>
    let r := ingestCall max size a
    r :: (if r.1 then ingestCalls max r.2 as else [])

end LM.WalGate
