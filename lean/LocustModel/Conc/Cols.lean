import LocustModel.Prim
/-
  C10, second half — column resolution of ONE partition object (`Arc<Partition>`) over its life, as seen by
  queries that hold it in a snapshot, by the flush thread and by eviction.

  Mirrors  src/mem_store/partition.rs       Partition::{get_cols, evict, clone_column_handles}, ColumnHandle
           src/scheduler/disk_read_scheduler.rs  DiskReadScheduler::get_or_load
           src/disk_store/storage.rs         Storage::{load_column, partition_has_been_loaded}  (index into the catalogue)
           src/scheduler/inner_locustdb.rs   flush_table_buffer, compact / prepare_compact
           src/mem_store/table.rs            Table::batch (captures the new partition's columns BEFORE it is registered — fix 
                                             of finding c10-fresh-partition-placeholder; `flushHandlesOld` keeps the old code)
  Columns are numbers.  A disk-backed database is modelled (`Storage`); with `NoopStorage` the catalogue questions
  are answered without indexing and nothing can be non-resident.
-/
namespace LM.Conc.Cols
open LM

/-- `ColumnHandle`: `resident` (col = Some), `nonresident` (col = None, not marked empty), `empty` (marker for a
    column the partition does not have). -/
inductive Handle where
  | resident | nonresident | empty
  deriving DecidableEq, Repr

/-- Where the partition is in its life (which of table map / catalogue / files know it). -/
inductive Phase where
  | fresh          -- registered by Table::batch; flush has not yet read its handles; not persisted   [flush:batch:after]
  | handlesRead    -- flush_table_buffer cloned the columns; files/catalogue entry not yet written     [flush:handles:after]
  | swapped        -- registered by Table::compact; prepare_compact not yet done                       [flush:compact:swap:after]
  | persisted      -- in table map, catalogue and files
  | removed        -- compacted away from the table map (snapshots may still hold it); catalogue + files still there
  | uncatalogued   -- prepare_compact removed the catalogue entry; files still there                   [flush:compact:prepare:after]
  | deleted        -- delete_orphaned_partitions removed the files                                     [flush:gc:partitions:after]
  deriving DecidableEq, Repr

structure PState where
  phase : Phase
  ephemeral : Bool               -- Partition.ephemeral: true for Partition::from_buffer (batch() too!), false for compact()/restore
  cols : List (Nat × Handle)     -- Partition.cols
  fileCols : List Nat            -- the columns the partition really has (what its files contain)
  loadedFlag : Bool              -- SubpartitionMetadata.loaded
  deriving DecidableEq, Repr

instance {α : Type} [DecidableEq α] : DecidableEq (Except Fault α) := fun a b =>
  match a, b with
  | .ok x, .ok y => if h : x = y then isTrue (by rw [h]) else isFalse (fun e => h (by injection e))
  | .error x, .error y => if h : x = y then isTrue (by rw [h]) else isFalse (fun e => h (by injection e))
  | .ok _, .error _ => isFalse (fun e => by cases e)
  | .error _, .ok _ => isFalse (fun e => by cases e)

def Phase.inTable : Phase → Bool
  | .fresh | .handlesRead | .swapped | .persisted => true
  | _ => false
def Phase.inCatalogue : Phase → Bool
  | .persisted | .removed => true
  | _ => false
def Phase.filesExist : Phase → Bool
  | .persisted | .removed | .uncatalogued => true
  | _ => false

def lookup (c : Nat) : List (Nat × Handle) → Option Handle
  | [] => none
  | (k, h) :: rest => if k = c then some h else lookup c rest

def setH (c : Nat) (h : Handle) : List (Nat × Handle) → List (Nat × Handle)
  | [] => [(c, h)]
  | (k, x) :: rest => if k = c then (k, h) :: rest else (k, x) :: setH c h rest

/-- `Storage::load_column` + the tail of `get_or_load`: every column of the file becomes a resident handle. -/
def loadAll (fileCols : List Nat) (cols : List (Nat × Handle)) : List (Nat × Handle) :=
  fileCols.foldl (fun acc c => setH c .resident acc) cols

/-- `get_or_load` for the handle `h` of column `c`. Returns the new state and whether a column was produced. -/
def getOrLoad (p : PState) (c : Nat) : Handle → Except Fault (PState × Bool)
  | .empty => .ok (p, false)
  | .resident => .ok (p, true)
  | .nonresident =>
      -- load_column: `self.partitions[table][&partition]` then `writer.load(&path).unwrap()`
      if !p.phase.inCatalogue then .error .index
      else if !p.phase.filesExist then .error .unwrap
      else
        let cols := loadAll p.fileCols p.cols
        if c ∈ p.fileCols then .ok ({ p with cols := cols, loadedFlag := true }, true)
        else .ok ({ p with cols := setH c .empty cols, loadedFlag := true }, false)

/-- `PartitionMetadata::subpartition_has_been_loaded`: `subpartitions_by_last_column.lower_bound(Included(c))` finds
    nothing when `c` sorts after every column of the partition — the answer is then `true` without looking at the flag.
    (One sub-partition is modelled; column numbers stand for names in their sort order.) -/
def beyondLast (p : PState) (c : Nat) : Bool := p.fileCols.all (· < c)

/-- `Partition::get_cols` for one column. -/
def getCols (p : PState) (c : Nat) : Except Fault (PState × Bool) :=
  match lookup c p.cols with
  | some h => getOrLoad p c h
  | none =>
      if p.ephemeral then getOrLoad { p with cols := setH c .empty p.cols } c .empty
      else if !p.phase.inCatalogue then .error .index          -- partition_has_been_loaded indexes the catalogue
      else if beyondLast p c || p.loadedFlag then getOrLoad { p with cols := setH c .empty p.cols } c .empty
      else getOrLoad { p with cols := setH c .nonresident p.cols } c .nonresident

/-- `Partition::get_cols` for a set of columns (one `query:cols(p)` step of a query / of compaction): the columns in
    turn; the first fault ends the worker. -/
def getColsMany (p : PState) : List Nat → Except Fault PState
  | [] => .ok p
  | c :: cs => match getCols p c with
    | .ok (p', _) => getColsMany p' cs
    | .error f => .error f

/-- flush_table_buffer after `Table::batch`: the columns to persist were captured inside `Table::batch`, before the
    partition became visible; nothing is read from the (shared, mutable) handle map any more. -/
def flushHandles (p : PState) : Except Fault PState :=
  if p.phase = .fresh then .ok { p with phase := .handlesRead } else .ok p

/-- The columns `flush_table_buffer` hands to `subpartition()` / `persist_partitions`. -/
def flushedCols (p : PState) : List Nat := p.fileCols

/-- The code before the fix (kept for the regression example in Thm/C10 and the harness corpus):
    `partition.clone_column_handles().map(|c| c.try_get().as_ref().unwrap().clone())` AFTER the partition was registered. -/
def flushHandlesOld (p : PState) : Except Fault PState :=
  if p.phase = .fresh then
    if p.cols.all (fun kh => kh.2 = .resident) then .ok { p with phase := .handlesRead } else .error .unwrap
  else .ok p

/-- A tempting smaller repair — skip handles without a column (`filter_map`) — would not fault but persist only these
    columns: an evicted column of the fresh partition would silently be missing from its file. -/
def flushedColsSkipping (p : PState) : List Nat := (p.cols.filter (fun kh => kh.2 = .resident)).map (·.1)

/-- `Partition::evict` (reached through `Table::evict`, i.e. only while the partition is in the table map). -/
def evict (p : PState) (c : Nat) : PState :=
  if p.phase.inTable then
    match lookup c p.cols with
    | some _ => { p with cols := setH c .nonresident p.cols }
    | none => p
  else p

inductive PAct where
  | getCols (c : Nat)
  | flushHandles
  | persist            -- handlesRead → persisted (files, then catalogue insert) / swapped → persisted (prepare_compact)
  | remove             -- persisted → removed (Table::compact of a later flush)
  | uncatalogue        -- removed → uncatalogued (prepare_compact)
  | deleteFiles        -- uncatalogued → deleted
  | evict (c : Nat)
  deriving Repr

/-- `none` = action not enabled in this phase (program order of the single flush thread). -/
def papply (p : PState) : PAct → Option (Except Fault PState)
  | .getCols c => some ((getCols p c).map (·.1))
  | .flushHandles => if p.phase = .fresh then some (flushHandles p) else none
  | .persist => if p.phase = .handlesRead ∨ p.phase = .swapped then some (.ok { p with phase := .persisted }) else none
  | .remove => if p.phase = .persisted then some (.ok { p with phase := .removed }) else none
  | .uncatalogue => if p.phase = .removed then some (.ok { p with phase := .uncatalogued }) else none
  | .deleteFiles => if p.phase = .uncatalogued then some (.ok { p with phase := .deleted }) else none
  | .evict c => some (.ok (evict p c))

/-- Births. -/
def bornByBatch (cs : List Nat) : PState :=
  { phase := .fresh, ephemeral := true, cols := cs.map (·, .resident), fileCols := cs, loadedFlag := true }
def bornByCompact (cs : List Nat) : PState :=
  { phase := .swapped, ephemeral := false, cols := cs.map (·, .resident), fileCols := cs, loadedFlag := true }
def restored (cs : List Nat) : PState :=
  { phase := .persisted, ephemeral := false, cols := [], fileCols := cs, loadedFlag := false }

inductive Born : PState → Prop where
  | batch (cs) : Born (bornByBatch cs)
  | compact (cs) : Born (bornByCompact cs)
  | restored (cs) : Born (restored cs)

/-- Fault-free histories of a partition object. -/
inductive PReach : PState → Prop where
  | born {p} (h : Born p) : PReach p
  | step {p p'} (h : PReach p) (a : PAct) (ha : papply p a = some (.ok p')) : PReach p'

/-- Run a list of actions; `.error` as soon as one faults, disabled actions are skipped. -/
def prun (p : PState) : List PAct → Except Fault PState
  | [] => .ok p
  | a :: as =>
    match papply p a with
    | none => prun p as
    | some (.ok p') => prun p' as
    | some (.error f) => .error f

end LM.Conc.Cols
