import LocustModel.Prim
import LocustModel.Wire.EventBuffer
import LocustModel.Wire.ApiInts
import LocustModel.Wire.XorFloat
/-
  Model of the binary response path of the HTTP server (C17):

    src/server/mod.rs
      encode_column                         → `encodeColumn`   (arm by arm; the 4-bit `type_signature` of a Mixed
                                                                column and its five outcomes, incl. the `unreachable!()`s)
      multi_query_cols (Some(encoding_opts)) → `optsFor`, `encodeResponse` (`full_precision_cols`, `.collect()` into a HashMap)
    locustdb-serialization/src/api.rs
      MultiQueryResponse::serialize / deserialize → `transmit` (capnp = identity on the column tree, trusted; integer
                                                                columns go through the layouts of `Wire/ApiInts.lean`)
    src/logging_client/mod.rs
      LoggingClient::multi_query            → `clientDecode`   (`Column::Xor(data)` → `Column::Float(decode(data).unwrap())`)

  Values: `Val` (= `RawVal` / `AnyVal`) from `Wire/EventBuffer.lean`; f64 = 64-bit pattern; strings opaque.
  Core-only imports: this file is linked into the driver.
-/
namespace LM.Wire.Response
open LM

abbrev Val := LM.Wire.EventBuffer.Val

/-- `xor_float::NULL` = `F64_NULL`: the NaN pattern that stands for NULL in float data. -/
def NULL_BITS : Nat := 0x7ffaaaaaaaaaaaaa

/-- `enum BasicTypeColumn` (a result column of the embedded API). -/
inductive BCol where
  | int (xs : List Int)
  | float (xs : List Nat)
  | str (xs : List String)
  | null (n : Nat)
  | mixed (xs : List Val)
  deriving DecidableEq, Repr

/-- The two `EncodingOpts` fields `encode_column` reads. -/
structure Opts where
  xor : Bool
  mantissa : Option Nat
  deriving DecidableEq, Repr

/-- `enum api::Column` (a column on the wire / at the client). -/
inductive WCol where
  | float (xs : List Nat)
  | int (xs : List Int)
  | str (xs : List String)
  | mixed (xs : List Val)
  | null (n : Nat)
  | xor (bytes : List Nat)
  deriving DecidableEq, Repr

/-- The bit a value contributes to `type_signature`. -/
def sigBit : Val → Nat
  | .int _ => 1
  | .str _ => 2
  | .null => 4
  | .float _ => 8

/-- `let mut type_signature = 0u8; for val in &xs { type_signature |= … }`. -/
def typeSignature (xs : List Val) : Nat := xs.foldl (fun s v => s ||| sigBit v) 0

/-- `.map(|val| match val { Value::Str(str) => str, _ => unreachable!() })`. -/
def allStrs : List Val → Except Fault (List String)
  | [] => .ok []
  | .str s :: rest =>
    match allStrs rest with
    | .ok r => .ok (s :: r)
    | .error f => .error f
  | _ :: _ => .error .unreachable

/-- `.map(|val| match val { Value::Int(int) => int, _ => unreachable!() })`. -/
def allInts : List Val → Except Fault (List Int)
  | [] => .ok []
  | .int i :: rest =>
    match allInts rest with
    | .ok r => .ok (i :: r)
    | .error f => .error f
  | _ :: _ => .error .unreachable

/-- `.map(|val| match val { Value::Float(float) => float.0, Value::Null => xor_float::NULL, _ => unreachable!() })`. -/
def floatsOrNull : List Val → Except Fault (List Nat)
  | [] => .ok []
  | .float b :: rest =>
    match floatsOrNull rest with
    | .ok r => .ok (b :: r)
    | .error f => .error f
  | .null :: rest =>
    match floatsOrNull rest with
    | .ok r => .ok (NULL_BITS :: r)
    | .error f => .error f
  | _ :: _ => .error .unreachable

/-- `if encode_opts.xor_float_compression { Column::Xor(xor_float::double::encode(&xs, 100, mantissa)) } else { Column::Float(xs) }`
    (`encode` asserts `mantissa <= 52` on a non-empty input). -/
def floatColumn (xs : List Nat) (o : Opts) : Except Fault WCol :=
  if o.xor then
    match XorFloat.encode xs 100 o.mantissa with
    | .ok bytes => .ok (.xor bytes)
    | .error f => .error f
  else .ok (.float xs)

/-- `fn encode_column(col: BasicTypeColumn, encode_opts: &EncodingOpts) -> api::Column`. -/
def encodeColumn : BCol → Opts → Except Fault WCol
  | .int xs, _ => .ok (.int xs)
  | .float xs, o => floatColumn xs o
  | .str xs, _ => .ok (.str xs)
  | .null n, _ => .ok (.null n)
  | .mixed xs, o =>
    let sig := typeSignature xs
    if sig = 2 then
      match allStrs xs with
      | .ok ss => .ok (.str ss)
      | .error f => .error f
    else if sig = 1 then
      match allInts xs with
      | .ok is => .ok (.int is)
      | .error f => .error f
    else if sig = 4 then .ok (.null xs.length)
    else if sig = 8 ∨ sig = 12 then
      match floatsOrNull xs with
      | .ok fs => floatColumn fs o
      | .error f => .error f
    else .ok (.mixed xs)

/-! ### the response as a whole -/

/-- `struct EncodingOpts`. -/
structure EncodingOpts where
  xor : Bool
  mantissa : Option Nat
  fullPrecisionCols : List String
  deriving DecidableEq, Repr

/-- `if full_precision_cols.contains(&colname) { &full_precision } else { encoding_opts }`
    with `full_precision = EncodingOpts { mantissa: None, ..encoding_opts.clone() }`. -/
def optsFor (o : EncodingOpts) (name : String) : Opts :=
  { xor := o.xor, mantissa := if o.fullPrecisionCols.contains name then none else o.mantissa }

/-- `HashMap::insert`: replace the value of an existing key, else add the entry. -/
def insertKV (k : String) (v : α) : List (String × α) → List (String × α)
  | [] => [(k, v)]
  | (k', v') :: rest => if k' = k then (k, v) :: rest else (k', v') :: insertKV k v rest

/-- `iter.collect::<HashMap<_, _>>()`: later entries win. -/
def collectMap (kvs : List (String × α)) : List (String × α) :=
  kvs.foldl (fun m kv => insertKV kv.1 kv.2 m) []

/-- `result.columns.into_iter().map(|(colname, data)| (colname, encode_column(data, …)))`, one column after the other. -/
def encodeColumns (o : EncodingOpts) : List (String × BCol) → Except Fault (List (String × WCol))
  | [] => .ok []
  | (name, col) :: rest =>
    match encodeColumn col (optsFor o name) with
    | .error f => .error f
    | .ok w =>
      match encodeColumns o rest with
      | .error f => .error f
      | .ok ws => .ok ((name, w) :: ws)

/-- `QueryResponse { columns: … .collect() }` for one query result. -/
def encodeResponse (o : EncodingOpts) (columns : List (String × BCol)) : Except Fault (List (String × WCol)) :=
  match encodeColumns o columns with
  | .error f => .error f
  | .ok ws => .ok (collectMap ws)

/-! ### wire and client -/

/-- What happens to one column between `MultiQueryResponse::serialize` (server) and `deserialize` (client). -/
inductive Transit where
  | ok (c : WCol)
  | serverPanic          -- `serialize` panics inside the handler: the connection is dropped without a response
  | clientPanic          -- `deserialize` panics in the client
  deriving DecidableEq, Repr

/-- capnp is the identity on every column kind except `Int`, which is written in one of the eight layouts of
    `Column::serialize_builder` and read back by `Column::deserialize_reader`. -/
def transmit : WCol → Transit
  | .int xs =>
    match ApiInts.encode xs with
    | .error _ => .serverPanic
    | .ok l =>
      match ApiInts.decode l with
      | .error _ => .clientPanic
      | .ok ys => .ok (.int ys)
  | c => .ok c

/-- `if let Column::Xor(data) = col { *col = Column::Float(xor_float::double::decode(&data[..]).unwrap()) }`. -/
def clientDecode : WCol → Except Fault WCol
  | .xor bytes =>
    match XorFloat.decode bytes with
    | .ok xs => .ok (.float xs)
    | .error _ => .error .unwrap
  | c => .ok c

/-- Outcome of one column from `encode_column` to the value `multi_query` returns. -/
inductive Outcome where
  | ok (c : WCol)
  | serverPanic
  | clientPanic
  deriving DecidableEq, Repr

def deliver (w : WCol) : Outcome :=
  match transmit w with
  | .serverPanic => .serverPanic
  | .clientPanic => .clientPanic
  | .ok c =>
    match clientDecode c with
    | .ok c' => .ok c'
    | .error _ => .clientPanic

/-- Server + wire + client for one embedded column. -/
def pipeline (col : BCol) (o : Opts) : Outcome :=
  match encodeColumn col o with
  | .error _ => .serverPanic
  | .ok w => deliver w

/-! ### logical cells -/

/-- The cells of an embedded column. -/
def BCol.cells : BCol → List Val
  | .int xs => xs.map .int
  | .float xs => xs.map .float
  | .str xs => xs.map .str
  | .null n => List.replicate n .null
  | .mixed xs => xs

/-- The cells a client reads off a decoded column (`none`: still compressed). -/
def WCol.cells : WCol → Option (List Val)
  | .float xs => some (xs.map .float)
  | .int xs => some (xs.map .int)
  | .str xs => some (xs.map .str)
  | .mixed xs => some xs
  | .null n => some (List.replicate n .null)
  | .xor _ => none

end LM.Wire.Response
