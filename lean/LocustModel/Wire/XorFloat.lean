import LocustModel.Prim
/-
  Model of `locustdb-compression-utils/src/xor_float/double.rs` (`encode`, `decode`) on bit lists.

  f64 values are their 64-bit patterns (`Nat < 2^64`; NaN payloads, infinities, subnormals are just patterns).
  `bitbuffer` (external crate, `LittleEndian`) is modelled by its contract: `write_int(v, n)` appends the `n`
  low bits of `v`, least significant first (`push_bits` masks stray bits); the byte vector holds the bit
  stream 8 bits per byte, least significant bit first, the last byte zero padded; `read_int(n)` consumes `n`
  bits and fails (→ `Error::Eof`) when fewer remain.  The contract is compared byte for byte with the real
  crate by the harness.
  u32 arithmetic of the dev profile: `regret += …` and the two subtractions are checked.
  Core-only imports: this file is linked into the driver.
-/
namespace LM.Wire.XorFloat
open LM

/-! ### bit stream -/

/-- `write_int(v, n)`: the `n` low bits of `v`, least significant first. -/
def writeInt : Nat → Nat → List Bool
  | _, 0 => []
  | v, n + 1 => (v % 2 == 1) :: writeInt (v / 2) n

/-- `read_int(n)`: `none` = not enough data. -/
def readInt : Nat → List Bool → Option (Nat × List Bool)
  | 0, bs => some (0, bs)
  | _ + 1, [] => none
  | n + 1, b :: bs =>
    match readInt n bs with
    | none => none
    | some (v, rest) => some (b.toNat + 2 * v, rest)

/-- Value of up to 8 bits, least significant first. -/
def bitsVal : List Bool → Nat
  | [] => 0
  | b :: bs => b.toNat + 2 * bitsVal bs

/-- The byte vector behind a `BitWriteStream`: 8 bits per byte, last byte zero padded. -/
def packBits (bs : List Bool) : List Nat :=
  if _h : bs = [] then [] else
    bitsVal (bs.take 8) :: packBits (bs.drop 8)
termination_by bs.length
decreasing_by
  cases bs with
  | nil => exact absurd rfl _h
  | cons b t => simp only [List.length_drop, List.length_cons]; omega

/-- The bits a `BitReadBuffer` over `bytes` offers. -/
def unpackBits (bytes : List Nat) : List Bool := bytes.flatMap fun b => writeInt b 8

/-! ### leading / trailing zeros of a u64 -/

/-- `u64::leading_zeros`. -/
def clz64 (x : Nat) : Nat := if x = 0 then 64 else 63 - x.log2

def ctzAux : Nat → Nat → Nat
  | 0, _ => 0
  | k + 1, x => if x % 2 = 1 then 0 else 1 + ctzAux k (x / 2)

/-- `u64::trailing_zeros`. -/
def ctz64 (x : Nat) : Nat := if x = 0 then 64 else ctzAux 64 x

/-! ### encoder -/

def U64 : Nat := 18446744073709551616   -- 2^64
def U32 : Nat := 4294967296             -- 2^32

/-- The local variables of `encode` that live across loop iterations. -/
structure EncSt where
  last : Nat      -- last_value.to_bits()
  lz : Nat        -- last_leading_zeros
  tz : Nat        -- last_trailing_zeros
  sig : Nat       -- last_significant_bits
  regret : Nat
  deriving Repr, DecidableEq

/-- `u64::MAX - ((1 << (52 - mantissa)) - 1)`, resp. `u64::MAX`. -/
def maskOf : Option Nat → Nat
  | none => U64 - 1
  | some m => U64 - 2 ^ (52 - m)

/-- `assert!(mantissa <= 52, …)` fails. -/
def mantissaTooLarge : Option Nat → Bool
  | some m => decide (52 < m)
  | none => false

/-- One iteration of `for &f in floats.iter().skip(1)`. -/
def encStep (maxRegret mask : Nat) (st : EncSt) (f : Nat) : Except Fault (List Bool × EncSt) :=
  let x := (f ^^^ st.last) &&& mask
  let lz := min (clz64 x) 31
  let tz := ctz64 x
  if tz = 64 then
    .ok (writeInt 0 1, { st with last := f })
  else if 64 < lz + tz then .error .overflow          -- `64 - leading_zeros - trailing_zeros` (u32)
  else
    let sig := 64 - lz - tz
    if lz ≥ st.lz ∧ tz ≥ st.tz ∧ (st.regret < maxRegret ∨ sig = st.sig) then
      if 64 ≤ st.tz then .error .overflow              -- `xor >> last_trailing_zeros`
      else if st.sig < sig then .error .overflow       -- `last_significant_bits - significant_bits` (u32)
      else if U32 ≤ st.regret + (st.sig - sig) then .error .overflow   -- `regret += …` (u32)
      else
        .ok (writeInt 1 2 ++ writeInt (x >>> st.tz) st.sig,
             { st with last := f, regret := st.regret + (st.sig - sig) })
    else
      .ok (writeInt 3 2 ++ writeInt lz 5 ++ writeInt (sig - 1) 6 ++ writeInt (x >>> tz) sig,
           { last := f, lz := lz, tz := tz, sig := sig, regret := 0 })

def encLoop (maxRegret mask : Nat) : EncSt → List Nat → Except Fault (List Bool)
  | _, [] => .ok []
  | st, f :: rest =>
    match encStep maxRegret mask st f with
    | .error e => .error e
    | .ok (bits, st') =>
      match encLoop maxRegret mask st' rest with
      | .error e => .error e
      | .ok more => .ok (bits ++ more)

/-- `encode(floats, max_regret, mantissa)` as a bit list. The mantissa assert is only reached for a
    non-empty input (the empty case returns before the mask is computed). -/
def encodeBits (xs : List Nat) (maxRegret : Nat) (mantissa : Option Nat) : Except Fault (List Bool) :=
  match xs with
  | [] => .ok (writeInt 0 64)
  | first :: rest =>
    if mantissaTooLarge mantissa then .error .assert
    else
      match encLoop maxRegret (maskOf mantissa)
          { last := first, lz := 65, tz := 65, sig := 0, regret := 0 } rest with
      | .error e => .error e
      | .ok bits => .ok (writeInt xs.length 64 ++ writeInt first 64 ++ bits)

/-- The returned `Vec<u8>`. -/
def encode (xs : List Nat) (maxRegret : Nat) (mantissa : Option Nat) : Except Fault (List Nat) :=
  match encodeBits xs maxRegret mantissa with
  | .error e => .error e
  | .ok bits => .ok (packBits bits)

/-! ### decoder -/

/-- Outcome kinds of `decode` other than success: the `Error::Eof` value, or a dev-profile panic. -/
inductive DecFail where
  | eof
  | panic
  deriving Repr, DecidableEq

/-- Decoder loop variables (`last_leading_zeros` is only used to compute the other two). -/
structure DecSt where
  last : Nat
  tz : Nat
  sig : Nat
  deriving Repr, DecidableEq

/-- One iteration of `for decoded in &mut decoded[1..length]`: the decoded pattern, the new state, the
    remaining bits. -/
def decStep (st : DecSt) (bs : List Bool) : Except DecFail (Nat × DecSt × List Bool) :=
  match readInt 1 bs with
  | none => .error .eof
  | some (0, bs1) => .ok (st.last, st, bs1)
  | some (_, bs1) =>
    match readInt 1 bs1 with
    | none => .error .eof
    | some (c, bs2) =>
      let win : Except DecFail (Nat × Nat × List Bool) :=
        if c = 1 then
          match readInt 5 bs2 with
          | none => .error .eof
          | some (lz, bs3) =>
            match readInt 6 bs3 with
            | none => .error .eof
            | some (s, bs4) =>
              if 64 < lz + (s + 1) then .error .panic   -- `64 - last_leading_zeros - last_significant_bits` (u32)
              else .ok (64 - lz - (s + 1), s + 1, bs4)
        else .ok (st.tz, st.sig, bs2)
      match win with
      | .error e => .error e
      | .ok (tz, sig, bs') =>
        match readInt sig bs' with
        | none => .error .eof
        | some (x, rest) =>
          if 64 ≤ tz then .error .panic                  -- `xor << last_trailing_zeros`
          else
            let last := st.last ^^^ ((x <<< tz) % U64)
            .ok (last, { last := last, tz := tz, sig := sig }, rest)

def decLoop : Nat → DecSt → List Bool → Except DecFail (List Nat)
  | 0, _, _ => .ok []
  | n + 1, st, bs =>
    match decStep st bs with
    | .error e => .error e
    | .ok (v, st', rest) =>
      match decLoop n st' rest with
      | .error e => .error e
      | .ok vs => .ok (v :: vs)

/-- `decode` on the bit stream. -/
def decodeBits (bs : List Bool) : Except DecFail (List Nat) :=
  match readInt 64 bs with
  | none => .error .eof
  | some (0, _) => .ok []
  | some (length, bs1) =>
    match readInt 64 bs1 with
    | none => .error .eof
    | some (first, bs2) =>
      match decLoop (length - 1) { last := first, tz := 65, sig := 0 } bs2 with
      | .error e => .error e
      | .ok vs => .ok (first :: vs)

/-- `decode(data)`. -/
def decode (bytes : List Nat) : Except DecFail (List Nat) := decodeBits (unpackBits bytes)

/-! ### specification vocabulary -/

/-- `ys` and `xs` have the same length and are related element by element. -/
inductive Pointwise (R : Nat → Nat → Prop) : List Nat → List Nat → Prop where
  | nil : Pointwise R [] []
  | cons {y x : Nat} {ys xs : List Nat} : R y x → Pointwise R ys xs → Pointwise R (y :: ys) (x :: xs)

/-- Per-value guarantee under a mask: agreement on the masked bits, and a proper u64 pattern. -/
def Keeps (mask : Nat) (y x : Nat) : Prop := y &&& mask = x &&& mask ∧ y < U64

end LM.Wire.XorFloat
