import LocustModel.Prim
/-
  Model of the integer response codec of `locustdb-serialization/src/api.rs`:

    determine_delta_compressability   → `determineDelta` / `statsLoop`
    Column::serialize_builder (Int)   → `encode`      (the eight-layout decision ladder)
    delta_encode::<T>                 → `deltaEncode` (T = i8/i16/i32 given by its bounds)
    double_delta_encode::<T>          → `ddEncode`
    Column::deserialize_reader        → `decode`      (Range / Delta* / DoubleDelta* / I64 arms)

  i64 arithmetic is the dev-profile one (`LM.subI64`/`addI64` fault on overflow) where the code uses
  `-` / `+=`, and `LM.wrap64` where it uses `wrapping_sub` / `wrapping_add` / `wrapping_mul` (the
  double-delta encoder and decoders and the Range decoder since the fixes of findings
  `api-delta-i64-overflow` and `api-range-decode-mul-overflow`).
  The `i128` statistics are plain `Int`: both operands are cast to i128 before the subtraction, so
  |delta| < 2^64 and |delta_delta| < 2^65 cannot leave i128 (`deltas_in_i128`, `ddeltas_in_i128` in Lemmas/C16Ints).
  The capnp message (`List(Int8)` …) is the identity on the `Layout` tree (trusted).
  Core-only imports: this file is linked into the driver.
-/
namespace LM.Wire.ApiInts
open LM

def I128_MIN : Int := -170141183460469231731687303715884105728
def I128_MAX : Int :=  170141183460469231731687303715884105727

/-- `struct DeltaStats` (all fields i128). -/
structure DeltaStats where
  minDelta : Int
  maxDelta : Int
  minDD : Int
  maxDD : Int
  deriving Repr, DecidableEq

/-- Width of the narrow element type of a delta layout. -/
inductive Width where
  | w8 | w16 | w32
  deriving Repr, DecidableEq

def Width.lo : Width → Int
  | .w8 => -128 | .w16 => -32768 | .w32 => -2147483648
def Width.hi : Width → Int
  | .w8 => 127 | .w16 => 32767 | .w32 => 2147483647
def Width.tag : Width → String
  | .w8 => "8" | .w16 => "16" | .w32 => "32"

/-- The union member of `api.capnp: Column.data` chosen for an integer column, with its payload. -/
inductive Layout where
  | range (start : Int) (len : Nat) (step : Int)
  | delta (w : Width) (first : Int) (data : List Int)
  | ddelta (w : Width) (first second : Int) (data : List Int)
  | plain (xs : List Int)
  deriving Repr, DecidableEq

/-- The `for curr in &ints[2..]` loop of `determine_delta_compressability`.
    `*curr as i128 - previous as i128` and `delta - previous_delta` are exact i128 arithmetic. -/
def statsLoop : List Int → Int → Int → DeltaStats → DeltaStats
  | [], _, _, st => st
  | curr :: rest, previous, previousDelta, st =>
    let delta := curr - previous
    let dd := delta - previousDelta
    statsLoop rest curr delta
      { minDelta := min st.minDelta delta, maxDelta := max st.maxDelta delta,
        minDD := min st.minDD dd, maxDD := max st.maxDD dd }

/-- `determine_delta_compressability`. -/
def determineDelta : List Int → DeltaStats
  | [] | [_] => { minDelta := I128_MIN, maxDelta := I128_MAX, minDD := I128_MIN, maxDD := I128_MAX }
  | a :: b :: rest =>
    let d0 := b - a                 -- `ints[1] as i128 - ints[0] as i128`
    statsLoop rest b d0 { minDelta := d0, maxDelta := d0, minDD := I128_MAX, maxDD := I128_MIN }

/-- Loop of `delta_encode::<T>` (`lo`/`hi` = `T::MIN`/`T::MAX`; `T::try_from(delta).unwrap()`). -/
def deltaLoop (lo hi : Int) : Int → List Int → Except Fault (List Int)
  | _, [] => .ok []
  | previous, curr :: rest =>
    match subI64 curr previous with
    | .error f => .error f
    | .ok delta =>
      if lo ≤ delta ∧ delta ≤ hi then
        match deltaLoop lo hi curr rest with
        | .error f => .error f
        | .ok ds => .ok (delta :: ds)
      else .error .unwrap

/-- `delta_encode::<T>(ints)`; `ints[0]` panics on an empty slice. -/
def deltaEncode (lo hi : Int) : List Int → Except Fault (List Int)
  | [] => .error .index
  | a :: rest => deltaLoop lo hi a rest

/-- Loop of `double_delta_encode::<T>`: `curr.wrapping_sub(previous)`, `delta.wrapping_sub(previous_delta)`,
    then `T::try_from(delta_delta).unwrap()`. -/
def ddLoop (lo hi : Int) : Int → Int → List Int → Except Fault (List Int)
  | _, _, [] => .ok []
  | previous, previousDelta, curr :: rest =>
    let delta := wrap64 (curr - previous)
    let dd := wrap64 (delta - previousDelta)
    if lo ≤ dd ∧ dd ≤ hi then
      match ddLoop lo hi curr delta rest with
      | .error f => .error f
      | .ok ds => .ok (dd :: ds)
    else .error .unwrap

/-- `double_delta_encode::<T>(ints)`; `ints[1]` panics when fewer than two values. -/
def ddEncode (lo hi : Int) : List Int → Except Fault (List Int)
  | [] | [_] => .error .index
  | a :: b :: rest => ddLoop lo hi b (wrap64 (b - a)) rest      -- `ints[1].wrapping_sub(ints[0])`

def mkDelta (w : Width) (xs : List Int) : Except Fault Layout :=
  match xs with
  | [] => .error .index                       -- `xs[0]`
  | a :: _ =>
    match deltaEncode w.lo w.hi xs with
    | .error f => .error f
    | .ok ds => .ok (.delta w a ds)

def mkDDelta (w : Width) (xs : List Int) : Except Fault Layout :=
  match xs with
  | a :: b :: _ =>
    match ddEncode w.lo w.hi xs with
    | .error f => .error f
    | .ok ds => .ok (.ddelta w a b ds)
  | _ => .error .index                        -- `xs[0]` / `xs[1]`

/-- The decision ladder of `Column::serialize_builder` for `Column::Int(xs)`, in source order. -/
def ladder (st : DeltaStats) (xs : List Int) : Except Fault Layout :=
  if st.minDelta = st.maxDelta ∧ st.maxDelta ≤ I64_MAX ∧ st.maxDelta ≥ I64_MIN then
    match xs with
    | [] => .error .index                     -- `xs[0]`
    | a :: _ => .ok (.range a xs.length st.minDelta)
  else if st.minDelta ≥ Width.w8.lo ∧ st.maxDelta ≤ Width.w8.hi then mkDelta .w8 xs
  else if st.minDD ≥ Width.w8.lo ∧ st.maxDD ≤ Width.w8.hi then mkDDelta .w8 xs
  else if st.minDelta ≥ Width.w16.lo ∧ st.maxDelta ≤ Width.w16.hi then mkDelta .w16 xs
  else if st.minDD ≥ Width.w16.lo ∧ st.maxDD ≤ Width.w16.hi then mkDDelta .w16 xs
  else if st.minDelta ≥ Width.w32.lo ∧ st.maxDelta ≤ Width.w32.hi then mkDelta .w32 xs
  else if st.minDD ≥ Width.w32.lo ∧ st.maxDD ≤ Width.w32.hi then mkDDelta .w32 xs
  else .ok (.plain xs)

/-- Server side: `Column::Int(xs).serialize_builder`. -/
def encode (xs : List Int) : Except Fault Layout := ladder (determineDelta xs) xs

/-- `for i in data { last += i as i64; decoded.push(last) }` (i64 `+=`, dev profile). -/
def deltaDecodeLoop : Int → List Int → Except Fault (List Int)
  | _, [] => .ok []
  | last, i :: rest =>
    match addI64 last i with
    | .error f => .error f
    | .ok l =>
      match deltaDecodeLoop l rest with
      | .error f => .error f
      | .ok out => .ok (l :: out)

/-- `for i in data { last_delta = last_delta.wrapping_add(i as i64); last = last.wrapping_add(last_delta);
    decoded.push(last) }` — total. -/
def ddDecodeLoop : Int → Int → List Int → List Int
  | _, _, [] => []
  | last, lastDelta, i :: rest =>
    let ld := wrap64 (lastDelta + i)
    let l := wrap64 (last + ld)
    l :: ddDecodeLoop l ld rest

/-- `(0..len).map(|i| start.wrapping_add((i as i64).wrapping_mul(step))).collect()` — total
    (`i as i64` of a `usize` is the two's-complement cast). -/
def rangeDecodeFrom (start step : Int) : Nat → Nat → List Int
  | _, 0 => []
  | i, n + 1 => wrap64 (start + wrap64 (wrap64 (i : Int) * step)) :: rangeDecodeFrom start step (i + 1) n

/-- Client side: the integer arms of `Column::deserialize_reader`. -/
def decode : Layout → Except Fault (List Int)
  | .range start len step => .ok (rangeDecodeFrom start step 0 len)
  | .delta _ first data =>
    match deltaDecodeLoop first data with
    | .error f => .error f
    | .ok out => .ok (first :: out)
  | .ddelta _ first second data =>           -- `let mut last_delta = second.wrapping_sub(first);`
    .ok (first :: second :: ddDecodeLoop second (wrap64 (second - first)) data)
  | .plain xs => .ok xs

/-- serialize → deserialize of an integer column, as one function. -/
def roundtrip (xs : List Int) : Except Fault (List Int) :=
  match encode xs with
  | .error f => .error f
  | .ok l => decode l

/-! ### Specification vocabulary -/

/-- All values are i64. -/
def AllI64 (xs : List Int) : Prop := ∀ x ∈ xs, inI64 x

/-- Adjacent differences `x[k+1] - x[k]`, starting after `prev`. -/
def deltasFrom : Int → List Int → List Int
  | _, [] => []
  | prev, c :: rest => (c - prev) :: deltasFrom c rest

def deltas : List Int → List Int
  | [] => []
  | a :: rest => deltasFrom a rest

end LM.Wire.ApiInts
