import LocustModel.Wire.ResponseJson
import LocustModel.Gen.Status
/-
  Model of the query / insert handlers of `src/server/mod.rs` over an abstract database, and of the same
  requests submitted through the embedded API (C17):

    map_err_response        → `mapErrResponse`   (status table regenerated from source: `LM.Gen.Status.mapErrStatus`)
    query                   → `handleQuery`
    query_cols              → `handleQueryCols`
    multi_query_cols        → `handleMulti`      (first failing query in request order decides; JSON list or capnp body)
    insert_bin              → `.inserted`        (`EventBuffer::deserialize` = identity on the batch: C16)
    a handler that panics   → `.dropped`         (actix closes the connection without a status line; the worker survives)

  Whether a handler routes `run_query`'s result through `map_err_response` or `.unwrap()`s it is read off the source
  by the translator (`handlerUnwrapsResult`), so the model follows the code that exists.
  `LocustDB` itself is a parameter (`Backend`): `run_query` is a read, `ingest_efficient` a state change.
  Core-only imports: this file is linked into the driver.
-/
namespace LM.Wire.Response
open LM LM.Gen.Status

/-- The fields of `QueryOutput` the handlers read (`rows` is filled when `rowformat = true`). -/
structure QOut where
  colnames : List String
  columns : List (String × BCol)
  rows : List (List Val)
  deriving DecidableEq, Repr

abbrev QResult := Except QErr QOut

/-- Outcome of one HTTP exchange as the client sees it. -/
inductive Resp where
  | rows (j : JRowsResp)                            -- 200, `/query`
  | cols (j : JColsResp)                            -- 200, `/query_cols`
  | multiJson (js : List JColsResp)                 -- 200, `/multi_query_cols` without `encoding_opts`
  | multiBin (rs : List (List (String × WCol)))     -- 200, `/multi_query_cols` capnp body (column trees as built)
  | inserted                                        -- 200, `/insert_bin`
  | error (status : Nat)                            -- the response built by `map_err_response`
  | dropped                                         -- the handler panicked: no response, connection closed
  deriving DecidableEq, Repr

/-- `fn map_err_response(err: Result<QueryOutput, QueryError>) -> Result<QueryOutput, HttpResponse>`. -/
def mapErrResponse : QResult → Except Nat QOut
  | .ok o => .ok o
  | .error e => .error (mapErrStatus e)

/-- What a failing query turns into at endpoint `ep`: `.unwrap()` panics the handler, otherwise `map_err_response`. -/
def errorOutcome (ep : Endpoint) (e : QErr) : Resp :=
  if handlerUnwrapsResult ep then .dropped else .error (mapErrStatus e)

/-- `#[post("/query")] async fn query`. -/
def handleQuery : QResult → Resp
  | .ok o => .rows (queryRowsJson o.colnames o.rows)
  | .error e => errorOutcome .query e

/-- `#[post("/query_cols")] async fn query_cols`. -/
def handleQueryCols : QResult → Resp
  | .ok o => .cols (queryOutputToJsonCols o.colnames o.columns)
  | .error e => errorOutcome .query_cols e

/-- `for future in futures { match map_err_response(future.await) { Ok(r) => results.push(r), Err(err) => return err } }`. -/
def collectResults : List QResult → Except Resp (List QOut)
  | [] => .ok []
  | .error e :: _ => .error (errorOutcome .multi_query_cols e)
  | .ok o :: rest =>
    match collectResults rest with
    | .error r => .error r
    | .ok os => .ok (o :: os)

/-- `query_responses.push(QueryResponse { columns: … })` for every result. -/
def encodeAll (eo : EncodingOpts) : List QOut → Except Fault (List (List (String × WCol)))
  | [] => .ok []
  | o :: rest =>
    match encodeResponse eo o.columns with
    | .error f => .error f
    | .ok r =>
      match encodeAll eo rest with
      | .error f => .error f
      | .ok rs => .ok (r :: rs)

/-- `MultiQueryResponse { responses }.serialize()` panics iff some integer column's layout computation does. -/
def serializePanics (rs : List (List (String × WCol))) : Bool :=
  rs.any fun r => r.any fun nc => transmit nc.2 == .serverPanic

/-- `#[post("/multi_query_cols")] async fn multi_query_cols`. -/
def handleMulti (opts : Option EncodingOpts) (results : List QResult) : Resp :=
  match collectResults results with
  | .error r => r
  | .ok outs =>
    match opts with
    | none => .multiJson (outs.map fun o => queryOutputToJsonCols o.colnames o.columns)
    | some eo =>
      match encodeAll eo outs with
      | .error _ => .dropped                         -- `encode_column` panicked (mantissa assert)
      | .ok rs => if serializePanics rs then .dropped else .multiBin rs

/-! ### histories -/

/-- A request. -/
inductive Req (Batch : Type) where
  | insert (b : Batch)
  | query (sql : String)
  | queryCols (sql : String)
  | multi (sqls : List String) (opts : Option EncodingOpts)

/-- The embedded database the server and the embedded caller share (`AppState.db`). -/
structure Backend (Db Batch : Type) where
  ingest : Db → Batch → Db
  run : Db → String → QResult

/-- One request against the server. -/
def serve (B : Backend Db Batch) (db : Db) : Req Batch → Db × Resp
  | .insert b => (B.ingest db b, .inserted)
  | .query q => (db, handleQuery (B.run db q))
  | .queryCols q => (db, handleQueryCols (B.run db q))
  | .multi qs o => (db, handleMulti o (qs.map (B.run db)))

/-- The same request through the embedded API. -/
inductive Emb where
  | inserted
  | one (r : QResult)
  | many (rs : List QResult)

def embedded (B : Backend Db Batch) (db : Db) : Req Batch → Db × Emb
  | .insert b => (B.ingest db b, .inserted)
  | .query q => (db, .one (B.run db q))
  | .queryCols q => (db, .one (B.run db q))
  | .multi qs _ => (db, .many (qs.map (B.run db)))

/-- A history of requests on one server: every request gets its outcome, in order. -/
def serveAll (B : Backend Db Batch) : Db → List (Req Batch) → List Resp
  | _, [] => []
  | db, r :: rest => (serve B db r).2 :: serveAll B (serve B db r).1 rest

def embeddedAll (B : Backend Db Batch) : Db → List (Req Batch) → List Emb
  | _, [] => []
  | db, r :: rest => (embedded B db r).2 :: embeddedAll B (embedded B db r).1 rest

end LM.Wire.Response
