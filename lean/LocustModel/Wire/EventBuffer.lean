import LocustModel.Prim
/-
  Model of the ingestion message path (C16, part "event buffer"):

    locustdb-serialization/src/event_buffer.rs
      ColumnBuffer::push                        → `push`         (arm by arm, incl. the `unimplemented!` fall-through
                                                                   and the two "sparse string" asserts)
      TableBuffer::push_row_and_timestamp       → `pushRow`      (the clock is an input)
      EventBuffer::serialize / deserialize      → identity on the `Table` tree (capnp trusted; the real
                                                                   round trip is exercised by the harness)
    src/ingest/input_column.rs
      InputColumn::from_column_data             → `fromColumnData`
    harness `cells_of`                          → `InputColumn.cells` (logical cells of a server-side column)

  f64 values are bit patterns (`Nat`), strings are opaque tokens (the codec never inspects them),
  `int as f64` is `i64AsF64` (round-to-nearest-even, computed on integers).
  Core-only imports: this file is linked into the driver.
-/
namespace LM.Wire.EventBuffer
open LM

/-- `AnyVal` (client side), `RawVal` (server side) and logical cell. -/
inductive Val where
  | null
  | int (i : Int)
  | float (bits : Nat)
  | str (s : String)
  deriving DecidableEq, Repr, Inhabited

/-- `n as f64` for `0 < n < 2^64` as IEEE-754 bits: round to nearest, ties to even. -/
def natAsF64 (n : Nat) : Nat :=
  if n = 0 then 0 else
  let e := n.log2
  if e ≤ 52 then (e + 1023) * 2 ^ 52 + (n * 2 ^ (52 - e) - 2 ^ 52)
  else
    let sh := e - 52
    let q := n / 2 ^ sh
    let r := n % 2 ^ sh
    let half := 2 ^ (sh - 1)
    let q' := if r > half ∨ (r = half ∧ q % 2 = 1) then q + 1 else q
    (e + 1023) * 2 ^ 52 + (q' - 2 ^ 52)

/-- Rust `v as f64` for an i64 `v`, as bits. -/
def i64AsF64 (i : Int) : Nat :=
  if i < 0 then 2 ^ 63 + natAsF64 i.natAbs else natAsF64 i.natAbs

/-- `enum ColumnData`. Sparse entries are `(row index, value)`. -/
inductive ColumnData where
  | empty
  | dense (d : List Nat)
  | sparse (d : List (Nat × Nat))
  | i64 (d : List Int)
  | sparseI64 (d : List (Nat × Int))
  | str (d : List String)
  | mixed (d : List Val)
  deriving DecidableEq, Repr, Inhabited

/-- `data.drain(..).enumerate().map(|(i, v)| (i as u64, v))`, starting at index `k`. -/
def enumFrom : Nat → List α → List (Nat × α)
  | _, [] => []
  | k, x :: xs => (k, x) :: enumFrom (k + 1) xs

/-- The `(Dense(data), Float(value))` arm. -/
def pushDenseFloat (data : List Nat) (v : Nat) (len : Nat) : ColumnData :=
  if data.length = len then .dense (data ++ [v])
  else .sparse (enumFrom 0 data ++ [(len, v)])

/-- `ColumnBuffer::push(value, existing_len)`. -/
def push (d : ColumnData) (v : Val) (len : Nat) : Except Fault ColumnData :=
  match d, v with
  | d, .null => .ok d
  | .empty, .float v => .ok (if len = 0 then .dense [v] else .sparse [(len, v)])
  | .empty, .int v => .ok (if len = 0 then .i64 [v] else .sparseI64 [(len, v)])
  | .empty, .str s => if len = 0 then .ok (.str [s]) else .error .assert
  | .dense data, .int i => .ok (pushDenseFloat data (i64AsF64 i) len)       -- self.push(Float(int as f64))
  | .dense data, .float v => .ok (pushDenseFloat data v len)
  | .sparse data, .int i => .ok (.sparse (data ++ [(len, i64AsF64 i)]))     -- self.push(Float(int as f64))
  | .sparse data, .float v => .ok (.sparse (data ++ [(len, v)]))
  | .i64 data, .int v =>
      .ok (if data.length = len then .i64 (data ++ [v]) else .sparseI64 (enumFrom 0 data ++ [(len, v)]))
  | .i64 data, .float v => .ok (pushDenseFloat (data.map i64AsF64) v len)   -- Dense(data as f64); push
  | .sparseI64 data, .int v => .ok (.sparseI64 (data ++ [(len, v)]))
  | .sparseI64 data, .float v =>
      .ok (.sparse (data.map (fun p => (p.1, i64AsF64 p.2)) ++ [(len, v)])) -- Sparse(data as f64); push
  | .str data, .str s => if data.length = len then .ok (.str (data ++ [s])) else .error .assert
  | _, _ => .error .unreachable                                             -- unimplemented!("Logging value …")

/-- All values one column receives, one per row (`null` = the row does not mention the column or
    mentions it with `AnyVal::Null`; both leave the data untouched). -/
def pushAll : ColumnData → Nat → List Val → Except Fault ColumnData
  | d, _, [] => .ok d
  | d, n, v :: vs =>
    match push d v n with
    | .error f => .error f
    | .ok d' => pushAll d' (n + 1) vs

/-! ### Table buffer (row API) -/

/-- `TableBuffer`: `len` and the column map (association list; iteration order is never observable
    because the dump sorts by name). -/
structure Table where
  len : Nat
  cols : List (String × ColumnData)
  deriving Repr, DecidableEq

def Table.new : Table := { len := 0, cols := [] }

/-- `self.columns.entry(name).or_default().push(value, len)`. -/
def upsert (name : String) (v : Val) (len : Nat) : List (String × ColumnData) → Except Fault (List (String × ColumnData))
  | [] =>
    match push .empty v len with
    | .error f => .error f
    | .ok d => .ok [(name, d)]
  | (k, d) :: rest =>
    if k = name then
      match push d v len with
      | .error f => .error f
      | .ok d' => .ok ((k, d') :: rest)
    else
      match upsert name v len rest with
      | .error f => .error f
      | .ok r => .ok ((k, d) :: r)

def pushEntries (len : Nat) : List (String × Val) → List (String × ColumnData) → Except Fault (List (String × ColumnData))
  | [], cols => .ok cols
  | (name, v) :: rest, cols =>
    match upsert name v len cols with
    | .error f => .error f
    | .ok cols' => pushEntries len rest cols'

/-- The entries a row effectively pushes: its own, then the clock under "timestamp" unless provided. -/
def effRow (row : List (String × Val)) (clock : Nat) : List (String × Val) :=
  if row.any (fun e => e.1 == "timestamp") then row else row ++ [("timestamp", .float clock)]

/-- `TableBuffer::push_row_and_timestamp(row)`; `clock` = bits of `time_millis`. -/
def pushRow (t : Table) (row : List (String × Val)) (clock : Nat) : Except Fault Table :=
  match pushEntries t.len (effRow row clock) t.cols with
  | .error f => .error f
  | .ok cols => .ok { len := t.len + 1, cols := cols }

def pushRows : Table → List (List (String × Val) × Nat) → Except Fault Table
  | t, [] => .ok t
  | t, (row, clock) :: rest =>
    match pushRow t row clock with
    | .error f => .error f
    | .ok t' => pushRows t' rest

/-! ### Server side -/

/-- `enum InputColumn`. -/
inductive InputColumn where
  | int (d : List Int)
  | float (d : List Nat)
  | nullableFloat (rows : Nat) (d : List (Nat × Nat))
  | nullableInt (rows : Nat) (d : List (Nat × Int))
  | str (d : List String)
  | null (rows : Nat)
  | mixed (d : List Val)
  deriving DecidableEq, Repr

/-- `InputColumn::from_column_data(column_data, rows)`. -/
def fromColumnData (d : ColumnData) (rows : Nat) : Except Fault InputColumn :=
  match d with
  | .dense data => .ok (if data.length < rows then .nullableFloat rows (enumFrom 0 data) else .float data)
  | .sparse data => .ok (.nullableFloat rows data)
  | .i64 data => .ok (if data.length < rows then .nullableInt rows (enumFrom 0 data) else .int data)
  | .str data => if data.length = rows then .ok (.str data) else .error .assert
  | .empty => .ok (.null rows)
  | .sparseI64 data => .ok (.nullableInt rows data)
  | .mixed data => .ok (.mixed data)

/-- Logical cells of a `(Length, [(Index, Value)])` column: row `i` holds the value listed for `i`
    (the first one, should an index repeat), NULL otherwise. -/
def sparseCells (rows : Nat) (d : List (Nat × α)) (f : α → Val) : List Val :=
  (List.range rows).map fun i =>
    match d.lookup i with
    | some v => f v
    | none => .null

/-- Logical cells of a server-side input column. -/
def InputColumn.cells : InputColumn → List Val
  | .int d => d.map .int
  | .float d => d.map .float
  | .nullableFloat rows d => sparseCells rows d .float
  | .nullableInt rows d => sparseCells rows d .int
  | .str d => d.map .str
  | .null rows => List.replicate rows .null
  | .mixed d => d

/-- What the server sees of one table: per column the input column built from the transmitted data
    and `len` (wire = identity). -/
def serverColumns (t : Table) : Except Fault (List (String × InputColumn)) :=
  t.cols.mapM fun (name, d) =>
    match fromColumnData d t.len with
    | .error f => .error f
    | .ok ic => .ok (name, ic)

/-! ### Specification -/

def Val.isFloat : Val → Bool
  | .float _ => true
  | _ => false
def Val.isStr : Val → Bool
  | .str _ => true
  | _ => false

/-- The documented int→float coercion of a column that has seen a float. -/
def promote : Val → Val
  | .int i => .float (i64AsF64 i)
  | v => v

/-- Logical cells of a column given the value each row supplied (`null` = none): the values themselves;
    if any of them is a float the column is a float column and its integers are shown as floats. -/
def specCells (vs : List Val) : List Val :=
  if vs.any Val.isFloat then vs.map promote else vs

/-- Supported domain of the row API for one column: either all rows supply a string (string columns
    cannot be sparse: two `assert!`s in `push`, one in `from_column_data`), or none does. -/
def Supported (vs : List Val) : Prop := (∀ v ∈ vs, v.isStr = true) ∨ (∀ v ∈ vs, v.isStr = false)

instance (vs : List Val) : Decidable (Supported vs) := by unfold Supported; exact inferInstance

/-- Value row `row` supplies for column `c`. -/
def rowVal (c : String) (row : List (String × Val)) : Val := (row.lookup c).getD .null

/-- Column names a sequence of effective rows mentions, in first-mention order. -/
def mentioned : List (List (String × Val)) → List String
  | [] => []
  | row :: rest => (row.map (·.1) ++ mentioned rest).eraseDups

/-- Strictly increasing row indices below `rows`. -/
def strictlyBelow (rows : Nat) (idx : List Nat) : Bool :=
  idx.all (· < rows) && (idx.zip idx.tail).all fun (a, b) => a < b

/-- Specification of the wire schema: what a client that fills the capnp message directly put into a
    well-formed column of a `rows`-row table (`none` = malformed: column longer than the table,
    sparse indices unsorted / out of range, string or mixed column of the wrong length). -/
def wireCells (rows : Nat) : ColumnData → Option (List Val)
  | .empty => some (List.replicate rows .null)
  | .dense d => if d.length ≤ rows then some (d.map .float ++ List.replicate (rows - d.length) .null) else none
  | .i64 d => if d.length ≤ rows then some (d.map .int ++ List.replicate (rows - d.length) .null) else none
  | .sparse d => if strictlyBelow rows (d.map (·.1)) then
      some ((List.range rows).map fun i => match d.find? (·.1 == i) with | some p => .float p.2 | none => .null) else none
  | .sparseI64 d => if strictlyBelow rows (d.map (·.1)) then
      some ((List.range rows).map fun i => match d.find? (·.1 == i) with | some p => .int p.2 | none => .null) else none
  | .str d => if d.length = rows then some (d.map .str) else none
  | .mixed d => if d.length = rows then some d else none

/-! ### Client buffering (`src/logging_client/mod.rs`) and the server's `/insert_bin` (`src/server/mod.rs`) -/

/-- `EventBuffer.tables` (association list; the dump sorts by table name). -/
abbrev Buffer := List (String × Table)

/-- `LoggingClient::log(table, row)` after the buffer-size gate:
    `events.tables.entry(table.to_string()).or_default().push_row_and_timestamp(row)`. -/
def logEvent : Buffer → String → List (String × Val) → Nat → Except Fault Buffer
  | [], tname, row, clock =>
    match pushRow Table.new row clock with
    | .error f => .error f
    | .ok t => .ok [(tname, t)]
  | (k, t) :: rest, tname, row, clock =>
    if k = tname then
      match pushRow t row clock with
      | .error f => .error f
      | .ok t' => .ok ((k, t') :: rest)
    else
      match logEvent rest tname row clock with
      | .error f => .error f
      | .ok r => .ok ((k, t) :: r)

/-- One logged event: table, row, clock bits. -/
abbrev Event := String × List (String × Val) × Nat

def logAll : Buffer → List Event → Except Fault Buffer
  | b, [] => .ok b
  | b, (tname, row, clock) :: rest =>
    match logEvent b tname row clock with
    | .error f => .error f
    | .ok b' => logAll b' rest

/-- `BackgroundWorker::create_request_data`: nothing happens while a request is still pending or when the
    buffer holds no table; otherwise the whole buffer becomes the request body (`buffer.serialize()`, identity
    here) and `buffer.tables.clear()`.  Result: (pending request, buffer). -/
def createRequestData (pending : Option Buffer) (b : Buffer) : Option Buffer × Buffer :=
  match pending with
  | some p => (some p, b)
  | none => if b.isEmpty then (none, b) else (some b, [])

/-- A client session: `log` calls interleaved with worker ticks whose POST succeeds (`request_data.take()`).
    Returns the request bodies in sending order and the buffer left over. -/
inductive Step where
  | log (e : Event)
  | tick

def session : Buffer → List Step → Except Fault (List Buffer × Buffer)
  | b, [] => .ok ([], b)
  | b, .log (tname, row, clock) :: rest =>
    match logEvent b tname row clock with
    | .error f => .error f
    | .ok b' => session b' rest
  | b, .tick :: rest =>
    match createRequestData none b with
    | (some msg, b') =>
      match session b' rest with
      | .error f => .error f
      | .ok (msgs, fin) => .ok (msg :: msgs, fin)
    | (none, b') => session b' rest

/-- `/insert_bin`: `EventBuffer::deserialize` (identity) and, per table, `from_column_data(col, table.len)`
    as done by `ingest_efficient`. -/
def serverTables (msg : Buffer) : Except Fault (List (String × Nat × List (String × InputColumn))) :=
  msg.mapM fun (tname, t) =>
    match serverColumns t with
    | .error f => .error f
    | .ok cols => .ok (tname, t.len, cols)

end LM.Wire.EventBuffer
